package main

import (
	"fmt"
	"go/ast"
	"go/token"
	"regexp"
	"sort"
	"strings"
)

// genCoerce translates the CoerceIn / CoerceOut type switches of the eight built-in scalars into
// tables `List (Kind × Action)` + a default action.  Each arm body must match one of a dozen
// statement templates; anything else becomes unknown_shape_*.

var coerceScalars = []struct{ recv, lean string }{
	{"intScalar", "int"}, {"int64Scalar", "int64"}, {"floatScalar", "float"}, {"float64Scalar", "float64"},
	{"stringScalar", "string"}, {"idScalar", "id"}, {"booleanScalar", "boolean"}, {"timeScalar", "time"},
}

var goKinds = map[string]string{
	"nil": "nil", "int": "int", "int8": "i8", "int16": "i16", "int32": "i32", "int64": "i64",
	"uint": "uint", "uint8": "u8", "uint16": "u16", "uint32": "u32", "uint64": "u64",
	"float32": "f32", "float64": "f64", "string": "str", "bool": "bool", "time.Time": "time", "Symbol": "sym",
}

var convTargets = map[string]string{"int32": "i32", "int64": "i64", "float32": "f32", "float64": "f64"}

func normBody(c *ctx, body []ast.Stmt) string {
	var parts []string
	for _, s := range body {
		t := c.src(s)
		t = regexp.MustCompile(`\s+`).ReplaceAllString(t, " ")
		parts = append(parts, t)
	}
	return strings.Join(parts, " ; ")
}

var (
	reConv = regexp.MustCompile(`^v = (int32|int64|float32|float64)\(tv\)$`)
	// checked narrowing: the value is converted and an error raised when it did not fit.  Signed and float arms
	// compare the round trip in the arm's own type; unsigned arms must compare with the bound (a round trip
	// through int32 is the identity on the bits of an unsigned value), so the form is tied to the arm's kind.
	reConvCheck  = regexp.MustCompile(`^v = (int32)\(tv\) ; if (float64|int64|int)\(int32\(tv\)\) != tv \{ err = newCoerceErr\((?:v|tv), "\w+"\) \}$`)
	reConvCheckU = regexp.MustCompile(`^v = (int32)\(tv\) ; if math\.MaxInt32 < tv \{ err = newCoerceErr\((?:v|tv), "\w+"\) \}$`)
	// unsigned → int64: the converted value is negative exactly when the source was ≥ 2^63
	reConvCheckU64 = regexp.MustCompile(`^v = (int64)\(tv\) ; if int64\(tv\) < 0 \{ err = newCoerceErr\((?:v|tv), "\w+"\) \}$`)
	reFmtUint      = regexp.MustCompile(`^v = strconv\.FormatUint\((tv|uint64\(tv\)), 10\)$`)
	// finiteness-checked float arms: non-finite (overflowed, NaN, ±Inf) values are refused with nil
	reFinite3264  = regexp.MustCompile(`^v = (float32|float64)\(tv\) ; if math\.IsInf\(float64\((?:float32\(tv\)|tv)\), 0\) \|\| tv != tv \{ v = nil err = newCoerceErr\(tv, "\w+"\) \}$`)
	reFiniteAsIs  = regexp.MustCompile(`^if math\.IsInf\((float64\(tv\)|tv), 0\) \|\| tv != tv \{ v = nil err = newCoerceErr\(tv, "\w+"\) \}$`)
	reParseFltFin = regexp.MustCompile(`^var f float64 ; if f, err = strconv\.ParseFloat\(tv, 64\); err == nil \{ v = f if math\.IsInf\(f, 0\) \|\| f != f \{ v = nil err = newCoerceErr\(tv, "\w+"\) \} \}$`)
	reParseFltFin32 = regexp.MustCompile(`^var f float64 ; if f, err = strconv\.ParseFloat\(tv, 64\); err == nil \{ v = float32\(f\) if math\.IsInf\(float64\(float32\(f\)\), 0\) \|\| f != f \{ v = nil err = newCoerceErr\(tv, "\w+"\) \} \}$`)
	// float → integer with the truncated value range-checked (the fraction is dropped: the repository's tests expect
	// Int.CoerceOut(3.1) = 3)
	reConvTrunc32 = regexp.MustCompile(`^v = int32\(tv\) ; if f := (float64\(tv\)|tv); f != f \|\| f <= -2147483649 \|\| 2147483648 <= f \{ v = nil err = newCoerceErr\(tv, "\w+"\) \}$`)
	reConvTrunc64 = regexp.MustCompile(`^v = int64\(tv\) ; if f := (float64\(tv\)|tv); f != f \|\| f < -9223372036854775808 \|\| 9223372036854775808 <= f \{ v = nil err = newCoerceErr\(tv, "\w+"\) \}$`)
	reFailA       = regexp.MustCompile(`^err = newCoerceErr\((v|tv), ("\w+"|t\.N|t\.Name\(\))\) ; v = nil$`)
	reFailB       = regexp.MustCompile(`^v = nil ; err = newCoerceErr\((v|tv), ("\w+"|t\.N|t\.Name\(\))\)$`)
	reItoa        = regexp.MustCompile(`^v = strconv\.Itoa\((tv|int\(tv\))\)$`)
	reFmtInt      = regexp.MustCompile(`^v = strconv\.FormatInt\((tv|int64\(tv\)), 10\)$`)
	reFmtFloat    = regexp.MustCompile(`^v = strconv\.FormatFloat\((tv|float64\(tv\)), 'g', -1, (32|64)\)$`)
	reParseInt    = regexp.MustCompile(`^var i int64 ; if i, err = strconv\.ParseInt\(tv, 10, (32|64)\); err == nil \{ v = (int32\(i\)|i) \}$`)
	reParseFlt    = regexp.MustCompile(`^var f float64 ; if f, err = strconv\.ParseFloat\(tv, 64\); err == nil \{ v = (float32\(f\)|f) \}$`)
	reParseBool   = regexp.MustCompile(`^var b bool ; if b, err = strconv\.ParseBool\(tv\); err == nil \{ v = b \}$`)
	reNeZero      = regexp.MustCompile(`^v = tv != 0(\.0)?$`)
	reBoolStr     = regexp.MustCompile(`^if tv \{ v = trueStr \} else \{ v = falseStr \}$`)
	reAssignTv    = regexp.MustCompile(`^v = tv$`)
	reSymStr      = regexp.MustCompile(`^v = string\(tv\)$`)
	reTimeF       = regexp.MustCompile(`^secs := int64\(tv\) ; (v|tt) = time\.Unix\(0, secs\*int64\(time\.Second\)\)\.In\(time\.UTC\)\.Add\(time\.Duration\(\(tv - float64\(secs\)\) \* float64\(time\.Second\)\)\)$`)
	reTimeFChk    = regexp.MustCompile(`^if tv != tv \|\| tv <= -maxTimeSecs-1 \|\| maxTimeSecs\+1 <= tv \{ err = newCoerceErr\(tv, "Time"\) v = nil \} else \{ secs := int64\(tv\) (v|tt) = time\.Unix\(0, secs\*int64\(time\.Second\)\)\.In\(time\.UTC\)\.Add\(time\.Duration\(\(tv - float64\(secs\)\) \* float64\(time\.Second\)\)\) \}$`)
	reTimeIChk    = regexp.MustCompile(`^if tv < -maxTimeSecs \|\| maxTimeSecs < tv \{ err = newCoerceErr\(tv, "Time"\) v = nil \} else \{ (v|tt) = time\.Unix\(0, tv\*int64\(time\.Second\)\)\.In\(time\.UTC\) \}$`)
	reTimeI       = regexp.MustCompile(`^(v|tt) = time\.Unix\(0, tv\*int64\(time\.Second\)\)\.In\(time\.UTC\)$`)
	reTimeP       = regexp.MustCompile(`^var t time\.Time ; if t, err = time\.Parse\(time\.RFC3339Nano, tv\); err == nil \{ v = t \}$`)
	reTimeP2      = regexp.MustCompile(`^tt, err = time\.Parse\(time\.RFC3339Nano, tv\)$`)
	reTimeAs      = regexp.MustCompile(`^tt = tv$`)
)

func actionOf(body string, pos string, kinds []string) string {
	all := func(ok func(string) bool) bool {
		for _, k := range kinds {
			if !ok(k) {
				return false
			}
		}
		return len(kinds) > 0
	}
	switch {
	case body == "":
		return ".asIs"
	case reConvCheck.MatchString(body):
		m := reConvCheck.FindStringSubmatch(body)
		if !all(func(k string) bool { return k == m[2] }) { // the round trip must be taken in the arm's own type
			return unknown("coerce_arm_roundtrip_type", pos)
		}
		return ".convCheckedKeep ." + convTargets[m[1]]
	case reConvCheckU.MatchString(body):
		if !all(func(k string) bool { return k == "uint" || k == "uint32" || k == "uint64" }) {
			return unknown("coerce_arm_bound_check_kind", pos)
		}
		return ".convCheckedKeep ." + convTargets[reConvCheckU.FindStringSubmatch(body)[1]]
	case reConvCheckU64.MatchString(body):
		if !all(func(k string) bool { return k == "uint" || k == "uint64" }) {
			return unknown("coerce_arm_sign_check_kind", pos)
		}
		return ".convCheckedKeep .i64"
	case reFmtUint.MatchString(body):
		if !all(func(k string) bool {
			return k == "uint" || k == "uint8" || k == "uint16" || k == "uint32" || k == "uint64"
		}) {
			return unknown("coerce_arm_fmtuint_kind", pos)
		}
		return ".fmtUint"
	case reFinite3264.MatchString(body):
		// v = T(tv) then the finiteness test of the *converted* value (float32(tv) for a float32 target, tv itself
		// when widening) — tied to the arm's kind
		m := reFinite3264.FindStringSubmatch(body)
		narrowed := strings.Contains(body, "float64(float32(tv))")
		switch {
		case m[1] == "float32" && narrowed && all(func(k string) bool { return k == "float64" }):
			return ".convStrict .f32"
		case m[1] == "float64" && !narrowed && all(func(k string) bool { return k == "float32" }):
			return ".convStrict .f64"
		}
		return unknown("coerce_arm_finite_conv", pos)
	case reFiniteAsIs.MatchString(body):
		m := reFiniteAsIs.FindStringSubmatch(body)
		switch {
		case m[1] == "tv" && all(func(k string) bool { return k == "float64" }):
			return ".convStrict .f64"
		case m[1] == "float64(tv)" && all(func(k string) bool { return k == "float32" }):
			return ".convStrict .f32"
		}
		return unknown("coerce_arm_finite_asis", pos)
	case reConvTrunc32.MatchString(body), reConvTrunc64.MatchString(body):
		m := reConvTrunc32.FindStringSubmatch(body)
		t := ".i32"
		if m == nil {
			m = reConvTrunc64.FindStringSubmatch(body)
			t = ".i64"
		}
		// `float64(tv)` for a float32 arm, `tv` for a float64 arm
		if !(m[1] == "float64(tv)" && all(func(k string) bool { return k == "float32" })) && !(m[1] == "tv" && all(func(k string) bool { return k == "float64" })) {
			return unknown("coerce_arm_trunc_kind", pos)
		}
		return ".convTrunc " + t
	case reParseFltFin.MatchString(body):
		return ".parseFloatFinite .f64"
	case reParseFltFin32.MatchString(body):
		return ".parseFloatFinite .f32"
	case reConv.MatchString(body):
		return ".conv ." + convTargets[reConv.FindStringSubmatch(body)[1]]
	case reFailA.MatchString(body), reFailB.MatchString(body):
		return ".failNil"
	case reItoa.MatchString(body), reFmtInt.MatchString(body):
		return ".fmtInt"
	case reFmtFloat.MatchString(body):
		return ".fmtFloat " + reFmtFloat.FindStringSubmatch(body)[2]
	case reParseInt.MatchString(body):
		switch m := reParseInt.FindStringSubmatch(body); {
		case m[1] == "64" && m[2] == "i":
			return ".parseIntKeep .i64"
		case m[1] == "64":
			return ".parseIntKeep .i32"
		case m[1] == "32" && m[2] == "int32(i)":
			return ".parseInt32Keep"
		}
		return unknown("coerce_arm_parseint_bits", pos)
	case reParseFlt.MatchString(body):
		if reParseFlt.FindStringSubmatch(body)[1] == "f" {
			return ".parseFloatKeep .f64"
		}
		return ".parseFloatKeep .f32"
	case reParseBool.MatchString(body):
		return ".parseBoolKeep"
	case reNeZero.MatchString(body):
		return ".neZero"
	case reBoolStr.MatchString(body):
		return ".boolStr"
	case reAssignTv.MatchString(body):
		return ".asIs"
	case reSymStr.MatchString(body):
		return ".symStr"
	case reTimeFChk.MatchString(body):
		return ".timeOfFloatChk"
	case reTimeIChk.MatchString(body):
		return ".timeOfIntChk"
	case reTimeF.MatchString(body):
		return ".timeOfFloat"
	case reTimeI.MatchString(body):
		return ".timeOfInt"
	case reTimeP.MatchString(body), reTimeP2.MatchString(body):
		return ".timeParseKeep"
	case reTimeAs.MatchString(body):
		return ".asIs"
	}
	return unknown("coerce_arm", pos)
}

// tableOfSwitch renders one `switch tv := v.(type)` as (arms, default).
func tableOfSwitch(c *ctx, fd *ast.FuncDecl) (arms []string, dflt string, ok bool) {
	var ts *ast.TypeSwitchStmt
	ast.Inspect(fd.Body, func(n ast.Node) bool {
		if s, isTS := n.(*ast.TypeSwitchStmt); isTS && ts == nil {
			ts = s
			return false
		}
		return true
	})
	if ts == nil {
		return nil, "", false
	}
	dflt = unknown("coerce_no_default", c.pos(fd))
	for _, cl := range ts.Body.List {
		cc := cl.(*ast.CaseClause)
		var kinds []string
		for _, e := range cc.List {
			kinds = append(kinds, c.src(e))
		}
		act := actionOf(normBody(c, cc.Body), c.pos(cc), kinds)
		if cc.List == nil {
			dflt = act
			continue
		}
		for _, e := range cc.List {
			k, known := goKinds[c.src(e)]
			if !known {
				arms = append(arms, "("+unknown("coerce_kind_"+c.src(e), c.pos(cc))+", "+act+")")
				continue
			}
			arms = append(arms, fmt.Sprintf("(.%s, %s)", k, act))
		}
	}
	return arms, dflt, true
}

// constLiteral returns the literal a package-level constant is declared with ("" when it is not one literal)
func constLiteral(c *ctx, name string) string {
	for _, f := range c.files {
		for _, d := range f.Decls {
			gd, ok := d.(*ast.GenDecl)
			if !ok {
				continue
			}
			for _, sp := range gd.Specs {
				if vs, ok := sp.(*ast.ValueSpec); ok && len(vs.Names) == 1 && vs.Names[0].Name == name && len(vs.Values) == 1 {
					if bl, ok := vs.Values[0].(*ast.BasicLit); ok {
						return bl.Value
					}
				}
			}
		}
	}
	return ""
}

func genCoerce(c *ctx) string {
	s := genCoerceTables(c)
	// the range-checked time arms compare with maxTimeSecs: the model has the bound 9223372036 (= ⌊(2^63−1)/10^9⌋)
	if strings.Contains(s, "Chk") && constLiteral(c, "maxTimeSecs") != "9223372036" {
		s = strings.Replace(s, ".timeOfIntChk", unknown("maxTimeSecs", "timescalar.go"), 1)
	}
	return s
}

func genCoerceTables(c *ctx) string {
	var b strings.Builder
	b.WriteString("import Ggql.Model.Coerce\nnamespace Ggql.Gen\nopen Ggql.Coerce\n")
	for _, sc := range coerceScalars {
		for _, dir := range []string{"CoerceIn", "CoerceOut"} {
			name := "coerce" + strings.TrimPrefix(dir, "Coerce") + strings.ToUpper(sc.lean[:1]) + sc.lean[1:]
			fd := c.funcs[sc.recv+"."+dir]
			if fd == nil {
				fmt.Fprintf(&b, "def %s : Table := %s\n", name, unknown("coerce_missing_"+sc.recv+"_"+dir, "pkg"))
				continue
			}
			arms, dflt, ok := tableOfSwitch(c, fd)
			if !ok {
				// stringScalar.CoerceIn and booleanScalar.CoerceIn are `if` chains: match the whole body
				body := normBody(c, fd.Body.List)
				switch {
				case sc.recv == "stringScalar" && dir == "CoerceIn" &&
					body == `if v == nil { return nil, nil } ; if s, ok := v.(string); ok && v != nil { return s, nil } ; return nil, newCoerceErr(v, t.N)`:
					arms, dflt = []string{"(.nil, .asIs)", "(.str, .asIs)"}, ".failNil"
				case sc.recv == "booleanScalar" && dir == "CoerceIn" &&
					body == `if v == nil { return nil, nil } ; if b, ok := v.(bool); ok { return b, nil } ; return nil, newCoerceErr(v, "Boolean")`:
					arms, dflt = []string{"(.nil, .asIs)", "(.bool, .asIs)"}, ".failNil"
				default:
					fmt.Fprintf(&b, "def %s : Table := %s\n", name, unknown("coerce_body_"+sc.recv+"_"+dir, c.pos(fd)))
					continue
				}
			}
			// the time scalar's CoerceOut formats after the switch: require the trailing statement
			post := "false"
			if sc.recv == "timeScalar" && dir == "CoerceOut" {
				tail := normBody(c, fd.Body.List[len(fd.Body.List)-2:len(fd.Body.List)-1])
				if tail == `if err == nil && v != nil { v = tt.In(time.UTC).Format(time.RFC3339Nano) }` {
					post = "true"
				} else {
					post = unknown("time_out_tail", c.pos(fd))
				}
			}
			sort.Strings(arms)
			fmt.Fprintf(&b, "def %s : Table :=\n  { arms := [%s],\n    dflt := %s, formatTime := %s }\n", name, strings.Join(arms, ", "), dflt, post)
		}
	}
	fmt.Fprintf(&b, "/-- `resolve`, leaf branch: on a `CoerceOut` error the response value is set to nil -/\ndef leafErrNulls : Bool := %s\n", leafErrNulls(c))
	fmt.Fprintf(&b, "/-- `resolveList`: members of the typed slices ([]string, []int, …) are copied into the response without being resolved -/\ndef fastSliceCopies : Bool := %s\n", fastSliceCopies(c))
	b.WriteString("end Ggql.Gen\n")
	return b.String()
}

// fastSliceCopies reads the typed-slice cases of (*Root).resolveList.  Each must be
//
//	rlist := make([]interface{}, 0, len(list)) ; for _, x := range list { rlist = append(rlist, x) } ; result = rlist      (copy)
//	rlist := make(…) ; for i, x := range list { rlist = append(rlist, root.resolveMember(x, i, vars, field, lt, depth, &ea)) } ; result = rlist
//
// and all seven must have the same form.
func fastSliceCopies(c *ctx) string {
	fd := c.funcs["Root.resolveList"]
	if fd == nil {
		return unknown("resolveList_missing", "resolve.go")
	}
	var ts *ast.TypeSwitchStmt
	ast.Inspect(fd.Body, func(n ast.Node) bool {
		if s, ok := n.(*ast.TypeSwitchStmt); ok && ts == nil {
			ts = s
			return false
		}
		return true
	})
	if ts == nil {
		return unknown("resolveList_switch", c.pos(fd))
	}
	want := map[string]bool{"[]string": true, "[]int": true, "[]int64": true, "[]bool": true, "[]float32": true, "[]float64": true, "[]time.Time": true}
	seen, copies, resolves := 0, 0, 0
	for _, cl := range ts.Body.List {
		cc := cl.(*ast.CaseClause)
		if len(cc.List) != 1 || !want[c.src(cc.List[0])] {
			// any other typed-slice case would be a new fast path
			for _, e := range cc.List {
				if t := c.src(e); strings.HasPrefix(t, "[]") && t != "[]interface{}" && !want[t] {
					return unknown("resolveList_new_slice_case", c.pos(cc))
				}
			}
			continue
		}
		seen++
		body := normBody(c, cc.Body)
		reCopy := regexp.MustCompile(`^rlist := make\(\[\]interface\{\}, 0, len\(list\)\) ; for _, (\w+) := range list \{ rlist = append\(rlist, (\w+)\) \} ; result = rlist$`)
		reRes := regexp.MustCompile(`^rlist := make\(\[\]interface\{\}, 0, len\(list\)\) ; for i, (\w+) := range list \{ rlist = append\(rlist, root\.resolveMember\((\w+), i, vars, field, lt, depth, &ea\)\) \} ; result = rlist$`)
		if m := reCopy.FindStringSubmatch(body); m != nil && m[1] == m[2] {
			copies++
		} else if m := reRes.FindStringSubmatch(body); m != nil && m[1] == m[2] {
			resolves++
		} else {
			return unknown("resolveList_slice_body", c.pos(cc))
		}
	}
	if seen != len(want) {
		return unknown("resolveList_slice_cases", c.pos(ts))
	}
	if resolves > 0 {
		// the helper must be the loop body of the []interface{} case
		rm := c.funcs["Root.resolveMember"]
		if rm == nil || normBody(c, rm.Body.List) != `v, ea := root.resolve(x, vars, field, lt, depth) ; Errors(ea).in(i) ; *eap = append(*eap, ea...) ; return v` {
			return unknown("resolveMember_body", "resolve.go")
		}
	}
	switch {
	case copies == seen:
		return "true"
	case resolves == seen:
		return "false"
	}
	return unknown("resolveList_slice_mixed", c.pos(ts))
}

// leafErrNulls reads the leaf branch of (*Root).resolve:
//
//	if result, err = co.CoerceOut(obj); err != nil { ea = append(ea, …) [; result = nil] }
//
// Anything else in that block is an unknown shape.
func leafErrNulls(c *ctx) string {
	fd := c.funcs["Root.resolve"]
	if fd == nil {
		return unknown("resolve_missing", "resolve.go")
	}
	var site *ast.IfStmt
	n := 0
	ast.Inspect(fd.Body, func(nd ast.Node) bool {
		if s, ok := nd.(*ast.IfStmt); ok && s.Init != nil && strings.Contains(c.src(s.Init), ".CoerceOut(") {
			site = s
			n++
		}
		return true
	})
	if site == nil || n != 1 {
		return unknown("resolve_leaf_site", c.pos(fd))
	}
	if c.src(site.Init) != "result, err = co.CoerceOut(obj)" || c.src(site.Cond) != "err != nil" || site.Else != nil {
		return unknown("resolve_leaf_if", c.pos(site))
	}
	nulls, warned := "false", false
	for _, st := range site.Body.List {
		as, _ := st.(*ast.AssignStmt)
		if as == nil || as.Tok != token.ASSIGN || len(as.Lhs) != 1 || len(as.Rhs) != 1 {
			return unknown("resolve_leaf_stmt", c.pos(st))
		}
		switch {
		case c.src(as.Lhs[0]) == "ea" && strings.HasPrefix(c.src(as.Rhs[0]), "append(ea, resWarn(field.line, field.col,"):
			warned = true
		case c.src(as.Lhs[0]) == "result" && c.src(as.Rhs[0]) == "nil":
			nulls = "true"
		default:
			return unknown("resolve_leaf_assign", c.pos(st))
		}
	}
	if !warned {
		return unknown("resolve_leaf_no_error", c.pos(site))
	}
	return nulls
}
