package main

import (
	"fmt"
	"go/ast"
	"go/importer"
	"go/token"
	"go/types"
	"sort"
	"strings"
)

// genLocks builds the access / acquisition / callback tables used by C12 and C20.
//
// For every function of the package it walks the statements in order, tracking the set of mutexes
// lexically held (`x.mu.Lock()` … `x.mu.Unlock()`, `defer x.mu.Unlock()`), and records
//   - every read or write of a watched field together with the mutexes held *on the same receiver
//     expression* (or held by every caller, for unexported functions),
//   - every Lock() together with the mutexes already held,
//   - every call through an interface (user callbacks) made while a mutex is held.
// Anything it cannot follow (a branch that changes the held set and falls through, a Lock on an
// unknown receiver, …) is emitted as an unknown_shape_* identifier.

type heldLock struct {
	class string // Object.mu, FieldDef.mu, Root.subLock
	recv  string // receiver expression text, or "<caller>"
}

type accessRec struct {
	fn, field string
	write     bool
	held      []string // mutex classes that guard (same receiver or caller-held)
	line      int
}

type acquireRec struct {
	fn, mutex string
	held      []string
	line      int
}

type callbackRec struct {
	fn, mutex, callee string
}

var watched = map[string]string{ // field -> Lean constructor
	"Object.meta":        "objMeta",
	"FieldDef.goField":   "fdGoField",
	"FieldDef.method":    "fdMethod",
	"FieldDef.args":      "fdArgs",
	"Root.subscriptions": "rootSubs",
	"Input.meta":         "inputMeta",
}

var mutexCtor = map[string]string{"Object.mu": "objMu", "FieldDef.mu": "fdMu", "Root.subLock": "subLock"}

// request entry points: what C12/C20 call "requests" and registry operations
var requestEntries = []string{
	"Root.ResolveString", "Root.ResolveBytes", "Root.ResolveReader", "Root.ResolveExecutable",
	"Root.ParseExecutableString", "Root.ParseExecutable", "Root.ParseExecutableReader",
	"Root.AddEvent", "Root.Unsubscribe", "Root.subscribe",
}

type lockWalker struct {
	c        *ctx
	info     *types.Info
	fn       string
	entry    []heldLock
	held     []heldLock
	accesses *[]accessRec
	acquires *[]acquireRec
	cbs      *[]callbackRec
	calls    map[string][][]heldLock // callee -> held sets at each call site
	unknown  *[]string
	ifaces   map[string]*types.Interface // "Iface.Method" -> interface type
}

func typeName(t types.Type) string {
	for {
		if p, ok := t.(*types.Pointer); ok {
			t = p.Elem()
			continue
		}
		break
	}
	if n, ok := t.(*types.Named); ok {
		if pk := n.Obj().Pkg(); pk != nil && pk.Name() != "ggql" {
			return pk.Name() + "/" + n.Obj().Name()
		}
		return n.Obj().Name()
	}
	return ""
}

// fieldKey returns "Struct.field" for a selector that denotes a struct field.
func (w *lockWalker) fieldKey(se *ast.SelectorExpr) string {
	sel := w.info.Selections[se]
	if sel == nil || sel.Kind() != types.FieldVal {
		return ""
	}
	v, _ := sel.Obj().(*types.Var)
	if v == nil {
		return ""
	}
	// owner struct: walk the selection's receiver; for embedded promotion use the field's parent
	recv := typeName(sel.Recv())
	// find the named struct that directly declares the field
	owner := recv
	if len(sel.Index()) > 1 {
		// promoted through embedding: resolve the innermost struct
		t := sel.Recv()
		for i := 0; i < len(sel.Index())-1; i++ {
			for {
				if p, ok := t.Underlying().(*types.Pointer); ok {
					t = p.Elem()
					continue
				}
				break
			}
			st, _ := t.Underlying().(*types.Struct)
			if st == nil {
				break
			}
			t = st.Field(sel.Index()[i]).Type()
		}
		owner = typeName(t)
	}
	return owner + "." + v.Name()
}

func (w *lockWalker) calleeName(call *ast.CallExpr) (name string, iface bool) {
	switch f := call.Fun.(type) {
	case *ast.Ident:
		if obj, ok := w.info.Uses[f].(*types.Func); ok {
			return obj.Name(), false
		}
	case *ast.SelectorExpr:
		if sel := w.info.Selections[f]; sel != nil && sel.Kind() == types.MethodVal {
			recv := sel.Recv()
			if it, ok := recv.Underlying().(*types.Interface); ok {
				if w.ifaces != nil {
					w.ifaces[typeName(recv)+"."+f.Sel.Name] = it
				}
				return typeName(recv) + "." + f.Sel.Name, true
			}
			return typeName(recv) + "." + f.Sel.Name, false
		}
	}
	return "", false
}

func (w *lockWalker) heldClasses(recv string) []string {
	var out []string
	for _, h := range append(append([]heldLock{}, w.entry...), w.held...) {
		if h.recv == recv || h.recv == "<caller>" || recv == "" {
			out = append(out, h.class)
		}
	}
	sort.Strings(out)
	return out
}

func (w *lockWalker) allHeld() []string {
	var out []string
	for _, h := range append(append([]heldLock{}, w.entry...), w.held...) {
		out = append(out, h.class)
	}
	sort.Strings(out)
	return out
}

// lockCall recognises x.mu.Lock()/Unlock(); returns class, receiver text, op.
func (w *lockWalker) lockCall(call *ast.CallExpr) (class, recv, op string) {
	se, ok := call.Fun.(*ast.SelectorExpr)
	if !ok || (se.Sel.Name != "Lock" && se.Sel.Name != "Unlock") {
		return
	}
	inner, ok := se.X.(*ast.SelectorExpr)
	if !ok {
		return
	}
	key := w.fieldKey(inner)
	if _, ok := mutexCtor[key]; !ok {
		if key != "" {
			tv := w.info.Types[inner]
			if tv.Type != nil && strings.HasSuffix(tv.Type.String(), "sync.Mutex") {
				*w.unknown = append(*w.unknown, unknown("mutex_"+key, w.c.pos(call)))
			}
		}
		return
	}
	return key, w.c.src(inner.X), se.Sel.Name
}

func (w *lockWalker) expr(e ast.Node, lhs map[ast.Expr]bool) {
	ast.Inspect(e, func(n ast.Node) bool {
		switch x := n.(type) {
		case *ast.FuncLit:
			// closures run in the enclosing context here (FieldByNameFunc callback); walk the body
			w.block(x.Body.List)
			return false
		case *ast.CallExpr:
			if class, recv, op := w.lockCall(x); class != "" {
				if op == "Lock" {
					*w.acquires = append(*w.acquires, acquireRec{w.fn, class, w.allHeld(), w.c.fset.Position(x.Pos()).Line})
					w.held = append(w.held, heldLock{class, recv})
				} else {
					for i := len(w.held) - 1; i >= 0; i-- {
						if w.held[i].class == class && w.held[i].recv == recv {
							w.held = append(w.held[:i], w.held[i+1:]...)
							break
						}
					}
				}
				return false
			}
			if name, iface := w.calleeName(x); name != "" {
				cp := append(append([]heldLock{}, w.entry...), w.held...)
				w.calls[name] = append(w.calls[name], cp)
				if iface && !strings.Contains(name, "/") {
					for _, h := range cp {
						*w.cbs = append(*w.cbs, callbackRec{w.fn, h.class, name})
					}
				}
			}
		case *ast.SelectorExpr:
			key := w.fieldKey(x)
			if _, ok := watched[key]; ok {
				*w.accesses = append(*w.accesses, accessRec{w.fn, key, lhs[x], w.heldClasses(w.c.src(x.X)), w.c.fset.Position(x.Pos()).Line})
			}
		}
		return true
	})
}

func terminates(list []ast.Stmt) bool {
	if len(list) == 0 {
		return false
	}
	switch s := list[len(list)-1].(type) {
	case *ast.ReturnStmt:
		return true
	case *ast.BranchStmt:
		return s.Tok == token.BREAK || s.Tok == token.CONTINUE || s.Tok == token.GOTO
	}
	return false
}

func sameHeld(a, b []heldLock) bool {
	if len(a) != len(b) {
		return false
	}
	for i := range a {
		if a[i] != b[i] {
			return false
		}
	}
	return true
}

// branch walks a nested block with a copy of the held set; the set must be unchanged at the end
// unless the block terminates (return/break/continue).
func (w *lockWalker) branch(list []ast.Stmt, pos ast.Node) {
	saved := append([]heldLock{}, w.held...)
	w.block(list)
	if !terminates(list) && !sameHeld(saved, w.held) {
		*w.unknown = append(*w.unknown, unknown("lock_state_changes_in_branch", w.c.pos(pos)))
	}
	w.held = saved
}

func (w *lockWalker) block(list []ast.Stmt) {
	for _, s := range list {
		w.stmt(s)
	}
}

func (w *lockWalker) stmt(s ast.Stmt) {
	switch x := s.(type) {
	case *ast.AssignStmt:
		lhs := map[ast.Expr]bool{}
		for _, l := range x.Lhs {
			if se, ok := l.(*ast.SelectorExpr); ok {
				lhs[se] = true
			}
		}
		for _, r := range x.Rhs {
			w.expr(r, nil)
		}
		for _, l := range x.Lhs {
			w.expr(l, lhs)
		}
	case *ast.DeferStmt:
		if class, _, op := w.lockCall(x.Call); class != "" && op == "Unlock" {
			return // held until the function returns
		}
		w.expr(x.Call, nil)
	case *ast.IfStmt:
		if x.Init != nil {
			w.stmt(x.Init)
		}
		w.expr(x.Cond, nil)
		w.branch(x.Body.List, x)
		switch e := x.Else.(type) {
		case *ast.BlockStmt:
			w.branch(e.List, e)
		case *ast.IfStmt:
			w.branch([]ast.Stmt{e}, e)
		}
	case *ast.ForStmt:
		if x.Init != nil {
			w.stmt(x.Init)
		}
		if x.Cond != nil {
			w.expr(x.Cond, nil)
		}
		if x.Post != nil {
			w.stmt(x.Post)
		}
		w.branch(x.Body.List, x)
	case *ast.RangeStmt:
		w.expr(x.X, nil)
		w.branch(x.Body.List, x)
	case *ast.SwitchStmt:
		if x.Init != nil {
			w.stmt(x.Init)
		}
		if x.Tag != nil {
			w.expr(x.Tag, nil)
		}
		for _, cl := range x.Body.List {
			cc := cl.(*ast.CaseClause)
			for _, e := range cc.List {
				w.expr(e, nil)
			}
			w.branch(cc.Body, cc)
		}
	case *ast.TypeSwitchStmt:
		if x.Init != nil {
			w.stmt(x.Init)
		}
		w.stmt(x.Assign)
		for _, cl := range x.Body.List {
			cc := cl.(*ast.CaseClause)
			w.branch(cc.Body, cc)
		}
	case *ast.BlockStmt:
		w.block(x.List)
	case *ast.LabeledStmt:
		w.stmt(x.Stmt)
	case *ast.ExprStmt:
		w.expr(x.X, nil)
	case *ast.ReturnStmt:
		for _, r := range x.Results {
			w.expr(r, nil)
		}
	case *ast.DeclStmt, *ast.IncDecStmt, *ast.GoStmt, *ast.SendStmt:
		w.expr(x, nil)
	case *ast.BranchStmt, *ast.EmptyStmt:
	default:
		w.expr(x, nil)
	}
}

func genLocks(c *ctx) string {
	var b strings.Builder
	b.WriteString("import Ggql.Model.LockTable\nnamespace Ggql.Gen\nopen Ggql.LockTable\n")
	fail := func(what string) string {
		b.WriteString("def lockTable : List Access := " + unknown(what, "pkg") + "\nend Ggql.Gen\n")
		return b.String()
	}
	conf := types.Config{Importer: importer.ForCompiler(c.fset, "source", nil), Error: func(error) {}}
	info := &types.Info{Types: map[ast.Expr]types.TypeAndValue{}, Uses: map[*ast.Ident]types.Object{},
		Defs: map[*ast.Ident]types.Object{}, Selections: map[*ast.SelectorExpr]*types.Selection{}}
	var files []*ast.File
	var names []string
	for n := range c.files {
		names = append(names, n)
	}
	sort.Strings(names)
	for _, n := range names {
		files = append(files, c.files[n])
	}
	pkg, err := conf.Check("github.com/uhn/ggql/pkg/ggql", c.fset, files, info)
	if (err != nil && len(info.Selections) == 0) || pkg == nil {
		return fail("typecheck")
	}
	pkgScope := pkg.Scope()
	var fnames []string
	for n := range c.funcs {
		fnames = append(fnames, n)
	}
	sort.Strings(fnames)

	// pass 1: call graph + call-site held sets (entry sets empty), then iterate entry sets
	entry := map[string][]heldLock{}
	ifaces := map[string]*types.Interface{}
	// implementers of an interface method inside the package
	implTargets := func(callee string) []string {
		it := ifaces[callee]
		i := strings.Index(callee, ".")
		if it == nil || i < 0 {
			return nil
		}
		var out []string
		scope := pkgScope
		for _, n := range scope.Names() {
			tn, ok := scope.Lookup(n).(*types.TypeName)
			if !ok {
				continue
			}
			if _, isIface := tn.Type().Underlying().(*types.Interface); isIface {
				continue
			}
			if types.Implements(tn.Type(), it) || types.Implements(types.NewPointer(tn.Type()), it) {
				if _, ok := c.funcs[n+callee[i:]]; ok {
					out = append(out, n+callee[i:])
				}
			}
		}
		return out
	}
	var accesses []accessRec
	var acquires []acquireRec
	var cbs []callbackRec
	var unknowns []string
	callees := map[string]map[string]bool{}
	for iter := 0; iter < 4; iter++ {
		accesses, acquires, cbs, unknowns = nil, nil, nil, nil
		callSites := map[string][][]heldLock{}
		for _, fn := range fnames {
			fd := c.funcs[fn]
			if fd.Body == nil {
				continue
			}
			w := &lockWalker{c: c, info: info, fn: fn, entry: entry[fn], accesses: &accesses, acquires: &acquires,
				cbs: &cbs, calls: map[string][][]heldLock{}, unknown: &unknowns, ifaces: ifaces}
			w.block(fd.Body.List)
			callees[fn] = map[string]bool{}
			for callee, sites := range w.calls {
				callees[fn][callee] = true
				callSites[callee] = append(callSites[callee], sites...)
			}
		}
		// new entry sets: unexported functions only; intersection of class sets over call sites
		next := map[string][]heldLock{}
		for _, fn := range fnames {
			short := fn
			if i := strings.Index(fn, "."); i >= 0 {
				short = fn[i+1:]
			}
			if ast.IsExported(short) {
				continue
			}
			sites := callSites[fn]
			if len(sites) == 0 {
				continue
			}
			count := map[string]int{}
			for _, s := range sites {
				seen := map[string]bool{}
				for _, h := range s {
					if !seen[h.class] {
						seen[h.class] = true
						count[h.class]++
					}
				}
			}
			var cls []string
			for k, n := range count {
				if n == len(sites) {
					cls = append(cls, k)
				}
			}
			sort.Strings(cls)
			for _, k := range cls {
				next[fn] = append(next[fn], heldLock{k, "<caller>"})
			}
		}
		same := len(next) == len(entry)
		if same {
			for k, v := range next {
				if !sameHeld(v, entry[k]) {
					same = false
				}
			}
		}
		entry = next
		if same {
			break
		}
	}
	// may-hold sets for lock ordering: union over call sites, propagated to a fixpoint
	mayEntry := map[string]map[string]bool{}
	for iter := 0; iter < 8; iter++ {
		changed := false
		var acq2 []acquireRec
		for _, fn := range fnames {
			fd := c.funcs[fn]
			if fd.Body == nil {
				continue
			}
			var a1 []accessRec
			var c1 []callbackRec
			var u1 []string
			w := &lockWalker{c: c, info: info, fn: fn, accesses: &a1, acquires: &acq2, cbs: &c1,
				calls: map[string][][]heldLock{}, unknown: &u1}
			w.block(fd.Body.List)
			for callee, sites := range w.calls {
				targets := []string{callee}
				if _, ok := c.funcs[callee]; !ok {
					targets = implTargets(callee)
				}
				for _, t := range targets {
					if mayEntry[t] == nil {
						mayEntry[t] = map[string]bool{}
					}
					for _, s := range sites {
						for _, h := range s {
							if !mayEntry[t][h.class] {
								mayEntry[t][h.class] = true
								changed = true
							}
						}
					}
					for k := range mayEntry[fn] {
						if !mayEntry[t][k] {
							mayEntry[t][k] = true
							changed = true
						}
					}
				}
			}
		}
		if !changed {
			break
		}
	}
	for i := range acquires {
		for k := range mayEntry[acquires[i].fn] {
			acquires[i].held = append(acquires[i].held, k)
		}
		sort.Strings(acquires[i].held)
	}

	// reachability from request entry points (interface calls: every method of that name)
	reach := map[string]bool{}
	var work []string
	for _, e := range requestEntries {
		if _, ok := c.funcs[e]; ok {
			reach[e] = true
			work = append(work, e)
		}
	}
	for len(work) > 0 {
		f := work[len(work)-1]
		work = work[:len(work)-1]
		for callee := range callees[f] {
			var targets []string
			if _, ok := c.funcs[callee]; ok {
				targets = []string{callee}
			} else {
				targets = implTargets(callee) // interface method: the implementations in the package
			}
			for _, t := range targets {
				if !reach[t] {
					reach[t] = true
					work = append(work, t)
				}
			}
		}
	}
	if len(unknowns) > 0 {
		sort.Strings(unknowns)
		return fail(strings.TrimPrefix(unknowns[0], "unknown_shape_"))
	}
	mlist := func(ms []string) string {
		var out []string
		seen := map[string]bool{}
		for _, m := range ms {
			if !seen[m] {
				seen[m] = true
				out = append(out, "."+mutexCtor[m])
			}
		}
		return "[" + strings.Join(out, ", ") + "]"
	}
	short := func(fn string) string {
		if i := strings.Index(fn, "."); i >= 0 {
			return fn[i+1:]
		}
		return fn
	}
	b.WriteString("def lockTable : List Access :=\n  [")
	sort.SliceStable(accesses, func(i, j int) bool {
		if accesses[i].fn != accesses[j].fn {
			return accesses[i].fn < accesses[j].fn
		}
		return accesses[i].line < accesses[j].line
	})
	first := true
	for _, a := range accesses {
		if !first {
			b.WriteString(",\n   ")
		}
		first = false
		fmt.Fprintf(&b, "⟨%q, .%s, %v, %s, %v⟩", short(a.fn), watched[a.field], a.write, mlist(a.held), reach[a.fn])
	}
	b.WriteString("]\n")
	b.WriteString("def acquireTable : List Acquire :=\n  [")
	sort.SliceStable(acquires, func(i, j int) bool {
		if acquires[i].fn != acquires[j].fn {
			return acquires[i].fn < acquires[j].fn
		}
		return acquires[i].line < acquires[j].line
	})
	for i, a := range acquires {
		if i > 0 {
			b.WriteString(",\n   ")
		}
		fmt.Fprintf(&b, "⟨%q, .%s, %s⟩", short(a.fn), mutexCtor[a.mutex], mlist(a.held))
	}
	b.WriteString("]\n")
	// callbacks under a mutex: unique (fn, mutex, callee)
	seen := map[string]bool{}
	var cbl []string
	for _, cb := range cbs {
		k := fmt.Sprintf("⟨%q, .%s, %q⟩", short(cb.fn), mutexCtor[cb.mutex], cb.callee)
		if !seen[k] {
			seen[k] = true
			cbl = append(cbl, k)
		}
	}
	sort.Strings(cbl)
	b.WriteString("def callbacksUnderLock : List Callback :=\n  [" + strings.Join(cbl, ",\n   ") + "]\n")
	fmt.Fprintf(&b, "def regFieldArgsSetupOnly : Bool := %v\n", regFieldArgsSetupOnly(c))
	b.WriteString("end Ggql.Gen\n")
	return b.String()
}

// regFieldArgsSetupOnly: `fd.args = …` in regField is written only inside `if 0 < len(args)` (the
// variadic parameter) and every call of regField from resolveReflect passes no variadic argument.
func regFieldArgsSetupOnly(c *ctx) bool {
	rf := c.funcs["Root.regField"]
	rr := c.funcs["Root.resolveReflect"]
	if rf == nil || rr == nil {
		return false
	}
	ok := true
	found := false
	var walk func(n ast.Node, guarded bool)
	walk = func(n ast.Node, guarded bool) {
		ast.Inspect(n, func(m ast.Node) bool {
			if m == n {
				return true
			}
			switch x := m.(type) {
			case *ast.IfStmt:
				g := guarded || c.src(x.Cond) == "0 < len(args)"
				walk(x.Body, g)
				if x.Else != nil {
					walk(x.Else, guarded)
				}
				return false
			case *ast.AssignStmt:
				for _, l := range x.Lhs {
					if c.src(l) == "fd.args" {
						found = true
						if !guarded {
							ok = false
						}
					}
				}
			}
			return true
		})
	}
	walk(rf.Body, false)
	ast.Inspect(rr.Body, func(m ast.Node) bool {
		if call, isCall := m.(*ast.CallExpr); isCall && c.src(call.Fun) == "root.regField" {
			if len(call.Args) != 3 || call.Ellipsis.IsValid() {
				ok = false
			}
		}
		return true
	})
	return ok && found
}
