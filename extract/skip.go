package main

import (
	"fmt"
	"go/ast"
	"go/token"
	"strings"
)

// genSkip reads the assignment sites of (*Root).skipSel.
func genSkip(c *ctx) string {
	var b strings.Builder
	b.WriteString("import Ggql.Model.Skip\nnamespace Ggql.Gen\nopen Ggql.Skip\n")
	fd := c.funcs["Root.skipSel"]
	if fd == nil {
		b.WriteString("def skipTable : Table := " + unknown("skipSel_missing", "resolve.go") + "\nend Ggql.Gen\n")
		return b.String()
	}
	arms := map[string]string{}
	var outer *ast.SwitchStmt
	ast.Inspect(fd.Body, func(n ast.Node) bool {
		if s, ok := n.(*ast.SwitchStmt); ok && outer == nil && strings.Contains(c.src(s.Tag), "Name()") {
			outer = s
			return false
		}
		return true
	})
	if outer == nil {
		b.WriteString("def skipTable : Table := " + unknown("skipSel_switch", c.pos(fd)) + "\nend Ggql.Gen\n")
		return b.String()
	}
	for _, cl := range outer.Body.List {
		cc := cl.(*ast.CaseClause)
		if len(cc.List) != 1 {
			continue
		}
		lit, _ := cc.List[0].(*ast.BasicLit)
		if lit == nil {
			continue
		}
		var pre string
		switch lit.Value {
		case `"skip"`:
			pre = "skip"
		case `"include"`:
			pre = "incl"
		default:
			arms["extra"] = unknown("skipSel_extra_case", c.pos(cc))
			continue
		}
		// find the type switch
		var ts *ast.TypeSwitchStmt
		ast.Inspect(cc, func(n ast.Node) bool {
			if s, ok := n.(*ast.TypeSwitchStmt); ok && ts == nil {
				ts = s
				return false
			}
			return true
		})
		if ts == nil {
			arms[pre+"Lit"] = unknown("skipSel_typeswitch", c.pos(cc))
			continue
		}
		for _, tcl := range ts.Body.List {
			tcc := tcl.(*ast.CaseClause)
			if len(tcc.List) != 1 {
				arms[pre+"Lit"] = unknown("skipSel_case", c.pos(tcc))
				continue
			}
			switch c.src(tcc.List[0]) {
			case "bool":
				arms[pre+"Lit"] = armOfBody(c, tcc.Body, "v")
			case "Var":
				// if b, ok := vars[..].(bool); ok { skip = … } else { skip = true; ea = append(..) }
				if len(tcc.Body) != 1 {
					arms[pre+"Var"] = unknown("skipSel_var_body", c.pos(tcc))
					continue
				}
				ifs, _ := tcc.Body[0].(*ast.IfStmt)
				if ifs == nil || ifs.Else == nil || c.src(ifs.Cond) != "ok" {
					arms[pre+"Var"] = unknown("skipSel_var_if", c.pos(tcc))
					continue
				}
				arms[pre+"Var"] = armOfBody(c, ifs.Body.List, "b")
				eb, _ := ifs.Else.(*ast.BlockStmt)
				arms[pre+"Bad"] = badOfBody(c, eb)
			default:
				arms[pre+"Lit"] = unknown("skipSel_unexpected_case", c.pos(tcc))
			}
		}
	}
	fmt.Fprintf(&b, "def skipTable : Table :=\n  { skipLit := %s, skipVar := %s, skipBad := %s,\n    inclLit := %s, inclVar := %s, inclBad := %s }\n",
		get(arms, "skipLit"), get(arms, "skipVar"), get(arms, "skipBad"), get(arms, "inclLit"), get(arms, "inclVar"), get(arms, "inclBad"))
	if x, ok := arms["extra"]; ok {
		fmt.Fprintf(&b, "def skipExtra : Nat := %s\n", x)
	}
	b.WriteString("end Ggql.Gen\n")
	return b.String()
}

func get(m map[string]string, k string) string {
	if v, ok := m[k]; ok {
		return v
	}
	return unknown("skipSel_missing_arm_"+k, "resolve.go")
}

// armOfBody recognises `skip = e` with e ∈ {x, !x, skip || x, skip || !x, x || skip, !x || skip}.
func armOfBody(c *ctx, body []ast.Stmt, x string) string {
	if len(body) != 1 {
		return unknown("skip_arm_body", "resolve.go")
	}
	as, _ := body[0].(*ast.AssignStmt)
	if as == nil || as.Tok != token.ASSIGN || len(as.Lhs) != 1 || len(as.Rhs) != 1 || c.src(as.Lhs[0]) != "skip" {
		return unknown("skip_arm_stmt", c.pos(body[0]))
	}
	upd, e := "assign", as.Rhs[0]
	if be, ok := e.(*ast.BinaryExpr); ok && be.Op == token.LOR {
		switch {
		case c.src(be.X) == "skip":
			upd, e = "orAssign", be.Y
		case c.src(be.Y) == "skip":
			upd, e = "orAssign", be.X
		default:
			return unknown("skip_arm_or", c.pos(as))
		}
	}
	neg := "false"
	if ue, ok := e.(*ast.UnaryExpr); ok && ue.Op == token.NOT {
		neg, e = "true", ue.X
	}
	if pe, ok := e.(*ast.ParenExpr); ok {
		e = pe.X
	}
	if c.src(e) != x {
		return unknown("skip_arm_expr", c.pos(as))
	}
	return fmt.Sprintf("⟨.%s, %s⟩", upd, neg)
}

// badOfBody recognises `skip = true|false` optionally followed by `ea = append(ea, …)`.
func badOfBody(c *ctx, blk *ast.BlockStmt) string {
	if blk == nil || len(blk.List) == 0 || len(blk.List) > 2 {
		return unknown("skip_bad_body", "resolve.go")
	}
	as, _ := blk.List[0].(*ast.AssignStmt)
	if as == nil || len(as.Lhs) != 1 || len(as.Rhs) != 1 || c.src(as.Lhs[0]) != "skip" {
		return unknown("skip_bad_stmt", c.pos(blk))
	}
	val := c.src(as.Rhs[0])
	upd := "assign"
	if be, ok := as.Rhs[0].(*ast.BinaryExpr); ok && be.Op == token.LOR && c.src(be.X) == "skip" {
		upd, val = "orAssign", c.src(be.Y)
	}
	if val != "true" && val != "false" {
		return unknown("skip_bad_val", c.pos(as))
	}
	err := "false"
	if len(blk.List) == 2 {
		if a2, _ := blk.List[1].(*ast.AssignStmt); a2 != nil && c.src(a2.Lhs[0]) == "ea" && strings.HasPrefix(c.src(a2.Rhs[0]), "append(ea,") {
			err = "true"
		} else {
			return unknown("skip_bad_second", c.pos(blk.List[1]))
		}
	}
	return fmt.Sprintf("⟨.%s, %s, %s⟩", upd, val, err)
}
