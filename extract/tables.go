package main

import (
	"fmt"
	"go/ast"
	"go/token"
	"os"
	"regexp"
	"sort"
	"strconv"
	"strings"
)

// genTables: character classification maps (parser.go consts), the escape switch of
// value.go:writeString, the unescape switch of parser.go:readEscaped, and the number-terminator set
// of readValue.

func constString(c *ctx, name string) (string, bool) {
	for _, f := range c.files {
		for _, d := range f.Decls {
			gd, ok := d.(*ast.GenDecl)
			if !ok || gd.Tok != token.CONST {
				continue
			}
			for _, sp := range gd.Specs {
				vs := sp.(*ast.ValueSpec)
				for i, n := range vs.Names {
					if n.Name == name && i < len(vs.Values) {
						return evalConcat(vs.Values[i])
					}
				}
			}
		}
	}
	return "", false
}

func evalConcat(e ast.Expr) (string, bool) {
	switch x := e.(type) {
	case *ast.BasicLit:
		if x.Kind == token.STRING {
			s, err := strconv.Unquote(x.Value)
			return s, err == nil
		}
	case *ast.BinaryExpr:
		if x.Op == token.ADD {
			a, ok1 := evalConcat(x.X)
			b, ok2 := evalConcat(x.Y)
			return a + b, ok1 && ok2
		}
	case *ast.ParenExpr:
		return evalConcat(x.X)
	}
	return "", false
}

func runeLit(e ast.Expr) (rune, bool) {
	bl, ok := e.(*ast.BasicLit)
	if !ok || bl.Kind != token.CHAR {
		return 0, false
	}
	s, err := strconv.Unquote(bl.Value)
	if err != nil || len([]rune(s)) != 1 {
		return 0, false
	}
	return []rune(s)[0], true
}

func genTables(c *ctx) string {
	var b strings.Builder
	b.WriteString("import Ggql.Model.CharTables\nnamespace Ggql.Gen\nopen Ggql.CharTables\n")
	for _, name := range []string{"charMap", "numMap"} {
		s, ok := constString(c, name)
		if !ok || len(s) != 256 {
			fmt.Fprintf(&b, "def %s : List Nat := %s\n", name, unknown(name, "parser.go"))
			continue
		}
		var codes []string
		for i := 0; i < 256; i++ {
			codes = append(codes, strconv.Itoa(int(s[i])))
		}
		fmt.Fprintf(&b, "def %s : List Nat := [%s]\n", name, strings.Join(codes, ", "))
	}
	for _, cn := range []struct{ goName, lean string }{{"spaceChar", "spaceClass"}, {"tokenChar", "tokenClass"}, {"numChar", "numClass"}} {
		v := ""
		for _, f := range c.files {
			for _, d := range f.Decls {
				if gd, ok := d.(*ast.GenDecl); ok && gd.Tok == token.CONST {
					for _, sp := range gd.Specs {
						vs := sp.(*ast.ValueSpec)
						for i, n := range vs.Names {
							if n.Name == cn.goName && i < len(vs.Values) {
								if r, ok := runeLit(vs.Values[i]); ok {
									v = strconv.Itoa(int(r))
								}
							}
						}
					}
				}
			}
		}
		if v == "" {
			v = unknown(cn.goName, "parser.go")
		}
		fmt.Fprintf(&b, "def %s : Nat := %s\n", cn.lean, v)
	}
	// writeString: switch r { case '\b': w.Write([]byte{'\\','b'}) … case '\\', '"': {'\\', byte(r)} default: … }
	esc := []string{}
	escOK := true
	if fd := c.funcs["writeString"]; fd != nil {
		var sw *ast.SwitchStmt
		ast.Inspect(fd.Body, func(n ast.Node) bool {
			if s, ok := n.(*ast.SwitchStmt); ok && sw == nil && c.src(s.Tag) == "r" {
				sw = s
				return false
			}
			return true
		})
		if sw == nil {
			escOK = false
		} else {
			for _, cl := range sw.Body.List {
				cc := cl.(*ast.CaseClause)
				if cc.List == nil {
					// default arm: must be the known shape
					want := `if r < 0x80 { if r < ' ' { _, err = w.Write([]byte{'\\', 'u', hexChars[r>>12], hexChars[(r>>8)&0x0f], hexChars[(r>>4)&0x0f], hexChars[r&0x0f]}) } else { _, err = w.Write([]byte{byte(r)}) } } else { buf := make([]byte, 8) n := utf8.EncodeRune(buf, r) buf = buf[:n] _, err = w.Write(buf) }`
					if normBody(c, cc.Body) != want {
						if os.Getenv("EXTRACT_DEBUG") != "" {
							fmt.Fprintln(os.Stderr, "writeString default arm:", normBody(c, cc.Body))
						}
						escOK = false
					}
					continue
				}
				body := normBody(c, cc.Body)
				for _, e := range cc.List {
					r, ok := runeLit(e)
					if !ok {
						escOK = false
						continue
					}
					switch {
					case body == `_, err = w.Write([]byte{'\\', byte(r)})`:
						esc = append(esc, fmt.Sprintf("(%d, [92, %d])", r, r))
					case strings.HasPrefix(body, `_, err = w.Write([]byte{'\\', '`) && strings.HasSuffix(body, `'})`) && len(body) == len(`_, err = w.Write([]byte{'\\', 'b'})`):
						ch := body[len(`_, err = w.Write([]byte{'\\', '`)]
						esc = append(esc, fmt.Sprintf("(%d, [92, %d])", r, ch))
					default:
						if os.Getenv("EXTRACT_DEBUG") != "" {
							fmt.Fprintln(os.Stderr, "writeString arm:", body)
						}
						escOK = false
					}
				}
			}
		}
	} else {
		escOK = false
	}
	if escOK {
		fmt.Fprintf(&b, "def escapeTable : List (Nat × List Nat) := [%s]\n", strings.Join(esc, ", "))
	} else {
		fmt.Fprintf(&b, "def escapeTable : List (Nat × List Nat) := %s\n", unknown("writeString_switch", "value.go"))
	}
	// readEscaped: case 'b': return rune('\b'), nil … case 'u': 4 hex digits
	unesc := []string{}
	unOK := true
	if fd := c.funcs["parser.readEscaped"]; fd != nil {
		var sw *ast.SwitchStmt
		ast.Inspect(fd.Body, func(n ast.Node) bool {
			if s, ok := n.(*ast.SwitchStmt); ok && sw == nil && c.src(s.Tag) == "b" {
				sw = s
				return false
			}
			return true
		})
		if sw == nil {
			unOK = false
		} else {
			sawU := false
			for _, cl := range sw.Body.List {
				cc := cl.(*ast.CaseClause)
				if cc.List == nil {
					if normBody(c, cc.Body) != "return badEscape()" {
						unOK = false
					}
					continue
				}
				for _, e := range cc.List {
					if c.src(e) == "0" {
						continue
					}
					r, ok := runeLit(e)
					if !ok {
						unOK = false
						continue
					}
					if r == 'u' {
						sawU = true
						continue
					}
					if len(cc.Body) != 1 {
						unOK = false
						continue
					}
					ret, _ := cc.Body[0].(*ast.ReturnStmt)
					if ret == nil || len(ret.Results) != 2 {
						unOK = false
						continue
					}
					call, _ := ret.Results[0].(*ast.CallExpr)
					if call == nil || c.src(call.Fun) != "rune" || len(call.Args) != 1 {
						unOK = false
						continue
					}
					rv, ok := runeLit(call.Args[0])
					if !ok {
						unOK = false
						continue
					}
					unesc = append(unesc, fmt.Sprintf("(%d, %d)", r, rv))
				}
			}
			if !sawU {
				unOK = false
			}
		}
	} else {
		unOK = false
	}
	if unOK {
		fmt.Fprintf(&b, "def unescapeTable : List (Nat × Nat) := [%s]\n", strings.Join(unesc, ", "))
	} else {
		fmt.Fprintf(&b, "def unescapeTable : List (Nat × Nat) := %s\n", unknown("readEscaped_switch", "parser.go"))
	}
	// number terminators in readValue: `switch p.onDeck { case 0, ' ', … : // okay`
	terms := ""
	if fd := c.funcs["parser.readValue"]; fd != nil {
		ast.Inspect(fd.Body, func(n ast.Node) bool {
			if s, ok := n.(*ast.SwitchStmt); ok && c.src(s.Tag) == "p.onDeck" && terms == "" {
				for _, cl := range s.Body.List {
					cc := cl.(*ast.CaseClause)
					if cc.List != nil && len(cc.Body) == 0 {
						var cs []string
						for _, e := range cc.List {
							if c.src(e) == "0" {
								cs = append(cs, "0")
							} else if r, ok := runeLit(e); ok {
								cs = append(cs, strconv.Itoa(int(r)))
							}
						}
						terms = strings.Join(cs, ", ")
					}
				}
			}
			return true
		})
	}
	if terms == "" {
		terms = unknown("number_terminators", "parser.go")
	} else {
		terms = "[" + terms + "]"
	}
	fmt.Fprintf(&b, "def numberTerminators : List Nat := %s\n", terms)
	fmt.Fprintf(&b, "/-- `writeMap`: in the JSON form a member name is written through `writeString` (escaped) -/\ndef jsonKeysEscaped : Bool := %s\n", jsonKeysEscaped(c))
	fmt.Fprintf(&b, "/-- `writeValue`: the Go integer kinds that have an arm of their own (the others fall to the default arm and are written as quoted strings, D97) -/\ndef writerIntKinds : List String := %s\n", writerIntKinds(c))
	b.WriteString("end Ggql.Gen\n")
	return b.String()
}

// writerIntKinds lists the integer kinds among the cases of writeValue's type switch whose arm writes the value
// through strconv.FormatInt / FormatUint.
func writerIntKinds(c *ctx) string {
	fd := c.funcs["writeValue"]
	if fd == nil {
		return unknown("writeValue", "value.go")
	}
	intKinds := map[string]bool{"int": true, "int8": true, "int16": true, "int32": true, "int64": true, "uint": true, "uint8": true, "uint16": true, "uint32": true, "uint64": true, "byte": true, "uintptr": true}
	var kinds []string
	bad := false
	nsw := 0
	ast.Inspect(fd.Body, func(n ast.Node) bool {
		ts, ok := n.(*ast.TypeSwitchStmt)
		if !ok {
			return true
		}
		nsw++
		for _, st := range ts.Body.List {
			cc := st.(*ast.CaseClause)
			for _, e := range cc.List {
				id, ok := e.(*ast.Ident)
				if !ok || !intKinds[id.Name] {
					continue
				}
				body := ""
				for _, bs := range cc.Body {
					body += c.src(bs)
				}
				body = regexp.MustCompile(`\s+`).ReplaceAllString(body, " ")
				signed := "_, err = w.Write([]byte(strconv.FormatInt(int64(tv), 10)))"
				signed64 := "_, err = w.Write([]byte(strconv.FormatInt(tv, 10)))"
				unsigned := "_, err = w.Write([]byte(strconv.FormatUint(uint64(tv), 10)))"
				unsigned64 := "_, err = w.Write([]byte(strconv.FormatUint(tv, 10)))"
				if len(cc.List) != 1 || !(body == signed || body == signed64 || body == unsigned || body == unsigned64) {
					bad = true
				}
				name := id.Name
				if name == "byte" {
					name = "uint8"
				}
				kinds = append(kinds, fmt.Sprintf("%q", name))
			}
		}
		return false
	})
	if bad || nsw != 1 {
		return unknown("writeValue integer arms", c.pos(fd))
	}
	sort.Strings(kinds)
	return "[" + strings.Join(kinds, ", ") + "]"
}

// jsonKeysEscaped reads how writeMap writes a member name.
func jsonKeysEscaped(c *ctx) string {
	fd := c.funcs["writeMap"]
	if fd == nil {
		return unknown("writeMap", "value.go")
	}
	src := regexp.MustCompile(`(?m)//.*$`).ReplaceAllString(c.src(fd.Body), "")
	src = regexp.MustCompile(`\s+`).ReplaceAllString(src, " ")
	const raw = `if err == nil && !sdl { _, err = w.Write([]byte{'"'}) } if err == nil { _, err = w.Write([]byte(key)) } if err == nil && !sdl { _, err = w.Write([]byte{'"'}) }`
	const esc = `if err == nil { if sdl { _, err = w.Write([]byte(key)) } else {`
	switch {
	case strings.Contains(src, raw) && !strings.Contains(src, "writeString(w, key"):
		return "false"
	case strings.Contains(src, esc) && strings.Contains(src, "err = writeString(w, key, true) } }") && strings.Count(src, "w.Write([]byte(key))") == 1:
		return "true"
	}
	return unknown("writeMap key", c.pos(fd))
}
