package main

import (
	"fmt"
	"go/ast"
	"path/filepath"
	"regexp"
	"strings"
)

// genDispatch reads the strategy switch of resolveField: a tag-less switch whose arms test `res != nil`
// (the object implements Resolver), `root.AnyResolver != nil`, and a default arm calling resolveReflect.
func genDispatch(c *ctx) string {
	fd := c.funcs["Root.resolveField"]
	var b strings.Builder
	b.WriteString("namespace Ggql.Gen\n")
	order := ""
	if fd != nil {
		ast.Inspect(fd.Body, func(n ast.Node) bool {
			sw, ok := n.(*ast.SwitchStmt)
			if !ok || sw.Tag != nil || order != "" {
				return true
			}
			var names []string
			for _, st := range sw.Body.List {
				cc := st.(*ast.CaseClause)
				body := ""
				for _, s := range cc.Body {
					body += c.src(s) + "\n"
				}
				switch {
				case cc.List == nil:
					if strings.Contains(body, "resolveReflect(") {
						names = append(names, "reflect")
					} else {
						names = append(names, "?")
					}
				case len(cc.List) == 1 && c.src(cc.List[0]) == "res != nil" && strings.Contains(body, "res.Resolve("):
					names = append(names, "resolver")
				case len(cc.List) == 1 && c.src(cc.List[0]) == "root.AnyResolver != nil" && strings.Contains(body, "root.AnyResolver.Resolve("):
					names = append(names, "any")
				default:
					names = append(names, "?")
				}
			}
			ok2 := len(names) > 0
			for _, n := range names {
				if n == "?" {
					ok2 = false
				}
			}
			if ok2 && strings.Contains(strings.Join(names, ","), "reflect") {
				order = `["` + strings.Join(names, `", "`) + `"]`
			}
			return true
		})
	}
	if order == "" {
		order = unknown("strategy switch", "resolve.go resolveField")
	}
	b.WriteString("def dispatchOrder : List String := " + order + "\n")
	// ResolveExecutable: the single-operation fall-back, with or without the test that no name was given
	fb := unknown("operation fall-back", "resolve.go ResolveExecutable")
	if re := c.funcs["Root.ResolveExecutable"]; re != nil {
		ast.Inspect(re.Body, func(n ast.Node) bool {
			if is, ok := n.(*ast.IfStmt); ok {
				switch c.src(is.Cond) {
				case "len(exe.Ops) == 1":
					fb = "true"
				case "len(opName) == 0 && len(exe.Ops) == 1", `opName == "" && len(exe.Ops) == 1`:
					fb = "false"
				}
			}
			return true
		})
	}
	b.WriteString("def opFallbackAnyName : Bool := " + fb + "\n")
	// ResolveExecutable: is a supplied variable bound when it is non-nil (an explicit null then falls back to the
	// default, D41) or whenever it is present in the map?
	nv := unknown("variable binding test", "resolve.go ResolveExecutable")
	if re := c.funcs["Root.ResolveExecutable"]; re != nil {
		n := 0
		ast.Inspect(re.Body, func(nd ast.Node) bool {
			if is, ok := nd.(*ast.IfStmt); ok && is.Init != nil && strings.Contains(c.src(is.Init), "vars[vd.Name]") {
				n++
				switch {
				case c.src(is.Init) == "v := vars[vd.Name]" && c.src(is.Cond) == "v != nil":
					nv = "true"
				case c.src(is.Init) == "v, has := vars[vd.Name]" && c.src(is.Cond) == "has":
					nv = "false"
				}
			}
			return true
		})
		if n != 1 {
			nv = unknown("variable binding sites", "resolve.go ResolveExecutable")
		}
	}
	b.WriteString("def nullVarUsesDefault : Bool := " + nv + "\n")
	b.WriteString("def argCountCheckOnly : Bool := " + sortArgsForm(c) + "\n")
	b.WriteString("def subtypeNarrow : Bool := " + isSubTypeForm(c) + "\n")
	b.WriteString("def dupScalarDropped : Bool := " + dupScalarForm(c) + "\n")
	b.WriteString("def dirArgWrapperAccepted : Bool := " + dirArgTypeTest(c) + "\n")
	b.WriteString("def descRaw : Bool := " + descForm(c) + "\n")
	b.WriteString("def assureOnce : Bool := " + assureSchemaForm(c) + "\n")
	b.WriteString("def dupMembersAccepted : Bool := " + dupMembersForm(c) + "\n")
	b.WriteString("def inputNullTakesDefault : Bool := " + inputNullForm(c) + "\n")
	dlv, tld := dirLoopAndTypeLookupForms(c)
	b.WriteString("def dirLoopByVisited : Bool := " + dlv + "\n")
	b.WriteString("def typeLookupFindsDirectives : Bool := " + tld + "\n")
	dru, drt, esn := dirUseForms(c)
	b.WriteString("def dirRequiredUnchecked : Bool := " + dru + "\n")
	b.WriteString("def dirRefTypeFirst : Bool := " + drt + "\n")
	b.WriteString("def extendSchemaNeedsSchema : Bool := " + esn + "\n")
	b.WriteString("def dupKeyOverwrites : Bool := " + dupKeyForm(c) + "\n")
	ufc, inb := bindingForms(c)
	b.WriteString("def unionFirstCome : Bool := " + ufc + "\n")
	b.WriteString("def ifaceNeedsBound : Bool := " + inb + "\n")
	b.WriteString("def shallowRollback : Bool := " + rollbackDepthForm(c) + "\n")
	b.WriteString("def inputExtendMapOrder : Bool := " + inputExtendForm(c) + "\n")
	tod, ter := toolForms(c)
	b.WriteString("def toolOmitsDirectives : Bool := " + tod + "\n")
	b.WriteString("def toolEmbedRaw : Bool := " + ter + "\n")
	b.WriteString("def eventVarsEmpty : Bool := " + eventVarsForm(c) + "\n")
	b.WriteString("def subOrderByMap : Bool := " + subOrderForm(c) + "\n")
	b.WriteString("def schemaDuringScan : Bool := " + schemaRollbackForm(c) + "\n")
	lnc, su, sbe := replaceArgVarsForms(c)
	b.WriteString("def objectUnchecked : Bool := " + objectArmForm(c) + "\n")
	b.WriteString("def argsInPlace : Bool := " + argsInPlaceForm(c) + "\n")
	b.WriteString("def argsSortedOnce : Bool := " + argsSortedOnceForm(c) + "\n")
	b.WriteString("def condByIdentity : Bool := " + condByIdentityForm(c) + "\n")
	b.WriteString("def anonAmongOthers : Bool := " + anonAmongOthersForm(c) + "\n")
	b.WriteString("def metaArgsUnchecked : Bool := " + metaArgsFact(c) + "\n")
	b.WriteString("def ptrValueDistinct : Bool := " + ptrValueForm(c) + "\n")
	b.WriteString("def unionAtMember : Bool := " + unionAtMemberForm(c) + "\n")
	b.WriteString("def impliedSchemaUnvalidated : Bool := " + impliedSchemaForm(c) + "\n")
	b.WriteString("def dupDirectiveInlineAccepted : Bool := " + dupDirectiveForm(c) + "\n")
	b.WriteString("def reflectOptionalRefused : Bool := " + reflectOptionalForm(c) + "\n")
	b.WriteString("def inputDefaultsRaw : Bool := " + inputValidateForm(c) + "\n")
	b.WriteString("def listNotCoerced : Bool := " + lnc + "\n")
	b.WriteString("def symbolUnchecked : Bool := " + su + "\n")
	b.WriteString("def symbolBaseEnum : Bool := " + sbe + "\n")
	b.WriteString("/-- hashes of the functions that form, coerce and hand on argument values (strings and comments stripped) -/\n")
	b.WriteString("def argSkeleton : List (String × String) := [\n")
	argFns := []string{"Error.in", "Errors.in", "Input.CoerceIn", "Input.reflectSet", "Input.reflectSetKey", "List.CoerceIn", "Root.addError", "NonNull.CoerceIn", "Root.formArgs", "Root.formReflectArgs", "Root.replaceArgVars", "Root.resolveField", "Root.resolveReflect", "checkReflectArgs"}
	for i, name := range argFns {
		h := "missing"
		if fd := c.funcs[name]; fd != nil {
			h = skeleton(c, fd)
		}
		sep := ","
		if i == len(argFns)-1 {
			sep = ""
		}
		b.WriteString(fmt.Sprintf("  (%q, %q)%s\n", name, h, sep))
	}
	b.WriteString("]\n")
	b.WriteString("end Ggql.Gen\n")
	return b.String()
}

// replaceArgVarsForms reads the `[]interface{}` and `Symbol` arms of (*Root).replaceArgVars: whole-arm match
// (comments stripped, white space collapsed) against the two known forms of each.
func replaceArgVarsForms(c *ctx) (listNotCoerced, symbolUnchecked, symbolBaseEnum string) {
	listNotCoerced = unknown("replaceArgVars list arm", "resolve.go")
	symbolUnchecked = unknown("replaceArgVars symbol arm", "resolve.go")
	symbolBaseEnum = unknown("replaceArgVars symbol arm", "resolve.go")
	fd := c.funcs["Root.replaceArgVars"]
	if fd == nil {
		return
	}
	norm := func(ss []ast.Stmt) string {
		var parts []string
		for _, st := range ss {
			t := regexp.MustCompile(`(?m)//.*$`).ReplaceAllString(c.src(st), "")
			parts = append(parts, regexp.MustCompile(`\s+`).ReplaceAllString(t, " "))
		}
		return strings.Join(parts, " ; ")
	}
	const coerce = `if ic, _ := at.(InCoercer); ic != nil { if val, err = ic.CoerceIn(val); err != nil { ea = append(ea, resWarnp(nil, "%s", err)) } }`
	const loop = `for i, v := range tv { tv[i], ea2 = root.replaceArgVars(vars, v, mt) ea = append(ea, ea2...) }`
	const enumChk = `bt := BaseType(at) ; if et, _ := bt.(*Enum); et != nil { if _, has := et.values.dict[string(tv)]; !has { ea = append(ea, resWarnp(nil, "%s is not a valid enum value in %s", tv, et.N)) } }`
	ast.Inspect(fd.Body, func(n ast.Node) bool {
		ts, ok := n.(*ast.TypeSwitchStmt)
		if !ok {
			return true
		}
		for _, cl := range ts.Body.List {
			cc := cl.(*ast.CaseClause)
			if len(cc.List) != 1 {
				continue
			}
			body := norm(cc.Body)
			switch c.src(cc.List[0]) {
			case "[]interface{}":
				switch body {
				case `var mt Type ; if lt, _ := at.(*List); lt != nil { mt = lt.Base } ; ` + loop:
					listNotCoerced = "true"
				case `var mt Type ; lt, _ := at.(*List) ; if nn, _ := at.(*NonNull); nn != nil { lt, _ = nn.Base.(*List) } ; if lt != nil { mt = lt.Base } ; ` + loop + ` ; if lt == nil { ` + coerce + ` }`:
					listNotCoerced = "false"
				case `var mt Type ; lt, _ := at.(*List) ; if nn, _ := at.(*NonNull); nn != nil { lt, _ = nn.Base.(*List) } ; if lt != nil { mt = lt.Base } ; cp := make([]interface{}, len(tv)) ; for i, v := range tv { cp[i], ea2 = root.replaceArgVars(vars, v, mt) ea = append(ea, ea2...) } ; val = cp ; if lt == nil { ` + coerce + ` }`:
					listNotCoerced = "false" // and the literal is copied (D25 repaired: see argsInPlace)
				}
			case "Symbol":
				const member = `if _, has := et.values.dict[string(tv)]; !has { ea = append(ea, resWarnp(nil, "%s is not a valid enum value in %s", tv, et.N)) }`
				switch body {
				case enumChk:
					symbolUnchecked, symbolBaseEnum = "true", "true"
				case strings.TrimSuffix(enumChk, " }") + ` } else ` + coerce:
					symbolUnchecked, symbolBaseEnum = "false", "true"
				case `et, _ := at.(*Enum) ; if nn, _ := at.(*NonNull); nn != nil { et, _ = nn.Base.(*Enum) } ; if et != nil { ` + member + ` } else ` + coerce:
					symbolUnchecked, symbolBaseEnum = "false", "false"
				}
			}
		}
		return false
	})
	return
}

// sortArgsForm reads (*Field).sortArgs: are undeclared arguments looked for only when the number of arguments
// differs from the number declared, and only under object containers (D23)?  Whole-body match of the two forms.
func sortArgsForm(c *ctx) string {
	fd := c.funcs["Field.sortArgs"]
	if fd == nil {
		// third form: nothing is rearranged; (*Field).checkArgs looks every given argument up in the definition
		if argsSortedOnceForm(c) == "false" {
			return "false"
		}
		return unknown("sortArgs", "field.go")
	}
	src := regexp.MustCompile(`(?m)//.*$`).ReplaceAllString(c.src(fd.Body), "")
	src = regexp.MustCompile(`\s+`).ReplaceAllString(src, " ")
	const sortLoop = `args := make([]*ArgValue, 0, len(f.Args)) for _, a := range fd.args.list { args = append(args, f.getArg(a.N)) }`
	const unknownLoop = `for _, av := range f.Args { if fd.getArg(av.Arg) == nil { errors = append(errors, valError(av.line, av.col, "%s is not an argument to %s", av.Arg, f.Name)) } }`
	switch src {
	case `{ if 0 < len(f.Args) { if ot, _ := f.ConType.(*Object); ot != nil { if fd := ot.fields.get(f.Name); fd != nil { ` + sortLoop + ` if len(args) != len(f.Args) { ` + unknownLoop + ` } f.Args = args } } } return }`:
		return "true"
	case `{ if 0 < len(f.Args) { var fd *FieldDef switch ct := f.ConType.(type) { case *Object: fd = ct.fields.get(f.Name) case *Interface: fd = ct.fields.get(f.Name) } if fd != nil { ` + sortLoop + ` ` + unknownLoop + ` f.Args = args } } return }`:
		return "false"
	}
	return unknown("sortArgs body", c.pos(fd))
}

// argsSortedOnceForm (D93): is the argument list of a request's field rearranged and checked for undeclared
// arguments at the first use of the field only (`if field.ConType == nil { … field.sortArgs() }`, which also
// replaces f.Args), with Subscription.prep overwriting the field's ConType; or is every resolve of the field
// checked against the definition in the type of the object at hand, with nothing of the request written but
// ConType once?
func argsSortedOnceForm(c *ctx) string {
	norm := func(n ast.Node) string {
		t := regexp.MustCompile(`(?m)//.*$`).ReplaceAllString(c.src(n), "")
		return regexp.MustCompile(`\s+`).ReplaceAllString(t, " ")
	}
	rf, prep, ae := c.funcs["Root.resolveField"], c.funcs["Subscription.prep"], c.funcs["Root.AddEvent"]
	if rf == nil || prep == nil || ae == nil {
		return unknown("resolveField / Subscription.prep / AddEvent", "resolve.go")
	}
	r, p, a := norm(rf.Body), norm(prep.Body), norm(ae.Body)
	sa, ca, fra := c.funcs["Field.sortArgs"], c.funcs["Field.checkArgs"], c.funcs["Root.formReflectArgs"]
	switch {
	case sa != nil && ca == nil &&
		strings.Contains(r, "if field.ConType == nil { field.ConType = t ea = append(ea, field.sortArgs()...) if 0 < len(ea) { Errors(ea).in(field.key()) return } }") &&
		p == "{ sub.field.ConType = root.getFieldType(sub.field.ConType, sub.field.Name) }" &&
		strings.Contains(a, "root.resolve(event, s.vars, s.field, s.field.ConType, MaxResolveDepth)"):
		return "true"
	case sa == nil && ca != nil && fra != nil &&
		norm(ca.Body) == `{ for _, av := range f.Args { if fd.getArg(av.Arg) == nil { errors = append(errors, valError(av.line, av.col, "%s is not an argument to %s", av.Arg, f.Name)) } } return }` &&
		strings.Contains(r, "{ if field.ConType == nil { field.ConType = t } var queryType Type") &&
		strings.Contains(r, `fd := root.getFieldDef(t, field.Name) if fd == nil { ea = append(ea, resWarnp(field, "%s is not a field in %s", field.Name, t.Name())) return } if ea = field.checkArgs(fd); 0 < len(ea) { Errors(ea).in(field.key()) return } switch { case res != nil:`) &&
		(strings.Contains(norm(fra.Body), "if len(field.Args) == 0 { return } for _, a := range fd.args.list { av := field.getArg(a.N) if av == nil { args = append(args, reflect.Value{}) continue } val, ea2 := root.replaceArgVars(vars, av.Value, a.Type)") ||
			strings.Contains(norm(fra.Body), "for _, a := range fd.args.list { av := field.getArg(a.N) if av == nil || av.Value == nil {") && strings.Contains(norm(fra.Body), "args = append(args, reflect.Value{}) continue } val, ea2 := root.replaceArgVars(vars, av.Value, a.Type)")) &&
		p == "{ sub.evType = root.getFieldType(sub.field.ConType, sub.field.Name) }" &&
		strings.Contains(a, "root.resolve(event, s.vars, s.field, s.evType, MaxResolveDepth)") &&
		!requestWrittenOutsideParser(c):
		return "false"
	}
	return unknown("argument check of a request field", c.pos(rf))
}

// condByIdentityForm (D14): does a fragment apply only when its type condition *is* the (static) type of the
// position, with __typename naming that type (the interface under an interface-typed field); or does it also apply
// when the object type of the value can be determined (objectType) and the condition is that type, an interface it
// implements or a union it is a member of (fragmentType), its selections then being resolved at the condition, and
// does __typename name the object type?
func condByIdentityForm(c *ctx) string {
	norm := func(n ast.Node) string {
		t := regexp.MustCompile(`(?m)//.*$`).ReplaceAllString(c.src(n), "")
		return regexp.MustCompile(`\s+`).ReplaceAllString(t, " ")
	}
	rs, ri, rf := c.funcs["Root.resolve"], c.funcs["Root.resolveInline"], c.funcs["Root.resolveFragRef"]
	if rs == nil || ri == nil || rf == nil {
		return unknown("resolve / resolveInline / resolveFragRef", "resolve.go")
	}
	r, i, f := norm(rs.Body), norm(ri.Body), norm(rf.Body)
	ot, ft, im, rfd := c.funcs["Root.objectType"], c.funcs["Root.fragmentType"], c.funcs["Object.implements"], c.funcs["Root.resolveField"]
	if rfd == nil {
		return unknown("resolveField", "resolve.go")
	}
	fld := norm(rfd.Body)
	const walkArm = "case *Object, *Schema, *Interface, *uuSchema: result, ea = root.resolveFieldSels(obj, vars, field, t, depth-1)"
	switch {
	case ot == nil && ft == nil && strings.Contains(r, walkArm) &&
		strings.Contains(fld, `case "__typename": result[field.key()] = t.Name() return nil`) &&
		strings.Contains(i, "if sel.Condition == nil || sel.Condition == t { ea = root.resolveSels(obj, vars, sel.Sels, t, result, depth) }") &&
		strings.Contains(f, "if sel.Fragment.Condition == nil || sel.Fragment.Condition == t { ea = root.resolveSels(obj, vars, sel.Fragment.Sels, t, result, depth)"):
		return "true"
	case ot != nil && ft != nil && im != nil && strings.Contains(r, walkArm) &&
		strings.Contains(fld, `if ot := root.objectType(obj, t); ot != nil { result[field.key()] = ot.Name() } else { result[field.key()] = t.Name() } return nil case "__type":`) && metaArgsForm(c) != "" &&
		strings.Contains(i, "if ft := root.fragmentType(obj, sel.Condition, t); ft != nil { ea = root.resolveSels(obj, vars, sel.Sels, ft, result, depth) }") &&
		strings.Contains(f, "if ft := root.fragmentType(obj, sel.Fragment.Condition, t); ft != nil { ea = root.resolveSels(obj, vars, sel.Fragment.Sels, ft, result, depth)") &&
		norm(ot.Body) == "{ switch tt := t.(type) { case *Object: return tt case *Interface: if ot, _ := root.getReflectType(reflect.TypeOf(obj)).(*Object); ot != nil && ot.implements(tt) { return ot } case *Union: if ot, _ := root.getReflectType(reflect.TypeOf(obj)).(*Object); ot != nil { for _, m := range tt.Members { if m == ot { return ot } } } } return nil }" &&
		norm(ft.Body) == "{ if cond == nil || cond == t { return t } if ot := root.objectType(obj, t); ot != nil { switch tc := cond.(type) { case *Object: if tc == ot { return tc } case *Interface: if ot.implements(tc) { return tc } case *Union: for _, m := range tc.Members { if m == ot { return tc } } } } return nil }" &&
		norm(im.Body) == "{ for _, i := range t.Interfaces { if i == it { return true } } return false }":
		return "false"
	}
	return unknown("fragment type condition test", c.pos(ri))
}

// anonAmongOthersForm (D96): does Executable.Validate refuse a document in which an operation without a name
// stands next to other operations?
func anonAmongOthersForm(c *ctx) string {
	fd := c.funcs["Executable.Validate"]
	if fd == nil {
		return unknown("Executable.Validate", "executable.go")
	}
	t := regexp.MustCompile(`(?m)//.*$`).ReplaceAllString(c.src(fd.Body), "")
	t = regexp.MustCompile(`\s+`).ReplaceAllString(t, " ")
	const tail = `names := make([]string, 0, len(ex.Ops)) for name := range ex.Ops { names = append(names, name) } sort.Strings(names) for _, name := range names { errs = append(errs, ex.Ops[name].Validate(root)...) } names = names[:0] for name := range ex.Fragments { names = append(names, name) } sort.Strings(names) for _, name := range names { errs = append(errs, ex.Fragments[name].Validate(root)...) } errs = append(errs, ex.validateFragmentCycles()...) return }`
	switch t {
	case "{ " + tail:
		return "true"
	case `{ if op := ex.Ops[""]; op != nil && 1 < len(ex.Ops) { errs = append(errs, valError(op.line, op.col, "an operation without a name must be the only operation")) } ` + tail:
		return "false"
	}
	return unknown("Executable.Validate body", c.pos(fd))
}

// metaArgsForm (D100): is `__typename` answered without looking at its arguments, or is an argument given to it
// reported as undeclared (it declares none) before anything is written to the result?  "" for any other shape.
func metaArgsForm(c *ctx) string {
	fd := c.funcs["Root.resolveField"]
	if fd == nil {
		return ""
	}
	t := regexp.MustCompile(`(?m)//.*$`).ReplaceAllString(c.src(fd.Body), "")
	t = regexp.MustCompile(`\s+`).ReplaceAllString(t, " ")
	switch {
	case strings.Contains(t, `case "__typename": if 0 < len(field.Args) { ea = append(ea, valError(field.Args[0].line, field.Args[0].col, "%s is not an argument to %s", field.Args[0].Arg, field.Name)) Errors(ea).in(field.key()) return } if ot := root.objectType(obj, t); ot != nil {`):
		return "false"
	case strings.Contains(t, `case "__typename": if ot := root.objectType(obj, t); ot != nil {`) || strings.Contains(t, `case "__typename": result[field.key()] = t.Name() return nil`):
		return "true"
	}
	return ""
}

func metaArgsFact(c *ctx) string {
	if f := metaArgsForm(c); f != "" {
		return f
	}
	return unknown("__typename arm of resolveField", "resolve.go")
}

// ptrValueForm (D102): is an object type bound to the exact reflect.Type first seen — so that a value and a pointer
// to it are two Go types, the later one refused or unresolved — or to the type with the pointers removed, the methods
// being those of the pointer to it and a value receiver copied to have one?  All five sites must agree.
func ptrValueForm(c *ctx) string {
	norm := func(name string) string {
		fd := c.funcs[name]
		if fd == nil {
			return ""
		}
		t := regexp.MustCompile(`(?m)//.*$`).ReplaceAllString(c.src(fd.Body), "")
		return regexp.MustCompile(`\s+`).ReplaceAllString(t, " ")
	}
	mc, at, grt, rf, rs, rr := norm("Object.metaCheck"), norm("Root.assureType"), norm("Root.getReflectType"), norm("Root.regField"), norm("Root.resolve"), norm("Root.resolveReflect")
	if mc == "" || at == "" || grt == "" || rf == "" || rs == "" || rr == "" {
		return unknown("binding functions", "root.go")
	}
	exact := []bool{
		strings.Contains(mc, "t.meta = rt") && !strings.Contains(mc, "baseType("),
		strings.Contains(at, "meta := reflect.TypeOf(sample)"),
		strings.Contains(grt, "m == meta {") && !strings.Contains(grt, "baseType("),
		strings.Contains(rf, "for i := objMeta.NumMethod() - 1; 0 <= i; i-- {") && !strings.Contains(rf, "reflect.PtrTo("),
		strings.Contains(rs, "} else if objType == meta {"),
		!strings.Contains(rr, "reflect.New(ov.Type())"),
	}
	base := []bool{
		strings.Contains(mc, "bt := baseType(rt) if t.meta == nil {") && strings.Count(mc, "t.meta = bt") == 2 && !strings.Contains(mc, "t.meta = rt"),
		strings.Contains(at, "meta := baseType(reflect.TypeOf(sample))"),
		strings.Contains(grt, "m != nil && m == baseType(meta) {"),
		strings.Contains(rf, "objMeta = reflect.PtrTo(objMeta) for i := objMeta.NumMethod() - 1; 0 <= i; i-- {"),
		strings.Contains(rs, "} else if baseType(objType) == meta {"),
		strings.Contains(rr, "for ov.Kind() == reflect.Ptr && ov.Elem().Kind() == reflect.Ptr { ov = ov.Elem() } if ov.Kind() != reflect.Ptr { pv := reflect.New(ov.Type()) pv.Elem().Set(ov) ov = pv } args, ea2 := root.formReflectArgs(ov, vars, field, fd)"),
	}
	all := func(bs []bool) bool {
		for _, b := range bs {
			if !b {
				return false
			}
		}
		return true
	}
	bt := c.funcs["baseType"]
	switch {
	case all(exact) && bt == nil:
		return "true"
	case all(base) && bt != nil && norm("baseType") == "{ for rt != nil && rt.Kind() == reflect.Ptr { rt = rt.Elem() } return rt }":
		return "false"
	}
	return unknown("Go type binding sites", "root.go")
}

// unionAtMemberForm (D103): are the selections under a union-typed field resolved at the member type the value is
// bound to (so a member's field can be selected there without a fragment), or at the union?
func unionAtMemberForm(c *ctx) string {
	fd := c.funcs["Root.resolve"]
	if fd == nil {
		return unknown("resolve", "resolve.go")
	}
	t := regexp.MustCompile(`(?m)//.*$`).ReplaceAllString(c.src(fd.Body), "")
	t = regexp.MustCompile(`\s+`).ReplaceAllString(t, " ")
	atMember := strings.Count(t, "result, ea = root.resolveFieldSels(obj, vars, field, m, depth-1)")
	atUnion := strings.Count(t, "== meta { result, ea = root.resolveFieldSels(obj, vars, field, t, depth-1) unbound = nil break }")
	switch {
	case atMember == 1 && atUnion == 0:
		return "true"
	case atMember == 0 && atUnion == 1:
		return "false"
	}
	return unknown("union arm walk type", c.pos(fd))
}

// impliedSchemaForm (D105): is a schema formed from the Query / Mutation / Subscription types — which is not in
// the list of types — left out of validation (so what `extend schema` adds to it is never checked), or validated once
// it has a field?
func impliedSchemaForm(c *ctx) string {
	fd := c.funcs["Root.validate"]
	if fd == nil {
		return unknown("Root.validate", "root.go")
	}
	t := regexp.MustCompile(`(?m)//.*$`).ReplaceAllString(c.src(fd.Body), "")
	t = regexp.MustCompile(`\s+`).ReplaceAllString(t, " ")
	const loops = `var errs []error for _, t := range root.types.list { errs = append(errs, root.validateTypeName("type", t)...) errs = append(errs, root.validateDirUses(t)...) errs = append(errs, t.Validate(root)...) } for _, t := range root.dirs.list { errs = append(errs, root.validateTypeName("directive", t)...) errs = append(errs, root.validateDirUses(t)...) errs = append(errs, t.Validate(root)...) } `
	const tail = `if 0 < len(errs) { return Errors(errs) } return nil }`
	switch t {
	case "{ " + loops + tail:
		return "true"
	case "{ " + loops + `if root.schema != nil && root.schema.implied && 0 < root.schema.fields.Len() { errs = append(errs, root.validateDirUses(root.schema)...) errs = append(errs, root.schema.Validate(root)...) } ` + tail:
		return "false"
	}
	return unknown("Root.validate body", c.pos(fd))
}

// dupDirectiveForm (D106): is a directive repeated on one type (`type T @m @m`) accepted when written inline — the
// same repetition through an extension is refused by Base.Extend — or reported by validateDirUses?
func dupDirectiveForm(c *ctx) string {
	fd := c.funcs["Root.validateDirUses"]
	if fd == nil {
		return unknown("validateDirUses", "root.go")
	}
	t := regexp.MustCompile(`(?m)//.*$`).ReplaceAllString(c.src(fd.Body), "")
	t = regexp.MustCompile(`\s+`).ReplaceAllString(t, " ")
	switch t {
	case `{ for _, du := range t.Directives() { errs = append(errs, root.validateDirUse(t.Name(), Locate(t), du)...) } return }`:
		return "true"
	case `{ seen := map[string]bool{} for _, du := range t.Directives() { errs = append(errs, root.validateDirUse(t.Name(), Locate(t), du)...) if du.Directive != nil { name := du.Directive.Name() if seen[name] { errs = append(errs, fmt.Errorf("%w, directive @%s is repeated on %s at %d:%d", ErrValidation, name, t.Name(), du.line, du.col)) } seen[name] = true } } return }`:
		return "false"
	}
	return unknown("validateDirUses body", c.pos(fd))
}

// reflectOptionalForm (D94): is an optional argument that is left out (or null) refused by checkReflectArgs
// ("argument N is missing or null") or handed to the method as the zero value of its parameter, with the required
// ones reported by name when the arguments are formed?
func reflectOptionalForm(c *ctx) string {
	norm := func(n ast.Node) string {
		t := regexp.MustCompile(`(?m)//.*$`).ReplaceAllString(c.src(n), "")
		return regexp.MustCompile(`\s+`).ReplaceAllString(t, " ")
	}
	cra, fra := c.funcs["checkReflectArgs"], c.funcs["Root.formReflectArgs"]
	if cra == nil || fra == nil {
		return unknown("checkReflectArgs", "resolve.go")
	}
	k, f := norm(cra.Body), norm(fra.Body)
	switch {
	case strings.Contains(k, `if !a.IsValid() { return fmt.Errorf("argument %d is missing or null", i) }`) && !strings.Contains(f, "is required but missing"):
		return "true"
	case (strings.Contains(k, `if !a.IsValid() { args[i] = reflect.Zero(mt.In(i)) continue }`) || strings.Contains(k, `if !a.IsValid() { args[i] = reflect.Zero(in(i)) continue }`)) &&
		strings.Contains(f, `for _, a := range fd.args.list { av := field.getArg(a.N) if av == nil || av.Value == nil { if _, ok := a.Type.(*NonNull); ok { ea = append(ea, resWarn(field.line, field.col, "%s is required but missing", a.N)) } args = append(args, reflect.Value{}) continue }`):
		return "false"
	}
	return unknown("optional argument of a reflected method", c.pos(cra))
}

// requestWrittenOutsideParser: is there an assignment to the Args, Sels, Dirs, Name or Alias of a request's
// field (receiver or variable named f, field, sub.field, s.field) outside the executable parser?
func requestWrittenOutsideParser(c *ctx) bool {
	found := false
	re := regexp.MustCompile(`^(f|field|sub\.field|s\.field|sel|ts)\.(Args|Sels|Dirs|Name|Alias)$`)
	for name, fd := range c.funcs {
		if strings.HasPrefix(name, "exeParser.") || fd.Body == nil {
			continue
		}
		ast.Inspect(fd.Body, func(n ast.Node) bool {
			if as, ok := n.(*ast.AssignStmt); ok {
				for _, l := range as.Lhs {
					if re.MatchString(c.src(l)) && !strings.HasPrefix(c.pos(fd), "exeparser.go:") && !strings.HasPrefix(c.pos(fd), "sdlparser.go:") {
						found = true
					}
				}
			}
			return true
		})
	}
	return found
}

// isSubTypeForm reads (*Object).isSubType: the first commit's form (covariance only for T vs T!, D45) or the
// repaired one (a non-null implementation type is unwrapped, together with the interface's own `!`).
func isSubTypeForm(c *ctx) string {
	fd := c.funcs["Object.isSubType"]
	if fd == nil {
		return unknown("isSubType", "object.go")
	}
	src := regexp.MustCompile(`(?m)//.*$`).ReplaceAllString(c.src(fd.Body), "")
	src = regexp.MustCompile(`\s+`).ReplaceAllString(src, " ")
	const eq = `if typeEqual(target, sub) { return true }`
	const union = `case *Union: for _, m := range tt.Members { if typeEqual(m, sub) { return true } }`
	const iface = `case *Interface: if ot, _ := sub.(*Object); ot != nil { for _, i := range ot.Interfaces { if typeEqual(i, target) { return true } } }`
	const list = `case *List: if list, _ := sub.(*List); list != nil { return t.isSubType(tt.Base, list.Base) }`
	const nn = `case *NonNull: if nn, _ := sub.(*NonNull); nn != nil { return t.isSubType(tt.Base, nn.Base) }`
	switch src {
	case `{ ` + eq + ` if st, ok := sub.(*NonNull); ok && typeEqual(target, st.Base) { return true } switch tt := target.(type) { ` + union + ` ` + iface + ` ` + list + ` ` + nn + ` } return false }`:
		return "true"
	case `{ ` + eq + ` if st, ok := sub.(*NonNull); ok { if tn, ok := target.(*NonNull); ok { return t.isSubType(tn.Base, st.Base) } return t.isSubType(target, st.Base) } switch tt := target.(type) { ` + union + ` ` + iface + ` ` + list + ` } return false }`:
		return "false"
	}
	return unknown("isSubType body", c.pos(fd))
}

// dupScalarForm reads the duplicate test of (*Root).addTypes: is a scalar whose name is taken always skipped
// (D43), or only when the name is taken by a scalar?
func dupScalarForm(c *ctx) string {
	fd := c.funcs["Root.addTypes"]
	if fd == nil {
		return unknown("addTypes", "root.go")
	}
	src := regexp.MustCompile(`(?m)//.*$`).ReplaceAllString(c.src(fd.Body), "")
	src = regexp.MustCompile(`\s+`).ReplaceAllString(src, " ")
	const dup = `return fmt.Errorf("%w: %s is already in the schema", ErrDuplicate, name) }`
	oldForm := strings.Contains(src, `if root.types.get(name) != nil { if t.Rank() == rankScalar { continue } `+dup)
	newForm := strings.Contains(src, `if cur := root.types.get(name); cur != nil { if t.Rank() == rankScalar && cur.Rank() == rankScalar { continue } `+dup)
	switch {
	case oldForm && !newForm && strings.Count(src, "continue") == 1:
		return "true"
	case newForm && !oldForm && strings.Count(src, "continue") == 1:
		return "false"
	}
	return unknown("addTypes duplicate test", c.pos(fd))
}

// dirArgTypeTest reads the input-type test of (*Directive).Validate on a directive argument's type: only the
// outer type is asked for InCoercer (D44: List / NonNull of anything pass), or IsInputType as well?
func dirArgTypeTest(c *ctx) string {
	fd := c.funcs["Directive.Validate"]
	if fd == nil {
		return unknown("Directive.Validate", "directive.go")
	}
	res := unknown("Directive.Validate argument type test", c.pos(fd))
	n := 0
	ast.Inspect(fd.Body, func(nd ast.Node) bool {
		if is, ok := nd.(*ast.IfStmt); ok && is.Init != nil && c.src(is.Init) == "co, _ := a.Type.(InCoercer)" {
			n++
			switch c.src(is.Cond) {
			case "co != nil":
				res = "true"
			case "co != nil && IsInputType(a.Type)", "IsInputType(a.Type) && co != nil":
				res = "false"
			}
			if is.Else == nil {
				res = unknown("Directive.Validate argument type test has no else", c.pos(is))
			}
		}
		return true
	})
	if n != 1 {
		return unknown("Directive.Validate argument type test sites", c.pos(fd))
	}
	return res
}

// descForm reads writeDesc: is the description text written raw (D32), or through escapeDesc (whose body must
// be the known one: backslash doubled; in the block form a quote followed by a quote or a backslash escaped)?
func descForm(c *ctx) string {
	fd := c.funcs["writeDesc"]
	if fd == nil {
		return unknown("writeDesc", "base.go")
	}
	src := regexp.MustCompile(`\s+`).ReplaceAllString(c.src(fd.Body), " ")
	raw := strings.Contains(src, `w.Write([]byte(strings.ReplaceAll(desc, "\n", shift)))`) && strings.Contains(src, `w.Write([]byte(desc))`)
	esc := strings.Contains(src, `w.Write([]byte(strings.ReplaceAll(escapeDesc(desc, true), "\n", shift)))`) && strings.Contains(src, `w.Write([]byte(escapeDesc(desc, false)))`)
	switch {
	case raw && !esc && !strings.Contains(src, "escapeDesc"):
		return "true"
	case esc && !raw && strings.Count(src, "escapeDesc") == 2:
		ed := c.funcs["escapeDesc"]
		if ed == nil {
			return unknown("escapeDesc", "base.go")
		}
		body := regexp.MustCompile(`\s+`).ReplaceAllString(c.src(ed.Body), " ")
		const want = "{ if !strings.ContainsAny(desc, \"\\\\\\\"\") { return desc } var b strings.Builder for i := 0; i < len(desc); i++ { c := desc[i] switch { case c == '\\\\': b.WriteString(`\\\\`) case c == '\"' && block && i+1 < len(desc) && (desc[i+1] == '\"' || desc[i+1] == '\\\\'): b.WriteString(`\\\"`) default: b.WriteByte(c) } } return b.String() }"
		if body == want {
			return "false"
		}
		return unknown("escapeDesc body", c.pos(ed))
	}
	return unknown("writeDesc body", c.pos(fd))
}

// schemaRollbackForm reads (*Root).ParseReader: on a failed load the type and directive tables are put back;
// is root.schema (which the scanner assigns when it meets a schema block) put back as well (D31)?
func schemaRollbackForm(c *ctx) string {
	fd := c.funcs["Root.ParseReader"]
	if fd == nil {
		return unknown("ParseReader", "root.go")
	}
	src := regexp.MustCompile(`(?m)//.*$`).ReplaceAllString(c.src(fd.Body), "")
	src = regexp.MustCompile(`\s+`).ReplaceAllString(src, " ")
	const tables = `if err != nil { root.types = origTypes root.dirs = origDirs }`
	const all = `if err != nil { root.types = origTypes root.dirs = origDirs root.schema = origSchema }`
	const allU = `if err != nil { unextend() root.types = origTypes root.dirs = origDirs root.schema = origSchema }`
	saved := strings.Contains(src, "origSchema := root.schema") &&
		strings.Index(src, "origSchema := root.schema") < strings.Index(src, "parseSDL(root, r)")
	switch {
	case strings.Contains(src, tables) && !strings.Contains(src, "origSchema"):
		return "true"
	case (strings.Contains(src, all) || strings.Contains(src, allU)) && saved && strings.Count(src, "origSchema") == 2:
		return "false"
	}
	return unknown("ParseReader rollback", c.pos(fd))
}

// objectArmForm reads the `map[string]interface{}` arm of (*Root).replaceArgVars (whole-arm match).
func objectArmForm(c *ctx) string {
	fd := c.funcs["Root.replaceArgVars"]
	if fd == nil {
		return unknown("replaceArgVars", "resolve.go")
	}
	res := unknown("replaceArgVars object arm", c.pos(fd))
	const inner = `for k, v := range tv { var vt Type if f := it.fields.get(k); f != nil { vt = f.Type } tv[k], ea2 = root.replaceArgVars(vars, v, vt) ea = append(ea, ea2...) } if val, err = it.CoerceIn(val); err != nil { ea = append(ea, resWarnp(nil, "%s", err)) }`
	const coerce = `if val, err = ic.CoerceIn(val); err != nil { ea = append(ea, resWarnp(nil, "%s", err)) }`
	ast.Inspect(fd.Body, func(n ast.Node) bool {
		ts, ok := n.(*ast.TypeSwitchStmt)
		if !ok {
			return true
		}
		for _, cl := range ts.Body.List {
			cc := cl.(*ast.CaseClause)
			if len(cc.List) != 1 || c.src(cc.List[0]) != "map[string]interface{}" {
				continue
			}
			var parts []string
			for _, st := range cc.Body {
				t := regexp.MustCompile(`(?m)//.*$`).ReplaceAllString(c.src(st), "")
				parts = append(parts, regexp.MustCompile(`\s+`).ReplaceAllString(t, " "))
			}
			switch strings.Join(parts, " ; ") {
			case `if it, _ := BaseType(at).(*Input); it != nil { ` + inner + ` }`:
				res = "true"
			case `it, _ := at.(*Input) ; if nn, _ := at.(*NonNull); nn != nil { it, _ = nn.Base.(*Input) } ; if it != nil { ` + inner + ` } else if ic, _ := at.(InCoercer); ic != nil { ` + coerce + ` }`:
				res = "false"
			case `it, _ := at.(*Input) ; if nn, _ := at.(*NonNull); nn != nil { it, _ = nn.Base.(*Input) } ; if it != nil { cp := make(map[string]interface{}, len(tv)) for k, v := range tv { var vt Type if f := it.fields.get(k); f != nil { vt = f.Type } cp[k], ea2 = root.replaceArgVars(vars, v, vt) ea = append(ea, ea2...) } if val, err = it.CoerceIn(cp); err != nil { ea = append(ea, resWarnp(nil, "%s", err)) } } else if ic, _ := at.(InCoercer); ic != nil { ` + coerce + ` }`:
				res = "false" // and the literal is copied (D25 repaired: see argsInPlace)
			case `it, _ := at.(*Input) ; if nn, _ := at.(*NonNull); nn != nil { it, _ = nn.Base.(*Input) } ; if it != nil { cp := make(map[string]interface{}, len(tv)) keys := make([]string, 0, len(tv)) for k := range tv { keys = append(keys, k) } sort.Strings(keys) for _, k := range keys { v := tv[k] var vt Type if f := it.fields.get(k); f != nil { vt = f.Type } cp[k], ea2 = root.replaceArgVars(vars, v, vt) ea = append(ea, ea2...) } if val, err = it.CoerceIn(cp); err != nil { ea = append(ea, resWarnp(nil, "%s", err)) } } else if ic, _ := at.(InCoercer); ic != nil { ` + coerce + ` }`:
				res = "false" // … and the members are visited by name (D77: errors in a stable order)
			}
		}
		return false
	})
	return res
}

// inputValidateForm reads (*Input).Validate: are the defaults of input fields coerced (and so validated) against
// the field's type when the schema is validated, or left as the scanner produced them (D66)?
func inputValidateForm(c *ctx) string {
	fd := c.funcs["Input.Validate"]
	if fd == nil {
		return unknown("Input.Validate", "input.go")
	}
	src := regexp.MustCompile(`(?m)//.*$`).ReplaceAllString(c.src(fd.Body), "")
	src = regexp.MustCompile(`\s+`).ReplaceAllString(src, " ")
	const head = `{ if 0 < t.fields.Len() { for _, f := range t.fields.list { errs = append(errs, validateName(f.core, "field", f.N, f.line, f.col)...) if !IsInputType(f.Type) { errs = append(errs, fmt.Errorf("%w, %s does not return an input type at %d:%d", ErrValidation, f.Name(), f.line, f.col)) }`
	const tail = ` } } else { errs = append(errs, fmt.Errorf("%w, input object %s must have at least one field at %d:%d", ErrValidation, t.Name(), t.line, t.col)) } return }`
	const coerce = ` else if co, _ := f.Type.(InCoercer); co != nil && f.Default != nil { if v, err := co.CoerceIn(f.Default); err != nil { errs = append(errs, fmt.Errorf("%w at %d:%d", err, f.line, f.col)) } else { f.Default = v } }`
	switch src {
	case head + tail:
		return "true"
	case head + coerce + tail:
		return "false"
	}
	return unknown("Input.Validate body", c.pos(fd))
}

// eventVarsForm reads (*Root).AddEvent and the subscribe site of ResolveExecutable: are events resolved with an
// empty variable map (D38) or with the variables of the request that subscribed?
func eventVarsForm(c *ctx) string {
	ae, re := c.funcs["Root.AddEvent"], c.funcs["Root.ResolveExecutable"]
	if ae == nil || re == nil {
		return unknown("AddEvent", "root.go")
	}
	a := regexp.MustCompile(`\s+`).ReplaceAllString(c.src(ae.Body), " ")
	r := regexp.MustCompile(`\s+`).ReplaceAllString(c.src(re.Body), " ")
	switch {
	case strings.Contains(a, "vars := map[string]interface{}{}") && strings.Contains(a, "root.resolve(event, vars, s.field, s.field.ConType, MaxResolveDepth)") && !strings.Contains(r, "sub.vars"):
		return "true"
	case !strings.Contains(a, "vars :=") && (strings.Contains(a, "root.resolve(event, s.vars, s.field, s.field.ConType, MaxResolveDepth)") || strings.Contains(a, "root.resolve(event, s.vars, s.field, s.evType, MaxResolveDepth)")) &&
		(strings.Contains(r, "if sub, _ := val.(*Subscription); sub != nil { sub.vars = opVars root.subscribe(sub)") ||
			strings.Contains(r, "if sub, _ := subMap[key].(*Subscription); sub != nil { delete(subMap, key) sub.vars = opVars root.subscribe(sub)")):
		return "false"
	}
	return unknown("AddEvent variables", c.pos(ae))
}

// subOrderForm reads the registration loop of the subscription branch of ResolveExecutable: the subscriptions of
// one request are registered in the iteration order of the result map (D81: random) or in the order the fields
// are written, fragments opened (selKeys, body pinned).
func subOrderForm(c *ctx) string {
	re := c.funcs["Root.ResolveExecutable"]
	if re == nil {
		return unknown("ResolveExecutable", "resolve.go")
	}
	norm := func(n ast.Node) string {
		t := regexp.MustCompile(`(?m)//.*$`).ReplaceAllString(c.src(n), "")
		return regexp.MustCompile(`\s+`).ReplaceAllString(t, " ")
	}
	r := norm(re.Body)
	switch {
	case strings.Contains(r, "for _, val := range subMap { if sub, _ := val.(*Subscription); sub != nil {") && c.funcs["selKeys"] == nil:
		return "true"
	case strings.Contains(r, "for _, key := range selKeys(op.Sels, nil) { if sub, _ := subMap[key].(*Subscription); sub != nil { delete(subMap, key) sub.vars = opVars root.subscribe(sub) found = true } }"):
		sk := c.funcs["selKeys"]
		const want = `{ for _, sel := range sels { switch ts := sel.(type) { case *Field: keys = append(keys, ts.key()) case *Inline: keys = selKeys(ts.Sels, keys) case *FragRef: if ts.Fragment != nil { keys = selKeys(ts.Fragment.Sels, keys) } } } return keys }`
		if sk != nil && norm(sk.Body) == want {
			return "false"
		}
	}
	return unknown("subscription registration loop", c.pos(re))
}

// argsInPlaceForm: are the literals of the parsed request (and the values handed to Input.CoerceIn / List.CoerceIn)
// updated in place (D25), or are new maps and lists built?  All four sites must agree.
func argsInPlaceForm(c *ctx) string {
	norm := func(name string) string {
		fd := c.funcs[name]
		if fd == nil {
			return ""
		}
		t := regexp.MustCompile(`(?m)//.*$`).ReplaceAllString(c.src(fd.Body), "")
		return regexp.MustCompile(`\s+`).ReplaceAllString(t, " ")
	}
	rav, in, li := norm("Root.replaceArgVars"), norm("Input.CoerceIn"), norm("List.CoerceIn")
	if rav == "" || in == "" || li == "" {
		return unknown("argsInPlace functions", "resolve.go")
	}
	inPlace := []bool{
		strings.Contains(rav, "tv[k], ea2 = root.replaceArgVars(vars, v, vt)"),
		strings.Contains(rav, "tv[i], ea2 = root.replaceArgVars(vars, v, mt)"),
		!strings.Contains(in, "tv = cp v = cp"),
		strings.Contains(li, "list[i] = cv"),
	}
	copied := []bool{
		strings.Contains(rav, "cp := make(map[string]interface{}, len(tv))") && strings.Contains(rav, "cp[k], ea2 = root.replaceArgVars(vars, v, vt)") && strings.Contains(rav, "it.CoerceIn(cp)"),
		strings.Contains(rav, "cp := make([]interface{}, len(tv))") && strings.Contains(rav, "cp[i], ea2 = root.replaceArgVars(vars, v, mt)") && strings.Contains(rav, "val = cp"),
		strings.Contains(in, "} else { cp := make(map[string]interface{}, len(tv)) for k, fv := range tv { cp[k] = fv } tv = cp v = cp }"),
		strings.Contains(li, "out := make([]interface{}, len(list))") && strings.Contains(li, "out[i] = cv") && strings.Contains(li, "return out, nil") && !strings.Contains(li, "list[i] = cv"),
	}
	all := func(bs []bool) bool {
		for _, b := range bs {
			if !b {
				return false
			}
		}
		return true
	}
	switch {
	case all(inPlace) && !copied[0] && !copied[1] && !copied[3]:
		return "true"
	case all(copied) && !inPlace[0] && !inPlace[1] && !inPlace[3]:
		return "false"
	}
	return unknown("argsInPlace mixed forms", "resolve.go")
}

// toolForms reads cmd/ggqlgen/main.go.
// omitsDirectives: which definitions do the three loops that attribute definitions to an input file and write
// the -e / -w outputs range over?  Two whole-loop forms are known: `root.Types()` (directive definitions are
// never written: D33) and `allDefs(root)` with the helper bodies and (*Root).Directives as pinned here.
// embedRaw: is the printed SDL copied into the Go raw string literal of the -e output as it is (a backtick ends
// the literal, a carriage return is dropped by the compiler: D73), or through appendRaw, with getSDL reading
// the concatenation back through constString (bodies pinned here)?  Anything else fails closed.
func toolForms(c *ctx) (omitsDirectives, embedRaw string) {
	omitsDirectives, embedRaw = unknown("ggqlgen output loops", "main.go"), unknown("ggqlgen embed writer", "main.go")
	tc, err := load(filepath.Join(filepath.Dir(filepath.Dir(c.dir)), "cmd", "ggqlgen"))
	if err != nil {
		return
	}
	fd := tc.funcs["main"]
	if fd == nil {
		return
	}
	norm := func(n ast.Node, cc *ctx) string {
		t := regexp.MustCompile(`(?m)//.*$`).ReplaceAllString(cc.src(n), "")
		return regexp.MustCompile(`\s+`).ReplaceAllString(t, " ")
	}
	src := norm(fd.Body, tc)
	const rawW, escW = "buf = append(buf, t.SDL(true)...)", "buf = appendRaw(buf, t.SDL(true))"
	form := func(rng, key, embedW string) []string {
		return []string{
			"for _, t := range " + rng + " { if t.Core() || exists[" + key + "] { continue } if e != nil { e.types[" + key + "] = true } if o != nil { o.types[" + key + "] = true } exists[" + key + "] = true }",
			"buf = append(buf, \" = `\"...) for _, t := range " + rng + " { if t.Core() { continue } if e.types[" + key + "] { buf = append(buf, '\\n') " + embedW + " } } buf = append(buf, \"`\\n\"...)",
			"for _, t := range " + rng + " { if t.Core() { continue } if o.types[" + key + "] { buf = append(buf, '\\n') " + rawW + " } }",
		}
	}
	all := func(fs []string) bool {
		for _, f := range fs {
			if strings.Count(src, f) != 1 {
				return false
			}
		}
		return true
	}
	for _, w := range []string{rawW, escW} {
		old := all(form("root.Types()", "t.Name()", w))
		neu := all(form("allDefs(root)", "defKey(t)", w))
		if !old && !neu {
			continue
		}
		switch {
		case old && !strings.Contains(src, "Directives") && !strings.Contains(src, "allDefs"):
			omitsDirectives = "true"
		case neu && strings.Count(src, "allDefs(root)") == 3:
			ad, dk, rd := tc.funcs["allDefs"], tc.funcs["defKey"], c.funcs["Root.Directives"]
			const wantAD = "{ types := root.Types() dirs := root.Directives() defs := make([]ggql.Type, 0, len(types)+len(dirs)) defs = append(defs, types...) return append(defs, dirs...) }"
			const wantDK = "{ if _, ok := t.(*ggql.Directive); ok { return \"@\" + t.Name() } return t.Name() }"
			const wantRD = "{ root.init() return root.dirs.list }"
			if ad != nil && dk != nil && rd != nil && norm(ad.Body, tc) == wantAD && norm(dk.Body, tc) == wantDK && norm(rd.Body, c) == wantRD {
				omitsDirectives = "false"
			}
		}
		gs := tc.funcs["getSDL"]
		if gs == nil {
			return
		}
		gsrc := norm(gs.Body, tc)
		switch {
		case w == rawW && !strings.Contains(src, "appendRaw") && strings.Contains(gsrc, "return []byte(strings.Trim(literal.Value, \"`\")), nil"):
			embedRaw = "true"
		case w == escW && strings.Count(src, "appendRaw") == 1 && strings.Contains(gsrc, "if sdl, ok := constString(vspec.Values[0]); ok { return []byte(sdl), nil }"):
			ar, cs := tc.funcs["appendRaw"], tc.funcs["constString"]
			const wantAR = "{ for i := 0; i < len(s); i++ { switch s[i] { case '`': buf = append(buf, \"` + \\\"`\\\" + `\"...) case '\\r': buf = append(buf, \"` + \\\"\\\\r\\\" + `\"...) default: buf = append(buf, s[i]) } } return buf }"
			const wantCS = "{ switch te := e.(type) { case *ast.BasicLit: if te.Kind == token.STRING { s, err := strconv.Unquote(te.Value) return s, err == nil } case *ast.BinaryExpr: if te.Op == token.ADD { x, xok := constString(te.X) y, yok := constString(te.Y) return x + y, xok && yok } } return \"\", false }"
			if ar != nil && cs != nil && norm(ar.Body, tc) == wantAR && norm(cs.Body, tc) == wantCS {
				embedRaw = "false"
			}
		}
		return
	}
	return
}

// assureSchemaForm reads (*Root).assureSchema and its callers.  Known forms: the operation roots are bound
// once, while root.schema == nil, by a call placed before validate in ParseReader only (D34: a Query type
// arriving in a later load is never bound; a root filled through AddTypes has no schema at all); or an
// implied schema (not given by a schema block) picks up the default root types defined so far on every
// successful ParseReader / AddTypes, after validation, so that a failed load leaves it untouched.
func assureSchemaForm(c *ctx) string {
	fd, pr, at := c.funcs["Root.assureSchema"], c.funcs["Root.ParseReader"], c.funcs["Root.AddTypes"]
	if fd == nil || pr == nil || at == nil {
		return unknown("assureSchema", "root.go")
	}
	norm := func(n ast.Node) string {
		t := regexp.MustCompile(`(?m)//.*$`).ReplaceAllString(c.src(n), "")
		return regexp.MustCompile(`\s+`).ReplaceAllString(t, " ")
	}
	body, prs, ats := norm(fd.Body), norm(pr.Body), norm(at.Body)
	const once = `{ if root.schema == nil { root.schema = &Schema{Object: Object{fields: fieldList{dict: map[string]*FieldDef{}}}} for _, cap := range []string{"Query", "Mutation", "Subscription"} { if t := root.types.get(cap); t != nil { name := strings.ToLower(cap) _ = root.schema.fields.add(&FieldDef{Base: Base{N: name}, Type: t}) } } } }`
	const every = `{ if root.schema == nil { root.schema = &Schema{Object: Object{fields: fieldList{dict: map[string]*FieldDef{}}}, implied: true} } if root.schema.implied { for _, cap := range []string{"Query", "Mutation", "Subscription"} { name := strings.ToLower(cap) if t := root.types.get(cap); t != nil && root.schema.fields.get(name) == nil { _ = root.schema.fields.add(&FieldDef{Base: Base{N: name}, Type: t}) } } } }`
	// `implied` may be mentioned by assureSchema only: a schema block must not produce an implied schema
	others := 0
	for name, f := range c.funcs {
		if name != "Root.assureSchema" && f.Body != nil && strings.Contains(c.src(f.Body), "implied") {
			// (Root.validate may read it, to validate an implied schema that was extended: impliedSchemaForm)
			if name == "Root.validate" && impliedSchemaForm(c) == "false" {
				continue
			}
			others++
		}
	}
	switch {
	case body == once && strings.Contains(prs, "if err == nil { root.assureSchema() err = root.validate() }") &&
		!strings.Contains(ats, "assureSchema") && others == 0:
		return "true"
	case body == every && others == 0 &&
		(strings.Contains(prs, "if err == nil { err = root.validate() } if err != nil { root.types = origTypes root.dirs = origDirs root.schema = origSchema } else { root.assureSchema() } return err") ||
			strings.Contains(prs, "if err == nil { err = root.validate() } if err != nil { unextend() root.types = origTypes root.dirs = origDirs root.schema = origSchema } else { root.assureSchema() } return err")) &&
		strings.Count(prs, "assureSchema") == 1 &&
		strings.Contains(ats, "if err == nil { err = root.validate() } if err != nil { root.types = origTypes root.dirs = origDirs } else { root.assureSchema() } return") &&
		strings.Count(ats, "assureSchema") == 1:
		return "false"
	}
	return unknown("assureSchema form", c.pos(fd))
}

// inputExtendForm reads (*Input).Extend: are the fields of the extension added in the order of the Go map
// that indexes them (D76: the member order of an extended input type differs from run to run) or in the order
// of the list, as the other kinds do?  Whole-body match.
func inputExtendForm(c *ctx) string {
	fd := c.funcs["Input.Extend"]
	if fd == nil {
		return unknown("Input.Extend", "input.go")
	}
	t := regexp.MustCompile(`(?m)//.*$`).ReplaceAllString(c.src(fd.Body), "")
	body := regexp.MustCompile(`\s+`).ReplaceAllString(t, " ")
	const byMap = `{ if ix, ok := x.(*Input); ok { for k, f := range ix.fields.dict { if err := t.fields.add(f); err != nil { return fmt.Errorf("%w: field %s on %s", err, k, t.N) } } } return t.Base.Extend(x) }`
	const byList = `{ if ix, ok := x.(*Input); ok { for _, f := range ix.fields.list { if err := t.fields.add(f); err != nil { return fmt.Errorf("%w: field %s on %s", err, f.N, t.N) } } } return t.Base.Extend(x) }`
	switch body {
	case byMap:
		return "true"
	case byList:
		return "false"
	}
	return unknown("Input.Extend body", c.pos(fd))
}

// rollbackDepthForm: does a failed load take back what its `extend` blocks added to type objects that existed
// before (the tables are copies, the objects are shared: D30)?  Repaired form: addExtends records an undo for
// every type right before it calls Extend on it, ParseReader runs the undos on any error, and the undo of each
// kind restores exactly what that kind's Extend appends to — all bodies are matched whole, so a kind whose
// Extend starts touching something its undo does not restore is an unknown shape.
func rollbackDepthForm(c *ctx) string {
	norm := func(n ast.Node) string {
		t := regexp.MustCompile(`(?m)//.*$`).ReplaceAllString(c.src(n), "")
		return regexp.MustCompile(`\s+`).ReplaceAllString(t, " ")
	}
	pr, ae := c.funcs["Root.ParseReader"], c.funcs["Root.addExtends"]
	if pr == nil || ae == nil {
		return unknown("ParseReader/addExtends", "root.go")
	}
	prs, aes := norm(pr.Body), norm(ae.Body)
	anyUndo := false
	for name := range c.funcs {
		if strings.HasSuffix(name, ".unextend") || strings.HasSuffix(name, ".truncate") {
			anyUndo = true
		}
	}
	if !anyUndo && !strings.Contains(prs, "unextend") && !strings.Contains(aes, "undo") {
		if strings.Contains(prs, "if err == nil { err = root.addExtends(extends...) }") {
			return "true"
		}
		return unknown("ParseReader (shallow form)", c.pos(pr))
	}
	want := map[string]string{
		"Base.unextend":           `{ nd := len(b.Dirs) return func() { b.Dirs = b.Dirs[:nd] } }`,
		"Object.unextend":         `{ base, nf, ni := t.Base.unextend(), len(t.fields.list), len(t.Interfaces) return func() { base() t.fields.truncate(nf) t.Interfaces = t.Interfaces[:ni] } }`,
		"Interface.unextend":      `{ base, nf := t.Base.unextend(), len(t.fields.list) return func() { base() t.fields.truncate(nf) } }`,
		"Input.unextend":          `{ base, nf := t.Base.unextend(), len(t.fields.list) return func() { base() t.fields.truncate(nf) } }`,
		"Enum.unextend":           `{ base, nv := t.Base.unextend(), len(t.values.list) return func() { base() t.values.truncate(nv) } }`,
		"Union.unextend":          `{ base, nm := t.Base.unextend(), len(t.Members) return func() { base() t.Members = t.Members[:nm] } }`,
		"fieldList.truncate":      `{ for _, fd := range fl.list[n:] { delete(fl.dict, fd.Name()) } fl.list = fl.list[:n] }`,
		"inputFieldList.truncate": `{ for _, fd := range il.list[n:] { delete(il.dict, fd.Name()) } il.list = il.list[:n] }`,
		"enumValueList.truncate":  `{ for _, ev := range el.list[n:] { delete(el.dict, string(ev.Value)) } el.list = el.list[:n] }`,
		// what each Extend appends to: exactly what the undo above restores
		"Base.Extend":      `{ for _, du := range x.Directives() { for _, exist := range b.Dirs { if du.Directive.Name() == exist.Directive.Name() { return fmt.Errorf("%w: directive %s already exists on %s", ErrDuplicate, du.Directive.Name(), b.N) } } b.Dirs = append(b.Dirs, du) } return nil }`,
		"Object.Extend":    `{ if ox, ok := x.(*Object); ok { for _, fd := range ox.fields.list { if err := t.fields.add(fd); err != nil { return fmt.Errorf("%w: on %s", err, t.N) } } for _, i := range ox.Interfaces { for _, exist := range t.Interfaces { if i.Name() == exist.Name() { return fmt.Errorf("%w: interface %s already exists on %s", ErrDuplicate, i.Name(), t.N) } } t.Interfaces = append(t.Interfaces, i) } } return t.Base.Extend(x) }`,
		"Schema.Extend":    `{ if ox, ok := x.(*Schema); ok { for _, fd := range ox.fields.list { if err := t.fields.add(fd); err != nil { return fmt.Errorf("%w: on %s", err, t.N) } } } return t.Object.Base.Extend(x) }`,
		"Interface.Extend": `{ if ix, ok := x.(*Interface); ok { for _, f := range ix.fields.list { if err := t.fields.add(f); err != nil { return fmt.Errorf("%w: on %s", err, t.N) } } } return t.Base.Extend(x) }`,
		"Enum.Extend":      `{ if ex, ok := x.(*Enum); ok { for _, ev := range ex.values.list { if err := t.values.add(ev); err != nil { return fmt.Errorf("%w: enum value %s on %s", err, ev.Value, t.N) } } } return t.Base.Extend(x) }`,
		"Union.Extend":     `{ if ux, ok := x.(*Union); ok { for _, m := range ux.Members { for _, exist := range t.Members { if m.Name() == exist.Name() { return fmt.Errorf("%w: union member %s already exists on %s", ErrDuplicate, m.Name(), t.N) } } t.Members = append(t.Members, m) } } return t.Base.Extend(x) }`,
	}
	for name, w := range want {
		fd := c.funcs[name]
		if fd == nil {
			return unknown(name+" missing", "root.go")
		}
		if norm(fd.Body) != w {
			return unknown(name+" body", c.pos(fd))
		}
	}
	// Input.Extend is matched by inputExtendForm; every other Extend either fails or belongs to a kind above
	for name, fd := range c.funcs {
		if strings.HasSuffix(name, ".Extend") && want[name] == "" && name != "Input.Extend" {
			if b := norm(fd.Body); !strings.HasPrefix(b, "{ return fmt.Errorf(") && b != "{ return nil }" {
				return unknown(name+" is an Extend without an undo", c.pos(fd))
			}
		}
	}
	if strings.Contains(aes, "if u, ok := cur.(interface{ unextend() func() }); ok { undos = append(undos, u.unextend()) } if err = cur.Extend(x.Adds); err != nil { return }") &&
		strings.Contains(aes, "var undos []func() undo = func() { for i := len(undos) - 1; 0 <= i; i-- { undos[i]() } }") &&
		strings.Count(aes, ".Extend(") == 1 &&
		strings.Contains(prs, "unextend := func() {} if err == nil { unextend, err = root.addExtends(extends...) } if err == nil { err = root.validate() } if err != nil { unextend() root.types = origTypes") {
		return "false"
	}
	return unknown("addExtends/ParseReader undo wiring", c.pos(ae))
}

// bindingForms reads the two places where the reflection strategy finds the object type of a value at an
// abstract-typed position.  unionFirstCome (D51): the member loop of the `*Union` arm of (*Root).resolve gives up
// at the first member that is neither bound nor binds the value by name, or goes on and reports that only when
// no member matched.  ifaceNeedsBound (D47): (*Root).getReflectType only finds object types already bound to
// the value's Go type, or binds unbound ones through metaCheck as the union arm does.  Whole-body matches.
func bindingForms(c *ctx) (unionFirstCome, ifaceNeedsBound string) {
	unionFirstCome, ifaceNeedsBound = unknown("resolve union arm", "resolve.go"), unknown("getReflectType", "root.go")
	norm := func(n ast.Node) string {
		t := regexp.MustCompile(`(?m)//.*$`).ReplaceAllString(c.src(n), "")
		return regexp.MustCompile(`\s+`).ReplaceAllString(t, " ")
	}
	if fd := c.funcs["Root.getReflectType"]; fd != nil {
		switch norm(fd.Body) {
		case `{ for _, t := range root.types.list { o, _ := t.(*Object) if o != nil { o.mu.Lock() if o.meta == meta { obj = o o.mu.Unlock() break } o.mu.Unlock() } } return }`:
			ifaceNeedsBound = "true"
		case `{ for _, t := range root.types.list { if o, _ := t.(*Object); o != nil { if m, _ := o.metaCheck(meta); m == meta { obj = o break } } } return }`,
			`{ for _, t := range root.types.list { if o, _ := t.(*Object); o != nil { if m, _ := o.metaCheck(meta); m != nil && m == baseType(meta) { obj = o break } } } return }`:
			ifaceNeedsBound = "false"
		default:
			ifaceNeedsBound = unknown("getReflectType body", c.pos(fd))
		}
	}
	fd := c.funcs["Root.resolve"]
	if fd == nil {
		return
	}
	ast.Inspect(fd.Body, func(n ast.Node) bool {
		ts, ok := n.(*ast.TypeSwitchStmt)
		if !ok {
			return true
		}
		for _, cl := range ts.Body.List {
			cc := cl.(*ast.CaseClause)
			if len(cc.List) != 1 || c.src(cc.List[0]) != "*Union" {
				continue
			}
			var parts []string
			for _, st := range cc.Body {
				parts = append(parts, norm(st))
			}
			const head = `resMap := map[string]interface{}{} ; result = resMap ; objType := reflect.TypeOf(obj) ; `
			switch strings.Join(parts, " ; ") {
			case head + `for _, m := range tt.Members { if ot, _ := m.(*Object); ot != nil { if meta, err := ot.metaCheck(objType); err != nil { return nil, []error{err} } else if objType == meta { result, ea = root.resolveFieldSels(obj, vars, field, m, depth-1) break } } }`:
				unionFirstCome = "true"
			case head + `var unbound error ; for _, m := range tt.Members { if ot, _ := m.(*Object); ot != nil { if meta, err := ot.metaCheck(objType); err != nil { if unbound == nil { unbound = err } } else if objType == meta { result, ea = root.resolveFieldSels(obj, vars, field, m, depth-1) unbound = nil break } } } ; if unbound != nil { return nil, []error{unbound} }`,
				head + `var unbound error ; for _, m := range tt.Members { if ot, _ := m.(*Object); ot != nil { if meta, err := ot.metaCheck(objType); err != nil { if unbound == nil { unbound = err } } else if baseType(objType) == meta { result, ea = root.resolveFieldSels(obj, vars, field, m, depth-1) unbound = nil break } } } ; if unbound != nil { return nil, []error{unbound} }`,
				head + `var unbound error ; for _, m := range tt.Members { if ot, _ := m.(*Object); ot != nil { if meta, err := ot.metaCheck(objType); err != nil { if unbound == nil { unbound = err } } else if baseType(objType) == meta { result, ea = root.resolveFieldSels(obj, vars, field, t, depth-1) unbound = nil break } } } ; if unbound != nil { return nil, []error{unbound} }`:
				unionFirstCome = "false"
			default:
				unionFirstCome = unknown("resolve union arm body", c.pos(cc))
			}
		}
		return false
	})
	return
}

// dupKeyForm reads the tail of (*Root).resolveField, where the value of a field is placed in the result map: is a
// response key that is already there replaced (D12: `{ o { a } o { b } }` answers `{o: {b}}`) or merged with
// the earlier value through mergeValue (body pinned)?  Whole-text match of the tail.
func dupKeyForm(c *ctx) string {
	fd := c.funcs["Root.resolveField"]
	if fd == nil {
		return unknown("resolveField", "resolve.go")
	}
	norm := func(n ast.Node) string {
		t := regexp.MustCompile(`(?m)//.*$`).ReplaceAllString(c.src(n), "")
		return regexp.MustCompile(`\s+`).ReplaceAllString(t, " ")
	}
	src := norm(fd.Body)
	const over = `if IsNil(attr) { result[field.key()] = nil } else { var ft Type if fd != nil { ft = fd.Type } var fv interface{} fv, ea2 = root.resolve(attr, vars, field, ft, depth) ea = append(ea, ea2...) result[field.key()] = fv } if depth < MaxResolveDepth { Errors(ea).in(field.key()) } return }`
	const merge = `if IsNil(attr) { if _, has := result[field.key()]; !has { result[field.key()] = nil } } else { var ft Type if fd != nil { ft = fd.Type } var fv interface{} fv, ea2 = root.resolve(attr, vars, field, ft, depth) ea = append(ea, ea2...) if prev, has := result[field.key()]; has { fv = mergeValue(prev, fv) } result[field.key()] = fv } if depth < MaxResolveDepth { Errors(ea).in(field.key()) } return }`
	switch {
	case strings.HasSuffix(src, over) && c.funcs["mergeValue"] == nil:
		return "true"
	case strings.HasSuffix(src, merge):
		mv := c.funcs["mergeValue"]
		const want = `{ switch tp := prev.(type) { case map[string]interface{}: if ta, ok := add.(map[string]interface{}); ok { merged := make(map[string]interface{}, len(tp)+len(ta)) for k, v := range tp { merged[k] = v } for k, v := range ta { if pv, has := merged[k]; has { v = mergeValue(pv, v) } merged[k] = v } return merged } case []interface{}: if ta, ok := add.([]interface{}); ok && len(ta) == len(tp) { merged := make([]interface{}, len(tp)) for i, v := range ta { merged[i] = mergeValue(tp[i], v) } return merged } } return add }`
		if mv != nil && norm(mv.Body) == want {
			return "false"
		}
		return unknown("mergeValue body", c.pos(fd))
	}
	return unknown("resolveField tail", c.pos(fd))
}

// dirUseForms reads three places where a schema depended on whether its definitions arrive in one document or in
// several (found by a sub-agent while looking for a C16 seed):
// dirRequiredUnchecked (D78): validateDirUse does not ask for required arguments — a use that leaves one out is
//   accepted unless the directive was known to the parser (earlier load), which fills in a nil default that then
//   fails coercion;
// dirRefTypeFirst (D79): replaceDirRefs only resolves *Ref — a use `@foo` the parser bound to a *type* named foo
//   (types are looked up first, and only definitions of earlier loads are known to the parser) stays a type;
// extendSchemaNeedsSchema (D80): `extend schema` needs root.schema, which for an implied schema only exists
//   after the first load.  Whole-text matches; two known forms each.
func dirUseForms(c *ctx) (dirRequiredUnchecked, dirRefTypeFirst, extendSchemaNeedsSchema string) {
	dirRequiredUnchecked, dirRefTypeFirst, extendSchemaNeedsSchema = unknown("validateDirUse", "root.go"), unknown("replaceDirRefs", "root.go"), unknown("addExtends schema arm", "root.go")
	norm := func(n ast.Node) string {
		t := regexp.MustCompile(`(?m)//.*$`).ReplaceAllString(c.src(n), "")
		return regexp.MustCompile(`\s+`).ReplaceAllString(t, " ")
	}
	if fd := c.funcs["Root.validateDirUse"]; fd != nil {
		src := norm(fd.Body)
		const req = `for _, da := range d.args.list { if du.Args[da.N] == nil && da.Default == nil { if _, ok := da.Type.(*NonNull); ok { errs = append(errs, fmt.Errorf("%w, directive argument %s for directive %s on %s is required but missing at %d:%d", ErrValidation, da.N, d.Name(), where, du.line, du.col)) } } } var a *Arg`
		switch {
		case strings.Contains(src, req):
			dirRequiredUnchecked = "false"
		case !strings.Contains(src, "d.args.list") && !strings.Contains(src, "required") && strings.Contains(src, "d.Name(), where, loc, du.line, du.col)) } var a *Arg"):
			dirRequiredUnchecked = "true"
		default:
			dirRequiredUnchecked = unknown("validateDirUse body", c.pos(fd))
		}
	}
	if fd := c.funcs["Root.replaceDirRefs"]; fd != nil {
		switch norm(fd.Body) {
		case `{ for _, du := range dirs { t := du.Directive if tt, _ := t.(*Ref); tt != nil { if du.Directive = root.dirs.get(t.Name()); du.Directive == nil { return fmt.Errorf("%w error, '%s' not defined at %d:%d", ErrValidation, t.Name(), du.line, du.col) } } } return }`:
			dirRefTypeFirst = "true"
		case `{ for _, du := range dirs { t := du.Directive if _, ok := t.(*Directive); ok { continue } if d := root.dirs.get(t.Name()); d != nil { du.Directive = d } else if _, ok := t.(*Ref); ok { return fmt.Errorf("%w error, '%s' not defined at %d:%d", ErrValidation, t.Name(), du.line, du.col) } } return }`:
			dirRefTypeFirst = "false"
		default:
			dirRefTypeFirst = unknown("replaceDirRefs body", c.pos(fd))
		}
	}
	if fd := c.funcs["Root.addExtends"]; fd != nil {
		src := norm(fd.Body)
		switch {
		case strings.Contains(src, `} else if schema, _ := x.Adds.(*Schema); schema != nil { if root.schema != nil { undos = append(undos, root.schema.unextend()) } root.assureSchema() cur = root.schema }`) && strings.Count(src, "assureSchema") == 1:
			extendSchemaNeedsSchema = "false"
		case !strings.Contains(src, "assureSchema") && (strings.Contains(src, `} else if schema, _ := x.Adds.(*Schema); schema != nil && root.schema != nil { cur = root.schema }`) || strings.Contains(src, `} else if schema, _ := x.Adds.(*Schema); schema != nil { cur = root.schema }`)):
			extendSchemaNeedsSchema = "true"
		default:
			extendSchemaNeedsSchema = unknown("addExtends schema arm", c.pos(fd))
		}
	}
	return
}

// dirLoopAndTypeLookupForms: (D83) (*Directive).hasDirLoop keeps every directive it has *seen* in `hits`, so a
// directive reached twice by different ways (the same directive on two arguments, a diamond) is reported as a
// loop — or only the directives on the current path (mark on the way in, unmark on the way out).  (D84) the
// `__type(name:)` meta-field looks the name up with GetType, which falls back on the directive table, or in the
// type table only.
func dirLoopAndTypeLookupForms(c *ctx) (dirLoopByVisited, typeLookupFindsDirectives string) {
	dirLoopByVisited, typeLookupFindsDirectives = unknown("hasDirLoop", "directive.go"), unknown("__type lookup", "resolve.go")
	norm := func(n ast.Node) string {
		t := regexp.MustCompile(`(?m)//.*$`).ReplaceAllString(c.src(n), "")
		return regexp.MustCompile(`\s+`).ReplaceAllString(t, " ")
	}
	if fd := c.funcs["Directive.hasDirLoop"]; fd != nil {
		switch norm(fd.Body) {
		case `{ for _, a := range t.args.list { for _, du := range a.Directives() { name := du.Directive.Name() if hits[name] { return []string{t.Name() + "." + a.Name(), name} } hits[name] = true if d2, _ := du.Directive.(*Directive); d2 != nil { if path := d2.hasDirLoop(hits); 0 < len(path) { return append([]string{t.Name() + "." + a.Name()}, path...) } } } } return nil }`:
			dirLoopByVisited = "true"
		case `{ for _, a := range t.args.list { for _, du := range a.Directives() { name := du.Directive.Name() if hits[name] { return []string{t.Name() + "." + a.Name(), name} } if d2, _ := du.Directive.(*Directive); d2 != nil { hits[name] = true path := d2.hasDirLoop(hits) delete(hits, name) if 0 < len(path) { return append([]string{t.Name() + "." + a.Name()}, path...) } } } } return nil }`:
			dirLoopByVisited = "false"
		default:
			dirLoopByVisited = unknown("hasDirLoop body", c.pos(fd))
		}
	}
	if fd := c.funcs["Root.resolveField"]; fd != nil {
		src := norm(fd.Body)
		switch {
		case strings.Contains(src, "name, _ := nv.(string) t = root.GetType(name) if t != nil {"):
			typeLookupFindsDirectives = "true"
		case strings.Contains(src, "name, _ := nv.(string) t = root.types.get(name) if t != nil {"):
			typeLookupFindsDirectives = "false"
		default:
			typeLookupFindsDirectives = unknown("__type lookup", c.pos(fd))
		}
	}
	return
}

// inputNullForm reads the member loop of (*Input).CoerceIn: does an explicit null given for a field that has a
// default take the default (D85: `ov := tv[k]; if ov == nil` does not tell null from absent — the client's null is
// silently altered), or is only a field that is left out defaulted?
func inputNullForm(c *ctx) string {
	fd := c.funcs["Input.CoerceIn"]
	if fd == nil {
		return unknown("Input.CoerceIn", "input.go")
	}
	t := regexp.MustCompile(`(?m)//.*$`).ReplaceAllString(c.src(fd.Body), "")
	src := regexp.MustCompile(`\s+`).ReplaceAllString(t, " ")
	switch {
	case strings.Contains(src, "ov := tv[k] if ov == nil { if f.Default != nil {") && !strings.Contains(src, "given"):
		return "true"
	case strings.Contains(src, `ov, given := tv[k] if ov == nil { if given { if _, ok := f.Type.(*NonNull); ok { return nil, fmt.Errorf("%s is required but missing", k) } } else if f.Default != nil {`):
		return "false"
	}
	return unknown("Input.CoerceIn null / default", c.pos(fd))
}

// dupMembersForm reads (*Union).Validate and (*Object).Validate: is a union member / an implemented interface that
// is written twice in a definition accepted (D89: `Extend` refuses the repetition, so inline and extended forms of
// one definition set disagreed) or reported?  Both must agree.
func dupMembersForm(c *ctx) string {
	u, o := c.funcs["Union.Validate"], c.funcs["Object.Validate"]
	if u == nil || o == nil {
		return unknown("Union/Object.Validate", "union.go")
	}
	norm := func(n ast.Node) string {
		t := regexp.MustCompile(`(?m)//.*$`).ReplaceAllString(c.src(n), "")
		return regexp.MustCompile(`\s+`).ReplaceAllString(t, " ")
	}
	us, os := norm(u.Body), norm(o.Body)
	uNew := strings.Contains(us, `for i, m := range t.Members { for _, m2 := range t.Members[:i] { if m.Name() == m2.Name() { errs = append(errs, fmt.Errorf("%w, union member %s is repeated in %s at %d:%d", ErrValidation, m.Name(), t.Name(), t.line, t.col)) } }`)
	oNew := strings.Contains(os, `for i, it := range t.Interfaces { for _, it2 := range t.Interfaces[:i] { if it.Name() == it2.Name() { errs = append(errs, fmt.Errorf("%w, interface %s is repeated on %s at %d:%d", ErrValidation, it.Name(), t.Name(), t.line, t.col)) } }`)
	switch {
	case uNew && oNew:
		return "false"
	case !strings.Contains(us, "repeated") && !strings.Contains(os, "repeated") && strings.Contains(us, "for _, m := range t.Members {") && strings.Contains(os, "for _, it := range t.Interfaces {"):
		return "true"
	}
	return unknown("Union/Object.Validate repetition check", c.pos(u))
}
