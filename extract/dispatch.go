package main

import (
	"go/ast"
	"strings"
)

// genDispatch reads the strategy switch of resolveField: a tag-less switch whose arms test `res != nil`
// (the object implements Resolver), `root.AnyResolver != nil`, and a default arm calling resolveReflect.
func genDispatch(c *ctx) string {
	fd := c.funcs["Root.resolveField"]
	var b strings.Builder
	b.WriteString("namespace Ggql.Gen\n")
	order := ""
	if fd != nil {
		ast.Inspect(fd.Body, func(n ast.Node) bool {
			sw, ok := n.(*ast.SwitchStmt)
			if !ok || sw.Tag != nil || order != "" {
				return true
			}
			var names []string
			for _, st := range sw.Body.List {
				cc := st.(*ast.CaseClause)
				body := ""
				for _, s := range cc.Body {
					body += c.src(s) + "\n"
				}
				switch {
				case cc.List == nil:
					if strings.Contains(body, "resolveReflect(") {
						names = append(names, "reflect")
					} else {
						names = append(names, "?")
					}
				case len(cc.List) == 1 && c.src(cc.List[0]) == "res != nil" && strings.Contains(body, "res.Resolve("):
					names = append(names, "resolver")
				case len(cc.List) == 1 && c.src(cc.List[0]) == "root.AnyResolver != nil" && strings.Contains(body, "root.AnyResolver.Resolve("):
					names = append(names, "any")
				default:
					names = append(names, "?")
				}
			}
			ok2 := len(names) > 0
			for _, n := range names {
				if n == "?" {
					ok2 = false
				}
			}
			if ok2 && strings.Contains(strings.Join(names, ","), "reflect") {
				order = `["` + strings.Join(names, `", "`) + `"]`
			}
			return true
		})
	}
	if order == "" {
		order = unknown("strategy switch", "resolve.go resolveField")
	}
	b.WriteString("def dispatchOrder : List String := " + order + "\n")
	// ResolveExecutable: the single-operation fall-back, with or without the test that no name was given
	fb := unknown("operation fall-back", "resolve.go ResolveExecutable")
	if re := c.funcs["Root.ResolveExecutable"]; re != nil {
		ast.Inspect(re.Body, func(n ast.Node) bool {
			if is, ok := n.(*ast.IfStmt); ok {
				switch c.src(is.Cond) {
				case "len(exe.Ops) == 1":
					fb = "true"
				case "len(opName) == 0 && len(exe.Ops) == 1", `opName == "" && len(exe.Ops) == 1`:
					fb = "false"
				}
			}
			return true
		})
	}
	b.WriteString("def opFallbackAnyName : Bool := " + fb + "\n")
	b.WriteString("end Ggql.Gen\n")
	return b.String()
}
