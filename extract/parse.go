package main

import (
	"crypto/sha256"
	"fmt"
	"go/ast"
	"go/printer"
	"go/token"
	"regexp"
	"sort"
	"strings"
)

// parserFuncs are the functions the control-flow models Scan / SdlCF / ExeCF were written against.
var parserFiles = []string{"parser.go", "sdlparser.go", "exeparser.go", "executable.go", "fragment.go", "fragref.go", "inline.go", "op.go", "vardef.go", "field.go"}

// skeleton prints a function with comments dropped and string literals emptied (messages are not control
// flow) and hashes it: the models are pinned to these hashes, so any edit of a scanner function breaks
// the obligation `Gen.parserSkeleton = pinned` and sends the check to the correspondence for a verdict.
func skeleton(c *ctx, fd *ast.FuncDecl) string {
	cp := *fd
	cp.Doc = nil
	var lits []*ast.BasicLit
	var olds []string
	ast.Inspect(&cp, func(n ast.Node) bool {
		if bl, ok := n.(*ast.BasicLit); ok && bl.Kind == token.STRING {
			lits = append(lits, bl)
			olds = append(olds, bl.Value)
			bl.Value = `""`
		}
		return true
	})
	var b strings.Builder
	cfg := printer.Config{Mode: printer.RawFormat}
	_ = cfg.Fprint(&b, token.NewFileSet(), &cp)
	for i, bl := range lits {
		bl.Value = olds[i]
	}
	// drop blank differences
	txt := strings.Join(strings.Fields(b.String()), " ")
	return fmt.Sprintf("%x", sha256.Sum256([]byte(txt)))[:12]
}

// emptyTokenGuard reports whether parseSDL's main loop contains an `if` whose condition tests
// `len(token) == 0` (the repair of D01: an empty top-level token is an error instead of a silent retry).
func emptyTokenGuard(c *ctx) string {
	fd := c.funcs["parseSDL"]
	if fd == nil {
		return unknown("parseSDL", "sdlparser.go")
	}
	found := false
	ast.Inspect(fd.Body, func(n ast.Node) bool {
		if is, ok := n.(*ast.IfStmt); ok {
			s := c.src(is.Cond)
			if strings.Contains(s, "len(token) == 0") || strings.Contains(s, `token == ""`) {
				found = true
			}
		}
		return true
	})
	if found {
		return "false"
	}
	return "true"
}

// varTypeGuard reports whether readVarDef refuses a variable definition without a type (`vd.Type == nil`).
func varTypeGuard(c *ctx) string {
	fd := c.funcs["exeParser.readVarDef"]
	if fd == nil {
		return unknown("readVarDef", "exeparser.go")
	}
	found := false
	ast.Inspect(fd.Body, func(n ast.Node) bool {
		if is, ok := n.(*ast.IfStmt); ok && strings.Contains(c.src(is.Cond), "vd.Type == nil") {
			found = true
		}
		return true
	})
	if found {
		return "false"
	}
	return "true"
}

// fieldPosAfterLookahead: does exeParser.readField build the field's location from the counters as they stand
// after readToken (`col: p.col - len(token)`), or from values sampled before the token is read?
func fieldPosAfterLookahead(c *ctx) string {
	fd := c.funcs["exeParser.readField"]
	if fd == nil {
		return unknown("readField", "exeparser.go")
	}
	src := c.src(fd.Body)
	switch {
	case strings.Contains(src, "col: p.col - len(token)"):
		return "true"
	case strings.Contains(src, "line, col := p.line, p.col") && strings.Contains(src, "SelBase{line: line, col: col}") &&
		strings.Index(src, "line, col := p.line, p.col") < strings.Index(src, "p.readToken()"):
		return "false"
	}
	return unknown("readField position", c.pos(fd))
}

// opErrPosAfterLookahead: does parseExe locate "'x' is not a valid executable operation type" from the counters
// after readToken (`p.line, p.col-len(token)`), or from values sampled just before the token is read?
func opErrPosAfterLookahead(c *ctx) string {
	fd := c.funcs["exeParser.parseExe"]
	if fd == nil {
		fd = c.funcs["parseExe"]
	}
	if fd == nil {
		return unknown("parseExe", "exeparser.go")
	}
	src := regexp.MustCompile(`\s+`).ReplaceAllString(c.src(fd.Body), " ")
	const msg = `"'%s' is not a valid executable operation type", token)`
	switch {
	case strings.Contains(src, "parseError(p.line, p.col-len(token), "+msg):
		return "true"
	case strings.Contains(src, "parseError(line, col, "+msg) &&
		strings.Contains(src, "line, col := p.line, p.col token, err = p.readToken()"):
		return "false"
	}
	return unknown("parseExe operation-type error position", c.pos(fd))
}

// fragCondPosAfterToken: is "missing fragment condition" located from the counters after the token was read
// (`p.line, p.col-2`, D70) or from values sampled just before it?
func fragCondPosAfterToken(c *ctx) string {
	fd := c.funcs["exeParser.readFragmentDef"]
	if fd == nil {
		return unknown("readFragmentDef", "exeparser.go")
	}
	src := regexp.MustCompile(`\s+`).ReplaceAllString(regexp.MustCompile(`(?m)//.*$`).ReplaceAllString(c.src(fd.Body), ""), " ")
	switch {
	case strings.Contains(src, `if token, err = p.readToken(); token != "on" { err = parseError(p.line, p.col-2, "missing fragment condition") }`):
		return "true"
	case strings.Contains(src, `line, col := p.line, p.col if token, err = p.readToken(); token != "on" { err = parseError(line, col, "missing fragment condition") }`):
		return "false"
	}
	return unknown("readFragmentDef condition error position", c.pos(fd))
}

// varDefPosAfterToken: is a variable definition located from the counters after its name was read
// (`vd.col = p.col - len(vd.Name)`, D71) or from values sampled before?
func varDefPosAfterToken(c *ctx) string {
	fd := c.funcs["exeParser.readVarDef"]
	if fd == nil {
		return unknown("readVarDef", "exeparser.go")
	}
	src := regexp.MustCompile(`\s+`).ReplaceAllString(regexp.MustCompile(`(?m)//.*$`).ReplaceAllString(c.src(fd.Body), ""), " ")
	switch {
	case strings.Contains(src, "vd.line = p.line vd.col = p.col - len(vd.Name)"):
		return "true"
	case strings.Contains(src, "vd = &VarDef{} line, col := p.line, p.col+1 if vd.Name, err = p.readToken(); err != nil { return }") &&
		strings.Contains(src, "vd.line = line vd.col = col"):
		return "false"
	}
	return unknown("readVarDef position", c.pos(fd))
}

func genParse(c *ctx) string {
	var b strings.Builder
	b.WriteString("namespace Ggql.Gen\n")
	fmt.Fprintf(&b, "def sdlEmptyTokenSpins : Bool := %s\n", emptyTokenGuard(c))
	fmt.Fprintf(&b, "def exeVarTypeOptional : Bool := %s\n", varTypeGuard(c))
	fmt.Fprintf(&b, "def fieldPosAfterLookahead : Bool := %s\n", fieldPosAfterLookahead(c))
	fmt.Fprintf(&b, "def opErrPosAfterLookahead : Bool := %s\n", opErrPosAfterLookahead(c))
	fmt.Fprintf(&b, "def fragCondPosAfterToken : Bool := %s\n", fragCondPosAfterToken(c))
	fmt.Fprintf(&b, "def varDefPosAfterToken : Bool := %s\n", varDefPosAfterToken(c))
	fmt.Fprintf(&b, "def argPosAfterToken : Bool := %s\n", argPosAfterToken(c))
	fmt.Fprintf(&b, "def opLineBeforeSkip : Bool := %s\n", opLineBeforeSkip(c))
	fmt.Fprintf(&b, "def maxParseDepth : Option Nat := %s\n", maxParseDepth(c))
	fmt.Fprintf(&b, "/-- `readFragment`: the type condition of an inline fragment must be a named object / interface / union type (D100, D110) -/\ndef condStrict : Bool := %s\n", condStrict(c))
	fmt.Fprintf(&b, "/-- `readType`: a list type without a member type (`[]`) is a parse error (D107) -/\ndef listNeedsMember : Bool := %s\n", listNeedsMember(c))
	type ent struct{ name, h string }
	var ents []ent
	for name, fd := range c.funcs {
		base := c.fset.Position(fd.Pos()).Filename
		ok := false
		for _, pf := range parserFiles {
			if strings.HasSuffix(base, "/"+pf) {
				ok = true
			}
		}
		if ok && fd.Body != nil {
			ents = append(ents, ent{name, skeleton(c, fd)})
		}
	}
	sort.Slice(ents, func(i, j int) bool { return ents[i].name < ents[j].name })
	b.WriteString("def parserSkeleton : List (String × String) := [\n")
	for i, e := range ents {
		sep := ","
		if i == len(ents)-1 {
			sep = ""
		}
		fmt.Fprintf(&b, "  (%q, %q)%s\n", e.name, e.h, sep)
	}
	b.WriteString("]\nend Ggql.Gen\n")
	return b.String()
}

// condStrict reads the `on` arm of exeParser.readFragment (whole-arm match of the two forms).
func condStrict(c *ctx) string {
	fd := c.funcs["exeParser.readFragment"]
	if fd == nil {
		return unknown("readFragment", "exeparser.go")
	}
	t := regexp.MustCompile(`(?m)//.*$`).ReplaceAllString(c.src(fd.Body), "")
	t = regexp.MustCompile(`\s+`).ReplaceAllString(t, " ")
	switch {
	case strings.Contains(t, `if t, err = p.readType(); err == nil { if _, ok := t.(*Ref); ok { err = parseError(line, col, "type %s not defined", t.Name()) } else { sel, err = p.readInline(t) } }`):
		return "false"
	case strings.Contains(t, `if t, err = p.readType(); err == nil { switch t.(type) { case *Ref, *Directive: err = parseError(line, col, "type %s not defined", t.Name()) case *List, *NonNull: err = parseError(line, col, "a type condition must be a named type, not %s", t.Name()) case nil, *Object, *Interface, *Union, *Schema: sel, err = p.readInline(t) default: err = parseError(line, col, "a type condition must be an object, interface or union type, not %s", t.Name()) } }`):
		return "true"
	}
	return unknown("readFragment on arm", c.pos(fd))
}

// listNeedsMember reads the `[` arm of parser.readType: is a nil inner type refused right after the inner call?
func listNeedsMember(c *ctx) string {
	fd := c.funcs["parser.readType"]
	if fd == nil {
		return unknown("readType", "parser.go")
	}
	t := regexp.MustCompile(`(?m)//.*$`).ReplaceAllString(c.src(fd.Body), "")
	t = regexp.MustCompile(`\s+`).ReplaceAllString(t, " ")
	const inner = "if t, err = p.readType(); err != nil { return } "
	switch {
	case strings.Contains(t, inner+"b, err = p.skipSpace()"):
		return "false"
	case strings.Contains(t, inner+`if t == nil { err = parseError(p.line, p.col, "a list type must have a member type") return } b, err = p.skipSpace()`):
		return "true"
	}
	return unknown("readType list arm", c.pos(fd))
}

// maxParseDepth reads the nesting limit of the scanners (D03): `none` when nothing in the package calls
// `deeper()` and there is no `MaxParseDepth`; `some N` when `var MaxParseDepth = N`, `deeper` / `shallower`
// have the bodies below, and exactly the four recursive constructs (the list and object arms of readValue,
// the list arm of readType, readSelectionSet) call `deeper()` right after re-reading their opening bracket
// and defer `shallower()`.  (The control flow of those functions is pinned by `parserSkeleton`.)
func maxParseDepth(c *ctx) string {
	norm := func(n ast.Node) string {
		t := regexp.MustCompile(`(?m)//.*$`).ReplaceAllString(c.src(n), "")
		return regexp.MustCompile(`\s+`).ReplaceAllString(t, " ")
	}
	limit := ""
	for _, f := range c.files {
		for _, d := range f.Decls {
			gd, ok := d.(*ast.GenDecl)
			if !ok {
				continue
			}
			for _, sp := range gd.Specs {
				vs, ok := sp.(*ast.ValueSpec)
				if !ok || len(vs.Names) != 1 || vs.Names[0].Name != "MaxParseDepth" || len(vs.Values) != 1 {
					continue
				}
				if bl, ok := vs.Values[0].(*ast.BasicLit); ok && regexp.MustCompile(`^[0-9]+$`).MatchString(bl.Value) {
					limit = bl.Value
				} else {
					return unknown("MaxParseDepth value", "parser.go")
				}
			}
		}
	}
	calls := 0
	for _, fd := range c.funcs {
		if fd.Body != nil {
			calls += strings.Count(norm(fd.Body), ".deeper()")
		}
	}
	dp, sh := c.funcs["parser.deeper"], c.funcs["parser.shallower"]
	if limit == "" && dp == nil && sh == nil && calls == 0 {
		return "none"
	}
	if limit == "" || dp == nil || sh == nil {
		return unknown("deeper/shallower/MaxParseDepth", "parser.go")
	}
	if norm(dp.Body) != `{ p.depth++ if MaxParseDepth < p.depth { return parseError(p.line, p.col, "nested deeper than %d", MaxParseDepth) } return nil }` ||
		norm(sh.Body) != `{ p.depth-- }` {
		return unknown("deeper/shallower body", c.pos(dp))
	}
	rv, rt, rs := c.funcs["parser.readValue"], c.funcs["parser.readType"], c.funcs["exeParser.readSelectionSet"]
	if rv == nil || rt == nil || rs == nil {
		return unknown("readValue/readType/readSelectionSet", "parser.go")
	}
	const guard = "if err = p.deeper(); err != nil { return nil, err } defer p.shallower() "
	ok := strings.Count(norm(rv.Body), "_, _ = p.readByte() "+guard+"list := []interface{}{}") == 1 &&
		strings.Count(norm(rv.Body), "_, _ = p.readByte() "+guard+"obj := map[string]interface{}{}") == 1 &&
		strings.Count(norm(rt.Body), "case '[': _, _ = p.readByte() if err = p.deeper(); err != nil { return } defer p.shallower() if t, err = p.readType(); err != nil { return }") == 1 &&
		strings.Count(norm(rs.Body), "_, _ = p.readByte() "+guard+"FOR:") == 1 &&
		calls == 4
	if !ok {
		return unknown("deeper() call sites", c.pos(rv))
	}
	return "(some " + limit + ")"
}

// argPosAfterToken reads (*parser).readArgValue: is the location of an argument computed from the scanner's
// position after the name (and its one-byte look-ahead) has been read (D82: when the name ends its line the
// location is on the next line with a negative column), or sampled before the name is read?
func argPosAfterToken(c *ctx) string {
	fd := c.funcs["parser.readArgValue"]
	if fd == nil {
		return unknown("readArgValue", "parser.go")
	}
	t := regexp.MustCompile(`(?m)//.*$`).ReplaceAllString(c.src(fd.Body), "")
	src := regexp.MustCompile(`\s+`).ReplaceAllString(t, " ")
	switch {
	case strings.HasPrefix(src, "{ av = &ArgValue{} if av.Arg, err = p.readToken(); err != nil { return } av.line = p.line av.col = p.col - len(av.Arg) - 1 if len(av.Arg) == 0 {"):
		return "true"
	case strings.HasPrefix(src, "{ av = &ArgValue{} line, col := p.line, p.col-1 if av.Arg, err = p.readToken(); err != nil { return } av.line = line av.col = col if len(av.Arg) == 0 {"):
		return "false"
	}
	return unknown("readArgValue position", c.pos(fd))
}

// opLineBeforeSkip reads (*exeParser).readOp: after skipping to the operation's name the column is taken from the
// scanner; is the line taken too, or kept from before the skip (D88)?
func opLineBeforeSkip(c *ctx) string {
	fd := c.funcs["exeParser.readOp"]
	if fd == nil {
		return unknown("readOp", "exeparser.go")
	}
	t := regexp.MustCompile(`(?m)//.*$`).ReplaceAllString(c.src(fd.Body), "")
	src := regexp.MustCompile(`\s+`).ReplaceAllString(t, " ")
	const head = "{ op = &Op{Type: opType, SelBase: SelBase{line: p.line, col: p.col}} if _, err = p.skipSpace(); err == nil { "
	switch {
	case strings.HasPrefix(src, head+"op.col = p.col op.Name, err = p.readToken() }"):
		return "true"
	case strings.HasPrefix(src, head+"op.line = p.line op.col = p.col op.Name, err = p.readToken() }"):
		return "false"
	}
	return unknown("readOp position", c.pos(fd))
}
