package main

import (
	"fmt"
	"go/ast"
	"regexp"
	"sort"
	"strings"
)

// genIntro translates the `Resolve` methods of the schema nodes (the introspection graph) into a table
// (Go type, meta-field name) -> Arm.  Every case body must match one of a fixed set of templates after
// the receiver's name has been normalised to `R`.

var introRecvs = []struct{ recv, lean string }{
	{"Root", "root"}, {"Object", "object"}, {"Interface", "iface"}, {"Union", "union"}, {"Enum", "enum"},
	{"Input", "input"}, {"Scalar", "scalar"}, {"List", "list"}, {"NonNull", "nonNull"},
	{"FieldDef", "fieldDef"}, {"Arg", "arg"}, {"InputField", "inputField"}, {"EnumValue", "enumValue"},
	{"Directive", "directive"},
}

var introTemplates = []struct{ re, arm string }{
	{`^$`, ".nil"},
	{`^return nil, nil$`, ".nil"},
	{`^result = string\(Locate\(R\)\)$`, ".kindLocate"},
	{`^result = R\.N$`, ".name"},
	{`^result = string\(R\.Value\)$`, ".name"},
	{`^if 0 < len\(R\.N\) \{ result = R\.N \} else \{ result = schemaStr \}$`, ".nameOrSchema"},
	{`^result = R\.Desc(ription)?$`, ".desc"},
	{`^if R\.getBoolArg\(args, (includeDeprecatedStr|"includeDeprecated")\) \{ result = &R\.fields \} else \{ list := fieldList\{dict: map\[string\]\*FieldDef\{\}\} for _, f := range R\.fields\.list \{ if !f\.isDeprecated\(\) \{ _ = list\.add\(f\) \} \} result = &list \}$`, ".fieldsByArg"},
	{`^if R\.getBoolArg\(args, (includeDeprecatedStr|"includeDeprecated")\) \{ result = &R\.values \} else \{ list := enumValueList\{dict: map\[string\]\*EnumValue\{\}\} for _, ev := range R\.values\.list \{ if !ev\.isDeprecated\(\) \{ _ = list\.add\(ev\) \} \} result = &list \}$`, ".enumValuesByArg"},
	{`^result = &R\.fields$`, ".fieldsAll"},
	{`^result = &R\.values$`, ".enumValuesAll"},
	{`^result = R\.Interfaces$`, ".interfacesPlain"},
	{`^list := newTypeList\(\) ; list\.add\(R\.Interfaces\.\.\.\) ; result = list$`, ".interfaces"},
	{`^result = R\.possibleTypes\(\)$`, ".possibleImpl"},
	{`^list := newTypeList\(\) ; list\.add\(R\.Members\.\.\.\) ; result = list$`, ".members"},
	{`^result = R\.Type$`, ".type"},
	{`^result = R\.Default$`, ".default"},
	{`^switch R\.Default\.\(type\) \{ case nil, string: result = R\.Default default: result = valueString\(R\.Default\) \}$`, ".defaultMixed"},
	{`^result = &R\.args$`, ".args"},
	{`^result = false ; for _, du := range R\.(Dirs|Directives) \{ if du\.Directive\.Name\(\) == deprecatedStr \{ result = true \} \}$`, ".isDeprecated"},
	{`^for _, du := range R\.(Dirs|Directives) \{ if du\.Directive\.Name\(\) == deprecatedStr \{ if av := du\.Args\[(reasonStr|"reason")\]; av != nil \{ result = av\.Value \} \} \}$`, ".deprecationReason"},
	{`^return R\.Name\(\), nil$`, ".wrapperName"},
	{`^return R\.Base, nil$`, ".base"},
	{`^list := make\(\[\]string, 0, len\(R\.On\)\) ; for _, loc := range R\.On \{ list = append\(list, string\(loc\)\) \} ; result = list$`, ".locations"},
	{`^result = R\.types$`, ".types"},
	{`^result = R\.dirs$`, ".directives"},
}

var (
	reIntroConst  = regexp.MustCompile(`^return ("[A-Z_]+"), nil$`)
	reIntroRootOp = regexp.MustCompile(`^var t Type ; if R\.schema != nil \{ if fd := R\.schema\.fields\.get\(string\((OpQuery|OpMutation|OpSubscription)\)\); fd != nil \{ t = fd\.Type \} \} ; result = t$`)
)

func introArm(body, pos string) string {
	for _, t := range introTemplates {
		if regexp.MustCompile(t.re).MatchString(body) {
			return t.arm
		}
	}
	if m := reIntroConst.FindStringSubmatch(body); m != nil {
		return "(.const " + m[1] + ")"
	}
	if m := reIntroRootOp.FindStringSubmatch(body); m != nil {
		return "(.rootOp \"" + strings.ToLower(strings.TrimPrefix(m[1], "Op")) + "\")"
	}
	return unknown("intro_arm", pos)
}

func recvVar(fd *ast.FuncDecl) string {
	if fd.Recv != nil && len(fd.Recv.List) == 1 && len(fd.Recv.List[0].Names) == 1 {
		return fd.Recv.List[0].Names[0].Name
	}
	return "?"
}

func genIntro(c *ctx) string {
	var b strings.Builder
	b.WriteString("import Ggql.Model.IntroArm\nnamespace Ggql.Gen\nopen Ggql.Intro\n")
	var rows []string
	for _, r := range introRecvs {
		fd := c.funcs[r.recv+".Resolve"]
		if fd == nil {
			rows = append(rows, fmt.Sprintf("(.%s, \"\", %s)", r.lean, unknown("intro_missing_"+r.recv, "pkg")))
			continue
		}
		var sw *ast.SwitchStmt
		for _, s := range fd.Body.List {
			if x, ok := s.(*ast.SwitchStmt); ok && sw == nil {
				sw = x
			}
		}
		if sw == nil || c.src(sw.Tag) != "field.Name" {
			rows = append(rows, fmt.Sprintf("(.%s, \"\", %s)", r.lean, unknown("intro_no_switch_"+r.recv, c.pos(fd))))
			continue
		}
		// whatever follows the switch must be the plain return (or the "no such field" error of the wrappers)
		for _, s := range fd.Body.List {
			if s == ast.Stmt(sw) {
				continue
			}
			t := normBody(c, []ast.Stmt{s})
			if t != "return" && t != `return nil, fmt.Errorf("type __Type does not have field %s", field)` {
				rows = append(rows, fmt.Sprintf("(.%s, \"\", %s)", r.lean, unknown("intro_extra_stmt_"+r.recv, c.pos(s))))
			}
		}
		rv := regexp.MustCompile(`\b` + regexp.QuoteMeta(recvVar(fd)) + `\b`)
		for _, cl := range sw.Body.List {
			cc := cl.(*ast.CaseClause)
			body := rv.ReplaceAllString(normBody(c, cc.Body), "R")
			arm := introArm(body, c.pos(cc))
			if cc.List == nil {
				rows = append(rows, fmt.Sprintf("(.%s, \"\", %s)", r.lean, unknown("intro_default_case_"+r.recv, c.pos(cc))))
				continue
			}
			for _, e := range cc.List {
				var name string
				switch x := e.(type) {
				case *ast.BasicLit:
					name = strings.Trim(x.Value, `"`)
				case *ast.Ident:
					if s, ok := constString(c, x.Name); ok {
						name = s
					} else {
						name = "?" + x.Name
					}
				default:
					name = "?"
				}
				if strings.HasPrefix(name, "?") {
					rows = append(rows, fmt.Sprintf("(.%s, \"\", %s)", r.lean, unknown("intro_case_label_"+r.recv, c.pos(cc))))
					continue
				}
				rows = append(rows, fmt.Sprintf("(.%s, %q, %s)", r.lean, name, arm))
			}
		}
	}
	sort.Strings(rows)
	b.WriteString("def introTable : List (GoT × String × Arm) :=\n  [" + strings.Join(rows, ",\n   ") + "]\n")

	// Interface.possibleTypes: objects of root.types that list the interface
	pt := c.funcs["Interface.possibleTypes"]
	ptOK := "false"
	if pt != nil {
		body := normBody(c, pt.Body.List)
		if body == `list := newTypeList() ; for _, pt := range t.Root.types.list { if obj, _ := pt.(*Object); obj != nil { for _, i := range obj.Interfaces { if t == i { list.add(obj) } } } } ; return list` {
			ptOK = "true"
		} else {
			ptOK = unknown("intro_possibleTypes", c.pos(pt))
		}
	}
	fmt.Fprintf(&b, "def possibleTypesScansObjects : Bool := %s\n", ptOK)

	// FieldDef.isDeprecated / EnumValue.isDeprecated: presence of @deprecated
	fdep := "false"
	if f := c.funcs["FieldDef.isDeprecated"]; f != nil && normBody(c, f.Body.List) == `return f.GetDirective(deprecatedStr) != nil` {
		fdep = "true"
	} else {
		fdep = unknown("intro_field_isDeprecated", "fielddef.go")
	}
	edep := "false"
	if f := c.funcs["EnumValue.isDeprecated"]; f != nil && normBody(c, f.Body.List) == `for _, du := range ev.Directives { if du.Directive.Name() == deprecatedStr { isDep = true break } } ; return` {
		edep = "true"
	} else {
		edep = unknown("intro_enum_isDeprecated", "enumvalue.go")
	}
	fmt.Fprintf(&b, "def fieldDeprecatedByDirective : Bool := %s\ndef enumValueDeprecatedByDirective : Bool := %s\n", fdep, edep)

	// resolveField's meta entry points: the literal the container's name is compared with
	qt := unknown("intro_queryType_literal", "resolve.go")
	if rf := c.funcs["Root.resolveField"]; rf != nil {
		ast.Inspect(rf.Body, func(n ast.Node) bool {
			if gd, ok := n.(*ast.GenDecl); ok {
				for _, sp := range gd.Specs {
					if vs, ok := sp.(*ast.ValueSpec); ok && len(vs.Names) == 1 && vs.Names[0].Name == "queryType" && len(vs.Values) == 1 {
						if bl, ok := vs.Values[0].(*ast.BasicLit); ok {
							qt = bl.Value
						}
					}
				}
			}
			return true
		})
		src := regexp.MustCompile(`\s+`).ReplaceAllString(regexp.MustCompile(`(?m)//.*$`).ReplaceAllString(c.src(rf.Body), ""), " ")
		switch {
		case strings.Count(src, "if t.Name() == queryType {") == 2 && qt != "" && !strings.HasPrefix(qt, "unknown"):
			qt = "some " + qt
		case strings.Count(src, "if queryType != nil && t == queryType {") == 2 &&
			strings.Contains(src, `var queryType Type if root.schema != nil { if fd := root.schema.fields.get(string(OpQuery)); fd != nil { queryType = fd.Type } }`):
			// the container is compared with the schema's query root type itself
			qt = "none"
		default:
			qt = unknown("intro_queryType_test", c.pos(rf))
		}
	}
	fmt.Fprintf(&b, "/-- `__type` / `__schema`: `some l` when they are served only if the container type's *name* equals the literal `l`\n(D36); `none` when the container is compared with the schema's query root type -/\ndef metaContainerLiteral : Option String := %s\n", qt)
	// Locate: Go type of a schema node -> location / kind string
	goT := map[string]string{"*Object": "object", "*Interface": "iface", "*Union": "union", "*Enum": "enum", "*Input": "input", "*Scalar": "scalar"}
	var locRows, builtin []string
	if lf := c.funcs["Locate"]; lf != nil {
		ast.Inspect(lf.Body, func(n ast.Node) bool {
			cc, ok := n.(*ast.CaseClause)
			if !ok || len(cc.Body) != 1 {
				return true
			}
			ret, ok := cc.Body[0].(*ast.ReturnStmt)
			if !ok || len(ret.Results) != 1 {
				return true
			}
			id, ok := ret.Results[0].(*ast.Ident)
			if !ok {
				return true
			}
			val, found := locConst(c, id.Name)
			for _, e := range cc.List {
				tn := c.src(e)
				if g, isT := goT[tn]; isT {
					if found {
						locRows = append(locRows, fmt.Sprintf("(.%s, %q)", g, val))
					} else {
						locRows = append(locRows, fmt.Sprintf("(.%s, %s)", g, unknown("intro_loc_const_"+id.Name, c.pos(cc))))
					}
				} else if strings.HasSuffix(tn, "Scalar") && strings.HasPrefix(tn, "*") {
					if found {
						builtin = append(builtin, fmt.Sprintf("%q", val))
					}
				}
			}
			return true
		})
	}
	sort.Strings(locRows)
	sort.Strings(builtin)
	fmt.Fprintf(&b, "def locateTable : List (GoT × String) := [%s]\n", strings.Join(locRows, ", "))
	fmt.Fprintf(&b, "/-- what `Locate` answers for the eight built-in scalar implementations -/\ndef builtinScalarKinds : List String := [%s]\n", strings.Join(builtin, ", "))
	b.WriteString("end Ggql.Gen\n")
	return b.String()
}

// locConst resolves `LocObject = Location("OBJECT")`
func locConst(c *ctx, name string) (string, bool) {
	for _, f := range c.files {
		for _, d := range f.Decls {
			gd, ok := d.(*ast.GenDecl)
			if !ok {
				continue
			}
			for _, sp := range gd.Specs {
				vs, ok := sp.(*ast.ValueSpec)
				if !ok {
					continue
				}
				for i, n := range vs.Names {
					if n.Name != name || i >= len(vs.Values) {
						continue
					}
					if call, ok := vs.Values[i].(*ast.CallExpr); ok && len(call.Args) == 1 && c.src(call.Fun) == "Location" {
						if bl, ok := call.Args[0].(*ast.BasicLit); ok {
							return strings.Trim(bl.Value, `"`), true
						}
					}
				}
			}
		}
	}
	return "", false
}
