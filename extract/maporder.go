package main

import (
	"fmt"
	"go/ast"
	"go/importer"
	"go/types"
	"sort"
	"strings"
)

// genMapOrder lists every `range` over a Go map in the package (type-checked, so a map behind any name is
// found) together with what its body does that could make the iteration order visible: `return` of a value
// inside the loop, `append`, a write to a slice index or a call to an `add` method; `none` when the body only
// writes map entries, sets flags or deletes.  The Lean side pins the list: a new order-dependent loop (the
// shape of D76 and D77, where error lists and member lists came out in map order) breaks `C12_map_order`.
func genMapOrder(c *ctx) string {
	var files []*ast.File
	var names []string
	for n := range c.files {
		names = append(names, n)
	}
	sort.Strings(names)
	for _, n := range names {
		files = append(files, c.files[n])
	}
	info := &types.Info{Types: map[ast.Expr]types.TypeAndValue{}}
	conf := types.Config{Importer: importer.ForCompiler(c.fset, "source", nil), Error: func(error) {}}
	_, _ = conf.Check("ggql", c.fset, files, info)
	type site struct{ fn, expr, kind string }
	var sites []site
	for _, n := range names {
		for _, d := range c.files[n].Decls {
			fd, ok := d.(*ast.FuncDecl)
			if !ok || fd.Body == nil {
				continue
			}
			name := fd.Name.Name
			if fd.Recv != nil && len(fd.Recv.List) == 1 {
				name = recvName(fd.Recv.List[0].Type) + "." + name
			}
			// the statement that follows each statement of a block
			next := map[ast.Stmt]ast.Stmt{}
			ast.Inspect(fd.Body, func(x ast.Node) bool {
				var list []ast.Stmt
				switch t := x.(type) {
				case *ast.BlockStmt:
					list = t.List
				case *ast.CaseClause:
					list = t.Body
				case *ast.CommClause:
					list = t.Body
				}
				for i := 0; i+1 < len(list); i++ {
					next[list[i]] = list[i+1]
				}
				return true
			})
			ast.Inspect(fd.Body, func(x ast.Node) bool {
				rs, ok := x.(*ast.RangeStmt)
				if !ok {
					return true
				}
				if sortedKeys(c, rs, next[rs]) {
					if tv, has := info.Types[rs.X]; has && tv.Type != nil {
						if _, isMap := tv.Type.Underlying().(*types.Map); isMap {
							sites = append(sites, site{name, strings.Join(strings.Fields(c.src(rs.X)), " "), "sorted-keys"})
						}
					}
					return true
				}
				tv, has := info.Types[rs.X]
				if !has || tv.Type == nil {
					sites = append(sites, site{name, c.src(rs.X), "untyped"})
					return true
				}
				if _, isMap := tv.Type.Underlying().(*types.Map); !isMap {
					return true
				}
				kinds := map[string]bool{}
				ast.Inspect(rs.Body, func(y ast.Node) bool {
					switch t := y.(type) {
					case *ast.ReturnStmt:
						if len(t.Results) > 0 {
							kinds["return"] = true
						}
					case *ast.BranchStmt:
						if t.Tok.String() == "break" {
							kinds["break"] = true
						}
					case *ast.CallExpr:
						switch f := t.Fun.(type) {
						case *ast.Ident:
							if f.Name == "append" {
								kinds["append"] = true
							}
						case *ast.SelectorExpr:
							if f.Sel.Name == "add" || strings.HasPrefix(f.Sel.Name, "Write") {
								kinds[f.Sel.Name] = true
							}
						}
					case *ast.AssignStmt:
						for _, l := range t.Lhs {
							if ix, ok := l.(*ast.IndexExpr); ok {
								if lt, has := info.Types[ix.X]; has && lt.Type != nil {
									if _, isSlice := lt.Type.Underlying().(*types.Slice); isSlice {
										kinds["slice-store"] = true
									}
								}
							}
						}
					}
					return true
				})
				var ks []string
				for k := range kinds {
					ks = append(ks, k)
				}
				sort.Strings(ks)
				kind := strings.Join(ks, "+")
				if kind == "" {
					kind = "none"
				}
				sites = append(sites, site{name, strings.Join(strings.Fields(c.src(rs.X)), " "), kind})
				return true
			})
		}
	}
	sort.Slice(sites, func(i, j int) bool {
		if sites[i].fn != sites[j].fn {
			return sites[i].fn < sites[j].fn
		}
		if sites[i].expr != sites[j].expr {
			return sites[i].expr < sites[j].expr
		}
		return sites[i].kind < sites[j].kind
	})
	var b strings.Builder
	b.WriteString("namespace Ggql.Gen\n")
	b.WriteString("/-- (function, ranged map expression, what the loop body does that can expose the order) -/\n")
	b.WriteString("def mapRanges : List (String × String × String) :=\n  [")
	for i, s := range sites {
		if i > 0 {
			b.WriteString(",\n   ")
		}
		b.WriteString(fmt.Sprintf("(%q, %q, %q)", s.fn, s.expr, s.kind))
	}
	b.WriteString("]\nend Ggql.Gen\n")
	return b.String()
}

// sortedKeys: the loop only collects the keys (`ks = append(ks, k)`, or the `Arg` name of the value) and the
// very next statement sorts them (`sort.Strings(ks)`): the map order does not escape.
func sortedKeys(c *ctx, rs *ast.RangeStmt, after ast.Stmt) bool {
	if len(rs.Body.List) != 1 || after == nil {
		return false
	}
	as, ok := rs.Body.List[0].(*ast.AssignStmt)
	if !ok || len(as.Lhs) != 1 || len(as.Rhs) != 1 {
		return false
	}
	call, ok := as.Rhs[0].(*ast.CallExpr)
	if !ok || len(call.Args) != 2 {
		return false
	}
	if f, ok := call.Fun.(*ast.Ident); !ok || f.Name != "append" {
		return false
	}
	target := c.src(as.Lhs[0])
	if c.src(call.Args[0]) != target {
		return false
	}
	elem := c.src(call.Args[1])
	okElem := rs.Key != nil && elem == c.src(rs.Key) && elem != "_"
	if rs.Value != nil && elem == c.src(rs.Value)+".Arg" {
		okElem = true
	}
	if !okElem {
		return false
	}
	es, ok := after.(*ast.ExprStmt)
	if !ok {
		return false
	}
	return strings.Join(strings.Fields(c.src(es.X)), "") == "sort.Strings("+target+")"
}
