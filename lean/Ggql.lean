import Ggql.Wire
import Ggql.Model.Skip
import Ggql.Model.Registry
import Ggql.Proofs.Registry
import Ggql.Props.C09
import Ggql.Props.C09Inst
import Ggql.Props.C19
