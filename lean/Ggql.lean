import Ggql.Wire
import Ggql.Model.Skip
import Ggql.Props.C09
import Ggql.Props.C09Inst
