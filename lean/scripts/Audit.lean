/-
Axiom audit: for every theorem declared in the modules given by prefix, print the axioms it depends on.
Run with `lake env lean scripts/Audit.lean` after setting AUDIT_MODULES (comma-separated module names).
Imports `Ggql` (the whole library) so every property module is in the environment.
-/
import Lean
import Ggql
open Lean Elab Command

elab "#audit_modules" : command => do
  let env ← getEnv
  let mods := ((← IO.getEnv "AUDIT_MODULES").getD "").splitOn ","
  let mut out : Array String := #[]
  for (name, ci) in env.constants.toList do
    match ci with
    | .thmInfo _ =>
      match env.getModuleIdxFor? name with
      | some idx =>
        let m := (env.header.moduleNames[idx.toNat]!).toString
        let last := match name with | .str _ s => s | _ => ""
        if mods.contains m && !name.isInternal && !last.startsWith "eq_" && !last.startsWith "match_" && !last.startsWith "_" && last != "injEq" && last != "inj" && last != "sizeOf_spec" && !last.startsWith "noConfusion" && !last.startsWith "ctorIdx" && !last.endsWith "_sizeOf_spec" then
          let axs ← liftCoreM (collectAxioms name)
          out := out.push s!"AXIOMS {m} {name} {axs.toList}"
      | none => pure ()
    | _ => pure ()
  for l in out.qsort (· < ·) do
    IO.println l

#audit_modules
