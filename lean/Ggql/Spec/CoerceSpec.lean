/-
Specification of leaf coercion, independent of the tables (C04 input side, C05 output side).

`checkOut` / `checkIn` are executable: the driver evaluates them on what the implementation produced,
and the theorems of `Props/C05.lean` / `Props/C04.lean` prove them of the model for every arm that
passes the decidable per-arm test `armSoundOut` / `armSoundIn`.
-/
import Ggql.Model.Coerce
namespace Ggql.Coerce

variable {F : Type}

/-- value range of a Go integer kind, `lo ≤ n < hi` -/
def kindRange : Kind → Option (Int × Int)
  | .int => some (-9223372036854775808, 9223372036854775808)
  | .i8 => some (-128, 128)
  | .i16 => some (-32768, 32768)
  | .i32 => some (-2147483648, 2147483648)
  | .i64 => some (-9223372036854775808, 9223372036854775808)
  | .uint => some (0, 18446744073709551616)
  | .u8 => some (0, 256)
  | .u16 => some (0, 65536)
  | .u32 => some (0, 4294967296)
  | .u64 => some (0, 18446744073709551616)
  | _ => none

def Kind.isInt (k : Kind) : Bool := (kindRange k).isSome
def Kind.isFloat (k : Kind) : Bool := k == .f32 || k == .f64

/-- a Go value is well-formed: integers lie in their kind's range, floats carry a float kind -/
def GoVal.wf : GoVal F → Bool
  | .int k n => (match kindRange k with | some (lo, hi) => decide (lo ≤ n) && decide (n < hi) | none => false)
  | .flt k _ => k.isFloat
  | _ => true

/-- every value of integer kind `k` fits the integer target `t` -/
def fitsIn (k : Kind) (t : NumT) : Bool :=
  match kindRange k, t with
  | some (lo, hi), .i32 => decide (-2147483648 ≤ lo) && decide (hi ≤ 2147483648)
  | some (lo, hi), .i64 => decide (-9223372036854775808 ≤ lo) && decide (hi ≤ 9223372036854775808)
  | _, _ => false

/-- the kind a non-null result of scalar `s` must have -/
def Scalar.outKind : Scalar → Kind
  | .int => .i32 | .int64 => .i64 | .float => .f32 | .float64 => .f64
  | .string => .str | .id => .str | .boolean => .bool | .time => .str

/-- the integer a source value denotes, when it denotes one -/
def intValue (ext : Ext F) : GoVal F → Option Int
  | .int _ n => some n
  | .flt _ x => ext.toIntExact x
  | .str s => parseInt64 s
  | _ => none

/-- **output oracle (C05 leaf).**  `(r, e)` is an acceptable outcome of coercing resolver value `v` to
scalar `s`: the unconverted value never leaks (`e → r = nil`); a non-null result has the JSON shape of
`s`; an Int/Int64 result is in range *and equals the resolver's value* (no silent truncation); a
Float/Float64 result is finite; a String/ID made from an integer is its decimal rendering. -/
def checkOut (ext : Ext F) (s : Scalar) (v : GoVal F) (out : GoVal F × Bool) : Bool :=
  let (r, e) := out
  match r with
  | .nil => true
  | r =>
    !e && r.kind == s.outKind &&
    (match s, r with
     | .int, .int _ n => inRange32 n && intValue ext v == some n
     | .int64, .int _ n => inRange64 n && intValue ext v == some n
     | .float, .flt _ x => ext.isFinite x
     | .float64, .flt _ x => ext.isFinite x
     | .string, .str t => (match v with | .int _ n => t == toString n | _ => true)
     | .id, .str t => (match v with | .int _ n => t == toString n | _ => true)
     | _, _ => true)

/-- the kind a resolver must receive for an argument of scalar `s` -/
def Scalar.inKind : Scalar → Kind
  | .int => .i32 | .int64 => .i64 | .float => .f32 | .float64 => .f64
  | .string => .str | .id => .str | .boolean => .bool | .time => .time

/-- **input oracle (C04 leaf).**  When no error is returned the value handed on conforms to the
declared scalar and denotes what the client wrote: Int within 32 bits and equal to the supplied
number, Float finite, ID the decimal rendering of a supplied integer; with an error the resolver is
not invoked, so the value is irrelevant. -/
def checkIn (ext : Ext F) (s : Scalar) (v : GoVal F) (out : GoVal F × Bool) : Bool :=
  let (r, e) := out
  if e then true else
  match r with
  | .nil => v.kind == .nil
  | r =>
    (r.kind == s.inKind || (s == .int64 && r.kind == .i32)) &&
    (match s, r with
     | .int, .int _ n => inRange32 n && intValue ext v == some n
     | .int64, .int _ n => inRange64 n && intValue ext v == some n
     | .float, .flt _ x => ext.isFinite x
     | .float64, .flt _ x => ext.isFinite x
     | .id, .str t => (match v with | .int _ n => t == toString n | .str t' => t == t' | _ => false)
     | .string, .str t => (match v with | .str t' => t == t' | _ => false)
     | _, _ => true)

/-! ### per-arm soundness tests (decidable; what the table theorems are stated with) -/

/-- is the arm `(k, a)` of scalar `s`'s `CoerceOut` sound for every well-formed value of kind `k`? -/
def armSoundOut (s : Scalar) (k : Kind) (a : Action) : Bool :=
  match a with
  | .failNil => true
  | .asIs => k == .nil || (k == s.outKind && !k.isFloat)   -- a float passed through may be NaN / ±Inf
  | .conv t =>
    (match s, t with
     | .int, .i32 => fitsIn k .i32
     | .int64, .i64 => fitsIn k .i64
     | _, _ => false)              -- conversions to float: finiteness is an `Ext` matter, see `armFiniteOut`
  | .fmtInt => k.isInt && (s == .string || s == .id) && fitsIn k .i64
  | .fmtUint => k.isInt && (s == .string || s == .id)
  | .boolStr => k == .bool && s == .string
  | .symStr => k == .sym && s == .string
  | .neZero => (k.isInt || k.isFloat) && s == .boolean
  | .fmtFloat _ => k.isFloat && s == .string
  | _ => false                     -- every `…Keep` action leaks the unconverted value on failure

/-- is the arm `(k, a)` of scalar `s`'s `CoerceIn` sound? (`…Keep` is harmless here: an error stops the call) -/
def armSoundIn (s : Scalar) (k : Kind) (a : Action) : Bool :=
  match a with
  | .failNil => true
  | .asIs => k == .nil || (k == s.inKind && !k.isFloat) || (s == .int64 && k == .i32)
  | .conv t =>
    (match s, t with
     | .int, .i32 => fitsIn k .i32
     | .int64, .i64 => fitsIn k .i64
     | _, _ => false)
  | .convCheckedKeep t => (s == .int && t == .i32 && (k.isFloat || k.isInt))
  | .fmtInt => k.isInt && s == .id && fitsIn k .i64
  | .parseIntKeep t => k == .str && s == .int64 && t == .i64
  | .timeOfInt => k.isInt && s == .time
  | .timeOfFloat => k.isFloat && s == .time
  | .timeOfIntChk => k.isInt && s == .time
  | .timeOfFloatChk => k.isFloat && s == .time
  | .timeParseKeep => k == .str && s == .time
  | .convStrict t => k.isFloat && ((s == .float && t == .f32) || (s == .float64 && t == .f64))
  | .parseFloatFinite t => k == .str && s == .float64 && t == .f64
  | _ => false

/-- the time scalar's output arms produce a `time`, formatted after the switch -/
def timeSoundOut (k : Kind) (a : Action) : Bool :=
  match a with
  | .failNil => true
  | .asIs => k == .nil || k == .time
  | .timeOfInt => k.isInt
  | .timeOfFloat => k.isFloat
  | .timeOfIntChk => k.isInt
  | .timeOfFloatChk => k.isFloat
  | _ => false

/-- conversions of integers to a float scalar: finite, given the `Ext` laws -/
def floatConvSound (s : Scalar) (k : Kind) (a : Action) : Bool :=
  match s, a with
  | .float, .conv .f32 => k.isInt
  | .float64, .conv .f64 => k.isInt
  | _, _ => false

def armSoundOutT (s : Scalar) (k : Kind) (a : Action) : Bool :=
  if s == .time then timeSoundOut k a else (armSoundOut s k a || floatConvSound s k a)

/-- **response-level arm test.**  With `nullOnErr` (the leaf branch of `resolve` drops the value when
`CoerceOut` returns an error) a `…Keep` arm is sound when its *success* path is: Int64 ← string
(`ParseInt(s, 10, 64)` is the value itself), Int ← string parsed with bit size 32, Boolean ← string,
Time ← string, and the range-checked integer narrowings (`convCheckedKeep`).  Int ← string parsed with
bit size 64 and then narrowed truncates silently, and Float ← string lets "Inf"/"NaN" through: unsound. -/
def armSoundOutR (nullOnErr : Bool) (s : Scalar) (k : Kind) (a : Action) : Bool :=
  armSoundOutT s k a ||
  (nullOnErr &&
    (match s, a with
     | .int64, .parseIntKeep .i64 => k == .str
     | .int, .parseInt32Keep => k == .str
     | .boolean, .parseBoolKeep => k == .str
     | .time, .timeParseKeep => k == .str
     | .int, .convCheckedKeep .i32 => k.isInt
     | .int64, .convCheckedKeep .i64 => k.isInt
     | .float, .convStrict .f32 => k.isFloat
     | .float64, .convStrict .f64 => k.isFloat
     | .float, .parseFloatFinite .f32 => k == .str
     | .float64, .parseFloatFinite .f64 => k == .str
     | _, _ => false))

/-- what the theorems assume of the Go runtime's floats: converting any Go integer gives a finite
float64, and a finite float32 after rounding (|n| < 2^64 ≪ float32 max) -/
structure ExtLaws (ext : Ext F) : Prop where
  ofInt_finite : ∀ n : Int, -18446744073709551616 < n → n < 18446744073709551616 → ext.isFinite (ext.ofInt n) = true
  round32_ofInt_finite : ∀ n : Int, -18446744073709551616 < n → n < 18446744073709551616 →
    ext.isFinite (ext.round32 (ext.ofInt n)) = true
  /-- Go's `int32(x)` of an integral float inside the int32 range is that integer -/
  f2i32_exact : ∀ (x : F) (n : Int), ext.toIntExact x = some n → inRange32 n = true → ext.f2i .i32 x = n

def unsoundOut (s : Scalar) (tbl : Table) : List (Kind × Action) :=
  tbl.arms.filter (fun p => !armSoundOutT s p.1 p.2)

/-- arms unsound at the response level -/
def unsoundOutR (nullOnErr : Bool) (s : Scalar) (tbl : Table) : List (Kind × Action) :=
  tbl.arms.filter (fun p => !armSoundOutR nullOnErr s p.1 p.2)

def armSoundInT (s : Scalar) (k : Kind) (a : Action) : Bool := armSoundIn s k a || floatConvSound s k a

def unsoundIn (s : Scalar) (tbl : Table) : List (Kind × Action) :=
  tbl.arms.filter (fun p => !armSoundInT s p.1 p.2)

end Ggql.Coerce
