/-
RFC 8259 JSON value grammar as a total reader (C07, C18): numbers are kept as their literal text,
strings are decoded; `+Inf`, `NaN`, bare words, unescaped control characters and unterminated strings
are rejected.  Cross-checked against `encoding/json` by the harness on every JSON text either side
produces.
-/
namespace Ggql.Json

inductive JVal where
  | null
  | bool (b : Bool)
  | num (text : List Char)
  | str (s : List Char)
  | arr (xs : List JVal)
  | obj (kvs : List (List Char × JVal))
  deriving Inhabited, Repr

def isWs (c : Char) : Bool := c = ' ' || c = '\t' || c = '\n' || c = '\r'

def skipWs : List Char → List Char
  | [] => []
  | c :: cs => if isWs c then skipWs cs else c :: cs

def isDigit (c : Char) : Bool := '0' ≤ c && c ≤ '9'

def hexVal (c : Char) : Option Nat :=
  if '0' ≤ c ∧ c ≤ '9' then some (c.toNat - 48)
  else if 'a' ≤ c ∧ c ≤ 'f' then some (c.toNat - 87)
  else if 'A' ≤ c ∧ c ≤ 'F' then some (c.toNat - 55)
  else none

/-- string body after the opening quote -/
def readStr : Nat → List Char → List Char → Option (List Char × List Char)
  | 0, _, _ => none
  | _, [], _ => none
  | fuel + 1, c :: cs, acc =>
    if c = '"' then some (acc.reverse, cs)
    else if c.toNat < 32 then none
    else if c = '\\' then
      (match cs with
       | '"' :: r => readStr fuel r ('"' :: acc)
       | '\\' :: r => readStr fuel r ('\\' :: acc)
       | '/' :: r => readStr fuel r ('/' :: acc)
       | 'b' :: r => readStr fuel r ('\x08' :: acc)
       | 'f' :: r => readStr fuel r ('\x0c' :: acc)
       | 'n' :: r => readStr fuel r ('\n' :: acc)
       | 'r' :: r => readStr fuel r ('\r' :: acc)
       | 't' :: r => readStr fuel r ('\t' :: acc)
       | 'u' :: a :: b :: c' :: d :: r =>
         (match hexVal a, hexVal b, hexVal c', hexVal d with
          | some w, some x, some y, some z => readStr fuel r (Char.ofNat (w * 4096 + x * 256 + y * 16 + z) :: acc)
          | _, _, _, _ => none)
       | _ => none)
    else readStr fuel cs (c :: acc)

/-- number = [ "-" ] int [ frac ] [ exp ] -/
def readNum (cs : List Char) : Option (List Char × List Char) :=
  let (sign, r0) := match cs with | '-' :: r => (['-'], r) | r => ([], r)
  let intPart := r0.takeWhile isDigit
  let r1 := r0.dropWhile isDigit
  if intPart.isEmpty then none
  else if intPart.length > 1 && intPart.head? == some '0' then none
  else
    let (frac, r2) := match r1 with
      | '.' :: r => let ds := r.takeWhile isDigit; if ds.isEmpty then ([], r1) else ('.' :: ds, r.dropWhile isDigit)
      | r => ([], r)
    if (match r1 with | '.' :: _ => frac.isEmpty | _ => false) then none
    else
      let (ex, r3) := match r2 with
        | e :: r =>
          if e = 'e' || e = 'E' then
            let (sg, r') := match r with | '+' :: q => (['+'], q) | '-' :: q => (['-'], q) | q => ([], q)
            let ds := r'.takeWhile isDigit
            if ds.isEmpty then ([], r2) else (e :: sg ++ ds, r'.dropWhile isDigit)
          else ([], r2)
        | [] => ([], r2)
      if (match r2 with | e :: _ => (e = 'e' || e = 'E') && ex.isEmpty | [] => false) then none
      else some (sign ++ intPart ++ frac ++ ex, r3)

mutual
def readVal : Nat → List Char → Option (JVal × List Char)
  | 0, _ => none
  | fuel + 1, cs =>
    match skipWs cs with
    | [] => none
    | '"' :: r => (readStr (r.length + 1) r []).map (fun p => (.str p.1, p.2))
    | '[' :: r =>
      (match skipWs r with
       | ']' :: r' => some (.arr [], r')
       | _ => readElems fuel r [])
    | '{' :: r =>
      (match skipWs r with
       | '}' :: r' => some (.obj [], r')
       | _ => readMembers fuel r [])
    | 't' :: 'r' :: 'u' :: 'e' :: r => some (.bool true, r)
    | 'f' :: 'a' :: 'l' :: 's' :: 'e' :: r => some (.bool false, r)
    | 'n' :: 'u' :: 'l' :: 'l' :: r => some (.null, r)
    | c :: r => if c = '-' || isDigit c then (readNum (c :: r)).map (fun p => (.num p.1, p.2)) else none

def readElems : Nat → List Char → List JVal → Option (JVal × List Char)
  | 0, _, _ => none
  | fuel + 1, cs, acc =>
    match readVal fuel cs with
    | none => none
    | some (v, r) =>
      (match skipWs r with
       | ',' :: r' => readElems fuel r' (v :: acc)
       | ']' :: r' => some (.arr (v :: acc).reverse, r')
       | _ => none)

def readMembers : Nat → List Char → List (List Char × JVal) → Option (JVal × List Char)
  | 0, _, _ => none
  | fuel + 1, cs, acc =>
    match skipWs cs with
    | '"' :: r =>
      (match readStr (r.length + 1) r [] with
       | none => none
       | some (k, r1) =>
         (match skipWs r1 with
          | ':' :: r2 =>
            (match readVal fuel r2 with
             | none => none
             | some (v, r3) =>
               (match skipWs r3 with
                | ',' :: r4 => readMembers fuel r4 ((k, v) :: acc)
                | '}' :: r4 => some (.obj ((k, v) :: acc).reverse, r4)
                | _ => none))
          | _ => none))
    | _ => none
end

/-- a complete JSON text: one value, then only white space -/
def read (cs : List Char) : Option JVal :=
  match readVal (cs.length + 1) cs with
  | some (v, rest) => if (skipWs rest).isEmpty then some v else none
  | none => none

end Ggql.Json
