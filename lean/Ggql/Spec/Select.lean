/-
GraphQL June-2018 selection semantics (§6.3 CollectFields / §6.4 CompleteValue), transcribed as an
executable oracle for C01 / C08: response keys grouped and merged, fragments expanded when they apply
to the *concrete* object type, lists mirrored element by element, `__typename` the concrete type.
No depth limit, no caching, no strategies.  Fuel only bounds the nesting of the data graph walk.
-/
import Ggql.Model.Walk
namespace Ggql.Walk.Spec
open Ggql.Walk

/-- concrete object type of a node seen at static type `ty` -/
def concrete (s : Schema) (g : Graph) (node : Nat) (ty : String) : Option String :=
  match s.find ty with
  | some (.object ..) => some ty
  | some (.iface n _) =>
    -- the object type the node's Go type is bound to, if it implements the interface
    (match g[node]? with
     | some nd => (match s.find nd.goType with
                   | some (.object _ _ ifs) => if ifs.contains n then some nd.goType else none
                   | _ => none)
     | none => none)
  | some (.union _ ms) =>
    (match g[node]? with
     | some nd => if ms.contains nd.goType then some nd.goType else none
     | none => none)
  | _ => none

/-- DoesFragmentTypeApply -/
def applies (s : Schema) (obj : String) (cond : Option String) : Bool :=
  match cond with
  | none => true
  | some c =>
    c == obj ||
    (match s.find obj with | some (.object _ _ ifs) => ifs.contains c | _ => false) ||
    (match s.find c with | some (.union _ ms) => ms.contains obj | _ => false)

/-- a collected field: response key, field name, arguments, sub-selections -/
structure CF where
  key : String
  name : String
  args : List ArgVal
  sels : List Sel

/-- CollectFields (fragments are carried inlined; `included` is `Spec.Include`) -/
def collect (s : Schema) (vars : Skip.Vars) (obj : String) : Nat → List Sel → List CF
  | 0, _ => []
  | _, [] => []
  | fuel + 1, sel :: rest =>
    let here : List CF := match sel with
      | .field al name args dirs sels =>
        if Skip.included dirs vars then [⟨if al.isEmpty then name else al, name, args, sels⟩] else []
      | .inline cond dirs sels _ =>
        if Skip.included dirs vars && applies s obj cond then collect s vars obj fuel sels else []
    here ++ collect s vars obj fuel rest

/-- group by response key in order of first appearance, merging sub-selections -/
def group : Nat → List CF → List CF
  | 0, _ => []
  | _, [] => []
  | fuel + 1, f :: rest =>
    let same := rest.filter (fun x => x.key == f.key)
    let others := rest.filter (fun x => x.key != f.key)
    { f with sels := f.sels ++ same.flatMap (·.sels) } :: group fuel others

mutual
/-- ExecuteSelectionSet on a node of concrete object type `obj` -/
def execSels (s : Schema) (g : Graph) (vars : Skip.Vars) : Nat → Nat → String → List Sel → J
  | 0, _, _, _ => .null
  | fuel + 1, node, obj, sels =>
    let cfs := collect s vars obj 1000 sels
    let fields := group (cfs.length + 1) cfs
    .obj (fields.filterMap (fun f =>
      if f.name == "__typename" then some (f.key, .str obj) else
      match getFieldDef s obj f.name with
      | none => none                      -- undefined field: no entry (an error is reported instead)
      | some fd =>
        let fr : FieldRes := match g[node]? with
          | some n => (match n.fields.find? (fun p => p.1 == f.name) with | some p => p.2 | none => { val := .nil })
          | none => { val := .nil }
        if fr.errs > 0 then some (f.key, .null)
        else some (f.key, completeValue s g vars fuel fd.type fr.val f.sels)))

/-- CompleteValue -/
def completeValue (s : Schema) (g : Graph) (vars : Skip.Vars) : Nat → TRef → DVal → List Sel → J
  | 0, _, _, _ => .null
  | _, _, .nil, _ => .null
  | fuel + 1, .nonNull t, v, sels => completeValue s g vars fuel t v sels
  | fuel + 1, .list t, .list xs, sels => .list (xs.map (fun x => completeValue s g vars fuel t x sels))
  | _, .list _, _, _ => .null
  | fuel + 1, .named n, v, sels =>
    match s.find n, v with
    | some (.leaf _), .leaf l => .leaf l
    | some (.leaf _), _ => .null
    | some _, .ref node =>
      (match concrete s g node n with
       | some obj => execSels s g vars fuel node obj sels
       | none => .null)
    | _, _ => .null
end

/-- operation choice (GraphQL's GetOperation): the named operation, or the only one when no name is given;
otherwise none — no name and several operations is ambiguous, also when one of them has no name (such a document
is not valid: LoneAnonymousOperation) -/
def chooseOp (ops : List Op) (name : String) : Option Op :=
  if name.isEmpty then
    (match ops with
     | [o] => some o
     | _ => none)
  else ops.find? (fun o => o.name == name)

def execute (s : Schema) (g : Graph) (vars : Skip.Vars) (ops : List Op) (opName : String) (rootNode : Nat)
    (rootTy : String → Option String) : Option J :=
  match chooseOp ops opName with
  | none => none
  | some op => (rootTy op.kind).map (fun ty => execSels s g vars 1000 rootNode ty op.sels)

end Ggql.Walk.Spec

namespace Ggql.Walk.Spec
open Ggql.Walk

mutual
/-- paths of the resolver failures a request reaches (one per error member), per the same selection
semantics: used by C06's oracle -/
def errSels (s : Schema) (g : Graph) (vars : Skip.Vars) : Nat → Nat → String → List Sel → List (List Seg)
  | 0, _, _, _ => []
  | fuel + 1, node, obj, sels =>
    let cfs := collect s vars obj 1000 sels
    let fields := group (cfs.length + 1) cfs
    fields.flatMap (fun f =>
      if f.name == "__typename" then [] else
      match getFieldDef s obj f.name with
      | none => []
      | some fd =>
        let fr : FieldRes := match g[node]? with
          | some n => (match n.fields.find? (fun p => p.1 == f.name) with | some p => p.2 | none => { val := .nil })
          | none => { val := .nil }
        if fr.errs > 0 then List.replicate fr.errs [Seg.key f.key]
        else (errValue s g vars fuel fd.type fr.val f.sels).map (fun p => Seg.key f.key :: p))

def errValue (s : Schema) (g : Graph) (vars : Skip.Vars) : Nat → TRef → DVal → List Sel → List (List Seg)
  | 0, _, _, _ => []
  | _, _, .nil, _ => []
  | fuel + 1, .nonNull t, v, sels => errValue s g vars fuel t v sels
  | fuel + 1, .list t, .list xs, sels =>
    (xs.zipIdx.map (fun p => (errValue s g vars fuel t p.1 sels).map (fun q => Seg.idx p.2 :: q))).flatten
  | _, .list _, _, _ => []
  | fuel + 1, .named n, v, sels =>
    match s.find n, v with
    | some (.leaf _), _ => []
    | some _, .ref node =>
      (match concrete s g node n with
       | some obj => errSels s g vars fuel node obj sels
       | none => [])
    | _, _ => []
end

def errorPaths (s : Schema) (g : Graph) (vars : Skip.Vars) (ops : List Op) (opName : String) (rootNode : Nat)
    (rootTy : String → Option String) : List (List Seg) :=
  match chooseOp ops opName with
  | none => []
  | some op => (match rootTy op.kind with | some ty => errSels s g vars 1000 rootNode ty op.sels | none => [])

end Ggql.Walk.Spec
