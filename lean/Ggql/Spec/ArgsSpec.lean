/-
Specification of input coercion for C04, written from the property text and the GraphQL June-2018
input-coercion rules, independently of `replaceArgVars` / the tables: what a resolver must receive for
a supplied value at a declared type, or that the field must be refused.
-/
import Ggql.Model.Args
namespace Ggql.Args
open Ggql.Coerce

variable {F : Type}

inductive Exp (F : Type) where
  | must (v : Val F)      -- the resolver must receive exactly this
  | refuse                -- the request must yield an error for this argument and not call the resolver
  | free                  -- the property does not constrain this case
  deriving Inhabited

def Exp.isRefuse : Exp F → Bool
  | .refuse => true
  | _ => false

/-- number denoted by a supplied scalar, not counting strings -/
def numValue (ext : Ext F) : GoVal F → Option Int
  | .int _ n => some n
  | .flt _ x => ext.toIntExact x
  | _ => none

def specScalar (ext : Ext F) (s : Scalar) (g : GoVal F) : Exp F :=
  match g with
  | .nil => .must (.go .nil)
  | g =>
    match s with
    | .int => (match numValue ext g with
               | some n => if inRange32 n then .must (.go (.int .i32 n)) else .refuse
               | none => .refuse)
    | .int64 => (match g with
                 | .int .i32 n => .must (.go (.int .i32 n))   -- same value; ggql hands an int32 on unchanged
                 | .int _ n => if inRange64 n then .must (.go (.int .i64 n)) else .refuse
                 | .str _ => .free
                 | _ => .refuse)
    | .float => (match g with
                 | .int _ n => let x := ext.round32 (ext.ofInt n); if ext.isFinite x then .must (.go (.flt .f32 x)) else .refuse
                 | .flt _ x => let y := ext.round32 x; if ext.isFinite y then .must (.go (.flt .f32 y)) else .refuse
                 | _ => .refuse)
    | .float64 => (match g with
                   | .int _ n => .must (.go (.flt .f64 (ext.ofInt n)))
                   | .flt _ x => if ext.isFinite x then .must (.go (.flt .f64 x)) else .refuse
                   | .str _ => .free
                   | _ => .refuse)
    | .string => (match g with | .str t => .must (.go (.str t)) | _ => .refuse)
    | .id => (match g with
              | .str t => .must (.go (.str t))
              | .int _ n => .must (.go (.str (toString n)))
              | _ => .refuse)
    | .boolean => (match g with | .bool b => .must (.go (.bool b)) | _ => .refuse)
    | .time => .free

def specIn (ext : Ext F) (inputs : List (InputDef F)) : Nat → InT → Val F → Exp F
  | 0, _, _ => .free
  | fuel + 1, t, v =>
    match t with
    | .scalar s => (match v with | .go g => specScalar ext s g | _ => .refuse)
    | .enum vals =>
      (match v with
       | .go .nil => .must (.go .nil)
       | .go (.sym s) => if vals.contains s then .must (.go (.sym s)) else .refuse
       | _ => .refuse)
    | .nonNull b => if v.isNil then .refuse else specIn ext inputs fuel b v
    | .list b =>
      (match v with
       | .go .nil => .must (.go .nil)
       | .list xs =>
         let es := xs.map (specIn ext inputs fuel b)
         if es.any Exp.isRefuse then .refuse
         else if es.all (fun e => match e with | .must _ => true | _ => false) then
           .must (.list (es.filterMap (fun e => match e with | .must v => some v | _ => none)))
         else .free
       | _ => .free)
    | .input name =>
      (match v with
       | .go .nil => .must (.go .nil)
       | .obj kvs =>
         (match inputs.find? (fun d => d.name == name) with
          | none => .free
          | some d =>
            if kvs.any (fun p => !d.fields.any (fun f => f.name == p.1)) then .refuse
            else
              let es := d.fields.map (fun f =>
                match lookup kvs f.name with
                | some ov =>
                  if ov.isNil then
                    (match f.dflt, f.type with
                     | some _, .nonNull _ => (f.name, Exp.refuse)   -- an explicit null is not replaced by the default
                     | some _, _ => (f.name, Exp.free)
                     | none, .nonNull _ => (f.name, Exp.refuse)
                     | none, _ => (f.name, Exp.must (.go .nil)))
                  else (f.name, specIn ext inputs fuel f.type ov)
                | none =>
                  (match f.dflt, f.type with
                   | some _, _ => (f.name, Exp.free)        -- default filled in: key must be present
                   | none, .nonNull _ => (f.name, Exp.refuse)
                   | none, _ => (f.name, Exp.must (.var "<absent>"))))
              if es.any (fun p => p.2.isRefuse) then .refuse else .free)
       | _ => .refuse)

/-- substitute variables as the specification prescribes: a supplied value (including an explicit
null) takes precedence over the default -/
def substVars (vdefs : List (VarDef F)) (supplied : List (String × Val F)) : Nat → Val F → Val F
  | 0, v => v
  | fuel + 1, v =>
    match v with
    | .var n =>
      (match lookup supplied n with
       | some sv => sv
       | none => (match vdefs.find? (fun d => d.name == n) with
                  | some d => d.dflt.getD (.go .nil)
                  | none => .go .nil))
    | .list xs => .list (xs.map (substVars vdefs supplied fuel))
    | .obj kvs => .obj (kvs.map (fun p => (p.1, substVars vdefs supplied fuel p.2)))
    | v => v

/-! ### conformance (the property's first clause, written independently of the coercers) -/

/-- a scalar leaf the resolver may receive for scalar `s`: null, or the declared Go kind, in range / finite -/
def leafOk (ext : Ext F) (s : Scalar) (g : GoVal F) : Bool :=
  match g with
  | .nil => true
  | g =>
    (g.kind == s.inKind || (s == .int64 && g.kind == .i32)) &&
    (match s, g with
     | .int, .int _ n => inRange32 n
     | .int64, .int _ n => inRange64 n
     | .float, .flt _ x => ext.isFinite x
     | .float64, .flt _ x => ext.isFinite x
     | _, _ => true)

def InT.nullable : InT → Bool
  | .nonNull _ => false
  | _ => true

/-- conformance of a value to an input type; `fuel` bounds the nesting looked at -/
def conforms (ext : Ext F) (inputs : List (InputDef F)) : Nat → InT → Val F → Bool
  | 0, _, _ => false
  | fuel + 1, t, v =>
    match t with
    | .scalar s => (match v with | .go g => leafOk ext s g | _ => false)
    | .enum vals => (match v with | .go .nil => true | .go (.sym s) => vals.contains s | _ => false)
    | .nonNull b => !v.isNil && conforms ext inputs fuel b v
    | .list b => (match v with | .go .nil => true | .list xs => xs.all (conforms ext inputs fuel b) | _ => false)
    | .input name =>
      (match v with
       | .go .nil => true
       | .obj kvs =>
         (match inputs.find? (fun d => d.name == name) with
          | none => false
          | some d =>
            kvs.all (fun p => d.fields.any (fun f => f.name == p.1)) &&
            d.fields.all (fun f => match lookup kvs f.name with
              | some fv => conforms ext inputs fuel f.type fv
              | none => f.type.nullable))
       | _ => false)

end Ggql.Args
