/-
The type-system rule catalogue of C13 (DESIGN.md Appendix D) as an independent, executable re-check of
a schema AST: one Boolean function per rule; `wellFormed` is their conjunction.  `Cfg` switches single
rules to the behaviour of the pinned tree (deviation flags), so that the same functions also predict
what the loader accepts.
-/
import Ggql.Model.CharTables
namespace Ggql.Rules

inductive TRef where
  | named (n : String)
  | list (t : TRef)
  | nonNull (t : TRef)
  deriving Repr, Inhabited, DecidableEq

def TRef.base : TRef → String
  | .named n => n
  | .list t => t.base
  | .nonNull t => t.base

structure DirUse where
  name : String
  args : List (String × String)      -- argument name, kind of the literal: int | string | other
  deriving Repr, Inhabited

structure Arg where
  name : String
  type : TRef
  dirs : List DirUse := []
  hasDefault : Bool := false
  deriving Repr, Inhabited

structure Field where
  name : String
  type : TRef
  args : List Arg := []
  dirs : List DirUse := []
  deriving Repr, Inhabited

inductive Def where
  | scalar (name : String) (dirs : List DirUse)
  | enum (name : String) (values : List (String × List DirUse)) (dirs : List DirUse)
  | input (name : String) (fields : List Arg) (dirs : List DirUse)
  | iface (name : String) (fields : List Field) (dirs : List DirUse)
  | object (name : String) (ifaces : List String) (fields : List Field) (dirs : List DirUse)
  | union (name : String) (members : List String) (dirs : List DirUse)
  | directive (name : String) (args : List Arg) (locs : List String)
  | schemaBlock (roots : List (String × String)) (dirs : List DirUse)
  deriving Repr, Inhabited

def Def.name : Def → String
  | .scalar n _ => n | .enum n _ _ => n | .input n _ _ => n | .iface n _ _ => n
  | .object n _ _ _ => n | .union n _ _ => n | .directive n _ _ => n | .schemaBlock _ _ => ""

def Def.isDirective : Def → Bool
  | .directive .. => true
  | _ => false

abbrev Schema := List Def

structure Cfg where
  fieldDirUsesUnchecked : Bool := true    -- D28: uses on fields, field arguments, input fields are not location / argument checked
  argLocIsInputField : Bool := true       -- D29: an argument is located as INPUT_FIELD_DEFINITION
  dupScalarDropped : Bool := true         -- D43: a scalar whose name is taken (by any type) is silently dropped
  dupScalarOverScalar : Bool := true      -- D43s: a scalar whose name is taken by a scalar is silently dropped (the suite declares a Go-registered scalar again)
  dirArgWrapperAccepted : Bool := true    -- D44: directive arguments: List / NonNull of anything pass (`InCoercer`)
  subtypeNarrow : Bool := true            -- D45: covariance only for `T` vs `T!`, lists, non-null — not `Obj!` under `Iface`
  dupMembersAccepted : Bool := true       -- D89: a union member or an implemented interface may be repeated in a definition (an `extend` that repeats one is refused)
  dirLoopByVisited : Bool := true         -- D83: a directive reached twice by different ways counts as a definition loop
  dirRequiredUnchecked : Bool := true     -- D78: a directive use may leave out a required argument (directive and use in one document)

def builtinScalars : List String := ["Int", "Float", "String", "Boolean", "ID", "Int64", "Float64", "Time"]

/-- (name, locations, argument names with types) of the built-in directives -/
def builtinDirectives : List (String × List String × List (String × TRef)) :=
  [("skip", ["FIELD", "FRAGMENT_SPREAD", "INLINE_FRAGMENT"], [("if", .nonNull (.named "Boolean"))]),
   ("include", ["FIELD", "FRAGMENT_SPREAD", "INLINE_FRAGMENT"], [("if", .nonNull (.named "Boolean"))]),
   ("deprecated", ["FIELD_DEFINITION", "ENUM_VALUE"], [("reason", .named "String")]),
   ("go", ["SCHEMA", "QUERY", "MUTATION", "SUBSCRIPTION", "OBJECT", "FIELD_DEFINITION"], [("type", .nonNull (.named "String"))])]

def validLocations : List String :=
  ["SCHEMA", "SCALAR", "OBJECT", "FIELD_DEFINITION", "ARGUMENT_DEFINITION", "INTERFACE", "UNION", "ENUM", "ENUM_VALUE",
   "INPUT_OBJECT", "INPUT_FIELD_DEFINITION", "QUERY", "MUTATION", "SUBSCRIPTION", "FIELD", "FRAGMENT_DEFINITION",
   "FRAGMENT_SPREAD", "INLINE_FRAGMENT", "VARIABLE_DEFINITION"]

variable (charMap : List Nat) (tokenClass : Nat)

/-- R4: a name is non-empty, made of name characters, does not start with a digit nor with `__` -/
def validName (n : String) : Bool :=
  let cs := n.toList
  !cs.isEmpty && cs.all (fun c => CharTables.classAt charMap c == tokenClass) &&
  !(match cs with | c :: _ => '0' ≤ c && c ≤ '9' | [] => false) &&
  !(match cs with | '_' :: '_' :: _ => true | _ => false)

def findType (s : Schema) (n : String) : Option Def := s.find? (fun d => !d.isDirective && d.name == n)

def findDirective (s : Schema) (n : String) : Option (List String × List (String × TRef)) :=
  match s.find? (fun d => d.isDirective && d.name == n) with
  | some (.directive _ args locs) => some (locs, args.map (fun a => (a.name, a.type)))
  | _ => (builtinDirectives.find? (fun b => b.1 == n)).map (·.2)

def typeDefined (s : Schema) (n : String) : Bool := builtinScalars.contains n || (findType s n).isSome

def isInputNamed (s : Schema) (n : String) : Bool :=
  builtinScalars.contains n ||
  (match findType s n with | some (.scalar ..) => true | some (.enum ..) => true | some (.input ..) => true | _ => false)

def isOutputNamed (s : Schema) (n : String) : Bool :=
  builtinScalars.contains n ||
  (match findType s n with
   | some (.scalar ..) => true | some (.enum ..) => true | some (.object ..) => true | some (.iface ..) => true
   | some (.union ..) => true | _ => false)

def nodup (l : List String) : Bool := l.eraseDups.length == l.length

def allTypeRefs : Def → List TRef
  | .input _ fs _ => fs.map (·.type)
  | .iface _ fs _ => fs.flatMap (fun f => f.type :: f.args.map (·.type))
  | .object _ _ fs _ => fs.flatMap (fun f => f.type :: f.args.map (·.type))
  | .directive _ args _ => args.map (·.type)
  | _ => []

def allDirUses : Def → List DirUse
  | .scalar _ ds => ds
  | .enum _ vs ds => ds ++ vs.flatMap (·.2)
  | .input _ fs ds => ds ++ fs.flatMap (·.dirs)
  | .iface _ fs ds => ds ++ fs.flatMap (fun f => f.dirs ++ f.args.flatMap (·.dirs))
  | .object _ _ fs ds => ds ++ fs.flatMap (fun f => f.dirs ++ f.args.flatMap (·.dirs))
  | .union _ _ ds => ds
  | .directive _ args _ => args.flatMap (·.dirs)
  | .schemaBlock _ ds => ds

/-- R12: no non-null directly on a non-null -/
def noDoubleNonNull : TRef → Bool
  | .named _ => true
  | .list t => noDoubleNonNull t
  | .nonNull (.nonNull _) => false
  | .nonNull t => noDoubleNonNull t

/-- R1: every referenced type is defined (through any wrapper nesting; union members; interfaces; schema roots) -/
def ruleRefsDefined (s : Schema) : Bool :=
  s.all (fun d =>
    (allTypeRefs d).all (fun t => typeDefined s t.base) &&
    (match d with
     | .object _ is _ _ => is.all (typeDefined s)
     | .union _ ms _ => ms.all (typeDefined s)
     | .schemaBlock rs _ => rs.all (fun r => typeDefined s r.2)
     | _ => true))

/-- R2: every used directive is defined -/
def ruleDirectivesDefined (s : Schema) : Bool :=
  s.all (fun d => (allDirUses d).all (fun u => (findDirective s u.name).isSome))

/-- R3: unique names -/
def ruleUnique (cfg : Cfg) (s : Schema) : Bool :=
  let tnames := (s.filter (fun d => !d.isDirective && !(match d with | .schemaBlock .. => true | _ => false))).map (·.name)
  let dropScalarDups := fun (ns : List String) =>
    -- D43: a later scalar with a taken name is ignored
    if cfg.dupScalarDropped || cfg.dupScalarOverScalar then
      (s.zipIdx.filter (fun p => !p.1.isDirective && !(match p.1 with | .schemaBlock .. => true | _ => false) &&
        !((match p.1 with | .scalar .. => true | _ => false) &&
          (s.take p.2).any (fun e => !e.isDirective && e.name == p.1.name &&
            (cfg.dupScalarDropped || (match e with | .scalar .. => true | _ => false)))))).map (·.1.name)
    else ns
  nodup (dropScalarDups tnames) && tnames.all (fun n => !builtinScalars.contains n) &&
  nodup ((s.filter (·.isDirective)).map (·.name)) &&
  s.all (fun d => match d with
    | .enum _ vs _ => nodup (vs.map (·.1))
    | .input _ fs _ => nodup (fs.map (·.name))
    | .iface _ fs _ => nodup (fs.map (·.name)) && fs.all (fun f => nodup (f.args.map (·.name)))
    | .object _ _ fs _ => nodup (fs.map (·.name)) && fs.all (fun f => nodup (f.args.map (·.name)))
    | .directive _ as _ => nodup (as.map (·.name))
    | _ => true)

/-- R4: names well-formed and not reserved -/
def ruleNames (s : Schema) : Bool :=
  s.all (fun d =>
    (match d with | .schemaBlock .. => true | _ => validName charMap tokenClass d.name) &&
    (match d with
     | .enum _ vs _ => vs.all (fun v => validName charMap tokenClass v.1)
     | .input _ fs _ => fs.all (fun f => validName charMap tokenClass f.name)
     | .iface _ fs _ => fs.all (fun f => validName charMap tokenClass f.name && f.args.all (fun a => validName charMap tokenClass a.name))
     | .object _ _ fs _ => fs.all (fun f => validName charMap tokenClass f.name && f.args.all (fun a => validName charMap tokenClass a.name))
     | .directive _ as _ => as.all (fun a => validName charMap tokenClass a.name)
     | _ => true))

/-- R5: output types in field positions; input types in argument, input-field and directive-argument positions -/
def ruleInOut (cfg : Cfg) (s : Schema) : Bool :=
  s.all (fun d => match d with
    | .input _ fs _ => fs.all (fun f => isInputNamed s f.type.base)
    | .iface _ fs _ => fs.all (fun f => isOutputNamed s f.type.base && f.args.all (fun a => isInputNamed s a.type.base))
    | .object _ _ fs _ => fs.all (fun f => isOutputNamed s f.type.base && f.args.all (fun a => isInputNamed s a.type.base))
    | .directive _ as _ =>
      as.all (fun a => isInputNamed s a.type.base ||
        (cfg.dirArgWrapperAccepted && (match a.type with | .named _ => false | _ => true)))
    | _ => true)

def typeEq : TRef → TRef → Bool
  | .named a, .named b => a == b
  | .list a, .list b => typeEq a b
  | .nonNull a, .nonNull b => typeEq a b
  | _, _ => false

/-- IsValidImplementationFieldType (June 2018 §3.6.3) -/
def isSubTypeSpec (s : Schema) : TRef → TRef → Bool
  | target, .nonNull sub => (match target with
      | .nonNull t => isSubTypeSpec s t sub
      | t => isSubTypeSpec s t sub)
  | .nonNull _, _ => false
  | .list t, .list sub => isSubTypeSpec s t sub
  | .list _, _ => false
  | .named a, .named b =>
    a == b ||
    (match findType s a, findType s b with
     | some (.union _ ms _), _ => ms.contains b
     | some (.iface ..), some (.object _ is _ _) => is.contains a
     | _, _ => false)
  | .named _, .list _ => false

def peelNonNull : TRef → Option TRef
  | .nonNull b => some b
  | _ => none

/-- the `switch tt := target.(type)` of `Object.isSubType`; `rec` is the recursive call -/
def subStructural (s : Schema) (rec : TRef → TRef → Bool) : TRef → TRef → Bool
  | .named a, .named b =>
    (match findType s a, findType s b with
     | some (.union _ ms _), _ => ms.contains b
     | some (.iface ..), some (.object _ is _ _) => is.contains a
     | _, _ => false)
  | .list t, .list u => rec t u
  | .nonNull t, .nonNull u => rec t u
  | _, _ => false

/-- `Object.isSubType` as coded: equal, or `T` vs `T!`, or the structural cases -/
def isSubTypeCode (s : Schema) : Nat → TRef → TRef → Bool
  | 0, _, _ => false
  | fuel + 1, target, sub =>
    typeEq target sub ||
    (match peelNonNull sub with | some b => typeEq target b | none => false) ||
    subStructural s (isSubTypeCode s fuel) target sub

/-- nesting depth of a type expression -/
def TRef.depth : TRef → Nat
  | .named _ => 0
  | .list t => t.depth + 1
  | .nonNull t => t.depth + 1

/-- `Object.isSubType` after the repair of D45: equal; or the implementation is `U!` and `U` satisfies the
interface type with its own `!` removed; or the union / interface / list cases.  Fuel stands for the Go
recursion, which descends the implementation's type (`sub`) at every call. -/
def isSubTypeFixed (s : Schema) : Nat → TRef → TRef → Bool
  | 0, _, _ => false
  | fuel + 1, target, sub =>
    typeEq target sub ||
    (match sub with
     | .nonNull b => (match target with
        | .nonNull t => isSubTypeFixed s fuel t b
        | t => isSubTypeFixed s fuel t b)
     | _ => (match target, sub with
        | .named a, .named b =>
          (match findType s a, findType s b with
           | some (.union _ ms _), _ => ms.contains b
           | some (.iface ..), some (.object _ is _ _) => is.contains a
           | _, _ => false)
        | .list t, .list u => isSubTypeFixed s fuel t u
        | _, _ => false))

/-- R6: objects provide every interface field with a compatible type and arguments -/
def ruleInterfaces (cfg : Cfg) (s : Schema) : Bool :=
  s.all (fun d => match d with
    | .object _ is fs _ =>
      is.all (fun iname =>
        match findType s iname with
        | some (.iface _ ifs _) =>
          ifs.all (fun fi =>
            match fs.find? (fun f => f.name == fi.name) with
            | none => false
            | some fo =>
              (if cfg.subtypeNarrow then isSubTypeCode s 32 fi.type fo.type else isSubTypeSpec s fi.type fo.type) &&
              fi.args.all (fun ai => fo.args.any (fun ao => ao.name == ai.name)) &&
              fo.args.all (fun ao =>
                match fi.args.find? (fun ai => ai.name == ao.name) with
                | some ai => typeEq ai.type ao.type
                | none => (match ao.type with | .nonNull _ => false | _ => true)))
        | _ => false)
    | _ => true)

/-- R7: unions have at least one member, all objects -/
def ruleUnions (s : Schema) (dupOk : Bool := false) : Bool :=
  s.all (fun d => match d with
    | .union _ ms _ => !ms.isEmpty && ms.all (fun m => match findType s m with | some (.object ..) => true | _ => false) &&
        (dupOk || ms.eraseDups.length == ms.length)
    | .object _ is _ _ => dupOk || is.eraseDups.length == is.length
    | _ => true)

/-- R8: objects, interfaces, enums and input objects are non-empty -/
def ruleNonEmpty (s : Schema) : Bool :=
  s.all (fun d => match d with
    | .enum _ vs _ => !vs.isEmpty
    | .input _ fs _ => !fs.isEmpty
    | .iface _ fs _ => !fs.isEmpty
    | .object _ _ fs _ => !fs.isEmpty
    | _ => true)

/-- R9: enum values are not `true`, `false`, `null` -/
def ruleEnumValues (s : Schema) : Bool :=
  s.all (fun d => match d with
    | .enum _ vs _ => vs.all (fun v => v.1 != "true" && v.1 != "false" && v.1 != "null")
    | _ => true)

/-- is a literal of kind `k` coercible to the declared argument type? (Int/Float/Boolean/String/ID leaves) -/
def literalFits (t : TRef) (k : String) : Bool :=
  match t.base, k with
  | "Int", "int" => true
  | "Float", "int" => true
  | "Float", "float" => true
  | "String", "string" => true
  | "ID", "string" => true
  | "ID", "int" => true
  | "Boolean", "bool" => true
  | _, "null" => (match t with | .nonNull _ => false | _ => true)
  | _, "other" => true
  | _, _ => false

/-- the arguments of directive `n` a use must give: non-null type, no default -/
def requiredArgs (s : Schema) (n : String) : List String :=
  match s.find? (fun d => d.isDirective && d.name == n) with
  | some (.directive _ args _) =>
    (args.filter (fun a => !a.hasDefault && (match a.type with | .nonNull _ => true | _ => false))).map (·.name)
  | _ => []

/-- one use at one location; `req`: required arguments are asked for -/
def useOk (s : Schema) (loc : String) (u : DirUse) (req : Bool := true) : Bool :=
  match findDirective s u.name with
  | none => false
  | some (locs, args) =>
    locs.contains loc &&
    u.args.all (fun a => match args.find? (fun d => d.1 == a.1) with
      | some d => literalFits d.2 a.2
      | none => false) &&
    (!req || (requiredArgs s u.name).all (fun r => u.args.any (fun a => a.1 == r)))

/-- R10: directive uses only at declared locations, with declared and coercible arguments -/
def ruleDirUses (cfg : Cfg) (s : Schema) : Bool :=
  let useOk := fun (s : Schema) (loc : String) (u : DirUse) => useOk s loc u (!cfg.dirRequiredUnchecked)
  let fieldLevel := fun (loc : String) (us : List DirUse) => cfg.fieldDirUsesUnchecked || us.all (useOk s loc)
  s.all (fun d => match d with
    | .scalar _ ds => ds.all (useOk s "SCALAR")
    | .enum _ vs ds => ds.all (useOk s "ENUM") && vs.all (fun v => v.2.all (useOk s "ENUM_VALUE"))
    | .input _ fs ds => ds.all (useOk s "INPUT_OBJECT") && fs.all (fun f => fieldLevel "INPUT_FIELD_DEFINITION" f.dirs)
    | .iface _ fs ds => ds.all (useOk s "INTERFACE") &&
        fs.all (fun f => fieldLevel "FIELD_DEFINITION" f.dirs && f.args.all (fun a => fieldLevel "ARGUMENT_DEFINITION" a.dirs))
    | .object _ _ fs ds => ds.all (useOk s "OBJECT") &&
        fs.all (fun f => fieldLevel "FIELD_DEFINITION" f.dirs && f.args.all (fun a => fieldLevel "ARGUMENT_DEFINITION" a.dirs))
    | .union _ _ ds => ds.all (useOk s "UNION")
    | .directive _ as _ =>
      as.all (fun a => a.dirs.all (useOk s (if cfg.argLocIsInputField then "INPUT_FIELD_DEFINITION" else "ARGUMENT_DEFINITION")))
    | .schemaBlock _ ds => ds.all (useOk s "SCHEMA"))

/-- directives reachable through argument directive uses -/
def dirLoopFrom (s : Schema) : Nat → List String → String → Bool
  | 0, _, _ => true
  | fuel + 1, seen, n =>
    match s.find? (fun d => d.isDirective && d.name == n) with
    | some (.directive _ args _) =>
      (args.flatMap (·.dirs)).any (fun u => seen.contains u.name || dirLoopFrom s fuel (u.name :: seen) u.name)
    | _ => false

/-- the loop test as coded at first (D83): every directive *seen* so far counts, so a directive reached twice by
different ways — on two arguments, or through a diamond — is reported as a loop -/
def dirLoopVisited (s : Schema) : Nat → List String → String → Bool × List String
  | 0, seen, _ => (true, seen)
  | fuel + 1, seen, n =>
    match s.find? (fun d => d.isDirective && d.name == n) with
    | some (.directive _ args _) =>
      (args.flatMap (·.dirs)).foldl (fun (acc : Bool × List String) u =>
        if acc.1 then acc
        else if acc.2.contains u.name then (true, acc.2)
        else dirLoopVisited s fuel (u.name :: acc.2) u.name) (false, seen)
    | _ => (false, seen)

/-- R11: directive locations are valid names; no directive definition cycles -/
def ruleDirectiveDefs (s : Schema) (byVisited : Bool := false) : Bool :=
  s.all (fun d => match d with
    | .directive n _ locs =>
      locs.all (validLocations.contains ·) &&
      !(if byVisited then (dirLoopVisited s 16 [n] n).1 else dirLoopFrom s 16 [n] n)
    | _ => true)

/-- R12: no `!` on `!`; the schema block has only query / mutation / subscription -/
def ruleShapes (s : Schema) : Bool :=
  s.all (fun d =>
    (allTypeRefs d).all noDoubleNonNull &&
    (match d with
     | .schemaBlock rs _ => rs.all (fun r => r.1 == "query" || r.1 == "mutation" || r.1 == "subscription")
     | _ => true))

def checkAll (cfg : Cfg) (s : Schema) : Bool :=
  ruleRefsDefined s && ruleDirectivesDefined s && ruleUnique cfg s && ruleNames charMap tokenClass s && ruleInOut cfg s &&
  ruleInterfaces cfg s && ruleUnions s cfg.dupMembersAccepted && ruleNonEmpty s && ruleEnumValues s && ruleDirUses cfg s &&
  ruleDirectiveDefs s cfg.dirLoopByVisited && ruleShapes s

/-- the property's notion: all rules, no deviation -/
def strict : Cfg :=
  { fieldDirUsesUnchecked := false, argLocIsInputField := false, dupScalarDropped := false, dupScalarOverScalar := false,
    dirArgWrapperAccepted := false, subtypeNarrow := false, dirRequiredUnchecked := false, dirLoopByVisited := false, dupMembersAccepted := false }

def wellFormed (s : Schema) : Bool := checkAll charMap tokenClass strict s

end Ggql.Rules
