/-
Specification of introspection (GraphQL June 2018, §4 "Introspection"), written against the abstract
schema directly — an independent reading, not an interpretation of the code's table.
-/
import Ggql.Model.Intro
namespace Ggql.Intro

/-- §4.5 `__TypeKind` -/
def kindOf (S : Schema) : TRef → Option String
  | .list _ => some "LIST"
  | .nonNull _ => some "NON_NULL"
  | .named n =>
    match S.find n with
    | some (.scalar ..) => some "SCALAR"
    | some (.enum ..) => some "ENUM"
    | some (.input ..) => some "INPUT_OBJECT"
    | some (.iface ..) => some "INTERFACE"
    | some (.object ..) => some "OBJECT"
    | some (.union ..) => some "UNION"
    | none => none

def optType : Option String → Res
  | some t => .node (.type (.named t))
  | none => .null

/-- `reason: String = "No longer supported"` (§3.13 `@deprecated`) -/
def specBareReason : String := "No longer supported"

def depReason : Dep → Res
  | .no => .null
  | .bare => .str specBareReason
  | .reason r => .str r

/-- §4.5.2 `__Type` for a named type -/
def describeNamed (S : Schema) (d : Def) (mf : MF) (inc : Bool) : Res :=
  match mf with
  | .kind => (match kindOf S (.named d.name) with | some k => .str k | none => .null)
  | .name => .str d.name
  | .description => .str d.desc
  | .fields =>
    (match d with
     | .object _ _ _ fs | .iface _ _ fs => .nodes .resolver ((fs.filter (fun f => inc || !f.dep.is)).map .field)
     | _ => .null)
  | .interfaces =>
    (match d with
     | .object _ _ is _ => .nodes .resolver (typeNodes is)
     | _ => .null)
  | .possibleTypes =>
    (match d with
     | .iface n _ _ => .nodes .resolver (typeNodes (implementers S n))
     | .union _ _ ms => .nodes .resolver (typeNodes ms)
     | _ => .null)
  | .enumValues =>
    (match d with
     | .enum _ _ vs => .nodes .resolver ((vs.filter (fun v => inc || !v.dep.is)).map .enumv)
     | _ => .null)
  | .inputFields =>
    (match d with
     | .input _ _ vs => .nodes .resolver (vs.map (fun v => .inval v false))
     | _ => .null)
  | .ofType => .null
  | _ => .noField

/-- §4.5.2 `__Type` for the two wrapping types: no name, no description, `ofType` the wrapped type -/
def describeWrapper (kind : String) (base : TRef) (mf : MF) : Res :=
  match mf with
  | .kind => .str kind
  | .ofType => .node (.type base)
  | .name | .description | .fields | .interfaces | .possibleTypes | .enumValues | .inputFields => .null
  | _ => .noField

def describe (S : Schema) (n : Node) (mf : MF) (inc : Bool) : Res :=
  match n with
  | .schema =>
    (match mf with
     | .types => .nodes .resolver (typeNodes (S.types.map Def.name))
     | .queryType => optType S.query
     | .mutationType => optType S.mutation
     | .subscriptionType => optType S.subscription
     | .directives => .nodes .resolver (S.dirs.map .dir)
     | _ => .noField)
  | .type (.list b) => describeWrapper "LIST" b mf
  | .type (.nonNull b) => describeWrapper "NON_NULL" b mf
  | .type (.named nm) =>
    (match S.find nm with
     | none => .noField
     | some d => describeNamed S d mf inc)
  | .field f =>
    (match mf with
     | .name => .str f.name
     | .description => .str f.desc
     | .args => .nodes .resolver (f.args.map (fun v => .inval v true))
     | .type => .node (.type f.type)
     | .isDeprecated => .bool f.dep.is
     | .deprecationReason => depReason f.dep
     | _ => .noField)
  | .inval v _ =>
    (match mf with
     | .name => .str v.name
     | .description => .str v.desc
     | .type => .node (.type v.type)
     | .defaultValue => .text v.dflt
     | _ => .noField)
  | .enumv e =>
    (match mf with
     | .name => .str e.name
     | .description => .str e.desc
     | .isDeprecated => .bool e.dep.is
     | .deprecationReason => depReason e.dep
     | _ => .noField)
  | .dir d =>
    (match mf with
     | .name => .str d.name
     | .description => .str d.desc
     | .locations => .strs d.locs
     | .args => .nodes .resolver (d.args.map (fun v => .inval v true))
     | _ => .noField)

/-- the specification's list completion: lists are lists (an empty one is `[]`), whatever backs the
application's own data -/
def specComplete : Complete := { emptyResolverIsNull := false, anyInstalled := false, anyLen := id }

/-- the answer the specification gives to an introspection request -/
def introspect (S : Schema) (q : List Top) : List (String × J) × Nat :=
  run (describe S) specComplete S none q

/-! ### the table a faithful implementation would have -/

def specLocate : GoT → Option String
  | .object => some "OBJECT" | .iface => some "INTERFACE" | .union => some "UNION"
  | .enum => some "ENUM" | .input => some "INPUT_OBJECT" | .scalar => some "SCALAR"
  | _ => none

def specCfg : Cfg := { locate := specLocate, bareReason := specBareReason }

def typeCommon (mf : MF) : Option Arm :=
  match mf with
  | .kind => some .kindLocate
  | .name => some .name
  | .description => some .desc
  | .fields | .interfaces | .possibleTypes | .enumValues | .inputFields | .ofType => some .nil
  | _ => none

def specArm : ArmFn := fun g mf =>
  match g, mf with
  | .root, .types => some .types
  | .root, .queryType => some (.rootOp "query")
  | .root, .mutationType => some (.rootOp "mutation")
  | .root, .subscriptionType => some (.rootOp "subscription")
  | .root, .directives => some .directives
  | .root, _ => none
  | .object, .fields => some .fieldsByArg
  | .object, .interfaces => some .interfaces
  | .object, mf => typeCommon mf
  | .iface, .fields => some .fieldsByArg
  | .iface, .possibleTypes => some .possibleImpl
  | .iface, mf => typeCommon mf
  | .union, .possibleTypes => some .members
  | .union, mf => typeCommon mf
  | .enum, .enumValues => some .enumValuesByArg
  | .enum, mf => typeCommon mf
  | .input, .inputFields => some .fieldsAll
  | .input, mf => typeCommon mf
  | .scalar, mf => typeCommon mf
  | .list, .kind => some (.const "LIST")
  | .list, .ofType => some .base
  | .list, .name | .list, .description => some .nil
  | .list, mf => typeCommon mf
  | .nonNull, .kind => some (.const "NON_NULL")
  | .nonNull, .ofType => some .base
  | .nonNull, .name | .nonNull, .description => some .nil
  | .nonNull, mf => typeCommon mf
  | .fieldDef, .name => some .name
  | .fieldDef, .description => some .desc
  | .fieldDef, .args => some .args
  | .fieldDef, .type => some .type
  | .fieldDef, .isDeprecated => some .isDeprecated
  | .fieldDef, .deprecationReason => some .deprecationReason
  | .fieldDef, _ => none
  | .arg, .name | .inputField, .name => some .name
  | .arg, .description | .inputField, .description => some .desc
  | .arg, .type | .inputField, .type => some .type
  | .arg, .defaultValue | .inputField, .defaultValue => some .defaultText
  | .arg, _ | .inputField, _ => none
  | .enumValue, .name => some .name
  | .enumValue, .description => some .desc
  | .enumValue, .isDeprecated => some .isDeprecated
  | .enumValue, .deprecationReason => some .deprecationReason
  | .enumValue, _ => none
  | .directive, .name => some .name
  | .directive, .description => some .desc
  | .directive, .locations => some .locations
  | .directive, .args => some .args
  | .directive, _ => none

end Ggql.Intro
