/-
Model of the subscription registry: `root.go: subscribe, Unsubscribe, AddEvent` (C19, C20).

The slice `root.subscriptions` is a `List Sub`; a `Sub` is the identity of a `*Subscription` (a
counter-assigned id) plus what its `Subscriber.Match` answers.  Subscribers are oracles: which
deliveries fail is an input of each publish.  The Go loops are modelled index by index —

    for i := len(subs) - 1; 0 <= i; i-- { if match(subs[i]) { subs = append(subs[:i], subs[i+1:]...); cleanup } }

is `scanRev` with `List.eraseIdx` — so that a forward scan or a missing re-check is a different model.
-/
namespace Ggql.Registry

/-- what `Subscriber.Match(eventID)` answers: an exact id or a wildcard -/
inductive Pat where
  | exact (id : String)
  | any
  deriving DecidableEq, Repr, Inhabited

def Pat.matches (p : Pat) (ev : String) : Bool :=
  match p with
  | .exact id => id == ev
  | .any => true

structure Sub where
  id : Nat          -- identity of the *Subscription
  pat : Pat
  deriving DecidableEq, Repr, Inhabited

/-- the reverse scan with in-place delete; `i` is the number of indices still to visit
(the Go loop variable is `i - 1`) -/
def scanRev (m : Sub → Bool) : Nat → List Sub → List Sub → Nat → List Sub × List Sub × Nat
  | 0, l, cleaned, cnt => (l, cleaned, cnt)
  | i + 1, l, cleaned, cnt =>
    match l[i]? with
    | some s =>
      if m s then scanRev m i (l.eraseIdx i) (cleaned ++ [s]) (cnt + 1)
      else scanRev m i l cleaned cnt
    | none => scanRev m i l cleaned cnt

structure State where
  next : Nat            -- next fresh identity
  reg : List Sub        -- root.subscriptions, registration order
  deriving Repr, Inhabited

def init : State := { next := 0, reg := [] }

/-- what one call makes observable -/
structure Out where
  delivered : List Nat := []     -- ids that received a message, in order
  cleaned : List Nat := []       -- ids whose clean-up ran, in order
  count : Nat := 0               -- returned count
  deriving DecidableEq, Repr, Inhabited

inductive Op where
  | subscribe (pat : Pat)
  | unsubscribe (ev : String)
  | publish (ev : String) (fails : List Nat)   -- ids whose Send fails on this delivery
  deriving Repr, Inhabited

/-- `root.subscribe`: append under the lock -/
def subscribe (st : State) (pat : Pat) : State × Out :=
  ({ next := st.next + 1, reg := st.reg ++ [⟨st.next, pat⟩] }, {})

/-- `Root.Unsubscribe` -/
def unsubscribe (st : State) (ev : String) : State × Out :=
  let (reg', cleaned, cnt) := scanRev (fun s => s.pat.matches ev) st.reg.length st.reg [] 0
  ({ st with reg := reg' }, { cleaned := cleaned.map (·.id), count := cnt })

/-- phase 1 of `AddEvent`: scan in order, send to every match, collect the failures -/
def deliver (reg : List Sub) (ev : String) (fails : List Nat) : List Sub × List Sub :=
  let matched := reg.filter (fun s => s.pat.matches ev)
  (matched, matched.filter (fun s => fails.contains s.id))

/-- phase 2 of `AddEvent`: for each failed subscription a reverse scan by identity -/
def reap (reg : List Sub) (failed : List Sub) : List Sub × List Sub :=
  failed.foldl (fun (acc : List Sub × List Sub) f =>
    let (reg', cl, _) := scanRev (fun s => s == f) acc.1.length acc.1 [] 0
    (reg', acc.2 ++ cl)) (reg, [])

/-- `Root.AddEvent` run to completion without interference -/
def publish (st : State) (ev : String) (fails : List Nat) : State × Out :=
  let (matched, failed) := deliver st.reg ev fails
  let (reg', cleaned) := reap st.reg failed
  ({ st with reg := reg' },
   { delivered := matched.map (·.id), cleaned := cleaned.map (·.id), count := matched.length })

def step (st : State) : Op → State × Out
  | .subscribe p => subscribe st p
  | .unsubscribe ev => unsubscribe st ev
  | .publish ev fails => publish st ev fails

/-- run a history, collecting the outputs -/
def run (st : State) : List Op → State × List Out
  | [] => (st, [])
  | op :: ops =>
    let (st', o) := step st op
    let (st'', os) := run st' ops
    (st'', o :: os)

/-! ### Abstract specification: a list of live subscribers -/

namespace Spec

def unsubscribe (st : State) (ev : String) : State × Out :=
  let gone := st.reg.filter (fun s => s.pat.matches ev)
  ({ st with reg := st.reg.filter (fun s => !s.pat.matches ev) },
   { cleaned := gone.reverse.map (·.id), count := gone.length })

def publish (st : State) (ev : String) (fails : List Nat) : State × Out :=
  let matched := st.reg.filter (fun s => s.pat.matches ev)
  let failed := matched.filter (fun s => fails.contains s.id)
  ({ st with reg := st.reg.filter (fun s => !failed.contains s) },
   { delivered := matched.map (·.id), cleaned := failed.map (·.id), count := matched.length })

def step (st : State) : Op → State × Out
  | .subscribe p => subscribe st p
  | .unsubscribe ev => unsubscribe st ev
  | .publish ev fails => publish st ev fails

def run (st : State) : List Op → State × List Out
  | [] => (st, [])
  | op :: ops =>
    let (st', o) := step st op
    let (st'', os) := run st' ops
    (st'', o :: os)

end Spec

/-- registry invariant: identities are distinct and below the counter -/
def Inv (st : State) : Prop := (st.reg.map (·.id)).Nodup ∧ ∀ s ∈ st.reg, s.id < st.next

/-! ### The realistic mutation the model must distinguish: forward scan with in-place delete -/

def scanFwd (m : Sub → Bool) : Nat → Nat → List Sub → List Sub → List Sub × List Sub
  | 0, _, l, cleaned => (l, cleaned)
  | fuel + 1, i, l, cleaned =>
    match l[i]? with
    | some s => if m s then scanFwd m fuel (i + 1) (l.eraseIdx i) (cleaned ++ [s]) else scanFwd m fuel (i + 1) l cleaned
    | none => (l, cleaned)

end Ggql.Registry
