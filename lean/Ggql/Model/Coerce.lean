/-
Model of the scalar coercers (C04 input side, C05 output side).

The sixteen `CoerceIn` / `CoerceOut` type switches of the eight built-in scalars are *data*: the
translator turns every `case K: body` into `(K, Action)` (`Gen/Coerce.lean`, regenerated each run).
This file interprets such tables.  Everything the Go runtime decides (float rounding and printing,
float→int conversion outside the target range, `strconv.ParseFloat`, `time.Parse/Format`) is a field
of `Ext`, a parameter of the model: theorems quantify over it, the driver instantiates it with Lean's
native floats, the correspondence run validates the instantiation on boundary values.
-/
namespace Ggql.Coerce

inductive Kind where
  | nil | int | i8 | i16 | i32 | i64 | uint | u8 | u16 | u32 | u64 | f32 | f64 | str | bool | time | sym | other
  deriving DecidableEq, Repr, Inhabited

inductive NumT where
  | i32 | i64 | f32 | f64
  deriving DecidableEq, Repr, Inhabited

inductive Action where
  | asIs
  | conv (t : NumT)                -- v = T(tv)
  | convCheckedKeep (t : NumT)     -- v = T(tv); if K(T(tv)) != tv { err } (K the arm's own type) — value kept
  | failNil                        -- err; v = nil
  | fmtInt                         -- strconv.Itoa(int(tv)) / FormatInt(int64(tv), 10)
  | fmtFloat (bits : Nat)
  | parseIntKeep (t : NumT)        -- on parse error: err, v left as it was
  | parseFloatKeep (t : NumT)
  | parseBoolKeep
  | neZero
  | boolStr
  | symStr
  | timeOfFloat
  | timeOfInt
  | timeParseKeep
  | parseInt32Keep                 -- strconv.ParseInt(tv, 10, 32): syntax or range error: err, v left as it was
  | fmtUint                        -- strconv.FormatUint(uint64(tv), 10), unsigned arms only
  | parseFloatFinite (t : NumT)    -- ParseFloat(tv, 64) [then float32(f)]; a parse error keeps v, a non-finite result is refused with nil
  | convTrunc (t : NumT)           -- float → integer: the fraction is dropped, NaN and values whose truncation does not fit are refused with nil
  | timeOfIntChk                   -- `timeOfInt` for |seconds| ≤ 9223372036 (they fit nanoseconds in an int64), else err + nil
  | timeOfFloatChk                 -- `timeOfFloat` when the truncated seconds are within that bound, else (also NaN, ±Inf) err + nil
  | convStrict (t : NumT)           -- `conv` with the result checked (range / finiteness), else err + nil: the float `CoerceIn` arms
  deriving DecidableEq, Repr, Inhabited

structure Table where
  arms : List (Kind × Action)
  dflt : Action
  formatTime : Bool := false     -- the time scalar's CoerceOut formats `tt` after the switch
  deriving Repr, Inhabited

/-- what the Go runtime decides; `F` is the carrier of float64 values -/
structure Ext (F : Type) where
  toIntExact : F → Option Int     -- `some n` iff finite and integral
  f2i : NumT → F → Int            -- Go's T(x) for an integer target (implementation-defined out of range)
  trunc : F → Option Int          -- the value truncated toward zero; `none` for NaN and ±Inf
  ofInt : Int → F                 -- float64(n)
  round32 : F → F                 -- float64(float32(x))
  isFinite : F → Bool
  isZero : F → Bool
  fmt : Nat → F → String          -- FormatFloat(x, 'g', -1, bits)
  parse : String → Option F       -- ParseFloat(s, 64)
  timeOfFloat : F → Int           -- nanoseconds
  timeParse : String → Option Int
  timeFormat : Int → String

inductive GoVal (F : Type) where
  | nil
  | int (k : Kind) (v : Int)
  | flt (k : Kind) (x : F)        -- k = f32 | f64; an f32 is carried as its float64 widening
  | str (s : String)
  | bool (b : Bool)
  | sym (s : String)
  | time (ns : Int)
  | other (tag : String)
  deriving Repr, Inhabited

variable {F : Type}

def GoVal.kind : GoVal F → Kind
  | .nil => .nil
  | .int k _ => k
  | .flt k _ => k
  | .str _ => .str
  | .bool _ => .bool
  | .sym _ => .sym
  | .time _ => .time
  | .other _ => .other

def NumT.kind : NumT → Kind
  | .i32 => .i32 | .i64 => .i64 | .f32 => .f32 | .f64 => .f64

/-- Go integer conversion: wrap-around -/
def wrapInt (t : NumT) (n : Int) : Int :=
  match t with
  | .i32 => Int.bmod n 4294967296
  | .i64 => Int.bmod n 18446744073709551616
  | _ => n

def inRange32 (n : Int) : Bool := decide (-2147483648 ≤ n) && decide (n < 2147483648)
def inRange64 (n : Int) : Bool := decide (-9223372036854775808 ≤ n) && decide (n < 9223372036854775808)

def isDigit (c : Char) : Bool := '0' ≤ c && c ≤ '9'

def digitsVal (cs : List Char) : Int := cs.foldl (fun acc c => acc * 10 + ((c.toNat - '0'.toNat : Nat) : Int)) 0

/-- sign and magnitude of a decimal literal, before the range check -/
def parseIntRaw (s : String) : Option Int :=
  let cs := s.toList
  let (neg, ds) := match cs with
    | '-' :: r => (true, r)
    | '+' :: r => (false, r)
    | r => (false, r)
  if ds.isEmpty || !ds.all isDigit then none
  else
    let n := digitsVal ds
    some (if neg then -n else n)

/-- `strconv.ParseInt(s, 10, 64)`: optional sign, decimal digits, range-checked -/
def parseInt64 (s : String) : Option Int :=
  match parseIntRaw s with
  | some v => if inRange64 v then some v else none
  | none => none

/-- `strconv.ParseBool` -/
def parseBool (s : String) : Option Bool :=
  if ["1", "t", "T", "TRUE", "true", "True"].contains s then some true
  else if ["0", "f", "F", "FALSE", "false", "False"].contains s then some false
  else none

/-- numeric conversion `T(tv)` of the Go source -/
def convTo (ext : Ext F) (t : NumT) (v : GoVal F) : GoVal F :=
  match v with
  | .int _ n =>
    (match t with
     | .i32 => .int .i32 (wrapInt .i32 n)
     | .i64 => .int .i64 (wrapInt .i64 n)
     | .f32 => .flt .f32 (ext.round32 (ext.ofInt n))
     | .f64 => .flt .f64 (ext.ofInt n))
  | .flt _ x =>
    (match t with
     | .i32 => .int .i32 (ext.f2i .i32 x)
     | .i64 => .int .i64 (ext.f2i .i64 x)
     | .f32 => .flt .f32 (ext.round32 x)
     | .f64 => .flt .f64 x)
  | v => v

/-- one arm: result value and whether an error is returned -/
def applyAction (ext : Ext F) (a : Action) (v : GoVal F) : GoVal F × Bool :=
  match a with
  | .asIs => (v, false)
  | .conv t => (convTo ext t v, false)
  | .convCheckedKeep t =>
    (match v with
     | .flt _ x =>
       (match ext.toIntExact x with
        | some n => if (t == .i32 && inRange32 n) || (t == .i64 && inRange64 n) then (convTo ext t v, false)
                    else (convTo ext t v, true)
        | none => (convTo ext t v, true))
     | .int _ n =>
       -- `v = T(tv); if K(T(tv)) != tv { err }` on an integer: an error exactly when the value does not fit
       if (t == .i32 && inRange32 n) || (t == .i64 && inRange64 n) then (convTo ext t v, false) else (convTo ext t v, true)
     | _ => (convTo ext t v, false))
  | .failNil => (.nil, true)
  | .fmtInt =>
    (match v with
     | .int _ n => (.str (toString (wrapInt .i64 n)), false)
     | _ => (v, false))
  | .fmtFloat bits =>
    (match v with
     | .flt _ x => (.str (ext.fmt bits x), false)
     | _ => (v, false))
  | .parseIntKeep t =>
    (match v with
     | .str s => (match parseInt64 s with
                  | some i => (.int t.kind (wrapInt t i), false)
                  | none => (v, true))
     | _ => (v, false))
  | .parseInt32Keep =>
    (match v with
     | .str s => (match parseInt64 s with
                  | some i => if inRange32 i then (.int .i32 i, false) else (v, true)
                  | none => (v, true))
     | _ => (v, false))
  | .fmtUint =>
    (match v with
     | .int _ n => (.str (toString n), false)
     | _ => (v, false))
  | .parseFloatKeep t =>
    (match v with
     | .str s => (match ext.parse s with
                  | some x => (.flt t.kind (if t == .f32 then ext.round32 x else x), false)
                  | none => (v, true))
     | _ => (v, false))
  | .parseFloatFinite t =>
    (match v with
     | .str s => (match ext.parse s with
                  | some x =>
                    let y := if t == .f32 then ext.round32 x else x
                    if ext.isFinite y then (.flt t.kind y, false) else (.nil, true)
                  | none => (v, true))
     | _ => (v, false))
  | .parseBoolKeep =>
    (match v with
     | .str s => (match parseBool s with
                  | some b => (.bool b, false)
                  | none => (v, true))
     | _ => (v, false))
  | .neZero =>
    (match v with
     | .int _ n => (.bool (n != 0), false)
     | .flt _ x => (.bool (!ext.isZero x), false)
     | _ => (v, false))
  | .boolStr =>
    (match v with
     | .bool b => (.str (if b then "true" else "false"), false)
     | _ => (v, false))
  | .symStr =>
    (match v with
     | .sym s => (.str s, false)
     | _ => (v, false))
  | .timeOfFloat =>
    (match v with
     | .flt _ x => (.time (ext.timeOfFloat x), false)
     | _ => (v, false))
  | .timeOfInt =>
    (match v with
     | .int _ n => (.time (n * 1000000000), false)
     | _ => (v, false))
  | .timeOfIntChk =>
    (match v with
     | .int _ n => if decide (-9223372036 ≤ n) && decide (n ≤ 9223372036) then (.time (n * 1000000000), false) else (.nil, true)
     | _ => (v, false))
  | .timeOfFloatChk =>
    (match v with
     | .flt _ x =>
       (match ext.trunc x with
        | some s => if decide (-9223372036 ≤ s) && decide (s ≤ 9223372036) then (.time (ext.timeOfFloat x), false) else (.nil, true)
        | none => (.nil, true))
     | _ => (v, false))
  | .timeParseKeep =>
    (match v with
     | .str s => (match ext.timeParse s with
                  | some t => (.time t, false)
                  | none => (v, true))
     | _ => (v, false))
  | .convTrunc t =>
    (match v with
     | .flt _ x =>
       (match ext.trunc x with
        | some n => if (t == .i32 && inRange32 n) || (t == .i64 && inRange64 n) then (.int t.kind n, false) else (.nil, true)
        | none => (.nil, true))
     | _ => (v, false))
  | .convStrict t =>
    (match t, v with
     | .i32, .int _ n => if inRange32 n then (.int .i32 n, false) else (.nil, true)
     | .i64, .int _ n => if inRange64 n then (.int .i64 n, false) else (.nil, true)
     | .i32, .flt _ x => (match ext.toIntExact x with
                          | some n => if inRange32 n then (.int .i32 n, false) else (.nil, true)
                          | none => (.nil, true))
     | .i64, .flt _ x => (match ext.toIntExact x with
                          | some n => if inRange64 n then (.int .i64 n, false) else (.nil, true)
                          | none => (.nil, true))
     | t, v =>
       (match convTo ext t v with
        | .flt k x => if ext.isFinite x then (.flt k x, false) else (.nil, true)
        | r => (r, false)))

def Table.armFor (tbl : Table) (k : Kind) : Action :=
  match tbl.arms.find? (fun p => p.1 == k) with
  | some (_, a) => a
  | none => tbl.dflt

/-- the whole `CoerceIn` / `CoerceOut` of one scalar -/
def coerce (ext : Ext F) (tbl : Table) (v : GoVal F) : GoVal F × Bool :=
  let (r, e) := applyAction ext (tbl.armFor v.kind) v
  if tbl.formatTime && !e then
    (match r with
     | .time t => (.str (ext.timeFormat t), false)
     | r => (r, e))
  else (r, e)

inductive Scalar where
  | int | int64 | float | float64 | string | id | boolean | time
  deriving DecidableEq, Repr, Inhabited

end Ggql.Coerce
