/-
Model of `resolve.go: resolve / resolveList` below the object level (C05): what happens to the value a
resolver returned for a field whose declared type is a scalar or enum under any nesting of list and
non-null wrappers.
-/
import Ggql.Spec.CoerceSpec
namespace Ggql.Coerce

/-- output type expressions without object types -/
inductive TRef where
  | scalar (s : Scalar)
  | enum (values : List String)
  | list (t : TRef)
  | nonNull (t : TRef)
  deriving Repr, Inhabited

/-- the Go list kinds `resolveList` distinguishes -/
inductive SliceKind where
  | fast      -- []string, []int, []int64, []bool, []float32, []float64, []time.Time: copied, never coerced
  | reflect   -- any other slice or array: walked by reflection, every element resolved
  deriving DecidableEq, Repr, Inhabited

/-- what a resolver returned -/
inductive Data (F : Type) where
  | leaf (v : GoVal F)
  | list (xs : List (Data F))                          -- []interface{} or a ListResolver
  | slice (k : SliceKind) (xs : List (GoVal F))        -- a typed Go slice
  deriving Inhabited

/-- what is placed in the response -/
inductive ROut (F : Type) where
  | leaf (v : GoVal F)
  | list (xs : List (ROut F))
  deriving Inhabited

variable {F : Type}

/-- `Enum.CoerceOut` (hand-modelled: an `if` chain) -/
def enumOut (_values : List String) (v : GoVal F) : GoVal F × Bool :=
  match v with
  | .nil => (.nil, false)
  | .sym s => (.str s, false)
  | .str s => (.str s, false)        -- D17: not checked against the declared values
  | _ => (.nil, true)

/-- the leaf branch of `resolve` after `CoerceOut` returned `(r, e)`: the error is recorded and, when
`nullOnErr` (read from the source: `result = nil` in the error block), the value is dropped -/
def leafOut (nullOnErr : Bool) (out : GoVal F × Bool) : GoVal F × Bool :=
  (if out.2 && nullOnErr then .nil else out.1, out.2)

/-- `resolve` for non-object types; returns the response value and the number of errors -/
def resolveData (ext : Ext F) (tb : Scalar → Table) (nullOnErr fastCopies : Bool) : TRef → Data F → ROut F × Nat
  | _, .leaf .nil => (.leaf .nil, 0)                     -- `IsNil(obj)`: passed through
  | .nonNull t, d => resolveData ext tb nullOnErr fastCopies t d
  | .list t, .list xs =>
    let rs := xs.map (resolveData ext tb nullOnErr fastCopies t)
    (.list (rs.map (·.1)), (rs.map (·.2)).sum)
  | .list t, .slice .fast xs =>
    if fastCopies then (.list (xs.map .leaf), 0)          -- D18: elements never coerced
    else
      let rs := xs.map (fun x => resolveData ext tb nullOnErr fastCopies t (.leaf x))
      (.list (rs.map (·.1)), (rs.map (·.2)).sum)
  | .list t, .slice .reflect xs =>
    let rs := xs.map (fun x => resolveData ext tb nullOnErr fastCopies t (.leaf x))
    (.list (rs.map (·.1)), (rs.map (·.2)).sum)
  | .list _, .leaf _ => (.leaf .nil, 1)                  -- "%T is not a list type"
  | .scalar s, .leaf v => let (r, e) := leafOut nullOnErr (coerce ext (tb s) v); (.leaf r, if e then 1 else 0)
  | .scalar s, _ => let (r, e) := leafOut nullOnErr (coerce ext (tb s) (.other "list")); (.leaf r, if e then 1 else 0)
  | .enum vals, .leaf v => let (r, e) := enumOut vals v; (.leaf r, if e then 1 else 0)
  | .enum _, _ => (.leaf .nil, 1)

/-- **data oracle (C05).**  The response value has the JSON shape of the declared type: lists for list
types (or null), element-wise; scalar leaves as `checkOut` demands; enum leaves the name of a declared
value (or null). -/
def wellTyped (ext : Ext F) : TRef → ROut F → Bool
  | _, .leaf .nil => true
  | .nonNull t, r => wellTyped ext t r
  | .list t, .list xs => xs.all (wellTyped ext t)
  | .list _, .leaf _ => false
  | .scalar s, .leaf r => r.kind == s.outKind &&
      (match s, r with
       | .int, .int _ n => inRange32 n
       | .int64, .int _ n => inRange64 n
       | .float, .flt _ x => ext.isFinite x
       | .float64, .flt _ x => ext.isFinite x
       | _, _ => true)
  | .scalar _, .list _ => false
  | .enum vals, .leaf (.str s) => vals.contains s
  | .enum _, _ => false

end Ggql.Coerce
