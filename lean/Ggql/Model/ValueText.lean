/-
Model of the value text formats (C18, and the JSON half of C07): `value.go: writeValue, writeMap,
elementSep, isCollection, writeString` and `parser.go: skipSpace, readToken, readNumberToken,
readString, readEscaped, readValue`.

Text is `List Char`: a Go string that is valid UTF-8 is a sequence of Unicode scalar values; the Go
code copies the bytes of every multi-byte rune through unchanged in both directions and classifies
all bytes ≥ 0x80 alike (checked on the regenerated `charMap` / `numMap`), so a character-level model
is faithful on valid UTF-8.  What Go does with *invalid* UTF-8 (`range` yields U+FFFD) is the
runtime's and is exercised by the harness only.

The classification maps, the escape / unescape switches and the number-terminator set are data
(`Tbl`), regenerated from the source on every run.
-/
import Ggql.Model.CharTables
namespace Ggql.ValueText
open Ggql.CharTables

structure Tbl where
  charMap : List Nat
  numMap : List Nat
  spaceClass : Nat
  tokenClass : Nat
  numClass : Nat
  escapes : List (Nat × List Nat)     -- writeString: rune ↦ bytes written
  unescapes : List (Nat × Nat)        -- readEscaped: byte after the backslash ↦ rune
  terminators : List Nat              -- bytes that may follow a number (0 = end of input)
  jsonKeysEscaped : Bool := false     -- writeMap: JSON member names go through writeString (D22, JSON half)

variable (tb : Tbl)

def isSpace (c : Char) : Bool := classAt tb.charMap c == tb.spaceClass
def isToken (c : Char) : Bool := classAt tb.charMap c == tb.tokenClass
def isNum (c : Char) : Bool := classAt tb.numMap c == tb.numClass

/-- the float64 text functions of the Go runtime (`strconv.FormatFloat(x,'g',-1,64)` / `ParseFloat`) -/
structure FloatText (F : Type) where
  fmt : F → List Char
  parse : List Char → Option F

inductive Value (F : Type) where
  | null
  | bool (b : Bool)
  | int (n : Int)                    -- int64
  | float (x : F)
  | str (s : List Char)
  | sym (s : List Char)
  | var (s : List Char)
  | list (xs : List (Value F))
  | map (kvs : List (List Char × Value F))
  deriving Inhabited

variable {F : Type} (ft : FloatText F)

/-! ### writer -/

def hexDigit (n : Nat) : Char := if n < 10 then Char.ofNat (48 + n) else Char.ofNat (87 + n)

/-- `writeString` body for one rune -/
def escapeChar (c : Char) : List Char :=
  match tb.escapes.find? (fun p => p.1 == c.toNat) with
  | some (_, bs) => bs.map Char.ofNat
  | none =>
    if c.toNat < 32 then ['\\', 'u', hexDigit (c.toNat / 4096), hexDigit (c.toNat / 256 % 16), hexDigit (c.toNat / 16 % 16), hexDigit (c.toNat % 16)]
    else [c]

def writeString (s : List Char) (quotes : Bool) : List Char :=
  let body := s.flatMap (escapeChar tb)
  if quotes then '"' :: body ++ ['"'] else body

def natDigits : Nat → Nat → List Char
  | 0, _ => []
  | fuel + 1, n => if n < 10 then [Char.ofNat (48 + n)] else natDigits fuel (n / 10) ++ [Char.ofNat (48 + n % 10)]

/-- `strconv.FormatInt(n, 10)` -/
def intText (n : Int) : List Char :=
  if n < 0 then '-' :: natDigits (n.natAbs + 1) n.natAbs else natDigits (n.natAbs + 1) n.natAbs

def Value.isCollection : Value F → Bool
  | .list _ => true
  | .map _ => true
  | _ => false

/-- `elementSep` -/
def elementSep (sdl : Bool) (indent : Int) (v : Value F) : List Char :=
  if sdl then
    (if indent = 0 then [',', ' '] else if 0 < indent then [] else (if v.isCollection then [] else [',']))
  else (if indent = 0 then [',', ' '] else [','])

def spaces (n : Nat) : List Char := List.replicate n ' '

mutual
/-- `writeValue` -/
def writeValue (sdl : Bool) (depth : Nat) (indent : Int) : Value F → List Char
  | .null => "null".toList
  | .bool b => if b then "true".toList else "false".toList
  | .int n => intText n
  | .float x => ft.fmt x
  | .str s => writeString tb s true
  | .sym s => writeString tb s (!sdl)
  | .var s => writeString tb ('$' :: s) (!sdl)
  | .list xs =>
    '[' :: writeElems sdl (depth + 1) indent true xs ++
      (if 0 < indent then '\n' :: spaces (depth * indent.toNat) else []) ++ [']'] ++
      (if 0 < indent ∧ depth = 0 then ['\n'] else [])
  | .map kvs =>
    '{' :: writeMembers sdl (depth + 1) indent true kvs ++
      (if 0 < indent then '\n' :: spaces (depth * indent.toNat) else []) ++ ['}'] ++
      (if 0 < indent ∧ depth = 0 then ['\n'] else [])

/-- the element loop of the `[]interface{}` arm; `noSep` is the loop variable of the same name -/
def writeElems (sdl : Bool) (d2 : Nat) (indent : Int) (noSep : Bool) : List (Value F) → List Char
  | [] => []
  | v :: rest =>
    (if noSep then [] else elementSep sdl indent v) ++
    (if 0 < indent then '\n' :: spaces (d2 * indent.toNat) else []) ++
    writeValue sdl d2 indent v ++
    writeElems sdl d2 indent (decide (indent < 0) && sdl && v.isCollection) rest

/-- the `wv` closure of `writeMap` applied to the members in the given order -/
def writeMembers (sdl : Bool) (d2 : Nat) (indent : Int) (noSep : Bool) : List (List Char × Value F) → List Char
  | [] => []
  | (k, v) :: rest =>
    (if (!sdl || decide (indent ≤ 0)) && !noSep then (',' :: (if indent = 0 then [' '] else [])) else []) ++
    (if 0 < indent then '\n' :: spaces (d2 * indent.toNat) else []) ++
    (if sdl then k else if tb.jsonKeysEscaped then writeString tb k true else '"' :: k ++ ['"']) ++ [':'] ++ (if 0 ≤ indent then [' '] else []) ++
    writeValue sdl d2 indent v ++
    writeMembers sdl d2 indent (decide (indent < 0) && sdl && v.isCollection) rest
end

def writeSDL (indent : Int) (v : Value F) : List Char := writeValue tb ft true 0 indent v
def writeJSON (indent : Int) (v : Value F) : List Char := writeValue tb ft false 0 indent v

/-! ### reader -/

/-- `skipSpace`: white space (commas included) and `#` comments -/
def skipSpace : Nat → List Char → List Char
  | 0, cs => cs
  | _, [] => []
  | fuel + 1, c :: cs =>
    if isSpace tb c then skipSpace fuel cs
    else if c = '#' then
      skipSpace fuel ((cs.dropWhile (fun x => x != '\n')).drop 1)
    else c :: cs

/-- the token-character loop of `readToken` (after its `skipSpace`) -/
def takeToken (cs : List Char) : List Char × List Char := (cs.takeWhile (isToken tb), cs.dropWhile (isToken tb))

def takeNumber (cs : List Char) : List Char × List Char := (cs.takeWhile (isNum tb), cs.dropWhile (isNum tb))

def hexVal (c : Char) : Option Nat :=
  if '0' ≤ c ∧ c ≤ '9' then some (c.toNat - 48)
  else if 'a' ≤ c ∧ c ≤ 'f' then some (c.toNat - 87)
  else if 'A' ≤ c ∧ c ≤ 'F' then some (c.toNat - 55)
  else none

/-- `readEscaped`: the character after a backslash has been consumed by the caller -/
def readEscaped : List Char → Option (Char × List Char)
  | [] => none
  | c :: rest =>
    if c = 'u' then
      (match rest with
       | a :: b :: c' :: d :: rest' =>
         (match hexVal a, hexVal b, hexVal c', hexVal d with
          | some w, some x, some y, some z => some (Char.ofNat (w * 4096 + x * 256 + y * 16 + z), rest')
          | _, _, _, _ => none)
       | _ => none)
    else
      (match tb.unescapes.find? (fun p => p.1 == c.toNat) with
       | some (_, r) => some (Char.ofNat r, rest)
       | none => none)

/-- the body loop of a single-quoted string: up to the closing quote -/
def readStrBody : Nat → List Char → List Char → Option (List Char × List Char)
  | 0, _, _ => none
  | _, [], _ => none                                   -- "string not terminated"
  | fuel + 1, c :: cs, acc =>
    if c = '"' then some (acc.reverse, cs)
    else if c = '\\' then
      (match readEscaped tb cs with
       | some (r, rest) => readStrBody fuel rest (r :: acc)
       | none => none)
    else if c.toNat = 0 then none
    else readStrBody fuel cs (c :: acc)

/-- `readString` when the next character is `"` (single-quoted form; `""` is the empty string unless a
third quote follows — the writer never produces a triple quote: after `""` it writes a terminator) -/
def readString : List Char → Option (List Char × List Char)
  | '"' :: '"' :: '"' :: _ => none                     -- block string: outside this model
  | '"' :: '"' :: rest => some ([], rest)
  | '"' :: rest => readStrBody tb (rest.length + 1) rest []
  | _ => none

def isDigit (c : Char) : Bool := '0' ≤ c && c ≤ '9'

def digitsVal (cs : List Char) : Nat := cs.foldl (fun acc c => acc * 10 + (c.toNat - 48)) 0

/-- `strconv.ParseInt(s, 10, 64)` -/
def splitSign : List Char → Bool × List Char
  | '-' :: r => (true, r)
  | '+' :: r => (false, r)
  | r => (false, r)

def parseInt64 (cs : List Char) : Option Int :=
  let p := splitSign cs
  if p.2.isEmpty || !p.2.all isDigit then none
  else
    let n : Int := digitsVal p.2
    let v := if p.1 then -n else n
    if -9223372036854775808 ≤ v ∧ v < 9223372036854775808 then some v else none

def isTerminator (cs : List Char) : Bool :=
  match cs with
  | [] => tb.terminators.contains 0
  | c :: _ => tb.terminators.contains c.toNat

mutual
/-- `readValue` -/
def readValue : Nat → List Char → Option (Value F × List Char)
  | 0, _ => none
  | fuel + 1, cs =>
    match skipSpace tb (cs.length + 1) cs with
    | [] => some (.null, [])
    | c :: rest =>
      if c = '"' then
        (match readString tb (c :: rest) with
         | some (s, rest') => some (.str s, rest')
         | none => none)
      else if c = '$' then
        let (tok, rest') := takeToken tb (skipSpace tb (rest.length + 1) rest)
        some (.var tok, rest')
      else if c = '-' || isDigit c then
        let (tok, rest') := takeNumber tb (c :: rest)
        if !isTerminator tb rest' then none
        else (match parseInt64 tok with
              | some i => some (.int i, rest')
              | none => (match ft.parse tok with
                         | some x => some (.float x, rest')
                         | none => none))
      else if c = '[' then readList fuel rest []
      else if c = '{' then readMembers fuel rest []
      else
        let (tok, rest') := takeToken tb (c :: rest)
        if tok.isEmpty then none                         -- "invalid value"
        else if tok = "true".toList then some (.bool true, rest')
        else if tok = "false".toList then some (.bool false, rest')
        else if tok = "null".toList then some (.null, rest')
        else some (.sym tok, rest')

def readList : Nat → List Char → List (Value F) → Option (Value F × List Char)
  | 0, _, _ => none
  | fuel + 1, cs, acc =>
    match skipSpace tb (cs.length + 1) cs with
    | [] => none                                         -- "list value not terminated"
    | c :: rest =>
      if c = ']' then some (.list acc.reverse, rest)
      else (match readValue fuel (c :: rest) with
            | some (v, rest') => readList fuel rest' (v :: acc)
            | none => none)

def readMembers : Nat → List Char → List (List Char × Value F) → Option (Value F × List Char)
  | 0, _, _ => none
  | fuel + 1, cs, acc =>
    match skipSpace tb (cs.length + 1) cs with
    | [] => none                                         -- "object not terminated"
    | c :: rest =>
      if c = '}' then some (.map acc.reverse, rest)
      else
        let keyr : Option (List Char × List Char) :=
          if c = '"' then readString tb (c :: rest) else some (takeToken tb (c :: rest))
        match keyr with
        | none => none
        | some (key, rest1) =>
          (match skipSpace tb (rest1.length + 1) rest1 with
           | ':' :: rest2 =>
             (match readValue fuel rest2 with
              | some (v, rest3) => readMembers fuel rest3 ((key, v) :: acc)   -- obj[token] = v (keys distinct)
              | none => none)
           | _ => none)
end

end Ggql.ValueText
