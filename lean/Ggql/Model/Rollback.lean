/-
Model of schema loading as a state machine with save / restore (C14): `root.go: ParseReader /
AddTypes` duplicate the *tables* (name ↦ pointer), run scan → addTypes → addExtends → assureSchema →
validate, and put the saved tables back on error.  The type objects the tables point to live in a heap
that is *not* duplicated, and `readSchema` assigns `root.schema` during the scan.
-/
namespace Ggql.Rollback

abbrev Ptr := Nat

/-- a type object: its members (field / value / member names, in order) -/
abbrev Obj := List String

structure State where
  table : List (String × Ptr)        -- root.types (+ dirs): name ↦ object
  heap : Ptr → Obj                   -- the objects
  schema : Option Ptr                -- root.schema
  next : Ptr                         -- allocation counter

/-- what a document does, in document order -/
inductive Act where
  | define (name : String) (members : Obj)       -- a new type
  | extend (name : String) (members : Obj)       -- `extend …`
  | schemaBlock (members : Obj)                  -- `schema { … }` (not an extension)
  deriving Repr, Inhabited

/-- where a load fails -/
inductive Fail where
  | scan (afterActs : Nat)      -- syntax error or reader fault after this many definitions were scanned
  | addTypes                    -- duplicate name / undefined reference
  | extendAt (idx : Nat)        -- the idx-th extension fails (duplicate member, unknown target)
  | validate                    -- a validation rule
  deriving Repr, Inhabited

structure Cfg where
  shallowRollback : Bool := true     -- D30: only the tables are restored; extended objects keep their new members
  schemaDuringScan : Bool := true    -- D31: `root.schema` assigned by the scanner is not restored

def heapGet (h : Ptr → Obj) (p : Ptr) : Obj := h p

def heapSet (h : Ptr → Obj) (p : Ptr) (o : Obj) : Ptr → Obj := fun q => if q = p then o else h q

def tableGet (t : List (String × Ptr)) (n : String) : Option Ptr := (t.find? (fun e => e.1 == n)).map (·.2)

/-- the scan: schema blocks assign `root.schema` as they are read -/
def scanActs (st : State) : List Act → State
  | [] => st
  | .schemaBlock ms :: rest =>
    scanActs { st with heap := heapSet st.heap st.next ms, schema := some st.next, next := st.next + 1 } rest
  | _ :: rest => scanActs st rest

/-- addTypes: new objects, new table entries -/
def addActs (st : State) : List Act → State
  | [] => st
  | .define n ms :: rest =>
    addActs { st with table := st.table ++ [(n, st.next)], heap := heapSet st.heap st.next ms, next := st.next + 1 } rest
  | _ :: rest => addActs st rest

/-- addExtends: the *existing* object is mutated; stops at the failing extension -/
def extendActs (st : State) (failIdx : Option Nat) : Nat → List Act → State
  | _, [] => st
  | i, .extend n ms :: rest =>
    if failIdx == some i then st else
    (match tableGet st.table n with
     | some p => extendActs { st with heap := heapSet st.heap p (heapGet st.heap p ++ ms) } failIdx (i + 1) rest
     | none => st)
  | i, _ :: rest => extendActs st failIdx i rest

/-- one `ParseReader` call: the new state and whether it failed -/
def load (cfg : Cfg) (st : State) (doc : List Act) (fail : Option Fail) : State × Bool :=
  let scanned : List Act := match fail with | some (.scan k) => doc.take k | _ => doc
  let s1 := scanActs st scanned
  let restore := fun (s : State) =>
    ({ table := st.table,
       heap := if cfg.shallowRollback then s.heap else st.heap,
       schema := if cfg.schemaDuringScan then s.schema else st.schema,
       next := s.next } : State)
  match fail with
  | some (.scan _) => (restore s1, true)
  | some .addTypes => (restore s1, true)
  | some (.extendAt i) =>
    let s2 := addActs s1 doc
    (restore (extendActs s2 (some i) 0 doc), true)
  | some .validate =>
    let s2 := addActs s1 doc
    (restore (extendActs s2 none 0 doc), true)
  | none =>
    let s2 := addActs s1 doc
    (extendActs s2 none 0 doc, false)

/-- what a client can see: every named type with its members, and the schema object's members -/
def observe (st : State) : List (String × Obj) × Option Obj :=
  (st.table.map (fun e => (e.1, heapGet st.heap e.2)), st.schema.map (heapGet st.heap))

/-- the document touches nothing that exists: no extension of a type the root already has, no schema block -/
def isolated (st : State) (doc : List Act) : Bool :=
  doc.all (fun a => match a with
    | .extend n _ => (tableGet st.table n).isNone
    | .schemaBlock _ => false
    | .define .. => true)

/-- pointers of the table and the schema are below the allocation counter -/
def WF (st : State) : Prop :=
  (∀ e ∈ st.table, e.2 < st.next) ∧ (∀ p, st.schema = some p → p < st.next)

end Ggql.Rollback
