/-
`strconv.ParseInt(tok,10,64)` / `strconv.ParseFloat(tok,64)` success on a number token of `readValue`
(characters `+ - . 0-9 e E`).  This is the Go runtime's behaviour, not ggql's: it is a parameter of the
scanner model (`CM.numberOk`) and no theorem depends on it; this definition is what the driver runs so
that the "not a number" error of `readValue` can be compared with the implementation.

A decimal integer that ParseInt accepts is also accepted by ParseFloat, and one that overflows int64 is
still a valid float, so the disjunction is just "ParseFloat succeeds": float syntax, and no overflow
(value < 2^1024 − 2^970, the round-to-even boundary of the largest finite float64).
-/
namespace Ggql.NumText

def isDig (b : UInt8) : Bool := 48 ≤ b && b ≤ 57

def digitsVal (ds : List UInt8) : Nat := ds.foldl (fun a d => a * 10 + (d.toNat - 48)) 0

def dropSign : List UInt8 → List UInt8
  | 43 :: r => r
  | 45 :: r => r
  | r => r

/-- (mantissa digits before the point, digits after it, exponent text?) -/
def splitFloat (t : List UInt8) : Option (List UInt8 × List UInt8 × Option (List UInt8)) :=
  let t := dropSign t
  let ip := t.takeWhile isDig
  let r := t.dropWhile isDig
  let (fp, r, sawDot) :=
    match r with
    | 46 :: r' => (r'.takeWhile isDig, r'.dropWhile isDig, true)
    | _ => ([], r, false)
  let _ := sawDot
  if ip.isEmpty && fp.isEmpty then none
  else
    match r with
    | [] => some (ip, fp, none)
    | c :: r' => if c == 101 || c == 69 then some (ip, fp, some r') else none

/-- exponent text: optional sign, at least one digit, nothing else -/
def expVal (e : List UInt8) : Option Int :=
  let neg := e.head? == some 45
  let ds := dropSign e
  if ds.isEmpty || !ds.all isDig then none
  else
    -- Go clamps the accumulated exponent at 10000 digits' worth; values this large overflow/underflow anyway
    let v : Nat := if ds.length > 6 then 1000000 else digitsVal ds
    some (if neg then -(v : Int) else v)

def maxFloatBound : Nat := 2 ^ 1024 - 2 ^ 970

def floatOk (t : List UInt8) : Bool :=
  match splitFloat t with
  | none => false
  | some (ip, fp, eo) =>
    match (match eo with | none => some (0 : Int) | some e => expVal e) with
    | none => false
    | some ex =>
      let m := digitsVal (ip ++ fp)
      let dexp : Int := ex - fp.length
      if m == 0 then true
      else if dexp > 400 then false
      else if dexp < -((ip.length + fp.length : Nat) : Int) - 400 then true
      else if dexp ≥ 0 then decide (m * 10 ^ dexp.toNat < maxFloatBound)
      else decide (m < maxFloatBound * 10 ^ (-dexp).toNat)

def numberOk (t : List UInt8) : Bool := floatOk t

end Ggql.NumText
