/-
Character classification over the tables regenerated from `parser.go` (`Gen/Tables.lean`).
-/
namespace Ggql.CharTables

/-- class of a character: bytes ≥ 0x80 (every byte of a multi-byte UTF-8 sequence) have the class of
their table entry, which `Props` check to be "other" for all of 128..255 -/
def classAt (tbl : List Nat) (c : Char) : Nat :=
  if c.toNat < 128 then tbl.getD c.toNat 0 else 46   -- '.'

end Ggql.CharTables
