/-
`resolveField`'s choice of resolver strategy (C02): the switch
  case res != nil (the object implements Resolver) / case root.AnyResolver != nil / default (reflection)
as an ordered list of guarded arms; the order is regenerated from the source.
-/
namespace Ggql.Dispatch

inductive Strategy where
  | resolver | any | reflect
  deriving DecidableEq, Repr, Inhabited

def guard (isResolver anyInstalled : Bool) : Strategy → Bool
  | .resolver => isResolver
  | .any => anyInstalled
  | .reflect => true

/-- the first arm of the switch whose guard holds (reflection when none does: the `default` arm) -/
def choose (order : List Strategy) (isResolver anyInstalled : Bool) : Strategy :=
  (order.find? (guard isResolver anyInstalled)).getD .reflect

def ofName : String → Option Strategy
  | "resolver" => some .resolver
  | "any" => some .any
  | "reflect" => some .reflect
  | _ => none

end Ggql.Dispatch
