/-
Model of the lazy binding of GraphQL object types to Go types under the reflection strategy (C08, C12):
`object.go: metaCheck` (union dispatch: by `@go(type:)` or by name), `root.go: assureType` (first use at an
object-typed position) and `root.go: getReflectType` (interface-typed positions: the object type whose
binding *is* the value's Go type).  The state is `Object.meta` of every object type.
-/
namespace Ggql.Binding

structure ObjT where
  name : String
  goDir : Option String := none      -- argument of `@go(type: …)`
  deriving Repr, Inhabited, DecidableEq

/-- the Go type of a value: `PkgPath() + "." + Name()`, `String()`, `Name()` of its base type -/
structure GoT where
  full : String
  short : String
  name : String
  deriving Repr, Inhabited, DecidableEq

/-- `Object.meta`: object type name ↦ the Go type it is bound to (absent = nil) -/
abbrev Meta := List (String × GoT)

def Meta.get (m : Meta) (n : String) : Option GoT := (m.find? (fun p => p.1 == n)).map (·.2)
def Meta.set (m : Meta) (n : String) (g : GoT) : Meta := if (m.get n).isSome then m else m ++ [(n, g)]

structure Cfg where
  /-- how `@go(type: s)` is compared with the three names of the Go type; `exact` in the pinned tree -/
  goMatch : String → GoT → Bool := fun s g => s == g.full || s == g.short || s == g.name
  /-- D51: the member loop at a union position gives up at the first member that is neither bound nor binds
  the value by name (repaired: it goes on, and reports that member only when none matched) -/
  unionFirstCome : Bool := true
  /-- D47: `getReflectType` only finds object types already bound to the value's Go type (repaired: unbound
  ones are bound through `metaCheck`, as at a union position) -/
  ifaceNeedsBound : Bool := true

/-- the binding attempt of `metaCheck` when `meta == nil` -/
def bindsByName (cfg : Cfg) (o : ObjT) (g : GoT) : Bool :=
  match o.goDir with
  | some s => cfg.goMatch s g
  | none => o.name == g.name

/-- `metaCheck`: (new state, the member's binding or none = the "failed to determine" error) -/
def metaCheck (cfg : Cfg) (m : Meta) (o : ObjT) (g : GoT) : Meta × Option GoT :=
  match m.get o.name with
  | some b => (m, some b)
  | none => if bindsByName cfg o g then (m.set o.name g, some g) else (m, none)

/-- `assureType`: binds when unbound; a different existing binding is left alone (the error is dropped) -/
def assureType (m : Meta) (o : String) (g : GoT) : Meta := m.set o g

/-- `getReflectType`: the first object type (in type-table order) bound to exactly this Go type -/
def getReflectType (m : Meta) (order : List String) (g : GoT) : Option String :=
  order.find? (fun n => m.get n == some g)

inductive Pos where
  | obj (t : String)                 -- a field whose declared type is the object type t
  | union (members : List String)    -- a field of union type, members in declaration order
  | iface                            -- a field of interface type
  deriving Repr, Inhabited

inductive Out where
  | asType (t : String)     -- resolved with the selection applied at object type t
  | unbound                 -- interface position, no object type bound to the Go type: every field null
  | err (member : String)   -- union position: "failed to determine union member …"
  | empty                   -- union position: no member is bound to this Go type: `{}`
  deriving Repr, Inhabited, DecidableEq

/-- the member loop of `resolve` at a union position -/
def unionLoop (cfg : Cfg) (objs : List ObjT) (g : GoT) : Meta → List String → Meta × Out
  | m, [] => (m, .empty)
  | m, mem :: rest =>
    match objs.find? (fun o => o.name == mem) with
    | none => unionLoop cfg objs g m rest
    | some o =>
      match metaCheck cfg m o g with
      | (m', none) => (m', .err mem)
      | (m', some b) => if b == g then (m', .asType mem) else unionLoop cfg objs g m' rest

/-- the repaired member loop: a member that cannot be decided is remembered (`pend`, the first such) and the
loop goes on; it is reported only if no member matches -/
def unionLoopAll (cfg : Cfg) (objs : List ObjT) (g : GoT) : Meta → Option String → List String → Meta × Out
  | m, pend, [] => (m, match pend with | some mem => .err mem | none => .empty)
  | m, pend, mem :: rest =>
    match objs.find? (fun o => o.name == mem) with
    | none => unionLoopAll cfg objs g m pend rest
    | some o =>
      match metaCheck cfg m o g with
      | (m', none) => unionLoopAll cfg objs g m' (match pend with | some p => some p | none => some mem) rest
      | (m', some b) => if b == g then (m', .asType mem) else unionLoopAll cfg objs g m' pend rest

/-- does object type `n` take the value: it is bound to `g`, or unbound and binds `g` by name / `@go` -/
def takes (cfg : Cfg) (objs : List ObjT) (m : Meta) (g : GoT) (n : String) : Bool :=
  match objs.find? (fun o => o.name == n) with
  | some o => (metaCheck cfg m o g).2 == some g
  | none => false

/-- the repaired `getReflectType`: the first object type (type-table order) that `metaCheck` gives the
value's Go type for; that check binds it when it was unbound -/
def getReflectTypeLazy (cfg : Cfg) (objs : List ObjT) (m : Meta) (order : List String) (g : GoT) : Meta × Option String :=
  match order.find? (takes cfg objs m g) with
  | some t => (m.set t g, some t)
  | none => (m, none)

/-- one value of Go type `g` reaching a position, under the reflection strategy -/
def step (cfg : Cfg) (objs : List ObjT) (order : List String) (m : Meta) (p : Pos) (g : GoT) : Meta × Out :=
  match p with
  | .obj t => (assureType m t g, .asType t)
  | .union ms => if cfg.unionFirstCome then unionLoop cfg objs g m ms else unionLoopAll cfg objs g m none ms
  | .iface =>
    if cfg.ifaceNeedsBound then
      (match getReflectType m order g with
       | some t => (assureType m t g, .asType t)
       | none => (m, .unbound))
    else
      (match getReflectTypeLazy cfg objs m order g with
       | (m', some t) => (m', .asType t)
       | (m', none) => (m', .unbound))

def run (cfg : Cfg) (objs : List ObjT) (order : List String) : Meta → List (Pos × GoT) → List Out
  | _, [] => []
  | m, (p, g) :: rest => let r := step cfg objs order m p g; r.2 :: run cfg objs order r.1 rest

end Ggql.Binding
