/-
Model of descriptions in printed SDL (C15): `base.go: writeDesc` and `parser.go: readString / readDesc`
including the block-string (triple-quote) form, and of type expressions: `List.Name / NonNull.Name`
against `parser.go: readType`.
-/
import Ggql.Model.ValueText
namespace Ggql.Desc
open Ggql.ValueText

/-- `escapeDesc`: a backslash is doubled; in the block form a quote that is followed by another quote or by a
backslash is escaped -/
def escapeDesc (block : Bool) : List Char → List Char
  | [] => []
  | c :: rest =>
    if c = '\\' then '\\' :: '\\' :: escapeDesc block rest
    else if c = '"' then
      (if block && (match rest with | x :: _ => x == '"' || x == '\\' | [] => false) then ['\\', '"'] else ['"']) ++
        escapeDesc block rest
    else c :: escapeDesc block rest

/-- `writeDesc` at indent 0: block string when the text has a newline or a quote, else a one-line string.
`raw`: the text is written as it is in both forms (no escaping: D32, the first commit); otherwise through
`escapeDesc`. -/
def writeDesc (raw : Bool) (d : List Char) : List Char :=
  if d.isEmpty then []
  else if d.any (fun c => c == '\n' || c == '"') then
    "\"\"\"".toList ++ ['\n'] ++ (if raw then d else escapeDesc true d) ++ ['\n'] ++ "\"\"\"".toList
  else '"' :: (if raw then d else escapeDesc false d) ++ ['"', '\n']

/-- the block-string loop of `readString` (after the opening `"""`): escapes are processed here too -/
def readBlock (tb : Tbl) : Nat → List Char → List Char → Option (List Char × List Char)
  | 0, _, _ => none
  | _, [], _ => none
  | fuel + 1, c :: cs, acc =>
    if c = '"' then
      (match cs with
       | '"' :: '"' :: rest => some (acc.reverse, rest)
       | '"' :: x :: rest => readBlock tb fuel rest (x :: '"' :: '"' :: acc)
       | x :: rest => readBlock tb fuel rest (x :: '"' :: acc)
       | [] => none)
    else if c = '\\' then
      (match readEscaped tb cs with
       | some (r, rest) => readBlock tb fuel rest (r :: acc)
       | none => none)
    else if c.toNat = 0 then none
    else readBlock tb fuel cs (c :: acc)

/-- `readString` with both forms -/
def readStringFull (tb : Tbl) : List Char → Option (List Char × List Char)
  | '"' :: '"' :: '"' :: rest => readBlock tb (rest.length + 1) rest []
  | cs => readString tb cs

/-- type expressions -/
inductive TRef where
  | named (n : List Char)
  | list (t : TRef)
  | nonNull (t : TRef)
  deriving Repr, Inhabited, DecidableEq

/-- `Name()` of a type expression, which is what the printers write -/
def typeName : TRef → List Char
  | .named n => n
  | .list t => '[' :: typeName t ++ [']']
  | .nonNull t => typeName t ++ ['!']

/-- the part of `readType` before the `!` check: a token, or `[` type `]`; `rec` reads the inner type -/
def readTypeBase (tb : Tbl) (rec : List Char → Option (TRef × List Char)) (cs : List Char) : Option (TRef × List Char) :=
  match cs with
  | '[' :: rest =>
    (match rec rest with
     | some (t, ']' :: rest') => some (.list t, rest')
     | _ => none)
  | cs =>
    let p := takeToken tb cs
    if p.1.isEmpty then none else some (.named p.1, p.2)

/-- the trailing `!` -/
def applyBang (r : Option (TRef × List Char)) : Option (TRef × List Char) :=
  match r with
  | some (t, '!' :: rest) => some (.nonNull t, rest)
  | r => r

/-- `readType` (no white space inside, as printed): token, or `[` type `]`, then an optional `!` -/
def readType (tb : Tbl) : Nat → List Char → Option (TRef × List Char)
  | 0, _ => none
  | fuel + 1, cs => applyBang (readTypeBase tb (readType tb fuel) cs)

end Ggql.Desc
