/-
Byte-level model of the shared scanner `parser.go` (C03, and the position clauses of C07):
`readByte, putBack, skipBOM, skipSpace, readToken, readNumberToken, readType, readString, readEscaped,
readValue, readDirUses, readDirUse, readArgValues, readArgValue`.

What is modelled is the *control flow and scanner state* of the Go code — which bytes are consumed,
where `line`/`col` stand, which error (class and position) is returned first, which errors are
swallowed — not the values built (C18/C15 model those).  The state is the Go struct:

  rest, tail   the io.Reader: the bytes it still has to deliver and how it ends (io.EOF, io.EOF
               together with the last byte — the HTTP case of `readByte` —, or a non-EOF error)
  onDeck, eof, line, col   as in `parser`
  oof          sticky flag: some loop of the model ran out of fuel.  Every loop and every recursive
               call of the Go code is a structural recursion on a fuel argument here; “the Go loop
               never terminates” is “no fuel suffices” (`Props/C03.lean`), and “the Go function always
               returns” is “fuel ≥ a bound linear in the input never sets `oof`”.
  depth, maxDepth   current / maximal depth of the Go call recursion (readValue, readType): the
               stack clause of C03.

Byte 0 is what `readByte` returns at end of input; a literal NUL byte in the input is therefore
indistinguishable from end of input for every caller except that `eof` is not set — the model keeps
this (it is one of the ways the loops are made to spin or to stop early).
-/
namespace Ggql.Scan

inductive Tail where
  | eof        -- Read returns (0, io.EOF) after the last byte
  | eofLast    -- Read returns (1, io.EOF) for the last byte
  | fault      -- Read returns (0, err) with err ≠ io.EOF after the last byte, and on every later call
  deriving DecidableEq, Repr, Inhabited

inductive ErrK where
  | parse | io | dup
  deriving DecidableEq, Repr, Inhabited

/-- class and position of the error a public entry point returns (`Error.Line/Column` or the `at L:C`
suffix of the message; 0:0 for errors without a position) -/
structure Err where
  kind : ErrK
  line : Int
  col : Int
  deriving DecidableEq, Repr, Inhabited

structure P where
  rest : List UInt8
  tail : Tail := .eof
  onDeck : UInt8 := 0
  eof : Bool := false
  line : Nat := 0
  col : Nat := 0
  oof : Bool := false
  depth : Nat := 0
  maxDepth : Nat := 0
  /-- `exeParser.exe.Fragments`: name ↦ (has a non-empty selection set); written by `readFragRef` (placeholders)
  and by `parseExe`; carried here so that the executable parser needs no second state -/
  frags : List (List UInt8 × Bool) := []
  deriving Repr, Inhabited

/-- character classification and the escape letters, read from the regenerated tables -/
structure CM where
  isSpace : UInt8 → Bool
  isToken : UInt8 → Bool
  isNum : UInt8 → Bool
  isEscape : UInt8 → Bool        -- byte after a backslash that `readEscaped` maps to a rune (other than `u`)
  isNumTerm : UInt8 → Bool       -- `readValue`: byte allowed on deck after a number token (0 included)
  numberOk : List UInt8 → Bool   -- strconv.ParseInt(…,10,64) or ParseFloat(…,64) succeeds on the token
  known : List UInt8 → Bool      -- root.GetType(token) ≠ nil
  depthLimit : Option Nat := none  -- `MaxParseDepth` when the nested constructs call `deeper()` (D03 repaired)
  listNeedsMember : Bool := false  -- `[]` (a list type without a member type) is a parse error (D107 repaired)
  condStrict : Bool := false       -- a type condition must be a named object / interface / union type (D100, D110 repaired)
  composite : List UInt8 → Bool := fun _ => true  -- the known names that are object, interface or union types

variable (cm : CM)

def ioErr : Err := ⟨.io, 0, 0⟩
def dupErr : Err := ⟨.dup, 0, 0⟩
def P.perr (p : P) : Err := ⟨.parse, p.line, p.col⟩
def P.perrAt (_p : P) (l c : Int) : Err := ⟨.parse, l, c⟩
def P.outOfFuel (p : P) : P := { p with oof := true }

def P.enter (p : P) : P :=
  let d := p.depth + 1
  { p with depth := d, maxDepth := if p.maxDepth < d then d else p.maxDepth }
def P.leave (p : P) : P := { p with depth := p.depth - 1 }

/-- `deeper()` fails: entering one more nested construct would exceed the limit -/
def tooDeep (cm : CM) (p : P) : Bool :=
  match cm.depthLimit with
  | some l => decide (l < p.depth + 1)
  | none => false

/-- `if p.line == 0 { p.line = 1; p.col = 1 }` -/
def P.initPos (p : P) : P := if p.line == 0 then { p with line := 1, col := 1 } else p

/-- one byte delivered by the reader: `if b == '\n' { p.line++; p.col = 0 }; p.col++` -/
def P.advance (p : P) (b : UInt8) (r : List UInt8) : P :=
  if b == 10 then { p with rest := r, line := p.line + 1, col := 1 } else { p with rest := r, col := p.col + 1 }

/-- the reader's last byte arriving together with io.EOF: `p.eof = true; b = ba[0]; p.col++` -/
def P.lastByte (p : P) : P := { p with rest := [], eof := true, col := p.col + 1 }

/-- `readByte`: `none` is a reader error (always the io class) -/
def readByte (p : P) : Option UInt8 × P :=
  if p.onDeck != 0 then (some p.onDeck, { p with onDeck := 0 })
  else if p.eof then (some 0, p)
  else
    match p.rest with
    | [] =>
      (match p.tail with
       | .fault => (none, p.initPos)
       | _ => (some 0, { p.initPos with eof := true }))
    | b :: r =>
      if r.isEmpty && p.tail == .eofLast then (some b, p.initPos.lastByte)
      else (some b, p.initPos.advance b r)

def putBack (b : UInt8) (p : P) : P := { p with onDeck := b }

/-- `_, _ = p.readByte()` -/
def reRead (p : P) : P := (readByte p).2

/-- `skipBOM` -/
def skipBOM (p : P) : Option Err × P :=
  match readByte p with
  | (none, p) =>
    -- err ≠ nil: the range loop does nothing (`if err == nil`), the error is returned
    (some ioErr, p)
  | (some b, p) =>
    if b != 0xEF then (none, putBack b p)
    else
      match readByte p with
      | (none, p) => (some ioErr, p)
      | (some b1, p) =>
        let e1 : Option Err := if b1 != 0xBB then some p.perr else none
        (match e1 with
         | some e => (some e, p)
         | none =>
           match readByte p with
           | (none, p) => (some ioErr, p)
           | (some b2, p) => if b2 != 0xBF then (some p.perr, p) else (none, p))

/-- the inner loop of `skipSpace`: read to the end of the line.  `some 10` = newline found,
`some 0` = end of input (or NUL), `none` = reader error -/
def skipComment : Nat → P → Option UInt8 × P
  | 0, p => (none, p.outOfFuel)
  | n + 1, p =>
    match readByte p with
    | (none, p) => (none, p)
    | (some b, p) =>
      if b == 0 then (some 0, p)
      else if b == 10 then (some 10, p)
      else skipComment n p

/-- `skipSpace`: returns the next significant byte (left on deck), 0 at end of input -/
def skipSpace : Nat → P → Option UInt8 × P
  | 0, p => (none, p.outOfFuel)
  | n + 1, p =>
    match readByte p with
    | (none, p) => (none, p)
    | (some b, p) =>
      if b == 0 then (some 0, p)
      else if cm.isSpace b then skipSpace n p
      else if b == 35 then
        (match skipComment n p with
         | (none, p) => (none, p)
         | (some b', p) => if b' == 0 then (some 0, p) else skipSpace n p)
      else (some b, putBack b p)

/-- fuel that suffices for every scanner-level loop started in state `p` -/
def P.sfuel (p : P) : Nat := p.rest.length + 3

def skipSp (p : P) : Option UInt8 × P := skipSpace cm p.sfuel p

/-- the byte loop of `readToken`/`readNumberToken`; the Bool is `err != nil` -/
def classLoop (cls : UInt8 → Bool) : Nat → P → List UInt8 → (List UInt8 × Bool) × P
  | 0, p, acc => ((acc.reverse, true), p.outOfFuel)
  | n + 1, p, acc =>
    match readByte p with
    | (none, p) => ((acc.reverse, true), p)
    | (some b, p) =>
      if b == 0 then ((acc.reverse, false), p)
      else if cls b then classLoop cls n p (b :: acc)
      else ((acc.reverse, false), putBack b p)

/-- `readToken`: (token, err ≠ nil) -/
def readToken (p : P) : (List UInt8 × Bool) × P :=
  match skipSp cm p with
  | (none, p) => (([], true), p)
  | (some b, p) =>
    if b == 0 then (([], false), p)
    else classLoop cm.isToken p.sfuel p []

def readNumberToken (p : P) : (List UInt8 × Bool) × P := classLoop cm.isNum p.sfuel p []

inductive Ty where
  | ref | known | list | nonNull
  deriving DecidableEq, Repr, Inhabited

/-- the tail of `readType`: `if err == nil && t != nil { b, err = p.skipSpace(); if err == nil && b == '!' { … } }` -/
def bang (t : Ty) (p : P) : (Option Ty × Option Err) × P :=
  match skipSp cm p with
  | (none, p) => ((some t, some ioErr), p)
  | (some b, p) => if b == 33 then ((some .nonNull, none), reRead p) else ((some t, none), p)

/-- `readType`: (t, err) exactly as the Go function returns them (both may be non-nil).  The `!` look-ahead
runs exactly where the Go code reaches its tail with `err == nil && t != nil`: after a closed list and
after a named type. -/
def readType : Nat → P → (Option Ty × Option Err) × P
  | 0, p => ((none, some ioErr), p.outOfFuel)
  | n + 1, p =>
    match skipSp cm p with
    | (none, p) => ((none, some ioErr), p)
    | (some b, p) =>
      if b == 0 then ((none, none), p)           -- `return` inside the switch
      else if b == 91 then
        if tooDeep cm (reRead p) then ((none, some (reRead p).perr), reRead p) else
        match readType n (reRead p).enter with
        | ((t, some e), p) => ((t, some e), p.leave)
        | ((t, none), p) =>
          if cm.listNeedsMember && t.isNone then ((none, some p.perr), p.leave) else
          (match skipSp cm p.leave with
           | (none, p) => ((none, some ioErr), p)
           | (some b, p) =>
             if b == 93 then bang cm .list (reRead p)
             else ((t, some p.perr), p))
      else
        match readToken cm p with
        | ((_, true), p) => ((none, some ioErr), p)
        | ((tok, false), p) =>
          if tok.isEmpty then ((none, none), p)
          else bang cm (if cm.known tok then .known else .ref) p

/-- `readEscaped` (the backslash has been consumed) -/
def readEscaped (p : P) : Option Err × P :=
  match readByte p with
  | (none, p) => (some ioErr, p)
  | (some b, p) =>
    if b == 0 then (some p.perr, p)
    else if b == 117 then
      let isHex (c : UInt8) : Bool := (48 ≤ c && c ≤ 57) || (97 ≤ c && c ≤ 102) || (65 ≤ c && c ≤ 70)
      let step (acc : Option Err × P) : Option Err × P :=
        match acc with
        | (some e, p) => (some e, p)
        | (none, p) =>
          match readByte p with
          | (none, p) => (some ioErr, p)
          | (some c, p) => if isHex c then (none, p) else (some p.perr, p)
      step (step (step (step (none, p))))
    else if cm.isEscape b then (none, p)
    else (some p.perr, p)

/-- body loop of a `"`-quoted string -/
def strLoop : Nat → P → Option Err × P
  | 0, p => (some ioErr, p.outOfFuel)
  | n + 1, p =>
    match readByte p with
    | (none, p) => (some ioErr, p)
    | (some b, p) =>
      if b == 34 then (none, p)
      else if b == 92 then
        (match readEscaped cm p with
         | (some e, p) => (some e, p)
         | (none, p) => strLoop n p)
      else if b == 0 then (some p.perr, p)
      else strLoop n p

/-- body loop of a `"""` block string -/
def blockLoop : Nat → P → Option Err × P
  | 0, p => (some ioErr, p.outOfFuel)
  | n + 1, p =>
    match readByte p with
    | (none, p) => (some ioErr, p)
    | (some b, p) =>
      if b == 34 then
        (match readByte p with
         | (none, p) => (some ioErr, p)
         | (some b1, p) =>
           if b1 == 34 then
             (match readByte p with
              | (none, p) => (some ioErr, p)
              | (some b2, p) => if b2 == 34 then (none, p) else blockLoop n p)
           else blockLoop n p)
      else if b == 92 then
        (match readEscaped cm p with
         | (some e, p) => (some e, p)
         | (none, p) => blockLoop n p)
      else if b == 0 then (some p.perr, p)
      else blockLoop n p

/-- `readString` (content dropped) -/
def readString (p : P) : Option Err × P :=
  match readByte p with
  | (none, p) => (some ioErr, p)
  | (some b, p) =>
    if b == 0 then (none, p)
    else if b != 34 then (none, putBack b p)
    else
      match readByte p with
      | (none, p) => (some ioErr, p)
      | (some b, p) =>
        if b == 34 then
          (match readByte p with
           | (none, p) => (some ioErr, p)
           | (some b, p) =>
             if b != 34 then (none, putBack b p)
             else blockLoop cm (2 * p.sfuel) p)
        else if b == 0 then (some p.perr, p)
        else strLoop cm (2 * p.sfuel) (putBack b p)

/-- `readDesc` has the control flow of `readString` -/
def readDesc (p : P) : Option Err × P := readString cm p

def isNumStart (b : UInt8) : Bool := b == 45 || (48 ≤ b && b ≤ 57)

/-- an object key: a string when the byte on deck is a quote, a token otherwise -/
def readKey (b : UInt8) (p : P) : Option Err × P :=
  if b == 34 then readString cm p
  else (match readToken cm p with
        | ((_, true), p) => (some ioErr, p)
        | ((_, false), p) => (none, p))

mutual
/-- `readValue` (value dropped) -/
def readValue : Nat → P → Option Err × P
  | 0, p => (some ioErr, p.outOfFuel)
  | n + 1, p =>
    match skipSp cm p with
    | (none, p) => (some ioErr, p)
    | (some b, p) =>
      if b == 0 then (none, p)
      else if b == 34 then readString cm p
      else if b == 36 then
        let p := reRead p
        (match readToken cm p with
         | ((_, true), p) => (some ioErr, p)
         | ((_, false), p) => (none, p))
      else if isNumStart b then
        (match readNumberToken cm p with
         | ((_, true), p) => (some ioErr, p)
         | ((tok, false), p) =>
           if !cm.isNumTerm p.onDeck then (some p.perr, p)
           else if cm.numberOk tok then (none, p)
           else (some p.perr, p))
      else if b == 91 then
        if tooDeep cm (reRead p) then (some (reRead p).perr, reRead p) else
        let r := readListBody n (reRead p).enter
        (r.1, r.2.leave)
      else if b == 123 then
        if tooDeep cm (reRead p) then (some (reRead p).perr, reRead p) else
        let r := readObjBody n (reRead p).enter
        (r.1, r.2.leave)
      else
        let line := p.line
        let col := p.col
        let deck := p.onDeck
        (match readToken cm p with
         | ((_, true), p) => (some ioErr, p)
         | ((_, false), p) =>
           if line == p.line && col == p.col && deck == p.onDeck then (some p.perr, p) else (none, p))

/-- the `for` loop of the `[` arm -/
def readListBody : Nat → P → Option Err × P
  | 0, p => (some ioErr, p.outOfFuel)
  | n + 1, p =>
    match skipSp cm p with
    | (none, p) => (some ioErr, p)
    | (some b, p) =>
      if b == 0 then (some p.perr, p)
      else if b == 93 then (none, reRead p)
      else
        match readValue n p with
        | (some e, p) => (some e, p)
        | (none, p) => readListBody n p

/-- the `for` loop of the `{` arm -/
def readObjBody : Nat → P → Option Err × P
  | 0, p => (some ioErr, p.outOfFuel)
  | n + 1, p =>
    match skipSp cm p with
    | (none, p) => (some ioErr, p)
    | (some b, p) =>
      if b == 0 then (some p.perr, p)
      else if b == 125 then (none, reRead p)
      else
        match readKey cm b p with
        | (some e, p) => (some e, p)
        | (none, p) =>
          match skipSp cm p with
          | (none, p) => (some ioErr, p)
          | (some b, p) =>
            if b != 58 then (some p.perr, p)
            else
              match readValue n (reRead p) with
              | (some e, p) => (some e, p)
              | (none, p) => readObjBody n p
end

/-- fuel that suffices for `readValue`/`readType` and everything below them started in `p` -/
def P.vfuel (p : P) : Nat := 2 * p.rest.length + 8

/-- `readArgValue`: (av ≠ nil ∧ name, err) -/
def readArgValue (p : P) : Option Err × P :=
  match readToken cm p with
  | ((_, true), p) => (some ioErr, p)
  | ((tok, false), p) =>
    if tok.isEmpty then (some p.perr, p)
    else
      match skipSp cm p with
      | (none, p) => (some ioErr, p)
      | (some b, p) =>
        if b != 58 then (some p.perr, p)
        else readValue cm p.vfuel (reRead p)

/-- the argument loop shared by `readDirUse` and `readArgValues` (the opening paren has been consumed;
on success the closing one is consumed too) -/
def argLoop : Nat → P → Option Err × P
  | 0, p => (some ioErr, p.outOfFuel)
  | n + 1, p =>
    match skipSp cm p with
    | (none, p) => (some ioErr, p)
    | (some b, p) =>
      if b == 41 then (none, reRead p)
      else if b == 0 then (some p.perr, p)
      else
        match readArgValue cm p with
        | (some e, p) => (some e, p)
        | (none, p) => argLoop n p

/-- `readDirUse`: `(true, none)` = a directive use was read; `(false, none)` = none present -/
def readDirUse (p : P) : (Bool × Option Err) × P :=
  match skipSp cm p with
  | (none, p) => ((false, some ioErr), p)
  | (some b, p) =>
    if b != 64 then ((false, none), p)
    else
      let p := reRead p
      match readType cm p.vfuel p with
      | ((_, some e), p) => ((false, some e), p)
      | ((none, none), p) => ((false, some p.perr), p)
      | ((some _, none), p) =>
        if p.onDeck == 40 then
          (match argLoop cm p.vfuel (reRead p) with
           | (some e, p) => ((false, some e), p)
           | (none, p) => ((true, none), p))
        else ((true, none), p)

/-- `readDirUses` and the `for { if du, err = p.readDirUse(); du == nil { break } … }` loops -/
def readDirUses : Nat → P → Option Err × P
  | 0, p => (some ioErr, p.outOfFuel)
  | n + 1, p =>
    match readDirUse cm p with
    | ((_, some e), p) => (some e, p)
    | ((false, none), p) => (none, p)
    | ((true, none), p) => readDirUses n p

def readDirs (p : P) : Option Err × P := readDirUses cm p.vfuel p

/-- `readArgValues` -/
def readArgValues (p : P) : Option Err × P :=
  match skipSp cm p with
  | (none, p) => (some ioErr, p)
  | (some b, p) =>
    if b == 40 then argLoop cm p.vfuel (reRead p) else (none, p)

/-- `if b == '=' { _, _ = p.readByte(); …Default, err = p.readValue() }` -/
def optDefault (b : UInt8) (p : P) : Option Err × P :=
  if b == 61 then readValue cm p.vfuel (reRead p) else (none, p)

/-- remaining input, counting the byte on deck: the measure every loop consumes -/
def P.mu (p : P) : Nat := p.rest.length + (if p.onDeck != 0 then 1 else 0)

def P.init (bytes : List UInt8) (tail : Tail) : P := { rest := bytes, tail := tail }

/-- `ParseValue` -/
def parseValue (bytes : List UInt8) (tail : Tail) : Option Err × P :=
  let p := P.init bytes tail
  readValue cm p.vfuel p

end Ggql.Scan
