/-
Model of the type table of the loader (C16, C14): `typelist.go: add` (append, then sort by
(rank, name)), `root.go: addTypes` over successive loads, and `assureSchema` (the operation roots are
fixed when the first load completes).  A definition is its sort key (rank and name, encoded
order-preservingly as a number by the driver) and an opaque payload.
-/
namespace Ggql.Load

structure Def where
  key : Nat          -- (rank, name), order-preserving encoding
  payload : Nat      -- identity of the definition's content
  deriving DecidableEq, Repr, Inhabited

/-- `typeList.add`: the list is kept sorted by key; with distinct keys the sorted order is unique, so
inserting into the sorted list is what append-then-`sort.Slice` yields -/
def insert (d : Def) : List Def → List Def
  | [] => [d]
  | x :: xs => if d.key < x.key then d :: x :: xs else x :: insert d xs

/-- one load: `addTypes` adds the document's definitions in document order -/
def addAll (tl : List Def) (ds : List Def) : List Def := ds.foldl (fun acc d => insert d acc) tl

/-- successive loads into one root -/
def loads (tl : List Def) (docs : List (List Def)) : List Def := docs.foldl addAll tl

structure Cfg where
  assureOnce : Bool := true      -- D34: `assureSchema` only acts while `root.schema == nil`

/-- loader state: the type table and whether the query root has been bound -/
structure State where
  types : List Def := []
  assured : Bool := false        -- root.schema != nil
  hasQuery : Bool := false       -- the schema has a `query` field

/-- a load also assures the schema: the `query` operation root is bound to the type with key `qkey` if
it is in the table *now* (or, repaired, whenever it is) -/
def loadDoc (cfg : Cfg) (qkey : Nat) (st : State) (doc : List Def) : State :=
  let types := addAll st.types doc
  let present := types.any (fun d => d.key == qkey)
  if st.assured && cfg.assureOnce then { st with types := types }
  else { types := types, assured := true, hasQuery := st.hasQuery || present }

def loadAll (cfg : Cfg) (qkey : Nat) (docs : List (List Def)) : State := docs.foldl (loadDoc cfg qkey) {}

end Ggql.Load
