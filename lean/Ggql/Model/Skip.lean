/-
Model of `resolve.go: skipSel` (C09).  The four assignment sites of the Go function

    case "skip":     bool → skip = v        Var → skip = b   | bad → skip = true  + error
    case "include":  bool → skip = !v       Var → skip = !b  | bad → skip = true  + error

are *data* (`Table`), read from the source on every run by /verif/extract and written to
`Ggql/Gen/Skip.lean`.  The model interprets the table; the theorems are stated for every
table satisfying a decidable predicate, and instantiated with the generated one.
-/
namespace Ggql.Skip

/-- how an arm updates `skip`: `skip = e` or `skip = skip || e` -/
inductive Upd where
  | assign | orAssign
  deriving DecidableEq, Repr, Inhabited

/-- one assignment site: `skip (=|= skip ||) (v | !v)` -/
structure Arm where
  upd : Upd
  neg : Bool
  deriving DecidableEq, Repr, Inhabited

/-- the constant assigned on a bad variable, with its update form -/
structure BadArm where
  upd : Upd
  val : Bool
  err : Bool      -- an error is appended
  deriving DecidableEq, Repr, Inhabited

structure Table where
  skipLit : Arm
  skipVar : Arm
  skipBad : BadArm
  inclLit : Arm
  inclVar : Arm
  inclBad : BadArm
  deriving DecidableEq, Repr, Inhabited

/-- the value found for a variable in the request's variable map -/
inductive VarVal where
  | bool (b : Bool)
  | other            -- nil, a number, a string, …: `vars[v].(bool)` fails
  deriving DecidableEq, Repr, Inhabited

abbrev Vars := List (String × VarVal)

def lookup (vars : Vars) (n : String) : VarVal :=
  match vars.find? (fun p => p.1 == n) with
  | some (_, v) => v
  | none => .other

/-- the `if` argument of a directive use -/
inductive Cond where
  | lit (b : Bool)
  | var (n : String)
  | otherVal          -- neither bool nor Var: the Go type switch has no arm, nothing happens
  deriving DecidableEq, Repr, Inhabited

inductive DName where
  | skip | incl | other
  deriving DecidableEq, Repr, Inhabited

structure DirUse where
  name : DName
  ifArg : Option Cond   -- `du.Args["if"]`, nil when absent
  deriving DecidableEq, Repr, Inhabited

def applyUpd (u : Upd) (skip e : Bool) : Bool :=
  match u with
  | .assign => e
  | .orAssign => skip || e

def applyArm (a : Arm) (skip v : Bool) : Bool := applyUpd a.upd skip (if a.neg then !v else v)

/-- one iteration of the `for _, du := range sel.Directives()` loop; returns the new `skip`
and the number of errors appended -/
def step (t : Table) (vars : Vars) (st : Bool × Nat) (d : DirUse) : Bool × Nat :=
  let (skip, errs) := st
  match d.name, d.ifArg with
  | .skip, some (.lit b) => (applyArm t.skipLit skip b, errs)
  | .skip, some (.var n) =>
    (match lookup vars n with
     | .bool b => (applyArm t.skipVar skip b, errs)
     | .other => (applyUpd t.skipBad.upd skip t.skipBad.val, if t.skipBad.err then errs + 1 else errs))
  | .incl, some (.lit b) => (applyArm t.inclLit skip b, errs)
  | .incl, some (.var n) =>
    (match lookup vars n with
     | .bool b => (applyArm t.inclVar skip b, errs)
     | .other => (applyUpd t.inclBad.upd skip t.inclBad.val, if t.inclBad.err then errs + 1 else errs))
  | _, _ => (skip, errs)

/-- `skipSel`: (skip, number of errors) -/
def skipSel (t : Table) (dirs : List DirUse) (vars : Vars) : Bool × Nat :=
  dirs.foldl (step t vars) (false, 0)

/-! ### Specification (GraphQL June 2018 §3.13.1/2) -/

/-- value of a condition; `none` when the variable is not a Boolean -/
def condVal (vars : Vars) : Cond → Option Bool
  | .lit b => some b
  | .var n => (match lookup vars n with | .bool b => some b | .other => none)
  | .otherVal => none

/-- does this single directive exclude the selection?  A condition that has no Boolean value
excludes (and is reported): the property is silent about it, the code skips, so does the spec. -/
def excludes (vars : Vars) (d : DirUse) : Bool :=
  match d.name, d.ifArg with
  | .skip, some (.lit b) => b
  | .skip, some (.var n) => (match lookup vars n with | .bool b => b | .other => true)
  | .incl, some (.lit b) => !b
  | .incl, some (.var n) => (match lookup vars n with | .bool b => !b | .other => true)
  | _, _ => false

/-- a selection is included iff no directive on it excludes it — order plays no role -/
def included (dirs : List DirUse) (vars : Vars) : Bool := dirs.all (fun d => !excludes vars d)

def isBad (vars : Vars) (d : DirUse) : Bool :=
  match d.name, d.ifArg with
  | .skip, some (.var n) => (match lookup vars n with | .bool _ => false | .other => true)
  | .incl, some (.var n) => (match lookup vars n with | .bool _ => false | .other => true)
  | _, _ => false

/-! ### Table predicates -/

/-- polarity and bad-variable handling as required, whatever the update form -/
def Table.polarityOk (t : Table) : Bool :=
  !t.skipLit.neg && !t.skipVar.neg && t.inclLit.neg && t.inclVar.neg &&
  t.skipBad.val && t.inclBad.val && t.skipBad.err && t.inclBad.err

/-- every arm accumulates (`skip = skip || …`) -/
def Table.accumulates (t : Table) : Bool :=
  t.skipLit.upd == .orAssign && t.skipVar.upd == .orAssign && t.inclLit.upd == .orAssign &&
  t.inclVar.upd == .orAssign

def Table.wellFormed (t : Table) : Bool := t.polarityOk && t.accumulates

/-- the table of the pinned tree (D07): plain assignment everywhere -/
def tableAssign : Table :=
  { skipLit := ⟨.assign, false⟩, skipVar := ⟨.assign, false⟩, skipBad := ⟨.assign, true, true⟩,
    inclLit := ⟨.assign, true⟩,  inclVar := ⟨.assign, true⟩,  inclBad := ⟨.assign, true, true⟩ }

/-- the repaired table: `skip = skip || …` -/
def tableOr : Table :=
  { skipLit := ⟨.orAssign, false⟩, skipVar := ⟨.orAssign, false⟩, skipBad := ⟨.assign, true, true⟩,
    inclLit := ⟨.orAssign, true⟩,  inclVar := ⟨.orAssign, true⟩,  inclBad := ⟨.assign, true, true⟩ }

/-- directives that can touch `skip` -/
def relevant (d : DirUse) : Bool :=
  match d.name, d.ifArg with
  | .skip, some (.lit _) => true
  | .skip, some (.var _) => true
  | .incl, some (.lit _) => true
  | .incl, some (.var _) => true
  | _, _ => false

end Ggql.Skip
