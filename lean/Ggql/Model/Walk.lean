/-
Model of the resolver walk: `resolve.go: ResolveExecutable (operation choice), resolveField,
resolveSels, resolveInline, resolveFragRef, resolve, resolveList, skipSel, addError`, for the
interface-resolver strategy (every data node answers `Resolve(field, args)`; what it answers is the
data graph, an input).  Used by C01, C06, C08, C10 (and C09's "excluded selections are silent").

Named fragment spreads are carried *inlined* (`Sel.inline … (spread := some …)`): the decoder expands
them with fuel, so the walk is structurally recursive on the selection tree; documents with fragment
cycles are outside this model (D02, C03).
-/
import Ggql.Model.Skip
namespace Ggql.Walk

/-- output type expressions -/
inductive TRef where
  | named (n : String)
  | list (t : TRef)
  | nonNull (t : TRef)
  deriving Repr, Inhabited, DecidableEq

structure ArgDef where
  name : String
  required : Bool            -- declared non-null
  deriving Repr, Inhabited, DecidableEq

structure FieldDef where
  name : String
  type : TRef
  args : List ArgDef := []
  deriving Repr, Inhabited

inductive TypeDef where
  | object (name : String) (fields : List FieldDef) (ifaces : List String)
  | iface (name : String) (fields : List FieldDef)
  | union (name : String) (members : List String)
  | leaf (name : String)                       -- scalar or enum: output-coerced by an oracle
  deriving Repr, Inhabited

def TypeDef.name : TypeDef → String
  | .object n _ _ => n | .iface n _ => n | .union n _ => n | .leaf n => n

abbrev Schema := List TypeDef

def Schema.find (s : Schema) (n : String) : Option TypeDef := List.find? (fun t => t.name == n) s

def TypeDef.fields : TypeDef → List FieldDef
  | .object _ fs _ => fs | .iface _ fs => fs | _ => []

/-- leaf values a resolver returns (kept small: the coercion tables are C05's business) -/
inductive Leaf where
  | int (n : Int) | str (s : String) | bool (b : Bool)
  deriving Repr, Inhabited, DecidableEq

/-- what a resolver returns -/
inductive DVal where
  | nil
  | leaf (v : Leaf)
  | ref (node : Nat)            -- an object of the data graph
  | list (xs : List DVal)
  deriving Repr, Inhabited

structure FieldRes where
  val : DVal
  errs : Nat := 0               -- number of error members the resolver returns with the value
  deriving Repr, Inhabited

structure Node where
  goType : String               -- the Go type name (what `reflect.TypeOf` shows), for union member matching
  fields : List (String × FieldRes)
  deriving Repr, Inhabited

abbrev Graph := List Node

inductive Seg where
  | key (s : String) | idx (n : Nat) | frag
  deriving Repr, Inhabited, DecidableEq

/-- error classes (message texts are reduced to these by the harness) -/
inductive ErrCls where
  | resolver | notAField (name : String) | unknownArg (name : String) | required (name : String)
  | leaf | notAList | directive | noSelection | noOperation | invalidDoc
  deriving Repr, Inhabited, DecidableEq

def ErrCls.render : ErrCls → String
  | .resolver => "resolver" | .notAField n => "not-a-field:" ++ n | .unknownArg n => "unknown-arg:" ++ n
  | .required n => "required:" ++ n | .leaf => "leaf" | .notAList => "not-a-list" | .directive => "directive"
  | .noSelection => "no-selection" | .noOperation => "no-operation" | .invalidDoc => "invalid-document"

structure Err where
  path : List Seg
  cls : ErrCls
  deriving Repr, Inhabited, DecidableEq

/-- response trees -/
inductive J where
  | null
  | leaf (v : Leaf)
  | str (s : String)            -- __typename
  | raw                         -- a Go object placed in data unresolved (depth limit, D13)
  | list (xs : List J)
  | obj (kvs : List (String × J))
  deriving Repr, Inhabited

structure ArgVal where
  name : String
  isNull : Bool                 -- literal null / absent value
  deriving Repr, Inhabited, DecidableEq

structure SpreadInfo where
  name : String
  deriving Repr, Inhabited

inductive Sel where
  | field (alias name : String) (args : List ArgVal) (dirs : List Skip.DirUse) (sels : List Sel)
  | inline (cond : Option String) (dirs : List Skip.DirUse) (sels : List Sel) (spread : Option SpreadInfo)
  deriving Inhabited

def Sel.key : Sel → String
  | .field a n _ _ _ => if a.isEmpty then n else a
  | .inline .. => ""

/-- one resolver invocation.  `node` and `field` are what the harness logs; `ty` (the static container type the
selection was resolved against) and `args` (the arguments as written) are carried for the theorems only. -/
structure Call where
  node : Nat
  field : String
  ty : String := ""
  args : List ArgVal := []
  deriving Repr, Inhabited, DecidableEq

structure Cfg where
  skipTable : Skip.Table
  condByIdentity : Bool := true     -- D14: a fragment applies only when its condition *is* the static container type
  fragPathSegment : Bool := true    -- D19: errors under a named fragment get a "fragment at L:C" path element
  keepValueOnError : Bool := true   -- D20: a resolver returning value and error keeps the value in data
  argCountCheckOnly : Bool := true  -- D23: unknown arguments are reported only when the counts differ, and only on object containers
  opFallbackAnyName : Bool := true  -- D11: a name that matches no operation falls back to the document's only operation
  unionAtMember : Bool := true      -- D103: the selections under a union-typed field are resolved at the member type (so a member's field can be selected without a fragment)
  metaArgsUnchecked : Bool := true  -- D100: `__typename` is answered whatever arguments it is given
  anonAmongOthers : Bool := true    -- D96: an operation without a name is accepted next to other operations
  dupKeyOverwrites : Bool := true   -- D12: a response key selected again replaces the earlier value instead of being merged with it
  maxDepth : Nat := 100

structure Env where
  cfg : Cfg
  schema : Schema
  graph : Graph
  vars : Skip.Vars

/-- accumulated outcome of a piece of the walk -/
structure Acc where
  errs : List Err := []
  calls : List Call := []
  deriving Inhabited

def Acc.append (a b : Acc) : Acc := { errs := a.errs ++ b.errs, calls := a.calls ++ b.calls }

def prefixErrs (s : Seg) (es : List Err) : List Err := es.map (fun e => { e with path := s :: e.path })

def setKey (kvs : List (String × J)) (k : String) (v : J) : List (String × J) :=
  if kvs.any (fun p => p.1 == k) then kvs.map (fun p => if p.1 == k then (k, v) else p) else kvs ++ [(k, v)]

/-- `mergeValue`: objects key by key, lists of equal length element by element, anything else replaced by the later
value (fuel: the nesting of the earlier value) -/
def mergeJ : Nat → J → J → J
  | 0, _, add => add
  | fuel + 1, .obj a, .obj b =>
    .obj (b.foldl (fun acc kv =>
      match acc.find? (fun p => p.1 == kv.1) with
      | some prev => acc.map (fun p => if p.1 == kv.1 then (kv.1, mergeJ fuel prev.2 kv.2) else p)
      | none => acc ++ [kv]) a)
  | fuel + 1, .list a, .list b =>
    if a.length == b.length then .list ((a.zip b).map (fun p => mergeJ fuel p.1 p.2)) else .list b
  | _, _, add => add

/-- `result[key] = nil` of `resolveField` (no resolver value): as coded at first, whatever was there is replaced;
repaired, an earlier value of the key stays -/
def putNil (cfg : Cfg) (kvs : List (String × J)) (k : String) : List (String × J) :=
  if cfg.dupKeyOverwrites then setKey kvs k .null
  else if kvs.any (fun p => p.1 == k) then kvs else kvs ++ [(k, .null)]

/-- `result[key] = fv` of `resolveField`: replaced, or (repaired) merged with the earlier value of the key -/
def putVal (cfg : Cfg) (kvs : List (String × J)) (k : String) (v : J) : List (String × J) :=
  if cfg.dupKeyOverwrites then setKey kvs k v
  else match kvs.find? (fun p => p.1 == k) with
    | some prev => setKey kvs k (mergeJ 1000 prev.2 v)
    | none => kvs ++ [(k, v)]

/-- `getFieldDef`: objects and interfaces have fields -/
def getFieldDef (s : Schema) (ty : String) (f : String) : Option FieldDef :=
  (s.find ty).bind (fun t => t.fields.find? (fun fd => fd.name == f))

/-- `sortArgs` + `formArgs`: errors for one field's arguments (class, argument) -/
def argErrors (cfg : Cfg) (s : Schema) (ty : String) (fd : FieldDef) (args : List ArgVal) : List Err × List Err :=
  -- sortArgs: only on object containers, only when the counts differ (as coded)
  let isObj := match s.find ty with | some (.object ..) => true | _ => false
  let unknown := args.filter (fun a => !fd.args.any (fun d => d.name == a.name))
  let sortErrs : List Err :=
    if cfg.argCountCheckOnly then
      (if isObj && !args.isEmpty && args.length != fd.args.length then unknown.map (fun a => ⟨[], .unknownArg a.name⟩) else [])
    else unknown.map (fun a => ⟨[], .unknownArg a.name⟩)
  -- formArgs: required (non-null) arguments that are absent or null
  let missing := fd.args.filter (fun d => d.required && !args.any (fun a => a.name == d.name && !a.isNull))
  -- a literal null given for a non-null argument also fails `NonNull.CoerceIn`, reported under the argument
  let nulls := args.filter (fun a => a.isNull && fd.args.any (fun d => d.name == a.name && d.required))
  (sortErrs, nulls.map (fun a => ⟨[.key a.name], .leaf⟩) ++ missing.map (fun d => ⟨[], .required d.name⟩))

/-- what a node answers for a field (value and number of errors): the only way the walk reads field values.
A resolver strategy is a representation of this function (C02). -/
def fetch (g : Graph) (node : Nat) (name : String) : FieldRes :=
  match g[node]? with
  | some n => (match n.fields.find? (fun p => p.1 == name) with | some p => p.2 | none => { val := .nil })
  | none => { val := .nil }

/-- does the Go type of `node` bind to object type `member`?  (by name: `metaCheck` without @go) -/
def bindsTo (g : Graph) (node : Nat) (member : String) : Bool :=
  match g[node]? with
  | some n => n.goType == member
  | none => false

/-- complete a value: `resolve` / `resolveList`.  `k` is the object-level continuation (the walk of the
field's own selection set on a node at a static type, at a depth).  `d` is `resolve`'s depth argument. -/
def complete (s : Schema) (g : Graph) (k : Nat → String → Nat → J × Acc) : TRef → DVal → Nat → J × Acc
  | _, .nil, _ => (.null, {})                       -- `IsNil(obj)` (also at depth 0)
  | .nonNull t, v, d => if d = 0 then (.raw, {}) else complete s g k t v d
  | .list t, .list xs, d =>
    if d = 0 then (.raw, {}) else
    let rs := xs.map (fun x => complete s g k t x (d - 1))
    let accs := rs.zipIdx.map (fun p => ({ p.1.2 with errs := prefixErrs (.idx p.2) p.1.2.errs } : Acc))
    (.list (rs.map (·.1)), accs.foldl Acc.append {})
  | .list _, _, d => if d = 0 then (.raw, {}) else (.null, { errs := [⟨[], .notAList⟩] })
  | .named n, v, d =>
    if d = 0 then (.raw, {}) else
    match s.find n, v with
    | some (.leaf _), .leaf l => (.leaf l, {})      -- conforming leaves: CoerceOut is the identity (C05 covers the rest)
    | some (.leaf _), _ => (.null, { errs := [⟨[], .leaf⟩] })
    | some (.object ..), .ref node => k node n (d - 1)
    | some (.iface ..), .ref node => k node n (d - 1)
    | some (.union _ members), .ref node =>
      -- the first member object type the node's Go type is bound to resolves it (types pre-registered)
      (match members.find? (fun m => bindsTo g node m) with
       | some m => k node m (d - 1)
       | none => (.obj [], {}))
    | _, _ => (.null, { errs := [⟨[], .leaf⟩] })

def TRef.base : TRef → String
  | .named n => n
  | .list t => t.base
  | .nonNull t => t.base

/-- the (static) type the selections of a field's value are walked at: the type `complete` hands on — the declared
type, or for a union-typed field the member type the value is bound to — except that, repaired (D103), a union-typed
field's selections are walked at the union itself, as an interface-typed field's are at the interface -/
def staticTy (env : Env) (declared : TRef) (t : String) : String :=
  if env.cfg.unionAtMember then t else
  match env.schema.find declared.base with
  | some (.union ..) => declared.base
  | _ => t

/-- `objectType`: the object type of the node at a position of (static) type `ty` — `ty` itself when it is an object
type; for an interface / union the object type the node's Go type is bound to, when that type implements the
interface / is a member of the union; `none` when it can not be determined -/
def objectTypeOf (env : Env) (node : Nat) (ty : String) : Option String :=
  match env.schema.find ty with
  | some (.object ..) => some ty
  | some (.iface ..) =>
    (match env.graph[node]? with
     | some n => (match env.schema.find n.goType with
                  | some (.object _ _ ifs) => if ifs.contains ty then some n.goType else none
                  | _ => none)
     | none => none)
  | some (.union _ ms) =>
    (match env.graph[node]? with
     | some n => (match env.schema.find n.goType with
                  | some (.object ..) => if ms.contains n.goType then some n.goType else none
                  | _ => none)
     | none => none)
  | _ => none

/-- GraphQL's DoesFragmentTypeApply for an object type `obj` and a type condition `c`: the condition is the
type, an interface it implements, or a union it is a member of -/
def typeApplies (s : Schema) (obj c : String) : Bool :=
  c == obj ||
  (match s.find obj with | some (.object _ _ ifs) => ifs.contains c | _ => false) ||
  (match s.find c with | some (.union _ ms) => ms.contains obj | _ => false)

/-- does a fragment with condition `cond` apply to the node at a position of static type `ty`?  As coded at first
(D14): only when the condition *is* that type.  Repaired (`fragmentType`): also when the node's object type can be
determined and the condition is that type, an interface it implements or a union it is a member of. -/
def fragApplies (env : Env) (node : Nat) (ty : String) (cond : Option String) : Bool :=
  match cond with
  | none => true
  | some c =>
    c == ty ||
    (!env.cfg.condByIdentity &&
      (match objectTypeOf env node ty with
       | some ot => typeApplies env.schema ot c
       | none => false))

/-- the static type the selections of an applying fragment are walked at: its type condition (as coded at first
the condition was the type of the position anyway) -/
def fragTy (env : Env) (ty : String) (cond : Option String) : String :=
  match cond with
  | none => ty
  | some c => if env.cfg.condByIdentity then ty else c

/-- `__typename`: as coded at first the name of the position's type (D14: the interface under an interface-typed
field); repaired, the node's object type when it can be determined -/
def typeNameOf (env : Env) (node : Nat) (ty : String) : String :=
  if env.cfg.condByIdentity then ty else (objectTypeOf env node ty).getD ty

mutual
/-- one selection against `(node, ty)` at resolveSels-depth `d`, updating the result map -/
def rSel (env : Env) (node : Nat) (ty : String) (d : Nat) (res : List (String × J)) : Sel → List (String × J) × Acc
  | .field al name args dirs sels =>
    let key := if al.isEmpty then name else al
    let sk := Skip.skipSel env.cfg.skipTable dirs env.vars
    let skipErrs : List Err := (List.replicate sk.2 (⟨[.key key], .directive⟩ : Err))
    if sk.1 then (res, { errs := skipErrs }) else
    if name == "__typename" then
      -- `__typename` declares no argument: repaired, the first one given is reported and nothing is written
      if !env.cfg.metaArgsUnchecked && !args.isEmpty then
        (res, { errs := skipErrs ++ [⟨[.key key], .unknownArg ((args.head?.map (·.name)).getD "")⟩] })
      else (setKey res key (.str (typeNameOf env node ty)), { errs := skipErrs }) else
    match getFieldDef env.schema ty name with
    | none => (res, { errs := skipErrs ++ [⟨[.key key], .notAField name⟩] })
    | some fd =>
      let (sortErrs, formErrs) := argErrors env.cfg env.schema ty fd args
      if !sortErrs.isEmpty then (res, { errs := skipErrs ++ prefixErrs (.key key) sortErrs }) else
      if !formErrs.isEmpty then
        -- no call; attr is nil, so the key is set to null
        (putNil env.cfg res key, { errs := skipErrs ++ prefixErrs (.key key) formErrs })
      else
        let fr : FieldRes := fetch env.graph node name
        let call : Call := ⟨node, name, ty, args⟩
        let resolverErrs : List Err := List.replicate fr.errs ⟨[], .resolver⟩
        let (fv, acc) := complete env.schema env.graph (fun n t d' => if sels.isEmpty then (.obj [], { errs := [⟨[], .noSelection⟩] }) else let r := rSels env n (staticTy env fd.type t) d' [] sels; (.obj r.1, r.2)) fd.type fr.val d
        let fv := if fr.errs > 0 && !env.cfg.keepValueOnError then J.null else fv
        ((match fr.val with | .nil => putNil env.cfg res key | _ => putVal env.cfg res key fv),
         { errs := skipErrs ++ prefixErrs (.key key) (resolverErrs ++ acc.errs), calls := call :: acc.calls })
  | .inline cond dirs sels spread =>
    let sk := Skip.skipSel env.cfg.skipTable dirs env.vars
    let skipErrs : List Err := (List.replicate sk.2 (⟨[], .directive⟩ : Err))
    if sk.1 then (res, { errs := skipErrs }) else
    if fragApplies env node ty cond then
      let r := rSels env node (fragTy env ty cond) d res sels
      let errs := match spread with
        | some _ => if env.cfg.fragPathSegment then prefixErrs .frag r.2.errs else r.2.errs
        | none => r.2.errs
      (r.1, { errs := skipErrs ++ errs, calls := r.2.calls })
    else (res, { errs := skipErrs })

/-- `resolveSels` -/
def rSels (env : Env) (node : Nat) (ty : String) (d : Nat) (res : List (String × J)) : List Sel → List (String × J) × Acc
  | [] => (res, {})
  | s :: rest =>
    let r1 := rSel env node ty d res s
    let r2 := rSels env node ty d r1.1 rest
    (r2.1, r1.2.append r2.2)
end

structure Op where
  name : String
  kind : String              -- query | mutation
  sels : List Sel
  deriving Inhabited

structure Response where
  data : Option J            -- none: no data entry / null data
  acc : Acc

/-- `ResolveExecutable`'s choice of operation -/
def chooseOp (cfg : Cfg) (ops : List Op) (name : String) : Option Op :=
  match ops.find? (fun o => o.name == name) with
  | some o => some o
  | none =>
    -- the only operation stands in when no name is given (D11: in the pinned tree, whatever name is given)
    if cfg.opFallbackAnyName || name.isEmpty then (match ops with | [o] => some o | _ => none) else none

/-- the whole request against the root node `rootNode` of static type `rootTy` -/
def run (env : Env) (ops : List Op) (opName : String) (rootNode : Nat) (rootTy : String → Option String) : Response :=
  match chooseOp env.cfg ops opName with
  | none => { data := some .null, acc := { errs := [⟨[], .noOperation⟩] } }   -- `{"data": null, "errors": […]}`
  | some op =>
    match rootTy op.kind with
    | none => { data := some .null, acc := { errs := [⟨[], .notAField op.kind⟩] } }
    | some ty =>
      if op.sels.isEmpty then { data := some (.obj []), acc := { errs := [⟨[], .noSelection⟩] } } else
      let r := rSels env rootNode ty (env.cfg.maxDepth - 1) [] op.sels
      { data := some (.obj r.1), acc := r.2 }

/-- `Executable.Validate`, the rule that concerns the choice of operation: an operation without a name must be
the only operation of the document -/
def loneAnonymousOk (ops : List Op) : Bool := ops.length ≤ 1 || ops.all (fun o => !o.name.isEmpty)

/-- the whole request: validation of the document (the rule above; as coded at first it was missing, D96), then
the walk.  A rejected document answers with errors only: no `data` entry, no resolver invoked. -/
def request (env : Env) (ops : List Op) (opName : String) (rootNode : Nat) (rootTy : String → Option String) : Response :=
  if !env.cfg.anonAmongOthers && !loneAnonymousOk ops then { data := none, acc := { errs := [⟨[], .invalidDoc⟩] } }
  else run env ops opName rootNode rootTy

end Ggql.Walk
