/-
Control-flow model of `exeparser.go` (C03): `parseExe`, `readOp`, `readSelectionSet`, `readField`,
`readFragment`, `readFragRef`, `readInline`, `readFragmentDef`, `readVarDefs`, `readVarDef`, over the
scanner model.  The `err` variable of each Go function is followed literally (e.g. `readSelectionSet`
turns a reader error into "selection set not terminated" because `b` is 0 whenever `err != nil`;
`readOp` stores an operation even when reading it failed).

`P.frags` models `exe.Fragments`: name ↦ "has a non-empty selection set" (placeholders created by
`readFragRef` have none).
-/
import Ggql.Model.Scan
import Ggql.Model.SdlCF
namespace Ggql.ExeCF
open Ggql.Scan Ggql.SdlCF

structure Cfg where
  /-- D05: `readVarDef` accepts a variable definition without a type (`$v: )`), leaving `VarDef.Type` nil -/
  varTypeOptional : Bool := true
  /-- D64: the "not a valid executable operation type" error is located from the counters after `readToken`'s
  look-ahead (`p.line, p.col-len(token)`) instead of where the token starts -/
  opErrPosAfterLookahead : Bool := true
  /-- D70: "missing fragment condition" is located two columns before the scanner's position after the token
  (`p.line, p.col-2`) instead of where `on` was expected -/
  fragCondPosAfterToken : Bool := true
  /-- D88: `readOp` takes the column of an operation after skipping to its name but keeps the line it had before,
  so with the name on a later line (a comment or a line break after `query`) line and column come from
  different lines -/
  opLineBeforeSkip : Bool := true

variable (cm : CM) (cfg : Cfg)

def fragGet (fs : List (List UInt8 × Bool)) (n : List UInt8) : Option Bool :=
  (fs.find? (fun e => e.1 == n)).map (·.2)

def fragSet (fs : List (List UInt8 × Bool)) (n : List UInt8) (b : Bool) : List (List UInt8 × Bool) :=
  if (fragGet fs n).isSome then fs.map (fun e => if e.1 == n then (n, b) else e) else (n, b) :: fs

/-- `readVarDef` (the `$` has been consumed) -/
def readVarDef (p : P) : Option Err × P :=
  match readToken cm p with
  | ((_, true), p) => (some ioErr, p)
  | ((tok, false), p) =>
    if tok.isEmpty then (some p.perr, p)
    else
      match skipSp cm p with
      | (none, p) => (some ioErr, p)
      | (some b, p) =>
        if b != 58 then (some p.perr, p)
        else
          let p := reRead p
          match readType cm p.vfuel p with
          | ((_, some e), p) => (some e, p)
          | ((t, none), p) =>
            if t.isNone && !cfg.varTypeOptional then (some p.perr, p)     -- "variable type missing"
            else
            match skipSp cm p with
            | (none, p) => (some ioErr, p)
            | (some b, p) =>
              match optDefault cm b p with
              | (some e, p) => (some e, p)
              | (none, p) => readDirs cm p

def varLoop : Nat → P → Option Err × P
  | 0, p => (some ioErr, p.outOfFuel)
  | n + 1, p =>
    match skipSp cm p with
    | (none, p) => (some ioErr, p)
    | (some b, p) =>
      if b == 0 then (some p.perr, p)
      else if b == 41 then (none, reRead p)
      else if b != 36 then (some p.perr, p)
      else
        match readVarDef cm cfg (reRead p) with
        | (some e, p) => (some e, p)
        | (none, p) => varLoop n p

/-- `readVarDefs` -/
def readVarDefs (p : P) : Option Err × P :=
  match skipSp cm p with
  | (none, p) => (some ioErr, p)
  | (some b, p) => if b == 40 then varLoop cm cfg p.vfuel (reRead p) else (none, p)

/-- `readFragRef` -/
def readFragRef (tok : List UInt8) (p : P) : Option Err × P :=
  let p := if (fragGet p.frags tok).isSome then p else { p with frags := (tok, false) :: p.frags }
  readDirs cm p

/-- `if b == ':' { readByte; f.Alias = token; f.Name, err = p.readToken() }` -/
def aliasTail (b : UInt8) (p : P) : Option Err × P :=
  if b == 58 then
    (match readToken cm (reRead p) with
     | ((_, true), p) => (some ioErr, p)
     | ((_, false), p) => (none, p))
  else (none, p)

/-- one of the three dots of a fragment selection (`readFragment`'s `for i := 3; 0 < i; i--` loop) -/
def readDot (acc : Option Err × P) : Option Err × P :=
  match acc with
  | (some e, p) => (some e, p)
  | (none, p) =>
    match readByte p with
    | (none, p) => (some ioErr, p)
    | (some b, p) => if b != 46 then (some p.perr, p) else (none, p)

mutual
/-- `readSelectionSet`: (len(sels), err) -/
def readSelectionSet : Nat → P → (Nat × Option Err) × P
  | 0, p => ((0, some ioErr), p.outOfFuel)
  | n + 1, p =>
    match skipSp cm p with
    | (none, p) =>
      -- err ≠ nil, b = 0: the re-read happens, the loop breaks at once
      ((0, some ioErr), reRead p)
    | (some b, p) =>
      if b != 123 then ((0, none), p)
      else if tooDeep cm (reRead p) then ((0, some (reRead p).perr), reRead p)
      else
        let r := selLoop n (reRead p).enter 0
        (r.1, r.2.leave)

/-- the `FOR` loop of `readSelectionSet` -/
def selLoop : Nat → P → Nat → (Nat × Option Err) × P
  | 0, p, cnt => ((cnt, some ioErr), p.outOfFuel)
  | n + 1, p, cnt =>
    match skipSp cm p with
    | (none, p) => ((0, some p.perr), p)             -- `case 0` fires although err ≠ nil
    | (some b, p) =>
      if b == 0 then ((0, some p.perr), p)
      else if b == 125 then ((cnt, none), reRead p)
      else if b == 46 then
        (match readFragment n p with
         | (some e, p) => ((cnt, some e), p)
         | (none, p) => selLoop n p (cnt + 1))
      else
        (match readField n p with
         | (some e, p) => ((cnt, some e), p)
         | (none, p) => selLoop n p (cnt + 1))

/-- `readField` -/
def readField : Nat → P → Option Err × P
  | 0, p => (some ioErr, p.outOfFuel)
  | n + 1, p =>
    match readToken cm p with
    | ((_, true), p) => (some ioErr, p)
    | ((tok, false), p) =>
      if tok.isEmpty then (some p.perr, p)
      else
        match skipSp cm p with
        | (none, p) => (some ioErr, p)
        | (some b, p) =>
          match aliasTail cm b p with
          | (some e, p) => (some e, p)
          | (none, p) =>
            match readArgValues cm p with
            | (some e, p) => (some e, p)
            | (none, p) =>
              match readDirs cm p with
              | (some e, p) => (some e, p)
              | (none, p) => let r := readSelectionSet n p; (r.1.2, r.2)

/-- `readInline` -/
def readInline : Nat → P → Option Err × P
  | 0, p => (some ioErr, p.outOfFuel)
  | n + 1, p =>
    match readDirs cm p with
    | (some e, p) => (some e, p)
    | (none, p) => let r := readSelectionSet n p; (r.1.2, r.2)

/-- `readFragment` -/
def readFragment : Nat → P → Option Err × P
  | 0, p => (some ioErr, p.outOfFuel)
  | n + 1, p =>
    match readDot (readDot (readDot (none, p))) with
    | (some e, p) => (some e, p)
    | (none, p) =>
      match readToken cm p with
      | ((_, true), p) => (some ioErr, p)
      | ((tok, false), p) =>
        if tok == kw_on then
          let line := p.line
          let col := p.col
          -- the name, when the condition is a named type (read again by `readType`; the model is pure)
          let peek := (readToken cm (skipSp cm p).2).1.1
          (match readType cm p.vfuel p with
           | ((_, some e), p) => (some e, p)
           | ((some .ref, none), p) => (some (p.perrAt line col), p)
           | ((some .list, none), p) => if cm.condStrict then (some (p.perrAt line col), p) else readInline n p
           | ((some .nonNull, none), p) => if cm.condStrict then (some (p.perrAt line col), p) else readInline n p
           | ((some .known, none), p) =>
             if cm.condStrict && !cm.composite peek then (some (p.perrAt line col), p) else readInline n p
           | ((none, none), p) => readInline n p)
        else if tok.isEmpty then readInline n p
        else readFragRef cm tok p
end

/-- `readOp`: (name, line, col, err) -/
def readOp (fuel : Nat) (p : P) : ((List UInt8 × Int × Int) × Option Err) × P :=
  let line : Int := p.line
  let col0 : Int := p.col
  match skipSp cm p with
  | (none, p) => ((([], line, col0), some ioErr), p)     -- `op.col = p.col` is skipped when skipSpace fails
  | (some _, p) =>
    let line : Int := if cfg.opLineBeforeSkip then line else p.line
    let col : Int := p.col
    match readToken cm p with
    | ((t, true), p) => (((t, line, col), some ioErr), p)
    | ((t, false), p) =>
      match readVarDefs cm cfg p with
      | (some e, p) => (((t, line, col), some e), p)
      | (none, p) =>
        match readDirs cm p with
        | (some e, p) => (((t, line, col), some e), p)
        | (none, p) => let r := readSelectionSet cm fuel p; (((t, line, col), r.1.2), r.2)

/-- `readFragmentDef`: (name, line, col, has selections, err) -/
def readFragmentDef (fuel : Nat) (p : P) : ((List UInt8 × Int × Int × Bool) × Option Err) × P :=
  match skipSp cm p with
  | (none, p) => ((([], 0, 0, false), some ioErr), p)
  | (some _, p) =>
    let line : Int := p.line
    let col : Int := p.col
    match readToken cm p with
    | ((t, true), p) => (((t, line, col, false), some ioErr), p)
    | ((t, false), p) =>
      match skipSp cm p with
      | (none, p) => (((t, line, col, false), some ioErr), p)
      | (some _, p) =>
        let line1 : Int := p.line
        let col1 : Int := p.col
        match readToken cm p with
        | ((tok, ioe), p) =>
          let e0 : Option Err :=
            if tok != kw_on then
              some (if cfg.fragCondPosAfterToken then p.perrAt p.line ((p.col : Int) - 2) else p.perrAt line1 col1)
            else (if ioe then some ioErr else none)
          match e0 with
          | some e => (((t, line, col, false), some e), p)
          | none =>
            match readType cm p.vfuel p with
            | ((_, some e), p) => (((t, line, col, false), some e), p)
            | ((_, none), p) =>
              match readDirs cm p with
              | (some e, p) => (((t, line, col, false), some e), p)
              | (none, p) =>
                let r := readSelectionSet cm fuel p
                (((t, line, col, decide (0 < r.1.1)), r.1.2), r.2)

def isOpWord (t : List UInt8) : Bool := t == kw_query || t == kw_mutation || t == kw_subscription

/-- the main loop of `parseExe`; `ops` = names in `exe.Ops` -/
def mainLoop : Nat → P → List (List UInt8) → (List (List UInt8) × Option Err) × P
  | 0, p, ops => ((ops, some ioErr), p.outOfFuel)
  | n + 1, p, ops =>
    if p.eof then ((ops, none), p)
    else
      match skipSp cm p with
      | (none, p) => ((ops, some ioErr), p)
      | (some _, p) =>
        let line0 : Int := p.line
        let col0 : Int := p.col
        match readToken cm p with
        | ((_, true), p) => ((ops, some ioErr), p)
        | ((tok, false), p) =>
          if isOpWord tok then
            match readOp cm cfg p.vfuel p with
            | (((name, line, col), e), p) =>
              if ops.contains name then ((ops, some (p.perrAt line col)), p)
              else
                (match e with
                 | some e => ((name :: ops, some e), p)
                 | none => mainLoop n p (name :: ops))
          else if tok == kw_fragment then
            match readFragmentDef cm cfg p.vfuel p with
            | ((_, some e), p) => ((ops, some e), p)
            | (((name, line, col, hasSels), none), p) =>
              (match fragGet p.frags name with
               | some true => ((ops, some (p.perrAt line col)), p)
               | _ => mainLoop n { p with frags := fragSet p.frags name hasSels } ops)
          else if tok.isEmpty then
            if p.onDeck != 123 && p.onDeck != 0 then ((ops, some p.perr), p)
            else
              let line : Int := p.line
              let col : Int := p.col
              match readSelectionSet cm p.vfuel p with
              | ((cnt, e), p) =>
                if cnt == 0 then
                  (match e with
                   | some e => ((ops, some e), p)
                   | none => mainLoop n p ops)
                else if ops.contains [] then ((ops, some (p.perrAt line col)), p)
                else
                  (match e with
                   | some e => (([] :: ops, some e), p)
                   | none => mainLoop n p ([] :: ops))
          else if cfg.opErrPosAfterLookahead then ((ops, some (p.perrAt p.line ((p.col : Int) - tok.length))), p)
          else ((ops, some (p.perrAt line0 col0)), p)

/-- `parseExe` -/
def parseExe (fuel : Nat) (bytes : List UInt8) (tail : Tail) : (List (List UInt8) × Option Err) × P :=
  let p := P.init bytes tail
  match skipBOM p with
  | (some e, p) => (([], some e), p)
  | (none, p) => mainLoop cm cfg fuel p []

end Ggql.ExeCF
