/-
Lock-discipline model (C12, C20): threads emit `acq`/`rel`/`acc` events; an execution is any
interleaving that respects mutex semantics.  Nothing here is specific to ggql; the link to the source
is the access table regenerated into `Gen/Locks.lean`.
-/
namespace Ggql.Locks

inductive Ev where
  | acq (t m : Nat)             -- thread t acquires mutex m
  | rel (t m : Nat)             -- thread t releases mutex m
  | acc (t x : Nat) (w : Bool)  -- thread t reads (w = false) or writes location x
  deriving DecidableEq, Repr

def upd (m : Nat) (h : Option Nat) : Ev → Option Nat
  | .acq t m' => if m' = m then some t else h
  | .rel _ m' => if m' = m then none else h
  | .acc .. => h

/-- who holds `m` after the events of `tr` -/
def holder (m : Nat) (tr : List Ev) : Option Nat := tr.foldl (upd m) none

/-- mutex semantics for one event after the prefix `pre` -/
def okEv (pre : List Ev) : Ev → Prop
  | .acq _ m => holder m pre = none
  | .rel t m => holder m pre = some t
  | .acc .. => True

def ValidFrom (pre : List Ev) : List Ev → Prop
  | [] => True
  | e :: rest => okEv pre e ∧ ValidFrom (pre ++ [e]) rest

/-- an execution: every prefix respects the mutexes -/
def Valid (tr : List Ev) : Prop := ValidFrom [] tr

/-- lockset discipline: every access to `x` is made while holding `L x` -/
def DiscFrom (L : Nat → Nat) (pre : List Ev) : List Ev → Prop
  | [] => True
  | e :: rest => (match e with | .acc t x _ => holder (L x) pre = some t | _ => True) ∧ DiscFrom L (pre ++ [e]) rest

def Disciplined (L : Nat → Nat) (tr : List Ev) : Prop := DiscFrom L [] tr

/-! ### wait-for chains (deadlock) -/

/-- a thread blocked on `want` while holding `held` -/
structure Waiter where
  t : Nat
  held : List Nat
  want : Nat
  deriving Repr

/-- `ws` is a wait-for chain: each waiter wants a mutex held by the next one -/
def Chain : List Waiter → Prop
  | [] => True
  | [_] => True
  | a :: b :: rest => a.want ∈ b.held ∧ Chain (b :: rest)

/-- rank discipline: a thread only waits for a mutex ranked above everything it holds -/
def Ranked (rank : Nat → Nat) (w : Waiter) : Prop := ∀ m ∈ w.held, rank m < rank w.want

end Ggql.Locks
