/-
Block-level concurrent semantics of the subscription registry (C20).

Every access to `root.subscriptions` happens inside one of four critical sections of `subLock`
(that *is* a fact about the source: it is the lock table regenerated in `Gen/Locks.lean`, and the
lockset theorem of `Model/Locks.lean` turns it into mutual exclusion).  A concurrent execution is
therefore an arbitrary interleaving of these blocks:

  sub     – `subscribe`: append
  unsub   – `Unsubscribe`: reverse scan, delete, clean up           (one block)
  deliver – `AddEvent` phase 1: scan, Send, remember the failures    (first block of a publish)
  reap    – `AddEvent` phase 2: per failure, reverse scan by identity, delete, clean up

A publish call `k` is `deliver k` followed later by `reap k`; between them any other block may run.
-/
import Ggql.Model.Registry
namespace Ggql.Registry

inductive Block where
  | sub (pat : Pat)
  | unsub (ev : String)
  | deliver (k : Nat) (ev : String) (fails : List Nat)
  | reap (k : Nat)
  deriving Repr, Inhabited

structure CState where
  st : State
  pending : List (Nat × List Sub)      -- publish call ↦ the `failed` slice it holds between its phases
  deriving Repr, Inhabited

def cinit : CState := { st := init, pending := [] }

def cstep (c : CState) : Block → CState × Out
  | .sub p => ({ c with st := (subscribe c.st p).1 }, {})
  | .unsub ev => let r := unsubscribe c.st ev; ({ c with st := r.1 }, r.2)
  | .deliver k ev fails =>
    let (matched, failed) := deliver c.st.reg ev fails
    ({ c with pending := (k, failed) :: c.pending },
     { delivered := matched.map (·.id), count := matched.length })
  | .reap k =>
    match c.pending.find? (fun p => p.1 == k) with
    | none => (c, {})
    | some (_, failed) =>
      let (reg', cleaned) := reap c.st.reg failed
      ({ st := { c.st with reg := reg' }, pending := c.pending.filter (fun p => !(p.1 == k)) },
       { cleaned := cleaned.map (·.id) })

def crun (c : CState) : List Block → CState × List Out
  | [] => (c, [])
  | b :: bs =>
    let (c', o) := cstep c b
    let (c'', os) := crun c' bs
    (c'', o :: os)

end Ggql.Registry
