/-
Types of the lock/access table regenerated from the Go source (`Gen/Locks.lean`) and the decidable
side conditions that link it to the generic theorems of `Props/Locks.lean`.
-/
namespace Ggql.LockTable

inductive Field where
  | objMeta | fdGoField | fdMethod | fdArgs | rootSubs | inputMeta
  deriving DecidableEq, Repr, Inhabited

inductive Mutex where
  | objMu | fdMu | subLock
  deriving DecidableEq, Repr, Inhabited

structure Access where
  fn : String
  field : Field
  write : Bool
  held : List Mutex     -- mutexes held on the access's own receiver (or by every caller)
  request : Bool        -- reachable from a request / registry entry point
  deriving DecidableEq, Repr, Inhabited

structure Acquire where
  fn : String
  mutex : Mutex
  held : List Mutex
  deriving DecidableEq, Repr, Inhabited

structure Callback where
  fn : String
  mutex : Mutex
  callee : String
  deriving DecidableEq, Repr, Inhabited

/-- the mutex meant to guard a field (`none`: the struct has no mutex) -/
def guardOf : Field → Option Mutex
  | .objMeta => some .objMu
  | .fdGoField => some .fdMu
  | .fdMethod => some .fdMu
  | .fdArgs => some .fdMu
  | .rootSubs => some .subLock
  | .inputMeta => none

def Access.guarded (a : Access) : Bool :=
  match guardOf a.field with
  | some m => a.held.contains m
  | none => false

/-- Writes that lie on a request-reachable function but only execute for the set-up API: `regField`
assigns `fd.args` only inside `if 0 < len(args)`, and `resolveReflect` calls it without variadic
arguments — a syntactic fact re-read from the source on every run (`Gen.regFieldArgsSetupOnly`). -/
def setupOnlyWrites : List (String × Field) := [("regField", .fdArgs)]

/-- Fields written by request threads at all: only these can race between requests.  `fdArgs` and
`inputMeta` are written only by the set-up API (`RegisterField` with explicit argument order,
`RegisterType` on an input), which is outside C12's thread set. -/
def writtenByRequests (tbl : List Access) (f : Field) : Bool :=
  tbl.any (fun a => a.request && a.write && a.field == f && !setupOnlyWrites.contains (a.fn, a.field))

/-- Write-once reads: `resolveReflect` reads `fd.goField` / `fd.method` after a *guarded* read in the
same call observed the cell initialised, and request threads write the cell only when a guarded test
found it unset; such reads are ordered after the only write through that guarded read.  They are
exempted from the lockset side condition by (function, field) and exercised with the race detector. -/
def writeOnceExempt : List (String × Field) :=
  [("resolveReflect", .fdGoField), ("resolveReflect", .fdMethod)]

/-- the accesses that must satisfy the lockset discipline: request-reachable accesses to fields that
request threads write -/
def obligations (tbl : List Access) : List Access :=
  tbl.filter (fun a => a.request && writtenByRequests tbl a.field)

def unguarded (tbl : List Access) : List Access :=
  (obligations tbl).filter (fun a => !a.guarded && !(!a.write && writeOnceExempt.contains (a.fn, a.field)))

/-- (function, field, write) of the unguarded accesses, duplicates removed -/
def unguardedSites (tbl : List Access) : List (String × Field × Bool) :=
  ((unguarded tbl).map (fun a => (a.fn, a.field, a.write))).eraseDups

def rank : Mutex → Nat
  | .subLock => 0
  | .fdMu => 1
  | .objMu => 2

/-- every acquisition is made while holding only lower-ranked mutexes -/
def Acquire.ordered (a : Acquire) : Bool := a.held.all (fun m => rank m < rank a.mutex)

def registryAccesses (tbl : List Access) : List Access := tbl.filter (fun a => a.field == .rootSubs)

end Ggql.LockTable
