/-
Model of argument formation (C04): `resolve.go: ResolveExecutable` (variable binding), `formArgs`,
`replaceArgVars`, and the composite `CoerceIn` of `List`, `NonNull`, `Enum`, `Input`.
Leaf scalars go through the regenerated tables (`Coerce.coerce`).
-/
import Ggql.Spec.CoerceSpec
namespace Ggql.Args
open Ggql.Coerce

/-- request values: literals as the parser produces them, variables, and JSON-decoded variable values -/
inductive Val (F : Type) where
  | go (v : GoVal F)
  | var (name : String)
  | list (xs : List (Val F))
  | obj (kvs : List (String × Val F))
  deriving Inhabited

inductive InT where
  | scalar (s : Scalar)
  | enum (values : List String)
  | input (name : String)
  | list (t : InT)
  | nonNull (t : InT)
  deriving Repr, Inhabited

structure InField (F : Type) where
  name : String
  type : InT
  dflt : Option (Val F)

structure InputDef (F : Type) where
  name : String
  fields : List (InField F)
  /-- D85: an explicit null given for a field that has a default is replaced by the default (repaired: it stays
  null, the default is for a field that is left out) -/
  nullDflt : Bool := true

/-- hand-set deviation flags of `replaceArgVars` (validated by the correspondence on every run) -/
structure Cfg where
  listNotCoerced : Bool := true     -- D09: a literal list is never passed to `List.CoerceIn`; under `[T]!` its elements are not coerced at all
  symbolUnchecked : Bool := true    -- D10: a symbol is only checked against enum types, and passes for every other type
  nullVarUsesDefault : Bool := true -- D41: `vars[name] != nil` — an explicit null does not override the default
  symbolBaseEnum : Bool := true     -- D68: a symbol is checked against the *base* type (lists stripped too): `RED` for `[Color]` reaches the resolver as a bare symbol
  objectUnchecked : Bool := true    -- D65: an object literal is only looked at when the *base* type (lists stripped too) is an input object; for any other type it passes unchanged

variable {F : Type}

def Val.isNil : Val F → Bool
  | .go .nil => true
  | _ => false

def lookup {α} (kvs : List (String × α)) (k : String) : Option α :=
  (kvs.find? (fun p => p.1 == k)).map (·.2)

def setKey {α} (kvs : List (String × α)) (k : String) (v : α) : List (String × α) :=
  if kvs.any (fun p => p.1 == k) then kvs.map (fun p => if p.1 == k then (k, v) else p) else kvs ++ [(k, v)]

def inTables (tin : Scalar → Table) := tin

/-- one declared field of `Input.CoerceIn`: default / required / coerce; `co` coerces a field value -/
def inputStep (nd : Bool) (co : InT → Val F → Val F × Bool) (acc : List (String × Val F) × Bool) (f : InField F) :
    List (String × Val F) × Bool :=
  if acc.2 then acc else
  match lookup acc.1 f.name with
  | some ov =>
    if ov.isNil then
      (match (if nd then f.dflt else none) with
       | some dv => (setKey acc.1 f.name dv, false)
       | none => (match f.type with | .nonNull _ => (acc.1, true) | _ => (acc.1, false)))
    else
      let (cv, e) := co f.type ov
      if e then (acc.1, true) else (setKey acc.1 f.name cv, false)
  | none =>
    (match f.dflt with
     | some dv => (setKey acc.1 f.name dv, false)
     | none => (match f.type with | .nonNull _ => (acc.1, true) | _ => (acc.1, false)))

/-- `Type.CoerceIn` for every input type; `fuel` bounds the nesting of input objects -/
def coerceInT (ext : Ext F) (tin : Scalar → Table) (inputs : List (InputDef F)) :
    Nat → InT → Val F → Val F × Bool
  | 0, _, v => (v, true)
  | fuel + 1, t, v =>
    match t with
    | .scalar s =>
      (match v with
       | .go g => let (r, e) := coerce ext (tin s) g; (.go r, e)
       | _ => let (r, e) := coerce ext (tin s) (.other "composite"); (.go r, e))
    | .enum vals =>
      (match v with
       | .go .nil => (.go .nil, false)
       | .go (.sym s) => if vals.contains s then (.go (.sym s), false) else (.go .nil, true)
       | _ => (.go .nil, true))
    | .nonNull b =>
      if v.isNil then (.go .nil, true) else coerceInT ext tin inputs fuel b v
    | .list b =>
      (match v with
       | .go .nil => (.go .nil, false)
       | .list xs =>
         -- reverse scan; the first failure (from the end) aborts with nil
         let rs := xs.map (coerceInT ext tin inputs fuel b)
         if rs.any (·.2) then (.go .nil, true) else (.list (rs.map (·.1)), false)
       | _ => (.go .nil, true))
    | .input name =>
      (match v with
       | .go .nil => (.go .nil, false)
       | .obj kvs =>
         (match inputs.find? (fun d => d.name == name) with
          | none => (.go .nil, true)
          | some d =>
            if kvs.any (fun p => !d.fields.any (fun f => f.name == p.1)) then (.go .nil, true)
            else
              -- every declared field: default / required / coerce
              let (kvs', e) := d.fields.foldl (inputStep d.nullDflt (coerceInT ext tin inputs fuel)) (kvs, false)
              if e then (.go .nil, true) else (.obj kvs', false))
       | _ => (.go .nil, true))

def baseType : InT → InT
  | .nonNull t => baseType t
  | .list t => baseType t
  | t => t

/-- `replaceArgVars`; returns the value and the number of errors -/
def replaceArgVars (cfg : Cfg) (ext : Ext F) (tin : Scalar → Table) (inputs : List (InputDef F))
    (vars : List (String × Val F)) : Nat → Option InT → Val F → Val F × Nat
  | 0, _, v => (v, 1)
  | fuel + 1, at_, v =>
    match v with
    | .var n =>
      let val := (lookup vars n).getD (.go .nil)
      (match at_ with
       | some t => let (r, e) := coerceInT ext tin inputs 64 t val; (r, if e then 1 else 0)
       | none => (val, 0))
    | .obj kvs =>
      -- as coded in the first commit (D65): `BaseType(at)` strips list wrappers as well, and nothing is done when
      -- the base type is not an input object; repaired: the type itself or what its `!` wraps, else the type's CoerceIn
      let inputOf : Option InT :=
        if cfg.objectUnchecked then at_.map baseType
        else (match at_ with
              | some (.input n) => some (.input n)
              | some (.nonNull (.input n)) => some (.input n)
              | _ => none)
      (match inputOf with
       | some (.input name) =>
         let fieldT := fun k => (inputs.find? (fun d => d.name == name)).bind (fun d => (d.fields.find? (fun f => f.name == k)).map (·.type))
         let rs := kvs.map (fun p => (p.1, replaceArgVars cfg ext tin inputs vars fuel (fieldT p.1) p.2))
         let kvs' := rs.map (fun p => (p.1, p.2.1))
         let errs := (rs.map (fun p => p.2.2)).sum
         let (r, e) := coerceInT ext tin inputs 64 (.input name) (.obj kvs')
         -- on error Input.CoerceIn returns nil
         (r, errs + (if e then 1 else 0))
       | _ =>
         (match at_ with
          | some t =>
            if cfg.objectUnchecked then (v, 0)
            else let (r, e) := coerceInT ext tin inputs 64 t v; (r, if e then 1 else 0)
          | none => (v, 0)))
    | .list xs =>
      let mt : Option InT := match at_ with
        | some (.list b) => some b
        | some (.nonNull (.list b)) => if cfg.listNotCoerced then none else some b
        | _ => none
      let rs := xs.map (replaceArgVars cfg ext tin inputs vars fuel mt)
      let l : Val F := .list (rs.map (·.1))
      let errs := (rs.map (·.2)).sum
      -- repaired: when the declared type is not a list type the type's own `CoerceIn` decides about the list
      (match at_ with
       | some (.list _) | some (.nonNull (.list _)) | none => (l, errs)
       | some t =>
         if cfg.listNotCoerced then (l, errs)
         else let (r, e) := coerceInT ext tin inputs 64 t l; (r, errs + (if e then 1 else 0)))
    | .go (.sym s) =>
      let enumOf : Option InT :=
        if cfg.symbolBaseEnum then at_.map baseType
        else (match at_ with
              | some (.enum vals) => some (.enum vals)
              | some (.nonNull (.enum vals)) => some (.enum vals)
              | _ => none)
      (match enumOf with
       | some (.enum vals) => (v, if vals.contains s then 0 else 1)
       | _ =>
         -- repaired: a symbol for a type that is not an enum goes through that type's `CoerceIn`
         (match at_ with
          | some t =>
            if cfg.symbolUnchecked then (v, 0)
            else let (r, e) := coerceInT ext tin inputs 64 t v; (r, if e then 1 else 0)
          | none => (v, 0)))
    | .go g =>
      (match at_ with
       | some t => let (r, e) := coerceInT ext tin inputs 64 t (.go g); (r, if e then 1 else 0)
       | none => (v, 0))

structure ArgDef where
  name : String
  type : InT

structure VarDef (F : Type) where
  name : String
  type : InT
  dflt : Option (Val F)

/-- outcome of one field invocation -/
structure Outcome (F : Type) where
  reqFailed : Bool                 -- variable coercion failed: the whole request is refused
  called : Bool
  args : List (String × Val F)     -- what the resolver received (declared order)
  nerr : Nat

/-- one variable definition of `ResolveExecutable`'s binding loop -/
def bindStep (cfg : Cfg) (ext : Ext F) (tin : Scalar → Table) (inputs : List (InputDef F))
    (supplied : List (String × Val F)) (acc : List (String × Val F) × Bool) (vd : VarDef F) : List (String × Val F) × Bool :=
  if acc.2 then acc else
  let d := vd.dflt.getD (.go .nil)
  match lookup supplied vd.name with
  | some v =>
    if v.isNil && cfg.nullVarUsesDefault then (acc.1 ++ [(vd.name, d)], false)
    else
      let (r, e) := coerceInT ext tin inputs 64 vd.type v
      if e then (acc.1, true) else (acc.1 ++ [(vd.name, r)], false)
  | none => (acc.1 ++ [(vd.name, d)], false)

/-- `ResolveExecutable`: variable binding (bound variables, request refused) -/
def bindVars (cfg : Cfg) (ext : Ext F) (tin : Scalar → Table) (inputs : List (InputDef F))
    (supplied : List (String × Val F)) (vdefs : List (VarDef F)) : List (String × Val F) × Bool :=
  vdefs.foldl (bindStep cfg ext tin inputs supplied) ([], false)

/-- `formArgs`: every given argument, in declared order (sortArgs has already arranged them), with its value
after `replaceArgVars` and the number of errors that reported -/
def argResults (cfg : Cfg) (ext : Ext F) (tin : Scalar → Table) (inputs : List (InputDef F))
    (opVars : List (String × Val F)) (decl : List ArgDef) (given : List (String × Val F)) : List (String × Val F × Nat) :=
  decl.filterMap (fun a => (lookup given a.name).map (fun v =>
    (a.name, replaceArgVars cfg ext tin inputs opVars 64 (some a.type) v)))

def ArgDef.required (a : ArgDef) : Bool := match a.type with | .nonNull _ => true | _ => false

/-- `formArgs`: declared non-null arguments that were not given a non-nil literal / variable expression -/
def missingArgs (decl : List ArgDef) (given : List (String × Val F)) : List ArgDef :=
  decl.filter (fun a => a.required && (match lookup given a.name with | some v => v.isNil | none => true))

/-- `ResolveExecutable` variable binding followed by `formArgs` for one field -/
def formArgs (cfg : Cfg) (ext : Ext F) (tin : Scalar → Table) (inputs : List (InputDef F))
    (vdefs : List (VarDef F)) (supplied : List (String × Val F))
    (decl : List ArgDef) (given : List (String × Val F)) : Outcome F :=
  let (opVars, failed) := bindVars cfg ext tin inputs supplied vdefs
  if failed then { reqFailed := true, called := false, args := [], nerr := 1 } else
  let rs := argResults cfg ext tin inputs opVars decl given
  let args := rs.map (fun p => (p.1, p.2.1))
  let errs := (rs.map (fun p => p.2.2)).sum
  let missing := missingArgs decl given
  let nerr := errs + missing.length
  { reqFailed := false, called := nerr == 0, args := if nerr == 0 then args else [], nerr := nerr }

end Ggql.Args

namespace Ggql.Args
open Ggql.Coerce
variable {F : Type}

/-- what is left in the parsed request after `replaceArgVars` ran on an argument literal: object and
list literals are Go maps / slices updated *in place* (`tv[k] = …`, `tv[i] = …`, and `Input.CoerceIn`
/ `List.CoerceIn` write coerced values and defaults into the same map / slice), so the literal becomes
the value that was handed to the resolver; anything else is left as written (D25) -/
def literalAfter (inPlace : Bool) (lit out : Val F) : Val F :=
  if !inPlace then lit else
  match lit, out with
  | .obj _, .obj o => .obj o
  | .list _, .list o => .list o
  | lit, _ => lit

/-- the field's argument literals after one call -/
def updateGiven (inPlace : Bool) (given args : List (String × Val F)) : List (String × Val F) :=
  given.map (fun p =>
    match lookup args p.1 with
    | some out => (p.1, literalAfter inPlace p.2 out)
    | none => p)

/-- variable *defaults* are literals of the parsed request too: a default object / list that was used
(the variable not supplied) for an argument given directly as `$v` is coerced in place -/
def newDefault (inPlace : Bool) (vd : VarDef F) (supplied given args : List (String × Val F)) : Option (Val F) :=
  match vd.dflt with
  | none => none
  | some d =>
    let used := match lookup supplied vd.name with | some v => v.isNil | none => true
    match given.find? (fun p => match p.2 with | .var n => n == vd.name | _ => false) with
    | some p =>
      (match lookup args p.1 with
       | some out => if used then some (literalAfter inPlace d out) else some d
       | none => some d)
    | none => some d

def updateDefaults (inPlace : Bool) (vdefs : List (VarDef F)) (supplied given args : List (String × Val F)) : List (VarDef F) :=
  vdefs.map (fun vd => { vd with dflt := newDefault inPlace vd supplied given args })

/-- a sequence of resolutions of one parsed field: each call sees the literals the previous call left -/
def formArgsSeq (inPlace : Bool) (cfg : Cfg) (ext : Ext F) (tin : Scalar → Table) (inputs : List (InputDef F))
    (decl : List ArgDef) :
    List (VarDef F) → List (String × Val F) → List (List (String × Val F)) → List (Outcome F)
  | _, _, [] => []
  | vdefs, given, supplied :: rest =>
    let o := formArgs cfg ext tin inputs vdefs supplied decl given
    o :: formArgsSeq inPlace cfg ext tin inputs decl (updateDefaults inPlace vdefs supplied given o.args)
      (updateGiven inPlace given o.args) rest

end Ggql.Args
