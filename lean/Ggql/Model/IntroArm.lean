/-
Vocabulary of the introspection table regenerated from the `Resolve` methods of the schema nodes
(`Gen/Intro.lean`): the Go type of a node and what one `case` of its `switch field.Name` answers.
-/
namespace Ggql.Intro

inductive GoT where
  | root | object | iface | union | enum | input | scalar | list | nonNull
  | fieldDef | arg | inputField | enumValue | directive
  deriving DecidableEq, Repr, Inhabited

inductive Arm where
  | nil                      -- empty case body / `return nil, nil`
  | kindLocate               -- string(Locate(t))
  | name                     -- t.N / string(ev.Value)
  | nameOrSchema             -- Object: t.N, or "schema" for the nameless schema object
  | desc
  | fieldsByArg              -- all fields when includeDeprecated, else the non-deprecated ones
  | fieldsAll                -- &t.fields whatever the argument says
  | enumValuesByArg
  | enumValuesAll
  | interfacesPlain          -- t.Interfaces: a plain Go slice, not a ListResolver
  | interfaces               -- (specification form, not in the source) the same list behind a ListResolver
  | possibleImpl             -- Interface.possibleTypes(): the objects listing the interface
  | members                  -- union members
  | type
  | default                  -- the raw default value, left to String.CoerceOut
  | defaultMixed             -- nil and string defaults raw, every other default as GraphQL text (`valueString`)
  | defaultText              -- (specification form, not in the source) the default encoded as GraphQL text
  | args
  | isDeprecated
  | deprecationReason
  | wrapperName              -- List/NonNull Name(): "[T]" / "T!"
  | base                     -- List/NonNull Base
  | locations
  | types
  | directives
  | const (s : String)
  | rootOp (op : String)
  deriving DecidableEq, Repr, Inhabited

end Ggql.Intro
