/-
Model of source positions (C07): `parser.go: readByte`'s line/column counters and
`exeparser.go: readField`'s `Field{line: p.line, col: p.col - len(token)}`, sampled *after* the
one-byte look-ahead that ended the token.
-/
namespace Ggql.Position

structure Pos where
  line : Nat
  col : Nat
  deriving DecidableEq, Repr, Inhabited

/-- `readByte`: the counters after consuming one more byte -/
def advance (p : Pos) (c : Char) : Pos :=
  if c = '\n' then { line := p.line + 1, col := 1 } else { p with col := p.col + 1 }

/-- counters after consuming a prefix (they start at 1:1 before the first byte) -/
def after (cs : List Char) : Pos := cs.foldl advance ⟨1, 1⟩

/-- when is the position sampled: after the look-ahead (as coded, D21) or before it (repaired) -/
structure Cfg where
  sampleAfterLookahead : Bool := true

/-- the location `readField` records for a field whose first token occupies `src[off, off+len)`.
As coded in the pinned tree: the counters after the token *and* the look-ahead byte, column minus the token
length.  Repaired: the counters taken with the token's first byte on deck (just past that byte), before
the token is read — the same value whenever the look-ahead stays on the line, and the token's own line
always. -/
def fieldLoc (cfg : Cfg) (src : List Char) (off len : Nat) : Int × Int :=
  if cfg.sampleAfterLookahead then
    let p := after (src.take (off + len + 1))
    (p.line, (p.col : Int) - len)
  else
    let p := after (src.take (off + 1))
    (p.line, (p.col : Int))

/-- 1-based line of the byte at offset `off` -/
def lineOf (src : List Char) (off : Nat) : Nat := (after (src.take off)).line

/-- length of the line containing offset `off` -/
def lineLen (src : List Char) (off : Nat) : Nat :=
  let before := (src.take off).reverse.takeWhile (· != '\n')
  let rest := (src.drop off).takeWhile (· != '\n')
  before.length + rest.length

/-- C07's demand on a location: positive, on the token's line, within the line (one past its end allowed) -/
def locOk (src : List Char) (off : Nat) (loc : Int × Int) : Bool :=
  loc.1 == (lineOf src off : Int) && decide (1 ≤ loc.2) && decide (loc.2 ≤ (lineLen src off : Int) + 1)

end Ggql.Position
