/-
Model of introspection (C17): every schema node is the resolver of its own description
(`Resolve` of Root, Object, Interface, Union, Enum, Input, Scalar, List, NonNull, FieldDef, Arg,
InputField, EnumValue, Directive), the `__schema` / `__type` entry points of `resolveField`, and the
part of `resolve` / `resolveList` an introspection request goes through.

What each `case` answers is *data* regenerated from the source (`Gen/Intro.lean`); this file
interprets such a table over an abstract schema.
-/
import Ggql.Model.IntroArm
namespace Ggql.Intro

inductive TRef where
  | named (n : String)
  | list (t : TRef)
  | nonNull (t : TRef)
  deriving Repr, Inhabited, DecidableEq

def TRef.text : TRef → String
  | .named n => n
  | .list t => "[" ++ t.text ++ "]"
  | .nonNull t => t.text ++ "!"

def TRef.baseName : TRef → String
  | .named n => n
  | .list t => t.baseName
  | .nonNull t => t.baseName

/-- a default value as written in the schema text -/
inductive Dflt where
  | none | null
  | int (n : Int)
  | float                     -- text not compared (any string)
  | str (s : String)
  | bool (b : Bool)
  | sym (s : String)
  | list | obj
  deriving Repr, Inhabited, DecidableEq

inductive Dep where
  | no | bare | reason (r : String)
  deriving Repr, Inhabited, DecidableEq

def Dep.is : Dep → Bool
  | .no => false
  | _ => true

structure InVal where
  name : String
  desc : String
  type : TRef
  dflt : Dflt
  deriving Repr, Inhabited, DecidableEq

structure FieldD where
  name : String
  desc : String
  args : List InVal
  type : TRef
  dep : Dep
  deriving Repr, Inhabited, DecidableEq

structure EnumV where
  name : String
  desc : String
  dep : Dep
  deriving Repr, Inhabited, DecidableEq

inductive Def where
  | scalar (name desc : String)
  | enum (name desc : String) (values : List EnumV)
  | input (name desc : String) (fields : List InVal)
  | iface (name desc : String) (fields : List FieldD)
  | object (name desc : String) (ifaces : List String) (fields : List FieldD)
  | union (name desc : String) (members : List String)
  deriving Repr, Inhabited, DecidableEq

def Def.name : Def → String
  | .scalar n _ | .enum n _ _ | .input n _ _ | .iface n _ _ | .object n _ _ _ | .union n _ _ => n

def Def.desc : Def → String
  | .scalar _ d | .enum _ d _ | .input _ d _ | .iface _ d _ | .object _ d _ _ | .union _ d _ => d

def Def.got : Def → GoT
  | .scalar .. => .scalar | .enum .. => .enum | .input .. => .input
  | .iface .. => .iface | .object .. => .object | .union .. => .union

structure DirD where
  name : String
  desc : String
  args : List InVal
  locs : List String
  deriving Repr, Inhabited, DecidableEq

structure Schema where
  types : List Def
  dirs : List DirD
  query : Option String
  mutation : Option String
  subscription : Option String
  deriving Repr, Inhabited

def Schema.find (S : Schema) (n : String) : Option Def := S.types.find? (fun d => d.name == n)

/-- the nodes of the introspection graph -/
inductive Node where
  | schema
  | type (t : TRef)
  | field (f : FieldD)
  | inval (v : InVal) (isArg : Bool)
  | enumv (e : EnumV)
  | dir (d : DirD)
  deriving Repr, Inhabited, DecidableEq

/-- the Go type behind a node (`none`: a type name nothing defines) -/
def Node.got (S : Schema) : Node → Option GoT
  | .schema => some .root
  | .type (.list _) => some .list
  | .type (.nonNull _) => some .nonNull
  | .type (.named n) => (S.find n).map Def.got
  | .field _ => some .fieldDef
  | .inval _ true => some .arg
  | .inval _ false => some .inputField
  | .enumv _ => some .enumValue
  | .dir _ => some .directive

/-- how a list value reaches `resolveList` -/
inductive ListView where
  | resolver       -- fieldList, typeList, argList, … : `ListResolver`
  | plain          -- a typed Go slice that is none of the fast paths: AnyResolver if installed, else reflection
  deriving Repr, Inhabited, DecidableEq

inductive Res where
  | null
  | str (s : String)
  | bool (b : Bool)
  | node (n : Node)
  | nodes (v : ListView) (ns : List Node)
  | strs (ss : List String)          -- `[]string`
  | dflt (d : Dflt)                  -- raw default value
  | text (d : Dflt)                  -- default value to be encoded as GraphQL text
  | noField
  deriving Repr, Inhabited, DecidableEq

/-- the meta-fields of `__Schema`, `__Type`, `__Field`, `__InputValue`, `__EnumValue`, `__Directive` -/
inductive MF where
  | kind | name | description | fields | interfaces | possibleTypes | enumValues | inputFields | ofType
  | args | type | isDeprecated | deprecationReason | defaultValue | locations
  | types | queryType | mutationType | subscriptionType | directives
  deriving DecidableEq, Repr, Inhabited

def MF.text : MF → String
  | .kind => "kind" | .name => "name" | .description => "description" | .fields => "fields"
  | .interfaces => "interfaces" | .possibleTypes => "possibleTypes" | .enumValues => "enumValues"
  | .inputFields => "inputFields" | .ofType => "ofType" | .args => "args" | .type => "type"
  | .isDeprecated => "isDeprecated" | .deprecationReason => "deprecationReason"
  | .defaultValue => "defaultValue" | .locations => "locations" | .types => "types"
  | .queryType => "queryType" | .mutationType => "mutationType" | .subscriptionType => "subscriptionType"
  | .directives => "directives"

def MF.all : List MF :=
  [.kind, .name, .description, .fields, .interfaces, .possibleTypes, .enumValues, .inputFields, .ofType,
   .args, .type, .isDeprecated, .deprecationReason, .defaultValue, .locations,
   .types, .queryType, .mutationType, .subscriptionType, .directives]

def MF.ofString (s : String) : Option MF := MF.all.find? (fun m => m.text == s)

def GoT.all : List GoT :=
  [.root, .object, .iface, .union, .enum, .input, .scalar, .list, .nonNull,
   .fieldDef, .arg, .inputField, .enumValue, .directive]

/-- a table as a function: what `case <mf>` of `<g>.Resolve` answers (`none`: no such case) -/
abbrev ArmFn := GoT → MF → Option Arm

def armFnOf (tbl : List (GoT × String × Arm)) : ArmFn :=
  fun g mf => (tbl.find? (fun r => r.1 == g && r.2.1 == mf.text)).map (·.2.2)

/-- the definition behind a named-type node -/
def Node.def? (S : Schema) : Node → Option Def
  | .type (.named n) => S.find n
  | _ => none

def Node.name : Node → String
  | .schema => ""
  | .type t => t.text
  | .field f => f.name
  | .inval v _ => v.name
  | .enumv e => e.name
  | .dir d => d.name

def Node.desc (S : Schema) : Node → String
  | .schema => ""
  | .type (.named n) => ((S.find n).map Def.desc).getD ""
  | .type _ => ""
  | .field f => f.desc
  | .inval v _ => v.desc
  | .enumv e => e.desc
  | .dir d => d.desc

def Node.dep : Node → Dep
  | .field f => f.dep
  | .enumv e => e.dep
  | _ => .no

def typeNodes (ns : List String) : List Node := ns.map (fun n => .type (.named n))

/-- objects of the type table that list the interface -/
def implementers (S : Schema) (iface : String) : List String :=
  S.types.filterMap (fun d => match d with
    | .object n _ is _ => if is.contains iface then some n else none
    | _ => none)

structure Cfg where
  /-- what `Locate` answers for the six kinds of named type -/
  locate : GoT → Option String
  /-- the reason reported for a bare `@deprecated` (the directive's stored default) -/
  bareReason : String

/-- what one arm answers at a node -/
def interp (cfg : Cfg) (S : Schema) (arm : Arm) (n : Node) (inc : Bool) : Res :=
  match arm with
  | .nil => .null
  | .const s => .str s
  | .kindLocate =>
    (match (n.got S).bind cfg.locate with
     | some k => .str k
     | none => .null)
  | .name => .str n.name
  | .nameOrSchema => .str (if n.name.isEmpty then "schema" else n.name)
  | .wrapperName => .str n.name
  | .desc => .str (n.desc S)
  | .fieldsByArg =>
    (match n.def? S with
     | some (.object _ _ _ fs) | some (.iface _ _ fs) =>
       .nodes .resolver ((fs.filter (fun f => inc || !f.dep.is)).map .field)
     | _ => .null)
  | .fieldsAll =>
    (match n.def? S with
     | some (.object _ _ _ fs) | some (.iface _ _ fs) => .nodes .resolver (fs.map .field)
     | some (.input _ _ vs) => .nodes .resolver (vs.map (fun v => .inval v false))
     | _ => .null)
  | .enumValuesByArg =>
    (match n.def? S with
     | some (.enum _ _ vs) => .nodes .resolver ((vs.filter (fun v => inc || !v.dep.is)).map .enumv)
     | _ => .null)
  | .enumValuesAll =>
    (match n.def? S with
     | some (.enum _ _ vs) => .nodes .resolver (vs.map .enumv)
     | _ => .null)
  | .interfacesPlain =>
    (match n.def? S with
     | some (.object _ _ is _) => .nodes .plain (typeNodes is)
     | _ => .null)
  | .interfaces =>
    (match n.def? S with
     | some (.object _ _ is _) => .nodes .resolver (typeNodes is)
     | _ => .null)
  | .possibleImpl =>
    (match n.def? S with
     | some (.iface nm _ _) => .nodes .resolver (typeNodes (implementers S nm))
     | _ => .null)
  | .members =>
    (match n.def? S with
     | some (.union _ _ ms) => .nodes .resolver (typeNodes ms)
     | _ => .null)
  | .type =>
    (match n with
     | .field f => .node (.type f.type)
     | .inval v _ => .node (.type v.type)
     | _ => .null)
  | .default =>
    (match n with
     | .inval v _ => .dflt v.dflt
     | _ => .null)
  | .defaultText =>
    (match n with
     | .inval v _ => .text v.dflt
     | _ => .null)
  | .defaultMixed =>
    (match n with
     | .inval v _ => (match v.dflt with | .none | .null | .str _ => .dflt v.dflt | d => .text d)
     | _ => .null)
  | .args =>
    (match n with
     | .field f => .nodes .resolver (f.args.map (fun v => .inval v true))
     | .dir d => .nodes .resolver (d.args.map (fun v => .inval v true))
     | _ => .null)
  | .isDeprecated => .bool n.dep.is
  | .deprecationReason =>
    (match n.dep with
     | .no => .null
     | .bare => .str cfg.bareReason
     | .reason r => .str r)
  | .base =>
    (match n with
     | .type (.list b) | .type (.nonNull b) => .node (.type b)
     | _ => .null)
  | .locations =>
    (match n with
     | .dir d => .strs d.locs
     | _ => .null)
  | .types => .nodes .resolver (typeNodes (S.types.map Def.name))
  | .directives => .nodes .resolver (S.dirs.map .dir)
  | .rootOp op =>
    (match (if op == "query" then S.query else if op == "mutation" then S.mutation
            else if op == "subscription" then S.subscription else none) with
     | some t => .node (.type (.named t))
     | none => .null)

/-- `Resolve(field, args)` of a schema node under a table -/
def fetch (cfg : Cfg) (tbl : ArmFn) (S : Schema) (n : Node) (mf : MF) (inc : Bool) : Res :=
  match n.got S with
  | none => .noField
  | some g =>
    match tbl g mf with
    | some arm => interp cfg S arm n inc
    | none => .noField

/-! ## The request side: selections over the meta-types and their completion -/

/-- a selection: response key, meta-field, the `includeDeprecated` argument, sub-selections -/
inductive ISel where
  | mk (key : String) (mf : MF) (inc : Bool) (subs : List ISel)
  | typename (key : String)
  deriving Repr, Inhabited

inductive J where
  | null
  | str (s : String)
  | anyStr                       -- a string whose text is not compared (float formatting)
  | bool (b : Bool)
  | list (xs : List J)
  | obj (kvs : List (String × J))
  deriving Repr, Inhabited

/-- how `resolveList` and `String.CoerceOut` treat what the nodes answer -/
structure Complete where
  /-- `var rlist []interface{}` stays nil for an empty ListResolver / reflected slice: printed `null` -/
  emptyResolverIsNull : Bool
  /-- an AnyResolver is installed: a plain slice is handed to the application's `Len` / `Nth` -/
  anyInstalled : Bool
  /-- what the application's AnyResolver makes of a plain slice of `n` schema nodes (how many it yields) -/
  anyLen : Nat → Nat

def metaTypeName : Node → String
  | .schema => "__Schema"
  | .type _ => "__Type"
  | .field _ => "__Field"
  | .inval _ _ => "__InputValue"
  | .enumv _ => "__EnumValue"
  | .dir _ => "__Directive"

/-- `String.CoerceOut` on a raw default value (`Gen.coerceOutString`: integers `fmtInt`, booleans
`boolStr`, strings as they are, floats `fmtFloat`, everything else fails with nil) -/
def rawDefault : Dflt → J × Nat
  | .none | .null => (.null, 0)
  | .int n => (.str (toString n), 0)
  | .float => (.anyStr, 0)
  | .str s => (.str s, 0)
  | .bool b => (.str (if b then "true" else "false"), 0)
  | .sym _ | .list | .obj => (.null, 1)

/-- the default encoded in the GraphQL language (lists and objects: text not compared) -/
def textDefault : Dflt → J × Nat
  | .none => (.null, 0)
  | .null => (.str "null", 0)
  | .int n => (.str (toString n), 0)
  | .float => (.anyStr, 0)
  | .str s => (.str ("\"" ++ s ++ "\""), 0)
  | .bool b => (.str (if b then "true" else "false"), 0)
  | .sym s => (.str s, 0)
  | .list | .obj => (.anyStr, 0)

def sumNat (xs : List Nat) : Nat := xs.foldl (· + ·) 0

mutual
  /-- `resolveField` + `resolve` for one selection at a schema node; the second component counts errors -/
  def walkSel (F : Node → MF → Bool → Res) (c : Complete) : ISel → Node → (String × J) × Nat
    | .typename key, n => ((key, .str (metaTypeName n)), 0)
    | .mk key mf inc subs, n =>
      match F n mf inc with
      | .null => ((key, .null), 0)
      | .noField => ((key, .null), 1)
      | .str s => ((key, .str s), 0)
      | .bool b => ((key, .bool b), 0)
      | .strs ss => ((key, .list (ss.map .str)), 0)
      | .dflt d => ((key, (rawDefault d).1), (rawDefault d).2)
      | .text d => ((key, (textDefault d).1), (textDefault d).2)
      | .node m =>
        let r := walkSels F c subs m
        ((key, .obj r.1), r.2)
      | .nodes v ms =>
        let ms' := if v == .plain && c.anyInstalled then ms.take (c.anyLen ms.length) else ms
        if ms'.isEmpty then
          ((key, if c.emptyResolverIsNull then .null else .list []), 0)
        else
          let rs := ms'.map (fun m => walkSels F c subs m)
          ((key, .list (rs.map (fun r => .obj r.1))), sumNat (rs.map (·.2)))
  def walkSels (F : Node → MF → Bool → Res) (c : Complete) : List ISel → Node → List (String × J) × Nat
    | [], _ => ([], 0)
    | s :: rest, n =>
      let a := walkSel F c s n
      let b := walkSels F c rest n
      (a.1 :: b.1, a.2 + b.2)
end

/-- the two meta-fields of the query root -/
inductive Top where
  | schema (key : String) (subs : List ISel)
  | type (key : String) (name : String) (subs : List ISel)
  deriving Repr, Inhabited

/-- `resolveField`'s `__schema` / `__type` cases.  `literal`: `some l` when the entry points are only
served on a container type *named* `l` (otherwise an error and no entry in the response). -/
def runTop (F : Node → MF → Bool → Res) (c : Complete) (S : Schema) (literal : Option String) :
    Top → Option (String × J) × Nat
  | .schema key subs =>
    if literal.isSome && literal != S.query then (none, 1) else
    let r := walkSels F c subs .schema
    (some (key, .obj r.1), r.2)
  | .type key name subs =>
    if literal.isSome && literal != S.query then (none, 1) else
    match S.find name with
    | none => (some (key, .null), 0)
    | some _ =>
      let r := walkSels F c subs (.type (.named name))
      (some (key, .obj r.1), r.2)

def run (F : Node → MF → Bool → Res) (c : Complete) (S : Schema) (literal : Option String)
    (q : List Top) : List (String × J) × Nat :=
  let rs := q.map (runTop F c S literal)
  (rs.filterMap (·.1), sumNat (rs.map (·.2)))

end Ggql.Intro
