/-
Control-flow model of `sdlparser.go` (C03): `parseSDL` and every `read*` below it, over the scanner
model `Scan`.  Same conventions: the Go function's `err` variable is followed literally — including the
places where an error is swallowed (`readField`/`readInputField` return `nil, nil` when `b == 0`,
`readUnion` drops `readType`'s error, `readInputField` reads a default even after an error) — because
those are exactly the places where "returns an error" and "keeps going" part ways.

The one deviation flag is D01: in the pinned tree an empty top-level token with `err == nil` and
`!eof` re-enters the loop without having consumed anything (`}` at top level).  The repaired member
reports `unexpected character` when the byte on deck is neither 0 nor `"`.
-/
import Ggql.Model.Scan
namespace Ggql.SdlCF
open Ggql.Scan

variable (cm : CM)

def bytesOf (s : String) : List UInt8 := s.toUTF8.toList

/-- the keywords as byte lists (literal, so that proofs can compute with them) -/
def kw_directive : List UInt8 := [100, 105, 114, 101, 99, 116, 105, 118, 101]    -- "directive"
def kw_enum : List UInt8 := [101, 110, 117, 109]    -- "enum"
def kw_extend : List UInt8 := [101, 120, 116, 101, 110, 100]    -- "extend"
def kw_fragment : List UInt8 := [102, 114, 97, 103, 109, 101, 110, 116]    -- "fragment"
def kw_implements : List UInt8 := [105, 109, 112, 108, 101, 109, 101, 110, 116, 115]    -- "implements"
def kw_input : List UInt8 := [105, 110, 112, 117, 116]    -- "input"
def kw_interface : List UInt8 := [105, 110, 116, 101, 114, 102, 97, 99, 101]    -- "interface"
def kw_mutation : List UInt8 := [109, 117, 116, 97, 116, 105, 111, 110]    -- "mutation"
def kw_on : List UInt8 := [111, 110]    -- "on"
def kw_query : List UInt8 := [113, 117, 101, 114, 121]    -- "query"
def kw_scalar : List UInt8 := [115, 99, 97, 108, 97, 114]    -- "scalar"
def kw_schema : List UInt8 := [115, 99, 104, 101, 109, 97]    -- "schema"
def kw_subscription : List UInt8 := [115, 117, 98, 115, 99, 114, 105, 112, 116, 105, 111, 110]    -- "subscription"
def kw_type : List UInt8 := [116, 121, 112, 101]    -- "type"
def kw_union : List UInt8 := [117, 110, 105, 111, 110]    -- "union"

/-- `args.add` / `fields.add` / `values.add`: duplicate detection by name -/
def addName (names : List (List UInt8)) (n : List UInt8) : Option (List (List UInt8)) :=
  if names.contains n then none else some (n :: names)

/-- the `for { if du, err = p.readDirUse(); du == nil { break } … }` loops -/
def dirLoop (p : P) : Option Err × P := readDirs cm p

/-- `readArg`: (name, err) -/
def readArg (p : P) : (List UInt8 × Option Err) × P :=
  match readDesc cm p with
  | (some e, p) => (([], some e), p)
  | (none, p) =>
    match readToken cm p with
    | ((_, true), p) => (([], some ioErr), p)
    | ((tok, false), p) =>
      match skipSp cm p with
      | (none, p) => ((tok, some ioErr), p)
      | (some b, p) =>
        if b != 58 then ((tok, some p.perr), p)
        else
          let p := reRead p
          match readType cm p.vfuel p with
          | ((_, some e), p) => ((tok, some e), p)
          | ((none, none), p) => ((tok, some p.perr), p)
          | ((some _, none), p) =>
            match skipSp cm p with
            | (none, p) => ((tok, some ioErr), p)
            | (some b, p) =>
              match optDefault cm b p with
              | (some e, p) => ((tok, some e), p)
              | (none, p) =>
                let r := dirLoop cm p
                ((tok, r.1), r.2)

/-- the loop of `readArgs` after the opening paren -/
def argsLoop : Nat → P → List (List UInt8) → Option Err × P
  | 0, p, _ => (some ioErr, p.outOfFuel)
  | n + 1, p, names =>
    match skipSp cm p with
    | (none, p) => (some ioErr, p)
    | (some b, p) =>
      if b == 41 then (none, reRead p)
      else if b == 0 then (some p.perr, p)
      else
        match readArg cm p with
        | ((_, some e), p) => (some e, p)
        | ((nm, none), p) =>
          match addName names nm with
          | none => (some dupErr, p)
          | some names => argsLoop n p names

/-- `readArgs` -/
def readArgs (p : P) : Option Err × P :=
  match skipSp cm p with
  | (none, p) => (some ioErr, p)
  | (some b, p) => if b != 40 then (none, p) else argsLoop cm p.vfuel (reRead p) []

/-- the head shared by `readField` and `readInputField`:
`if desc, err = p.readDesc(); err == nil { token, err = p.readToken() }; if err == nil { b, err = p.skipSpace() }`
— (token, b, err); `b` keeps its zero value whenever an error occurred -/
def fieldHead (p : P) : ((List UInt8 × UInt8) × Option Err) × P :=
  match readDesc cm p with
  | (some e, p) => ((([], 0), some e), p)
  | (none, p) =>
    match readToken cm p with
    | ((t, true), p) => (((t, 0), some ioErr), p)
    | ((t, false), p) =>
      match skipSp cm p with
      | (none, p) => (((t, 0), some ioErr), p)
      | (some b, p) => (((t, b), none), p)

/-- `if b == '(' { if err = p.readArgs(&f.args); err == nil { b, err = p.skipSpace() } }` -/
def fieldArgs (b : UInt8) (p : P) : (UInt8 × Option Err) × P :=
  if b == 40 then
    (match readArgs cm p with
     | (some e, p) => ((b, some e), p)
     | (none, p) =>
       match skipSp cm p with
       | (none, p) => ((0, some ioErr), p)
       | (some b, p) => ((b, none), p))
  else ((b, none), p)

/-- `readField`: `(none, none)` is the Go `nil, nil`; `(some name, none)` a field -/
def readField (p : P) : (Option (List UInt8) × Option Err) × P :=
  match fieldHead cm p with
  | (((tok, b), _), p) =>
    if b == 0 then ((none, none), p)              -- swallows whatever error the head met
    else
      -- b ≠ 0 implies err == nil here
      match fieldArgs cm b p with
      | ((_, some e), p) => ((none, some e), p)
      | ((b, none), p) =>
        if b != 58 then ((none, some p.perr), p)
        else
          match readType cm (reRead p).vfuel (reRead p) with
          | ((none, _), p) => ((none, some p.perr), p)          -- "field type missing" overrides
          | ((some _, some e), p) => ((none, some e), p)
          | ((some _, none), p) =>
            match dirLoop cm p with
            | (some e, p) => ((none, some e), p)
            | (none, p) => ((some tok, none), p)

/-- `readFields` (the opening brace has been consumed by the caller) -/
def readFields : Nat → P → List (List UInt8) → Option Err × P
  | 0, p, _ => (some ioErr, p.outOfFuel)
  | n + 1, p, names =>
    match skipSp cm p with
    | (none, p) => (some ioErr, p)             -- b = 0, err ≠ nil: nothing else fires, loop breaks
    | (some b, p) =>
      if b == 125 then (none, reRead p)
      else if b == 0 then (some p.perr, p)
      else
        match readField cm p with
        | ((_, some e), p) => (some e, p)
        | ((none, none), p) => (some p.perr, p)        -- "missing field"
        | ((some nm, none), p) =>
          match addName names nm with
          | none => (some dupErr, p)
          | some names => readFields n p names

/-- `if err == nil && b != ':' { err = … }; if err == nil { readByte; f.Type, err = readType; nil type && err == nil → error }` -/
def inputFieldType (b : UInt8) (p : P) : Option Err × P :=
  if b != 58 then (some p.perr, p)
  else
    match readType cm (reRead p).vfuel (reRead p) with
    | ((none, none), p) => (some p.perr, p)
    | ((_, e), p) => (e, p)

/-- `if err == nil { b, err = p.skipSpace() }` — `b` keeps its old value when there already was an error -/
def afterType (b : UInt8) (r : Option Err × P) : (UInt8 × Option Err) × P :=
  match r with
  | (some e, p) => ((b, some e), p)
  | (none, p) =>
    match skipSp cm p with
    | (none, p) => ((0, some ioErr), p)
    | (some b, p) => ((b, none), p)

/-- `if b == '=' { readByte; f.Default, err = p.readValue() }` — not guarded by `err == nil` -/
def inputDefaultVal (r : (UInt8 × Option Err) × P) : Option Err × P :=
  if r.1.1 == 61 then readValue cm r.2.vfuel (reRead r.2) else (r.1.2, r.2)

/-- `readInputField` -/
def readInputField (p : P) : (Option (List UInt8) × Option Err) × P :=
  match fieldHead cm p with
  | (((tok, b), _), p) =>
    if b == 0 then ((none, none), p)
    else
      match inputDefaultVal cm (afterType cm b (inputFieldType cm b p)) with
      | (some e, p) => ((none, some e), p)
      | (none, p) =>
        match dirLoop cm p with
        | (some e, p) => ((none, some e), p)
        | (none, p) => ((some tok, none), p)

/-- `readInputFields` -/
def readInputFields : Nat → P → List (List UInt8) → Option Err × P
  | 0, p, _ => (some ioErr, p.outOfFuel)
  | n + 1, p, names =>
    match skipSp cm p with
    | (none, p) => (some ioErr, p)
    | (some b, p) =>
      if b == 125 then (none, reRead p)
      else if b == 0 then (some p.perr, p)
      else
        match readInputField cm p with
        | ((_, some e), p) => (some e, p)
        | ((none, none), p) => (some p.perr, p)
        | ((some nm, none), p) =>
          match addName names nm with
          | none => (some dupErr, p)
          | some names => readInputFields n p names

/-- name token + "no … name provided" -/
def readName (p : P) : (List UInt8 × Option Err) × P :=
  match readToken cm p with
  | ((t, true), p) => ((t, some ioErr), p)
  | ((t, false), p) => if t.isEmpty then ((t, some p.perr), p) else ((t, none), p)

/-- `b, err = skipSpace(); if b != c → error; _, _ = readByte()` — the brace/equals step shared by the
type readers; the re-read happens whether or not there was an error -/
def expectByte (c : UInt8) (p : P) : Option Err × P :=
  match skipSp cm p with
  | (none, p) => (some ioErr, reRead p)
  | (some b, p) => if b != c then (some p.perr, reRead p) else (none, reRead p)

/-- name, then directive uses, then `{`, then a body -/
def nameDirsBody (body : P → Option Err × P) (p : P) : (List UInt8 × Option Err) × P :=
  match readName cm p with
  | ((t, some e), p) => ((t, some e), reRead p)
  | ((t, none), p) =>
    match readDirs cm p with
    | (some e, p) => ((t, some e), reRead p)
    | (none, p) =>
      match expectByte cm 123 p with
      | (some e, p) => ((t, some e), p)
      | (none, p) => let r := body p; ((t, r.1), r.2)

def readInput (p : P) := nameDirsBody cm (fun p => readInputFields cm p.vfuel p []) p
def readInterface (p : P) := nameDirsBody cm (fun p => readFields cm p.vfuel p []) p

/-- `readScalar` -/
def readScalar (p : P) : (List UInt8 × Option Err) × P :=
  match readName cm p with
  | ((t, some e), p) => ((t, some e), p)
  | ((t, none), p) => let r := readDirs cm p; ((t, r.1), r.2)

/-- `readSchema` -/
def readSchema (p : P) : (List UInt8 × Option Err) × P :=
  match readDirs cm p with
  | (some e, p) => (([], some e), reRead p)
  | (none, p) =>
    match expectByte cm 123 p with
    | (some e, p) => (([], some e), p)
    | (none, p) => let r := readFields cm p.vfuel p []; (([], r.1), r.2)

/-- `readEnumValue` -/
def readEnumValue (p : P) : (List UInt8 × Option Err) × P :=
  match readDesc cm p with
  | (some e, p) => (([], some e), p)
  | (none, p) =>
    match readName cm p with
    | ((t, some e), p) => ((t, some e), p)
    | ((t, none), p) => let r := dirLoop cm p; ((t, r.1), r.2)

def enumLoop : Nat → P → List (List UInt8) → Option Err × P
  | 0, p, _ => (some ioErr, p.outOfFuel)
  | n + 1, p, names =>
    match skipSp cm p with
    | (none, p) => (some ioErr, p)
    | (some b, p) =>
      if b == 125 then (none, reRead p)
      else
        match readEnumValue cm p with
        | ((_, some e), p) => (some e, p)
        | ((nm, none), p) =>
          match addName names nm with
          | none => (some dupErr, p)
          | some names => enumLoop n p names

def readEnum (p : P) := nameDirsBody cm (fun p => enumLoop cm p.vfuel p []) p

/-- the interface loop of `readImplements`; `cnt` = len(interfaces) -/
def implLoop : Nat → P → Nat → (Nat × Option Err) × P
  | 0, p, cnt => ((cnt, some ioErr), p.outOfFuel)
  | n + 1, p, cnt =>
    match skipSp cm p with
    | (none, p) => ((cnt, some ioErr), p)            -- err ≠ nil: either `break` (cnt > 0) or loop test fails
    | (some b, p) =>
      if 0 < cnt && b != 38 then ((cnt, none), p)
      else
        -- after the first interface the `&` is re-read
        match readType cm (if 0 < cnt then reRead p else p).vfuel (if 0 < cnt then reRead p else p) with
        | ((none, e), p) => ((cnt, e), p)            -- break
        | ((some _, some e), p) => ((cnt + 1, some e), p)
        | ((some _, none), p) => implLoop n p (cnt + 1)

/-- `if b, err = p.skipSpace(); b == '&' { readByte }` -/
def ampOpt (p : P) : Option Err × P :=
  match skipSp cm p with
  | (none, p) => (some ioErr, p)
  | (some b, p) => if b == 38 then (none, reRead p) else (none, p)

/-- `readImplements` -/
def readImplements (p : P) : Option Err × P :=
  match skipSp cm p with
  | (none, p) => (some ioErr, p)
  | (some b, p) =>
    if b != 105 then (none, p)
    else
      match readToken cm p with
      | ((tok, ioe), p) =>
        if tok != kw_implements then (some p.perr, p)       -- also replaces a reader error
        else if ioe then (some ioErr, p)
        else
          match ampOpt cm p with
          | (some e, p) => (some e, p)
          | (none, p) =>
            match implLoop cm p.vfuel p 0 with
            | ((cnt, none), p) => if cnt == 0 then (some p.perr, p) else (none, p)
            | ((_, some e), p) => (some e, p)

/-- `readObject` -/
def readObject (p : P) : (List UInt8 × Option Err) × P :=
  match readName cm p with
  | ((t, some e), p) => ((t, some e), reRead p)
  | ((t, none), p) =>
    match readImplements cm p with
    | (some e, p) => ((t, some e), reRead p)
    | (none, p) =>
      match readDirs cm p with
      | (some e, p) => ((t, some e), reRead p)
      | (none, p) =>
        match expectByte cm 123 p with
        | (some e, p) => ((t, some e), p)
        | (none, p) => let r := readFields cm p.vfuel p []; ((t, r.1), r.2)

/-- the member loop of `readUnion`; `readType`'s error is dropped as in the Go code -/
def unionLoop : Nat → P → Nat → Option Err × P
  | 0, p, _ => (some ioErr, p.outOfFuel)
  | n + 1, p, cnt =>
    match skipSp cm p with
    | (none, p) => (some ioErr, p)
    | (some b, p) =>
      if b != 124 && 0 < cnt then (none, p)
      else
        match readType cm (if b == 124 then reRead p else p).vfuel (if b == 124 then reRead p else p) with
        | ((none, _), p) => (none, p)
        | ((some _, _), p) => unionLoop n p (cnt + 1)

/-- `readUnion` -/
def readUnion (p : P) : (List UInt8 × Option Err) × P :=
  match readName cm p with
  | ((t, some e), p) => ((t, some e), reRead p)
  | ((t, none), p) =>
    match readDirs cm p with
    | (some e, p) => ((t, some e), reRead p)
    | (none, p) =>
      match expectByte cm 61 p with
      | (some e, p) => ((t, some e), p)
      | (none, p) => let r := unionLoop cm p.vfuel p 0; ((t, r.1), r.2)

/-- the location loop of `readDirective`; `cnt` = len(dir.On) -/
def onLoop : Nat → P → Nat → Option Err × P
  | 0, p, _ => (some ioErr, p.outOfFuel)
  | n + 1, p, cnt =>
    match skipSp cm p with
    | (none, p) => (some ioErr, p)
    | (some b, p) =>
      if b != 124 && 0 < cnt then (none, p)
      else
        match readToken cm (if b == 124 then reRead p else p) with
        | ((_, true), p) => (some ioErr, p)
        | ((tok, false), p) => if tok.isEmpty then (none, p) else onLoop n p (cnt + 1)

/-- `readDirective` -/
def readDirective (p : P) : (List UInt8 × Option Err) × P :=
  match skipSp cm p with
  | (none, p) => (([], some ioErr), p)
  | (some b, p) =>
    if b != 64 then (([], some p.perr), p)
    else
      match readName cm (reRead p) with
      | ((t, some e), p) => ((t, some e), p)
      | ((t, none), p) =>
        match readArgs cm p with
        | (some e, p) => ((t, some e), p)
        | (none, p) =>
          match readToken cm p with
          | ((_, true), p) => ((t, some ioErr), p)
          | ((tok, false), p) =>
            if tok != kw_on then ((t, some p.perr), p)
            else let r := onLoop cm p.vfuel p 0; ((t, r.1), r.2)

structure Def where
  kind : String
  name : List UInt8
  ext : Bool
  deriving DecidableEq, Repr, Inhabited

structure Cfg where
  /-- D01: an empty top-level token with nothing consumed re-enters the loop -/
  emptyTokenSpins : Bool := true

/-- one definition after its keyword -/
def readDef (kw : List UInt8) (p : P) : Option ((String × (List UInt8 × Option Err)) × P) :=
  if kw == kw_directive then some (let r := readDirective cm p; (("directive", r.1), r.2))
  else if kw == kw_enum then some (let r := readEnum cm p; (("enum", r.1), r.2))
  else if kw == kw_input then some (let r := readInput cm p; (("input", r.1), r.2))
  else if kw == kw_interface then some (let r := readInterface cm p; (("interface", r.1), r.2))
  else if kw == kw_scalar then some (let r := readScalar cm p; (("scalar", r.1), r.2))
  else if kw == kw_schema then some (let r := readSchema cm p; (("schema", r.1), r.2))
  else if kw == kw_type then some (let r := readObject cm p; (("type", r.1), r.2))
  else if kw == kw_union then some (let r := readUnion cm p; (("union", r.1), r.2))
  else none

/-- from label `TOP`: read the keyword token and dispatch; `x` = an `extend` is pending.
Returns (new definition?, x, err). -/
def top (cfg : Cfg) : Nat → P → Bool → ((Option Def × Bool) × Option Err) × P
  | 0, p, x => (((none, x), some ioErr), p.outOfFuel)
  | n + 1, p, x =>
    match readToken cm p with
    | ((_, true), p) => (((none, x), some ioErr), p)
    | ((tok, false), p) =>
      if tok.isEmpty then
        if !cfg.emptyTokenSpins && p.onDeck != 0 && p.onDeck != 34 then (((none, x), some p.perr), p)
        else (((none, x), none), p)
      else if tok == kw_extend then top cfg n p true
      else
        match readDef cm tok p with
        | none => (((none, x), some p.perr), p)
        | some ((_, (_, some e)), p) => (((none, x), some e), p)
        | some ((kind, (name, none)), p) => (((some ⟨kind, name, x⟩, false), none), p)

/-- `if b == '"' { desc, err = p.readDesc() }` -/
def descOpt (b : UInt8) (p : P) : Option Err × P := if b == 34 then readDesc cm p else (none, p)

/-- the main loop of `parseSDL` -/
def mainLoop (cfg : Cfg) : Nat → P → Bool → List Def → (List Def × Option Err) × P
  | 0, p, _, acc => ((acc.reverse, some ioErr), p.outOfFuel)
  | n + 1, p, x, acc =>
    if p.eof then ((acc.reverse, none), p)
    else
      match skipSp cm p with
      | (none, p) => ((acc.reverse, some ioErr), p)
      | (some b, p) =>
        match descOpt cm b p with
        | (some e, p) => ((acc.reverse, some e), p)
        | (none, p) =>
          match top cm cfg p.vfuel p x with
          | (((_, _), some e), p) => ((acc.reverse, some e), p)
          | (((none, x), none), p) => mainLoop cfg n p x acc
          | (((some d, x), none), p) => mainLoop cfg n p x (d :: acc)

/-- `parseSDL` -/
def parseSDL (cfg : Cfg) (fuel : Nat) (bytes : List UInt8) (tail : Tail) : (List Def × Option Err) × P :=
  let p := P.init bytes tail
  match skipBOM p with
  | (some e, p) => (([], some e), p)
  | (none, p) => mainLoop cm cfg fuel p false []

def sdlFuel (bytes : List UInt8) : Nat := 2 * bytes.length + 8

end Ggql.SdlCF
