/-
The scanner model's character classes, escape letters and number terminators, read off the value
tables regenerated from `parser.go` (`Gen/Tables.lean`).
-/
import Ggql.Model.Scan
import Ggql.Model.ValueText
import Ggql.Model.NumText
namespace Ggql.Scan

def cmOfTbl (v : ValueText.Tbl) (known : List (List UInt8)) : CM :=
  let cls (m : List Nat) (b : UInt8) : Nat := m.getD b.toNat 0
  { isSpace := fun b => cls v.charMap b == v.spaceClass,
    isToken := fun b => cls v.charMap b == v.tokenClass,
    isNum := fun b => cls v.numMap b == v.numClass,
    isEscape := fun b => v.unescapes.any (fun p => p.1 == b.toNat),
    isNumTerm := fun b => v.terminators.contains b.toNat,
    numberOk := NumText.numberOk,
    known := fun t => known.contains t }

end Ggql.Scan
