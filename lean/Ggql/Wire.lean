/-
Wire format shared by the Go harness and the Lean driver (DESIGN.md Appendix B).

  term ::= atom | '(' tag term* ')'
  atom ::= decimal integer | x<hex> (byte string) | bare tag

Core-only, total, no partial functions: the driver must be linkable as a lean_exe.
-/
namespace Ggql

inductive T where
  | atom (s : String)
  | node (tag : String) (args : List T)
  deriving Repr, Inhabited, BEq

namespace T

/-- Tokeniser: parentheses are tokens; everything else is split on blanks. -/
def tokens (cs : List Char) : List String :=
  let rec go (cs : List Char) (cur : List Char) (acc : List String) : List String :=
    let flush (acc : List String) := if cur.isEmpty then acc else String.ofList cur.reverse :: acc
    match cs with
    | [] => (flush acc).reverse
    | c :: rest =>
      if c = '(' then go rest [] ("(" :: flush acc)
      else if c = ')' then go rest [] (")" :: flush acc)
      else if c = ' ' || c = '\n' || c = '\r' || c = '\t' then go rest [] (flush acc)
      else go rest (c :: cur) acc
  go cs [] []

/-- Parse one term from a token list with an explicit stack (no recursion on depth). -/
def parseTokens (toks : List String) : Option T :=
  -- stack of (tag, reversed args)
  let rec go (toks : List String) (stack : List (String × List T)) (done : Option T) : Option T :=
    match toks with
    | [] => if stack.isEmpty then done else none
    | "(" :: tag :: rest =>
      if tag = "(" || tag = ")" then none else
      match done with
      | some _ => none
      | none => go rest ((tag, []) :: stack) none
    | ")" :: rest =>
      match stack with
      | [] => none
      | (tag, args) :: [] => go rest [] (some (.node tag args.reverse))
      | (tag, args) :: (ptag, pargs) :: st => go rest ((ptag, .node tag args.reverse :: pargs) :: st) none
    | a :: rest =>
      if a = "(" then none else
      match stack with
      | [] => (match done with | some _ => none | none => go rest [] (some (.atom a)))
      | (tag, args) :: st => go rest ((tag, .atom a :: args) :: st) none
  go toks [] none

def parse (s : String) : Option T := parseTokens (tokens s.toList)

partial def render : T → String
  | .atom s => s
  | .node tag [] => "(" ++ tag ++ ")"
  | .node tag args => "(" ++ tag ++ " " ++ " ".intercalate (args.map render) ++ ")"

/-- hex digit value -/
def hexVal (c : Char) : Option Nat :=
  if '0' ≤ c ∧ c ≤ '9' then some (c.toNat - '0'.toNat)
  else if 'a' ≤ c ∧ c ≤ 'f' then some (c.toNat - 'a'.toNat + 10)
  else if 'A' ≤ c ∧ c ≤ 'F' then some (c.toNat - 'A'.toNat + 10)
  else none

def unhex : List Char → Option (List UInt8)
  | [] => some []
  | a :: b :: rest => do
    let x ← hexVal a
    let y ← hexVal b
    let r ← unhex rest
    pure (UInt8.ofNat (x * 16 + y) :: r)
  | _ => none

def hexDigit (n : Nat) : Char :=
  if n < 10 then Char.ofNat ('0'.toNat + n) else Char.ofNat ('a'.toNat + (n - 10))

def hex (bs : List UInt8) : String :=
  String.ofList (bs.flatMap fun b => [hexDigit (b.toNat / 16), hexDigit (b.toNat % 16)])

/-- `x<hex>` atom → bytes -/
def asBytes : T → Option (List UInt8)
  | .atom s => match s.toList with
    | 'x' :: rest => unhex rest
    | _ => none
  | _ => none

/-- `x<hex>` atom → String (bytes taken as Latin-1/ASCII code points; names are ASCII). -/
def asStr (t : T) : Option String :=
  (asBytes t).map fun bs => String.ofList (bs.map fun b => Char.ofNat b.toNat)

/-- decode UTF-8 (valid sequences only) -/
def utf8Decode : List UInt8 → Option (List Char)
  | [] => some []
  | b0 :: rest =>
    let n0 := b0.toNat
    if n0 < 0x80 then (utf8Decode rest).map (Char.ofNat n0 :: ·)
    else if n0 < 0xC0 then none
    else if n0 < 0xE0 then
      (match rest with
       | b1 :: r => if b1.toNat / 64 == 2 then (utf8Decode r).map (Char.ofNat ((n0 % 32) * 64 + b1.toNat % 64) :: ·) else none
       | _ => none)
    else if n0 < 0xF0 then
      (match rest with
       | b1 :: b2 :: r =>
         if b1.toNat / 64 == 2 && b2.toNat / 64 == 2 then
           (utf8Decode r).map (Char.ofNat ((n0 % 16) * 4096 + (b1.toNat % 64) * 64 + b2.toNat % 64) :: ·) else none
       | _ => none)
    else
      (match rest with
       | b1 :: b2 :: b3 :: r =>
         if b1.toNat / 64 == 2 && b2.toNat / 64 == 2 && b3.toNat / 64 == 2 then
           (utf8Decode r).map (Char.ofNat ((n0 % 8) * 262144 + (b1.toNat % 64) * 4096 + (b2.toNat % 64) * 64 + b3.toNat % 64) :: ·) else none
       | _ => none)

/-- `x<hex>` atom holding UTF-8 → characters -/
def asChars (t : T) : Option (List Char) := (asBytes t).bind utf8Decode

def ofChars (cs : List Char) : T := .atom ("x" ++ hex (String.ofList cs).toUTF8.toList)

def asInt : T → Option Int
  | .atom s => s.toInt?
  | _ => none

def asNat : T → Option Nat
  | .atom s => s.toNat?
  | _ => none

def asBool : T → Option Bool
  | .atom "true" => some true
  | .atom "false" => some false
  | _ => none

def ofStr (s : String) : T := .atom ("x" ++ hex (s.toList.map fun c => UInt8.ofNat c.toNat))
def ofBytes (bs : List UInt8) : T := .atom ("x" ++ hex bs)
def ofInt (i : Int) : T := .atom (toString i)
def ofNat (n : Nat) : T := .atom (toString n)
def ofBool (b : Bool) : T := .atom (if b then "true" else "false")

def list (ts : List T) : T := .node "l" ts

def asList : T → Option (List T)
  | .node "l" ts => some ts
  | _ => none

end T

/-- traverse for Option over lists (core has mapM, spelled out to stay total/simple). -/
def optMap {α β} (f : α → Option β) : List α → Option (List β)
  | [] => some []
  | a :: as => do
    let b ← f a
    let bs ← optMap f as
    pure (b :: bs)

end Ggql
