import Ggql.Driver.Loop
open Ggql Ggql.Driver
def main (args : List String) : IO Unit := run pinnedTables args
