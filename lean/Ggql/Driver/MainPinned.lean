import Ggql.Driver.Loop
import Ggql.Pinned.Skip
import Ggql.Pinned.Locks
import Ggql.Pinned.Coerce
import Ggql.Pinned.Tables
import Ggql.Pinned.Intro
import Ggql.Pinned.Parse
import Ggql.Pinned.Dispatch
open Ggql Ggql.Driver

def pinnedTables : Tables :=
  { skip := Pinned.skipTable,
    valueTbl := { charMap := Pinned.charMap, numMap := Pinned.numMap, spaceClass := Pinned.spaceClass, tokenClass := Pinned.tokenClass,
                  numClass := Pinned.numClass, escapes := Pinned.escapeTable, unescapes := Pinned.unescapeTable, terminators := Pinned.numberTerminators, jsonKeysEscaped := Pinned.jsonKeysEscaped }, locks := Pinned.lockTable,
    outInt := Pinned.coerceOutInt, inInt := Pinned.coerceInInt,
    outInt64 := Pinned.coerceOutInt64, inInt64 := Pinned.coerceInInt64,
    outFloat := Pinned.coerceOutFloat, inFloat := Pinned.coerceInFloat,
    outFloat64 := Pinned.coerceOutFloat64, inFloat64 := Pinned.coerceInFloat64,
    outString := Pinned.coerceOutString, inString := Pinned.coerceInString,
    outId := Pinned.coerceOutId, inId := Pinned.coerceInId,
    outBoolean := Pinned.coerceOutBoolean, inBoolean := Pinned.coerceInBoolean,
    outTime := Pinned.coerceOutTime, inTime := Pinned.coerceInTime,
    introTable := Pinned.introTable, locateTable := Pinned.locateTable, metaLiteral := Pinned.metaContainerLiteral,
    sdlEmptyTokenSpins := Pinned.sdlEmptyTokenSpins,
    exeVarTypeOptional := Pinned.exeVarTypeOptional,
    opFallbackAnyName := Pinned.opFallbackAnyName,
    nullVarUsesDefault := Pinned.nullVarUsesDefault, argsInPlace := Pinned.argsInPlace, argsSortedOnce := Pinned.argsSortedOnce, condByIdentity := Pinned.condByIdentity, writerIntKinds := Pinned.writerIntKinds, anonAmongOthers := Pinned.anonAmongOthers, metaArgsUnchecked := Pinned.metaArgsUnchecked, ptrValueDistinct := Pinned.ptrValueDistinct, unionAtMember := Pinned.unionAtMember, impliedSchemaUnvalidated := Pinned.impliedSchemaUnvalidated, dupDirectiveInlineAccepted := Pinned.dupDirectiveInlineAccepted, listNeedsMember := Pinned.listNeedsMember, condStrict := Pinned.condStrict, reflectOptionalRefused := Pinned.reflectOptionalRefused, eventVarsEmpty := Pinned.eventVarsEmpty, symbolBaseEnum := Pinned.symbolBaseEnum, inputDefaultsRaw := Pinned.inputDefaultsRaw, objectUnchecked := Pinned.objectUnchecked, schemaDuringScan := Pinned.schemaDuringScan, descRaw := Pinned.descRaw, toolOmitsDirectives := Pinned.toolOmitsDirectives, assureOnce := Pinned.assureOnce, dupMembersAccepted := Pinned.dupMembersAccepted, opLineBeforeSkip := Pinned.opLineBeforeSkip, inputNullTakesDefault := Pinned.inputNullTakesDefault, dirLoopByVisited := Pinned.dirLoopByVisited, typeLookupFindsDirectives := Pinned.typeLookupFindsDirectives, argPosAfterToken := Pinned.argPosAfterToken, subOrderByMap := Pinned.subOrderByMap, dirRequiredUnchecked := Pinned.dirRequiredUnchecked, dirRefTypeFirst := Pinned.dirRefTypeFirst, extendSchemaNeedsSchema := Pinned.extendSchemaNeedsSchema, dupKeyOverwrites := Pinned.dupKeyOverwrites, maxParseDepth := Pinned.maxParseDepth, unionFirstCome := Pinned.unionFirstCome, ifaceNeedsBound := Pinned.ifaceNeedsBound, shallowRollback := Pinned.shallowRollback, inputExtendMapOrder := Pinned.inputExtendMapOrder, toolEmbedRaw := Pinned.toolEmbedRaw, dirArgWrapperAccepted := Pinned.dirArgWrapperAccepted, dupScalarDropped := Pinned.dupScalarDropped, subtypeNarrow := Pinned.subtypeNarrow, argCountCheckOnly := Pinned.argCountCheckOnly,
    listNotCoerced := Pinned.listNotCoerced, symbolUnchecked := Pinned.symbolUnchecked,
    fieldPosAfterLookahead := Pinned.fieldPosAfterLookahead,
    opErrPosAfterLookahead := Pinned.opErrPosAfterLookahead,
    fragCondPosAfterToken := Pinned.fragCondPosAfterToken, varDefPosAfterToken := Pinned.varDefPosAfterToken,
    leafErrNulls := Pinned.leafErrNulls, fastSliceCopies := Pinned.fastSliceCopies }

def main (args : List String) : IO Unit := run pinnedTables args
