import Ggql.Driver.Common
import Ggql.Driver.Tables
import Ggql.Model.Rollback
namespace Ggql.Driver.C14
open Ggql Ggql.Rollback

def cfgCurOf (tb : Tables) : Cfg := { shallowRollback := tb.shallowRollback, schemaDuringScan := tb.schemaDuringScan }

def decAct : T → Option Act
  | .node "define" [n] => do pure (.define (← n.asStr) ["m"])
  | .node "extend" [n] => do pure (.extend (← n.asStr) ["x"])
  | .node "schema" [] => some (.schemaBlock ["query"])
  | _ => none

def decFail : T → Option Fail
  | .node "scan" [k] => do pure (.scan (← k.asNat))
  | .node "addTypes" [] => some .addTypes
  | .node "extendAt" [i] => do pure (.extendAt (← i.asNat))
  | .node "validate" [] => some .validate
  | _ => none

def initState (names : List String) : State :=
  { table := names.zipIdx.map (fun p => (p.1, p.2)), heap := fun _ => ["m"], schema := none, next := names.length }

/-- case: (c14 (l existing-names…) (l ACT…) FAIL); obs: (obs same) -/
def handle (tb : Tables) (c impl : T) : String :=
  let cfgCur := cfgCurOf tb
  match c with
  | .node "c14" [names, acts, fail] =>
    match (do pure ((← optMap T.asStr (← names.asList)), (← optMap decAct (← acts.asList)), (← decFail fail))) with
    | none => "bad-op"
    | some (names, acts, fail) =>
      let st := initState names
      let predict := fun (cfg : Cfg) => T.node "obs" [T.ofBool (observe (load cfg st acts (some fail)).1 == observe st)]
      let cur := predict cfgCur
      let alts := [{ flag := "D30", onInCur := cfgCur.shallowRollback, obs := predict { cfgCur with shallowRollback := !cfgCur.shallowRollback } : Alt },
                   { flag := "D31", onInCur := cfgCur.schemaDuringScan, obs := predict { cfgCur with schemaDuringScan := !cfgCur.schemaDuringScan } }]
      let after := observe (load cfgCur st acts (some fail)).1
      let attr := (if cfgCur.shallowRollback && !(after.1 == (observe st).1) then ["D30"] else []) ++
                  (if cfgCur.schemaDuringScan && !(after.2 == (observe st).2) then ["D31"] else [])
      let specOk := impl == T.node "obs" [T.ofBool true]
      if impl == cur then
        (if specOk then "ok" else if attr.isEmpty then "unattributed " ++ cur.render else "dev " ++ ",".intercalate attr)
      else verdict impl cur alts specOk
  | .node "c14api" [_] =>
    -- a failing AddTypes call on a loaded root (fixed table): the model is the property itself — nothing observable
    -- changes and a later valid load behaves as on a root that never saw the call
    if impl == T.node "obs" [T.ofBool true] then "ok" else "mismatch spec-bad (obs true)"
  | _ => "bad-op"

def flags (tb : Tables) : List (String × Bool) :=
  [("D30", (cfgCurOf tb).shallowRollback), ("D31", (cfgCurOf tb).schemaDuringScan)]

end Ggql.Driver.C14
