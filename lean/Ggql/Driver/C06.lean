import Ggql.Driver.C01
namespace Ggql.Driver.C06
open Ggql Ggql.Walk Ggql.Driver.WalkWire

def errsOf : T → Option (List T)
  | .node "resp" [_, es, _] => es.asList
  | _ => none

/-- C06 oracle on the implementation's response: data = selection semantics with null at every failed
position; the resolver-class errors are exactly one per failure member, at the failed position's path -/
def oracle (cs : Case) (impl : T) : Bool :=
  let specData := Spec.execute cs.schema cs.graph cs.vars cs.ops cs.opName cs.rootNode (rootTy cs)
  let paths := Spec.errorPaths cs.schema cs.graph cs.vars cs.ops cs.opName cs.rootNode (rootTy cs)
  let want := sortTerms (paths.map (fun p => T.node "err" [T.list (p.map encSeg), T.ofStr "resolver"]))
  match specData, C01.dataOf impl, errsOf impl with
  | some j, some d, some es =>
    d == encJ j &&
    sortTerms (es.filter (fun e => match e with | .node "err" [_, c] => c == T.ofStr "resolver" | _ => false)) == want
  | none, some d, _ => (d == .atom "none" || d == .node "null" []) && C01.callsOf impl == some (T.list [])
  | _, _, _ => false

def handle (tb : Tables) (c impl : T) : String :=
  match decCase c with
  | none => "bad-op"
  | some cs =>
    let cur := runModel tb cs (cfgCur tb)
    let cfg := cfgCur tb
    let alts : List Alt :=
      [ { flag := "D19", onInCur := cfg.fragPathSegment, obs := runModel tb cs { cfg with fragPathSegment := !cfg.fragPathSegment } },
        { flag := "D20", onInCur := cfg.keepValueOnError, obs := runModel tb cs { cfg with keepValueOnError := !cfg.keepValueOnError } },
        { flag := "D14", onInCur := cfg.condByIdentity, obs := runModel tb cs { cfg with condByIdentity := !cfg.condByIdentity } },
        { flag := "D12-data", onInCur := cfg.dupKeyOverwrites, obs := runModel tb cs { cfg with dupKeyOverwrites := !cfg.dupKeyOverwrites } },
        { flag := "D07", onInCur := !tb.skip.accumulates,
          obs := runModel tb cs { cfg with skipTable := if tb.skip.accumulates then Skip.tableAssign else Skip.tableOr } } ]
    -- the values of a response key selected more than once are merged now, but each selection still runs its
    -- resolver: a failing resolver is reported once per selection (what is left of D12)
    let extra := if cs.ops.any (fun o => C01.collides o.sels) then ["D12"] else []
    let specOk := oracle cs impl
    if impl == cur then
      if specOk || cs.ops.any (fun o => C01.conflicting o.sels) then "ok"
      else
        let fl := (alts.filter (fun a => a.onInCur && !(a.obs == cur))).map (·.flag) ++ extra
        if fl.isEmpty then "unattributed " ++ cur.render else "dev " ++ ",".intercalate fl
    else
      match alts.find? (fun a => a.obs == impl) with
      | some a => if a.onInCur then (if specOk then "repaired " ++ a.flag else "mismatch spec-bad " ++ cur.render)
                  else "regress " ++ a.flag ++ (if specOk then " spec-ok" else " spec-bad")
      | none => "mismatch " ++ (if specOk then "spec-ok " else "spec-bad ") ++ cur.render

def flags (tb : Tables) : List (String × Bool) :=
  [("D19", (cfgCur tb).fragPathSegment), ("D20", (cfgCur tb).keepValueOnError)]

end Ggql.Driver.C06
