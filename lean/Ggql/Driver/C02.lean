import Ggql.Driver.C01
namespace Ggql.Driver.C02
open Ggql Ggql.Walk Ggql.Driver.WalkWire

/-- case: (c02 (walk …)); obs: (obs <response of the interface-strategy root> (l (same name) | (differs name resp calls) …)).
The reference response is judged as in C01 (walk model + selection-semantics oracle); every other root
must have answered the same (data, error paths and classes, invocations with the arguments received). -/
def handle (tb : Tables) (c impl : T) : String :=
  match c, impl with
  | .node "c02p" [_], .node "obs" [ok] =>
    -- a root resolver whose Len / Nth are not plain indexing, over lists held by different Go types: the model is the
    -- property (the root resolver takes precedence over reflection): the response is the one Len / Nth dictate
    if ok == T.ofBool true then "ok" else "mismatch spec-bad (obs true)"
  | .node "c02e" [_], .node "l" obs =>
    -- empty lists behind every list representation: (s STRATEGY RESPONSE-as-encoding/json-writes-it)…; the model is
    -- the property: every representation gives the same response, and it holds a list, not null
    let rs := obs.filterMap (fun o => match o with | .node "s" [_, r] => r.asStr | _ => none)
    (match rs with
     | [] => "bad-op"
     | r :: rest =>
       if rest.all (· == r) && (r.splitOn "null").length == 1 then "ok"
       else if rest.all (· == r) then "mismatch spec-bad (all (list))"
       else "mismatch spec-bad (responses differ by representation)")
  | .node "c02" [w], .node "obs" [ref, .node "l" others] =>
    let v := C01.handle tb w ref
    let diff := others.filterMap (fun o => match o with | .node "differs" (.atom n :: _) => some n | _ => none)
    -- the reference root behaves as the walk model says (possibly with listed deviations from selection
    -- semantics, which are C01's / C06's business): C02's own oracle is that every other root answered the same
    let refAsModel := v.startsWith "ok" || v.startsWith "dev"
    if diff.isEmpty then (if refAsModel then "ok" else v)
    else if refAsModel then "mismatch spec-bad strategies-differ:" ++ ",".intercalate diff
    else v
  | .node "c02a" [_, optAbsent], .node "obs" [same] =>
    -- arguments: the reflection-backed method and the Resolver were asked the same field with the same literals
    -- and variables and must have answered the same (D72: reflection used to pass the request's values on
    -- uncoerced, an Int literal as int64 and an Int variable as int32)
    -- D94: an optional argument left out (or null) was an error under reflection only
    if same == T.ofBool true then "ok"
    else if tb.reflectOptionalRefused && optAbsent == T.ofBool true then "dev D94"
    else "mismatch spec-bad strategies-differ:reflection-arguments"
  | _, _ => "bad-op"

def flags (tb : Tables) : List (String × Bool) := [("D94", tb.reflectOptionalRefused)]

end Ggql.Driver.C02
