import Ggql.Driver.Common
import Ggql.Driver.Tables
import Ggql.Model.Load
namespace Ggql.Driver.C16
open Ggql Ggql.Load

/-- order-preserving encoding of (rank, name): names are compared bytewise, as `strings.Compare` -/
def keyOf (rank : Nat) (name : List UInt8) : Nat :=
  let padded := (name.take 40) ++ List.replicate (40 - min 40 name.length) 0
  rank * 256 ^ 41 + padded.foldl (fun acc b => acc * 256 + b.toNat) 0

def decDef (i : Nat) : T → Option Def
  | .node "def" [r, n] => do pure ⟨keyOf (← r.asNat) (← n.asBytes), i⟩
  | _ => none

def decDefs (t : T) : Option (List Def) := do
  let l ← t.asList
  optMap (fun (p : T × Nat) => decDef p.2 p.1) l.zipIdx

def cfgOf (tb : Tables) : Cfg := { assureOnce := tb.assureOnce }

/-- case: (c16 KIND (l DOC…) baseOk hasSchemaBlock); obs: (obs accepted sdlSame introSame) -/
def handle (tb : Tables) (c impl : T) : String :=
  let cfgCur := cfgOf tb
  match c with
  | .node "c16" [.atom kind, docs, baseOk, blk] =>
    match (do pure ((← optMap decDefs (← docs.asList)), (← baseOk.asBool), (← blk.asBool))) with
    | none => "bad-op"
    | some (docs, baseOk, blk) =>
      let qkey := keyOf 2 "Query".toUTF8.toList
      let all := docs.flatten
      let tableSame := loads [] docs == addAll [] all
      let predict := fun (cfg : Cfg) =>
        -- the operation roots: bound by a schema block wherever it appears, else when the first load completes
        let rootsSame := blk || ((loadAll cfg qkey docs).hasQuery == (loadAll cfg qkey [all]).hasQuery)
        T.node "obs" [T.ofBool baseOk, T.ofBool (tableSame || kind == "extend"), T.ofBool rootsSame]
      let cur := predict cfgCur
      let alt := predict { assureOnce := !cfgCur.assureOnce }
      let want := T.node "obs" [T.ofBool baseOk, T.ofBool true, T.ofBool true]
      verdict impl cur [{ flag := "D34", onInCur := cfgCur.assureOnce, obs := alt }] (impl == want)
  | .node "c16o" [multi, baseOk] =>
    -- member order under extension: (c16o inputExtendedByTwoOrMore inlineAccepted); obs: (obs accepted orderSame).
    -- With D76 the order of an input type's added fields is the iteration order of a Go map: the outcome is
    -- not a function of the input, so nothing is predicted there — a difference is attributed, equality is ok.
    (match multi.asBool, baseOk.asBool with
     | some multi, some baseOk =>
       let want := T.node "obs" [T.ofBool baseOk, T.ofBool true]
       if impl == want then "ok"
       else if tb.inputExtendMapOrder && multi && impl == T.node "obs" [T.ofBool baseOk, T.ofBool false] then "dev D76"
       else "mismatch spec-bad " ++ want.render
     | _, _ => "bad-op")
  | .node "c16t" [.atom name] =>
    -- fixed table of arrangements that used to disagree; obs: (obs acceptedOneDocument acceptedSeveralLoads sameSchema)
    let t := T.ofBool true
    let f := T.ofBool false
    let (flag, on, want, old) : String × Bool × T × T :=
      if name.startsWith "required-directive-argument-left-out" then
        ("D78", tb.dirRequiredUnchecked, T.node "obs" [f, f, f], T.node "obs" [t, f, f])
      else if name.startsWith "directive-and-type-share-a-name" then
        ("D79", tb.dirRefTypeFirst, T.node "obs" [t, t, t], T.node "obs" [t, f, f])
      else if name.startsWith "repeated-union-member" then
        ("D89", tb.dupMembersAccepted, T.node "obs" [f, f, f], T.node "obs" [t, f, f])
      else if name.startsWith "repeated-directive-on-a-type" then
        ("D106", tb.dupDirectiveInlineAccepted, T.node "obs" [f, f, f], T.node "obs" [t, f, f])
      else if name.startsWith "implied-schema-root-not-an-object" then
        ("D105", tb.impliedSchemaUnvalidated, T.node "obs" [f, f, f], T.node "obs" [f, t, f])
      else if name.startsWith "extend-implied-schema" then
        ("D80", tb.extendSchemaNeedsSchema, T.node "obs" [t, t, t], T.node "obs" [f, t, f])
      else ("", false, T.node "obs" [t, t, t], T.node "obs" [t, t, t])
    if impl == want then (if on then "repaired " ++ flag else "ok")
    else if on && impl == old then "dev " ++ flag
    else "mismatch spec-bad " ++ want.render
  | _ => "bad-op"

def flags (tb : Tables) : List (String × Bool) := [("D34", tb.assureOnce), ("D76", tb.inputExtendMapOrder), ("D78", tb.dirRequiredUnchecked), ("D79", tb.dirRefTypeFirst), ("D89", tb.dupMembersAccepted),
   ("D80", tb.extendSchemaNeedsSchema), ("D105", tb.impliedSchemaUnvalidated), ("D106", tb.dupDirectiveInlineAccepted)]

end Ggql.Driver.C16
