import Ggql.Driver.Common
import Ggql.Driver.Tables
import Ggql.Model.Registry
namespace Ggql.Driver.C19
open Ggql Ggql.Registry

structure WOp where
  op : Op
  usesVar : Bool := false

def decOp : T → Option WOp
  | .node "sub" [.node "any" [], v] => do pure { op := .subscribe .any, usesVar := (← v.asBool) }
  | .node "sub" [.node "exact" [s], v] => do pure { op := .subscribe (.exact (← s.asStr)), usesVar := (← v.asBool) }
  | .node "unsub" [e] => do pure { op := .unsubscribe (← e.asStr) }
  | .node "pub" [e, fs] => do
    let fs ← fs.asList
    let fs ← optMap T.asNat fs
    pure { op := .publish (← e.asStr) fs }
  | _ => none

def natList (l : List Nat) : T := T.list (l.map T.ofNat)

/-- run `stepf` over the history; `d38`: messages of variable-using selection sets are wrong -/
def observe (stepf : State → Op → State × Out) (d38 : Bool) (ops : List WOp) : T :=
  let rec go (st : State) (varIds : List Nat) (ops : List WOp) (acc : List T) : List T :=
    match ops with
    | [] => acc.reverse
    | w :: rest =>
      let (st', o) := stepf st w.op
      match w.op with
      | .subscribe _ =>
        let varIds := if w.usesVar then st.next :: varIds else varIds
        go st' varIds rest (.node "o" [natList [], natList [], T.ofNat 0, T.ofBool true] :: acc)
      | .unsubscribe _ =>
        go st' varIds rest (.node "o" [natList [], natList o.cleaned, T.ofNat o.count, natList []] :: acc)
      | .publish _ _ =>
        let bad := if d38 then o.delivered.filter (fun i => varIds.contains i) else []
        go st' varIds rest (.node "o" [natList o.delivered, natList o.cleaned, T.ofNat o.count, natList bad] :: acc)
  T.list (go init [] ops [])

/-- D38 (read from `AddEvent` / `ResolveExecutable` by the translator): AddEvent resolves the selection set with an
empty variable map -/
def handle (tb : Tables) (c impl : T) : String :=
  let d38Current := tb.eventVarsEmpty
  match c with
  | .node "c19" [ops] =>
    match (do let ops ← ops.asList; optMap decOp ops) with
    | none => "bad-op"
    | some ops =>
      let cur := observe step d38Current ops
      let alts := [{ flag := "D38", onInCur := d38Current, obs := observe step (!d38Current) ops : Alt }]
      let specObs := observe Spec.step false ops
      verdict impl cur alts (impl == specObs)
  | _ => "bad-op"

def flags (tb : Tables) : List (String × Bool) := [("D38", tb.eventVarsEmpty), ("D81", tb.subOrderByMap)]

end Ggql.Driver.C19
