import Ggql.Driver.Common
import Ggql.Driver.Tables
namespace Ggql.Driver.C12
open Ggql

/- D47 (read from `getReflectType` by the translator: `Tables.ifaceNeedsBound`): under the reflection strategy an interface-typed field is resolved through
`getReflectType`, which only finds Go types some earlier request has already bound; on a cold root
the object's fields come back null without an error.  The response of such a request depends on what
other requests ran before it. -/

/-- `(c12 n)`: n concurrent requests from a cold root; obs `(obs mismatches panics ifaceMismatch)`.
The model of isolation is the property itself: every response equals the solo response. -/
def handle (tb : Tables) (c impl : T) : String :=
  let d47Current := tb.ifaceNeedsBound
  match c, impl with
  | .node "c12" [_], .node "obs" [mm, pn, im] =>
    if mm == T.ofNat 0 && pn == T.ofNat 0 then
      (match im.asBool with
       | some false => "ok"
       | some true => if d47Current then "dev D47" else "mismatch spec-bad (obs 0 0 false)"
       | none => "bad-op")
    else "mismatch spec-bad (obs 0 0 _)"
  | .node "c12hist" [], .node "obs" [same] =>
    (match same.asBool with
     | some true => if d47Current then "repaired D47" else "ok"
     | some false => if d47Current then "dev D47" else "mismatch spec-bad (obs true)"
     | none => "bad-op")
  | .node "c12pos" [], .node "obs" [same] =>
    -- (D111, hand-set: open, by design of the lazy binding) a Go type that no object type binds by name, @go or
    -- registration is bound at the first *object-typed* position it reaches (`assureType`): until then a value of it
    -- at an interface position is not recognised.  The response of `{ node { __typename name } }` depends on whether
    -- `{ thing { name } }` ran before.
    (match same.asBool with
     | some true => "repaired D111"
     | some false => "dev D111"
     | none => "bad-op")
  | _, _ => "bad-op"

def flags (tb : Tables) : List (String × Bool) :=
  [("D26", !(LockTable.unguardedSites tb.locks).isEmpty), ("D47", tb.ifaceNeedsBound), ("D111", true)]

end Ggql.Driver.C12
