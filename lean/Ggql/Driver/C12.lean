import Ggql.Driver.Common
import Ggql.Driver.Tables
namespace Ggql.Driver.C12
open Ggql

/- D47 (read from `getReflectType` by the translator: `Tables.ifaceNeedsBound`): under the reflection strategy an interface-typed field is resolved through
`getReflectType`, which only finds Go types some earlier request has already bound; on a cold root
the object's fields come back null without an error.  The response of such a request depends on what
other requests ran before it. -/

/-- `(c12 n)`: n concurrent requests from a cold root; obs `(obs mismatches panics ifaceMismatch)`.
The model of isolation is the property itself: every response equals the solo response. -/
def handle (tb : Tables) (c impl : T) : String :=
  let d47Current := tb.ifaceNeedsBound
  match c, impl with
  | .node "c12" [_], .node "obs" [mm, pn, im] =>
    if mm == T.ofNat 0 && pn == T.ofNat 0 then
      (match im.asBool with
       | some false => "ok"
       | some true => if d47Current then "dev D47" else "mismatch spec-bad (obs 0 0 false)"
       | none => "bad-op")
    else "mismatch spec-bad (obs 0 0 _)"
  | .node "c12hist" [], .node "obs" [same] =>
    (match same.asBool with
     | some true => if d47Current then "repaired D47" else "ok"
     | some false => if d47Current then "dev D47" else "mismatch spec-bad (obs true)"
     | none => "bad-op")
  | _, _ => "bad-op"

def flags (tb : Tables) : List (String × Bool) :=
  [("D26", !(LockTable.unguardedSites tb.locks).isEmpty), ("D47", tb.ifaceNeedsBound)]

end Ggql.Driver.C12
