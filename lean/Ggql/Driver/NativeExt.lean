/-
The driver's instantiation of `Coerce.Ext`: float64 values are carried as their IEEE-754 bit pattern
(`Nat`).  Classification, exact integer value and truncation are computed from the bits in plain
integer arithmetic; `float64(n)` and `float32(x)` use Lean's native `Float` (the C conversions);
printing and parsing of floats and times are *not* reproduced: printed text is the wildcard `_` in
observations, parse results travel with the case as hints from the harness.
-/
import Ggql.Spec.CoerceSpec
namespace Ggql.Driver
open Ggql.Coerce

/-- (sign, mantissa, exponent) with value = ±mantissa·2^exponent; `none` for NaN/±Inf -/
def decodeF64 (bits : Nat) : Option (Bool × Nat × Int) :=
  let sign : Bool := bits / 2 ^ 63 % 2 == 1
  let e : Nat := bits / 2 ^ 52 % 2048
  let m : Nat := bits % 2 ^ 52
  if e == 2047 then none
  else if e == 0 then some (sign, m, -1074)
  else some (sign, m + 2 ^ 52, (e : Int) - 1075)

def f64ToIntExact (bits : Nat) : Option Int :=
  match decodeF64 bits with
  | none => none
  | some (s, m, e) =>
    let mag : Option Nat :=
      if e ≥ 0 then some (m * 2 ^ e.toNat)
      else if m % 2 ^ (-e).toNat == 0 then some (m / 2 ^ (-e).toNat) else none
    mag.map fun n => if s then -(n : Int) else (n : Int)

/-- truncation toward zero -/
def f64Trunc (bits : Nat) : Option Int :=
  match decodeF64 bits with
  | none => none
  | some (s, m, e) =>
    let n : Nat := if e ≥ 0 then m * 2 ^ e.toNat else m / 2 ^ (-e).toNat
    some (if s then -(n : Int) else (n : Int))

/-- Go on amd64: out-of-range and non-finite conversions give the minimum of the target type -/
def f64ToInt (t : NumT) (bits : Nat) : Int :=
  match t, f64Trunc bits with
  | .i32, some n => if inRange32 n then n else -2147483648
  | .i32, none => -2147483648
  | _, some n => if inRange64 n then n else -9223372036854775808
  | _, none => -9223372036854775808

def hints (h : List (String × Option Nat × Option Int)) (s : String) : Option (Option Nat × Option Int) :=
  (h.find? (fun p => p.1 == s)).map (·.2)

def nativeExt (h : List (String × Option Nat × Option Int)) : Ext Nat :=
  { toIntExact := f64ToIntExact
    f2i := f64ToInt
    trunc := f64Trunc
    ofInt := fun n => (Float.ofInt n).toBits.toNat
    round32 := fun b => (Float.ofBits (UInt64.ofNat b)).toFloat32.toFloat.toBits.toNat
    isFinite := fun b => (decodeF64 b).isSome
    isZero := fun b => b % 2 ^ 63 == 0
    fmt := fun _ _ => "_"
    parse := fun s => match hints h s with | some (some b, _) => some b | _ => none
    timeOfFloat := fun b =>
      let x := Float.ofBits (UInt64.ofNat b)
      let secs := f64ToInt .i64 b
      secs * 1000000000 + f64ToInt .i64 ((x - Float.ofInt secs) * 1000000000.0).toBits.toNat
    timeParse := fun s => match hints h s with | some (_, some t) => some t | _ => none
    timeFormat := fun _ => "_" }

end Ggql.Driver
