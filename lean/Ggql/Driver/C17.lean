import Ggql.Driver.Common
import Ggql.Driver.Tables
import Ggql.Spec.Describe
namespace Ggql.Driver.C17
open Ggql Ggql.Intro

partial def decTRef : T → Option TRef
  | .node "named" [n] => do pure (.named (← n.asStr))
  | .node "list" [t] => do pure (.list (← decTRef t))
  | .node "nn" [t] => do pure (.nonNull (← decTRef t))
  | _ => none

def decDep : T → Option Dep
  | .atom "no" => some .no
  | .atom "bare" => some .bare
  | .node "reason" [r] => do pure (.reason (← r.asStr))
  | _ => none

def decDflt : T → Option Dflt
  | .atom "none" => some .none
  | .atom "null" => some .null
  | .node "int" [n] => do pure (.int (← n.asInt))
  | .atom "float" => some .float
  | .node "str" [s] => do pure (.str (← s.asStr))
  | .node "bool" [b] => do pure (.bool (← b.asBool))
  | .node "sym" [s] => do pure (.sym (← s.asStr))
  | .atom "list" => some .list
  | .atom "obj" => some .obj
  | _ => none

def decIV : T → Option InVal
  | .node "iv" [n, d, t, df] => do
    pure { name := (← n.asStr), desc := (← d.asStr), type := (← decTRef t), dflt := (← decDflt df) }
  | _ => none

def decField : T → Option FieldD
  | .node "field" [n, d, as, t, dep] => do
    pure { name := (← n.asStr), desc := (← d.asStr), args := (← optMap decIV (← as.asList)),
           type := (← decTRef t), dep := (← decDep dep) }
  | _ => none

def strs (t : T) : Option (List String) := do optMap T.asStr (← t.asList)

def decDef : T → Option Def
  | .node "scalar" [n, d] => do pure (.scalar (← n.asStr) (← d.asStr))
  | .node "enum" [n, d, vs] => do
    let vs ← optMap (fun v => match v with
      | .node "v" [vn, vd, dep] => do pure ({ name := (← vn.asStr), desc := (← vd.asStr), dep := (← decDep dep) } : EnumV)
      | _ => none) (← vs.asList)
    pure (.enum (← n.asStr) (← d.asStr) vs)
  | .node "input" [n, d, fs] => do pure (.input (← n.asStr) (← d.asStr) (← optMap decIV (← fs.asList)))
  | .node "iface" [n, d, fs] => do pure (.iface (← n.asStr) (← d.asStr) (← optMap decField (← fs.asList)))
  | .node "object" [n, d, is, fs] => do
    pure (.object (← n.asStr) (← d.asStr) (← strs is) (← optMap decField (← fs.asList)))
  | .node "union" [n, d, ms] => do pure (.union (← n.asStr) (← d.asStr) (← strs ms))
  | _ => none

def decDir : T → Option DirD
  | .node "dir" [n, d, as, ls] => do
    pure { name := (← n.asStr), desc := (← d.asStr), args := (← optMap decIV (← as.asList)), locs := (← strs ls) }
  | _ => none

def decOpt : T → Option (Option String)
  | .atom "none" => some none
  | .node "some" [s] => do pure (some (← s.asStr))
  | _ => none

/-- the schema plus: was there a `schema { … }` block in the text? -/
def decSchema : T → Option (Schema × Bool)
  | .node "schema" [ds, dirs, q, m, s, blk] => do
    let types ← optMap decDef (← ds.asList)
    let dirs ← optMap decDir (← dirs.asList)
    let S : Schema := { types := types, dirs := dirs, query := (← decOpt q), mutation := (← decOpt m), subscription := (← decOpt s) }
    pure (S, (← blk.asBool))
  | _ => none

partial def decSel : T → Option ISel
  | .node "tn" [k] => do pure (.typename (← k.asStr))
  | .node "s" [k, mf, inc, subs] => do
    pure (.mk (← k.asStr) (← MF.ofString (← mf.asStr)) (← inc.asBool) (← optMap decSel (← subs.asList)))
  | _ => none

def decTop : T → Option Top
  | .node "schema" [k, subs] => do pure (.schema (← k.asStr) (← optMap decSel (← subs.asList)))
  | .node "type" [k, n, subs] => do pure (.type (← k.asStr) (← n.asStr) (← optMap decSel (← subs.asList)))
  | _ => none

partial def decJ : T → Option J
  | .node "null" [] => some .null
  | .node "str" [s] => do pure (.str (← s.asStr))
  | .node "bool" [b] => do pure (.bool (← b.asBool))
  | .node "int" [n] => do pure (.str (toString (← n.asInt)))
  | .node "list" xs => do pure (.list (← optMap decJ xs))
  | .node "obj" kvs => do
    pure (.obj (← optMap (fun kv => match kv with
      | .node "kv" [k, v] => do pure ((← k.asStr), (← decJ v))
      | _ => none) kvs))
  | _ => none

partial def render : J → String
  | .null => "null"
  | .str s => "\"" ++ (s.replace "\n" "\\n") ++ "\""
  | .anyStr => "_"
  | .bool b => toString b
  | .list xs => "[" ++ ",".intercalate (xs.map render) ++ "]"
  | .obj kvs => "{" ++ ",".intercalate (kvs.map (fun p => p.1 ++ ":" ++ render p.2)) ++ "}"

mutual
  /-- model value against implementation value: objects by key, lists as multisets (the order of
  types, fields, values is not part of faithfulness), `anyStr` against any string -/
  partial def jmatch : J → J → Bool
    | .null, .null => true
    | .str a, .str b => a == b
    | .anyStr, .str _ => true
    | .bool a, .bool b => a == b
    | .list xs, .list ys => xs.length == ys.length && matchMulti xs ys
    | .obj kvs, .obj kvs' =>
      kvs.length == kvs'.length &&
      kvs.all (fun p => match kvs'.find? (fun q => q.1 == p.1) with
        | some q => jmatch p.2 q.2
        | none => false)
    | _, _ => false
  partial def matchMulti : List J → List J → Bool
    | [], ys => ys.isEmpty
    | x :: xs, ys =>
      (List.range ys.length).any (fun i =>
        match ys[i]? with
        | some y => jmatch x y && matchMulti xs (ys.eraseIdx i)
        | none => false)
end

def nameOf : J → Option String
  | .obj kvs => match kvs.find? (fun p => p.1 == "name") with
    | some (_, .str s) => some s
    | _ => none
  | _ => none

/-- where the model's value and the implementation's first differ (for the replay file) -/
partial def diff (path : String) : J → J → Option String
  | .obj kvs, .obj kvs' =>
    if kvs.length != kvs'.length then some (path ++ ": keys " ++ toString (kvs.map (·.1)) ++ " vs " ++ toString (kvs'.map (·.1))) else
    kvs.findSome? (fun p => match kvs'.find? (fun q => q.1 == p.1) with
      | some q => if jmatch p.2 q.2 then none else diff (path ++ "." ++ p.1) p.2 q.2
      | none => some (path ++ ": key " ++ p.1 ++ " missing"))
  | .list xs, .list ys =>
    if xs.length != ys.length then some (path ++ ": length " ++ toString xs.length ++ " (model) vs " ++ toString ys.length) else
    xs.findSome? (fun x =>
      if ys.any (jmatch x) then none else
      match nameOf x with
      | some n => (match ys.find? (fun y => nameOf y == some n) with
        | some y => diff (path ++ "[" ++ n ++ "]") x y
        | none => some (path ++ ": no element named " ++ n))
      | none => some (path ++ ": no match for " ++ render x))
  | a, b => if jmatch a b then none else some (path ++ ": " ++ render a ++ " (model) vs " ++ render b)

/-- a member of the model family -/
structure M where
  tbl : ArmFn
  cfg : Cfg
  emptyNull : Bool
  literal : Option String
  listSchemaObj : Bool     -- D59: the nameless object a `schema { … }` block creates sits in the type table

def override (tbl : ArmFn) (sites : List (GoT × MF)) : ArmFn :=
  fun g mf => if sites.contains (g, mf) then specArm g mf else tbl g mf

def lookupLoc (lt : List (GoT × String)) : GoT → Option String :=
  fun g => (lt.find? (fun r => r.1 == g)).map (·.2)

def curM (tb : Tables) : M :=
  { tbl := armFnOf tb.introTable,
    cfg := { locate := lookupLoc tb.locateTable, bareReason := "\"No longer supported\"" },   -- D56 (hand-set)
    emptyNull := false,
    listSchemaObj := true,
    literal := tb.metaLiteral }                                                            -- D36

def devSites : List (String × List (GoT × MF)) :=
  [("D57", [(.iface, .fields)]),
   ("D37", [(.object, .interfaces)]),
   ("D53", [(.list, .name), (.nonNull, .name)]),
   ("D53-desc", [(.list, .description), (.nonNull, .description)]),
   ("D52", [(.arg, .defaultValue), (.inputField, .defaultValue)])]

/-- the model with one listed deviation repaired -/
def alts (m : M) : List (String × Bool × M) :=
  (devSites.map (fun p => (p.1, p.2.any (fun s => m.tbl s.1 s.2 != specArm s.1 s.2), { m with tbl := override m.tbl p.2 }))) ++
  [("D56", m.cfg.bareReason != specBareReason, { m with cfg := { m.cfg with bareReason := specBareReason } }),
   ("D36", m.literal.isSome, { m with literal := none }),
   ("D59", m.listSchemaObj, { m with listSchemaObj := false })]

/-- the object behind a schema block: no name, one field per operation root -/
def schemaObj (S : Schema) : Def :=
  .object "" "" []
    ([("query", S.query), ("mutation", S.mutation), ("subscription", S.subscription)].filterMap (fun p =>
      p.2.map (fun t => ({ name := p.1, desc := "", args := [], type := .named t, dep := .no } : FieldD))))

def runM (m : M) (anyInst : Bool) (Sb : Schema × Bool) (q : List Top) : List (String × J) × Nat :=
  let S := if m.listSchemaObj && Sb.2 then { Sb.1 with types := Sb.1.types ++ [schemaObj Sb.1] } else Sb.1
  run (fetch m.cfg m.tbl S)
    { emptyResolverIsNull := m.emptyNull, anyInstalled := anyInst, anyLen := fun _ => 0 } S m.literal q

def same (a b : List (String × J) × Nat) : Bool := render (.obj a.1) == render (.obj b.1) && a.2 == b.2

/-- case: (c17 STRATEGY SCHEMA (l TOP…)); obs: (obs DATA nerr) -/
def handle (tb : Tables) (c impl : T) : String :=
  match c with
  | .node "c17r" [_] =>
    -- a RegisterField call (reflection set-up) and the arguments introspection lists for the field before and after:
    -- the model is the property — the schema is what was loaded, whatever the call is given
    if impl == T.node "obs" [T.ofBool true] then "ok" else "mismatch spec-bad (obs true)"
  | .node "c17" [.atom strat, sch, q] =>
    match decSchema sch, (do optMap decTop (← q.asList)) with
    | some S, some q =>
      (match impl with
       | .node "obs" [data, nerr] =>
         (match decJ data, nerr.asNat with
          | some data, some nerr =>
            let anyInst := strat == "any"
            let m := curM tb
            let cur := runM m anyInst S q
            let spec := introspect S.1 q
            let fits := fun (r : List (String × J) × Nat) => jmatch (.obj r.1) data && r.2 == nerr
            let specOk := fits spec
            if fits cur then
              if specOk then "ok"
              else
                let trig := (alts m).filter (fun a => a.2.1 && !same (runM a.2.2 anyInst S q) cur)
                if trig.isEmpty then "unattributed " ++ render (.obj cur.1)
                else "dev " ++ ",".intercalate (trig.map (·.1))
            else
              match (alts m).find? (fun a => fits (runM a.2.2 anyInst S q)) with
              | some a =>
                if a.2.1 then (if specOk then "repaired " ++ a.1 else "mismatch spec-bad " ++ render (.obj cur.1) ++ " errors=" ++ toString cur.2)
                else "regress " ++ a.1 ++ (if specOk then " spec-ok" else " spec-bad")
              | none =>
                -- D84 (read from resolveField): `__type(name:)` also found directives (GetType falls back on the
                -- directive table) and answered an object with a null kind for the name of a directive
                let dirNames := S.1.dirs.map (·.name) ++ ["deprecated", "skip", "include", "go"]
                if tb.typeLookupFindsDirectives && !specOk &&
                   q.any (fun t => match t with | .type _ n _ => dirNames.contains n | _ => false) then "dev D84"
                else
                "mismatch " ++ (if specOk then "spec-ok " else "spec-bad ") ++ "errors=" ++ toString cur.2 ++ "/" ++ toString nerr ++ " at " ++ ((diff "" (.obj cur.1) data).getD "-")
          | _, _ => "bad-op")
       | _ => "bad-op")
    | _, _ => "bad-op"
  | _ => "bad-op"

def flags (tb : Tables) : List (String × Bool) :=
  (alts (curM tb)).map (fun a => (a.1, a.2.1)) ++ [("D84", tb.typeLookupFindsDirectives)]

end Ggql.Driver.C17
