import Ggql.Driver.Common
import Ggql.Driver.Tables
namespace Ggql.Driver.C15
open Ggql

/-- D32 (read from `writeDesc` by the translator): descriptions are printed raw (no escaping) — a backslash or
    `"""` does not re-parse.
    D33 (hand-set): `ggqlgen -w / -e` write `root.Types()` only: directive definitions are lost. -/
def d33 : Bool := true

/-- case: (c15 hasBackslash hasTriple hasDirectiveDef);
    obs: (obs wholeAccepted wholeSame wholeFixedPoint toolAccepted toolSame) -/
def handle (tb : Tables) (c impl : T) : String :=
  let d32 := tb.descRaw
  match c with
  | .node "c15" [bs, tq, dir, used] =>
    (match bs.asBool, tq.asBool, dir.asBool, used.asBool with
     | some bs, some tq, some dir, some used =>
       let predict := fun (d32 d33 : Bool) =>
         let whole := !(d32 && (bs || tq))
         -- the tool's output lacks the directive definitions: it does not load when one of them is used,
         -- and loads as a different schema when they are only defined
         let toolLoads := whole && !(d33 && dir && used)
         let toolSame := whole && !(d33 && dir)
         T.node "obs" [T.ofBool whole, T.ofBool whole, T.ofBool whole, T.ofBool toolLoads, T.ofBool toolSame]
       let cur := predict d32 d33
       let alts := [{ flag := "D32", onInCur := d32, obs := predict (!d32) d33 : Alt },
                    { flag := "D33", onInCur := d33, obs := predict d32 (!d33) }]
       let want := predict false false
       -- a description with a backslash or a triple quote is printed unescaped (D32): the printed text is then
       -- some other string sequence, and whether it happens to be rejected, or accepted as a different schema,
       -- depends on what follows it; no particular failure mode is predicted
       if d32 && (bs || tq) then
         (if impl == want then "ok" else "dev " ++ ",".intercalate (["D32"] ++ (if d33 && dir then ["D33"] else [])))
       else if impl == cur then
         (if impl == want then "ok"
          else "dev " ++ ",".intercalate ((if d32 && (bs || tq) then ["D32"] else []) ++ (if d33 && dir then ["D33"] else [])))
       else
         (match alts.find? (fun a => a.obs == impl) with
          | some a => if impl == want then "repaired " ++ a.flag else "mismatch spec-bad " ++ cur.render
          | none => "mismatch " ++ (if impl == want then "spec-ok " else "spec-bad ") ++ cur.render)
     | _, _, _, _ => "bad-op")
  | _ => "bad-op"

def flags (tb : Tables) : List (String × Bool) := [("D32", tb.descRaw), ("D33", d33)]

end Ggql.Driver.C15
