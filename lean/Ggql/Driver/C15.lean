import Ggql.Driver.Common
import Ggql.Driver.Tables
namespace Ggql.Driver.C15
open Ggql

/- D32 (read from `writeDesc` by the translator): descriptions are printed raw (no escaping) — a backslash or
    `"""` does not re-parse.
    D33 (read from cmd/ggqlgen/main.go by the translator): `ggqlgen -w / -e` write `root.Types()` only:
    directive definitions are lost. -/

/-- case: (c15 hasBackslash hasTriple hasDirectiveDef usesDirective printedHasBacktick printedHasCR);
    obs: (obs wholeAccepted wholeSame wholeFixedPoint toolAccepted toolSame embedAccepted embedSame) -/
def handle (tb : Tables) (c impl : T) : String :=
  let d32 := tb.descRaw
  let d33 := tb.toolOmitsDirectives
  let d73 := tb.toolEmbedRaw
  match c with
  | .node "c15" [bs, tq, dir, used, tick, cr] =>
    (match bs.asBool, tq.asBool, dir.asBool, used.asBool, tick.asBool, cr.asBool with
     | some bs, some tq, some dir, some used, some tick, some cr =>
       let predict := fun (d32 d33 d73 : Bool) =>
         let whole := !(d32 && (bs || tq))
         -- the tool's output lacks the directive definitions: it does not load when one of them is used,
         -- and loads as a different schema when they are only defined
         let toolLoads := whole && !(d33 && dir && used)
         let toolSame := whole && !(d33 && dir)
         -- the embed output copies the text into a Go raw string literal: a backtick ends the literal (the
         -- file is not Go any more), a carriage return is dropped by the compiler (a different description)
         let embedLoads := toolLoads && !(d73 && tick)
         let embedSame := toolSame && !(d73 && (tick || cr))
         T.node "obs" [T.ofBool whole, T.ofBool whole, T.ofBool whole, T.ofBool toolLoads, T.ofBool toolSame,
                       T.ofBool embedLoads, T.ofBool embedSame]
       let cur := predict d32 d33 d73
       let alts := [{ flag := "D32", onInCur := d32, obs := predict (!d32) d33 d73 : Alt },
                    { flag := "D33", onInCur := d33, obs := predict d32 (!d33) d73 },
                    { flag := "D73", onInCur := d73, obs := predict d32 d33 (!d73) }]
       let want := predict false false false
       let devs := (if d33 && dir then ["D33"] else []) ++ (if d73 && (tick || cr) then ["D73"] else [])
       -- a description with a backslash or a triple quote is printed unescaped (D32): the printed text is then
       -- some other string sequence, and whether it happens to be rejected, or accepted as a different schema,
       -- depends on what follows it; no particular failure mode is predicted
       if d32 && (bs || tq) then
         (if impl == want then "ok" else "dev " ++ ",".intercalate (["D32"] ++ devs))
       else if impl == cur then
         (if impl == want then "ok" else "dev " ++ ",".intercalate devs)
       else
         (match alts.find? (fun a => a.obs == impl) with
          | some a => if impl == want then "repaired " ++ a.flag else "mismatch spec-bad " ++ cur.render
          | none => "mismatch " ++ (if impl == want then "spec-ok " else "spec-bad ") ++ cur.render)
     | _, _, _, _, _, _ => "bad-op")
  | _ => "bad-op"

def flags (tb : Tables) : List (String × Bool) :=
  [("D32", tb.descRaw), ("D33", tb.toolOmitsDirectives), ("D73", tb.toolEmbedRaw)]

end Ggql.Driver.C15
