import Ggql.Driver.C04
namespace Ggql.Driver.C11
open Ggql Ggql.Coerce Ggql.Args Ggql.Driver.C04

/-- D25 (read by the translator from replaceArgVars / Input.CoerceIn / List.CoerceIn): argument literals are
updated in place.
case: (c11 INPUTS VDEFS DECL GIVEN (l SUPPLIED…) HINTS); obs: (obs (l (r ONCE FRESH)…) printedSame) -/
def handle (tb : Tables) (c impl : T) : String :=
  let d25 := tb.argsInPlace
  match c with
  | .node "c11" [ins, vds, decl, given, calls, hs] =>
    match (do
      let ins ← optMap decInput (← ins.asList)
      let vds ← optMap decVd (← vds.asList)
      let decl ← optMap decArg (← decl.asList)
      let given ← decKVs given
      let calls ← optMap decKVs (← calls.asList)
      let hs ← optMap C05.decHint (← hs.asList)
      pure (ins, vds, decl, given, calls, hs)) with
    | none => "bad-op"
    | some (ins0, vds, decl, given, calls, hs) =>
      let ins := ins0.map (fun d => { d with nullDflt := tb.inputNullTakesDefault })
      let ext := nativeExt hs
      let tin := inTbl tb
      let cfgCur := cfgCurOf tb
      let fresh := calls.map (fun sup => encOutcome (formArgs cfgCur ext tin ins vds sup decl given))
      let once := fun (inPlace : Bool) => (formArgsSeq inPlace cfgCur ext tin ins decl vds given calls).map encOutcome
      let enc := fun (os : List T) (same : Bool) =>
        T.node "obs" [T.list ((os.zip fresh).map (fun p => T.node "r" [p.1, p.2])), T.ofBool same]
      let cur := enc (once d25) (!d25 || once true == once false)
      -- the property on the implementation's own observation: every call equals the fresh parse; printed form unchanged
      let specOk : Bool := match impl with
        | .node "obs" [.node "l" rs, same] =>
          same == T.ofBool true && rs.all (fun r => match r with | .node "r" [a, b] => a == b | _ => false)
        | _ => false
      let curNoPrint := match cur with | .node "obs" [rs, _] => T.node "obs" [rs, .atom "_"] | t => t
      if wmatch curNoPrint impl then
        if specOk then "ok" else if d25 then "dev D25" else "unattributed " ++ cur.render
      else
        let alt := enc (once (!d25)) true
        let altNoPrint := match alt with | .node "obs" [rs, _] => T.node "obs" [rs, .atom "_"] | t => t
        if wmatch altNoPrint impl && d25 && specOk then "repaired D25"
        else "mismatch " ++ (if specOk then "spec-ok " else "spec-bad ") ++ cur.render
  | .node "c11m" [_] =>
    -- a resolver that keeps or changes the argument it is handed; obs: (obs (l sameAsFresh…) printedSame).  The
    -- model is the property itself: every resolve of the reused request answers like a freshly parsed one.  With
    -- arguments built in place (D25) the literals of the request are what the resolver changes.
    (match impl with
     | .node "obs" [.node "l" sames, printed] =>
       if sames.all (· == T.ofBool true) && printed == T.ofBool true then "ok"
       else if tb.argsInPlace then "dev D25"
       else "mismatch spec-bad (obs (l true true true true) true)"
     | _ => "bad-op")
  | .node "c11a" [_] =>
    -- arguments out of order / undeclared / under a list or union, a subscription request resolved twice; obs as
    -- for c11m.  The model is the property itself.  With the argument list rearranged and checked at the first use
    -- of a field only (D93) the second resolve, the second member, the printed form differ.
    (match impl with
     | .node "obs" [.node "l" sames, printed] =>
       if sames.all (· == T.ofBool true) && printed == T.ofBool true then "ok"
       else if tb.argsSortedOnce then "dev D93"
       else "mismatch spec-bad (obs (l true…) true)"
     | _ => "bad-op")
  | _ => "bad-op"

def flags (tb : Tables) : List (String × Bool) := [("D25", tb.argsInPlace), ("D93", tb.argsSortedOnce)]

end Ggql.Driver.C11
