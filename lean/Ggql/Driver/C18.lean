import Ggql.Driver.Common
import Ggql.Driver.Tables
import Ggql.Model.ValueText
import Ggql.Spec.Json
namespace Ggql.Driver.C18
open Ggql Ggql.ValueText

abbrev V := Value Nat   -- floats carried as IEEE bits

partial def decV (floats : IO.Ref (List (Nat × List Char)) → Unit := fun _ => ()) : T → Option V
  | .node "null" [] => some .null
  | .node "bool" [b] => do pure (.bool (← b.asBool))
  | .node "int" [n] => do pure (.int (← n.asInt))
  | .node "float" [b, _] => do pure (.float (← b.asNat))
  | .node "str" [s] => do pure (.str (← s.asChars))
  | .node "sym" [s] => do pure (.sym (← s.asChars))
  | .node "var" [s] => do pure (.var (← s.asChars))
  | .node "list" xs => do pure (.list (← optMap (decV floats) xs))
  | .node "map" kvs => do
    pure (.map (← optMap (fun kv => match kv with
      | .node "kv" [k, v] => do pure ((← k.asChars), (← decV floats v))
      | _ => none) kvs))
  | _ => none

/-- an integer handed to the writers as a Go value of kind `k` (other than int64): for the property it is the
integer; for the writer model it is the integer when `writeValue` has an arm for the kind, else the default arm's
quoted text (D97) -/
partial def relabel (armed : String → Bool) : T → T
  | .node "intk" [k, n] =>
    (match k.asStr, n.asInt with
     | some k, some i => if armed k then .node "int" [n] else .node "str" [T.ofChars (intText i)]
     | _, _ => .node "bad" [])
  | .node nm xs => .node nm (xs.map (relabel armed))
  | t => t

partial def otherKinds : T → List String
  | .node "intk" [k, _] => (match k.asStr with | some k => [k] | none => [])
  | .node _ xs => xs.flatMap otherKinds
  | _ => []

partial def floatTexts : T → List (Nat × List Char)
  | .node "float" [b, t] => (match b.asNat, t.asChars with | some b, some t => [(b, t)] | _, _ => [])
  | .node _ xs => xs.flatMap floatTexts
  | _ => []

/-- later duplicates of a key overwrite earlier ones (Go map assignment) -/
def dedupLast (kvs : List (List Char × T)) : List (List Char × T) :=
  kvs.foldl (fun acc p => if acc.any (fun q => q.1 == p.1) then acc.map (fun q => if q.1 == p.1 then p else q) else acc ++ [p]) []

/-- maps are compared with their keys in byte order (the harness sorts the Go map's keys) -/
def keyHex (k : List Char) : String := T.hex (String.ofList k).toUTF8.toList

def insertKV (p : List Char × T) : List (List Char × T) → List (List Char × T)
  | [] => [p]
  | q :: rest => if keyHex p.1 ≤ keyHex q.1 then p :: q :: rest else q :: insertKV p rest

def sortKVs (kvs : List (List Char × T)) : List (List Char × T) := kvs.foldr insertKV []

partial def encV : V → T
  | .null => .node "null" []
  | .bool b => .node "bool" [T.ofBool b]
  | .int n => .node "int" [T.ofInt n]
  | .float b => .node "float" [T.ofNat b, .atom "_"]
  | .str s => .node "str" [T.ofChars s]
  | .sym s => .node "sym" [T.ofChars s]
  | .var s => .node "var" [T.ofChars s]
  | .list xs => .node "list" (xs.map encV)
  | .map kvs => .node "map" ((sortKVs (dedupLast (kvs.map (fun p => (p.1, encV p.2))))).map (fun p => .node "kv" [T.ofChars p.1, p.2]))

def tblOf (tb : Tables) : Tbl := tb.valueTbl

/-- what the JSON form must read back as: symbols and variables as strings -/
partial def asJsonRead : V → V
  | .sym s => .str s
  | .var s => .str ('$' :: s)
  | .list xs => .list (xs.map asJsonRead)
  | .map kvs => .map (kvs.map (fun p => (p.1, asJsonRead p.2)))
  | v => v

/-- the value as a JSON tree (numbers by their text) -/
partial def toJ (ft : FloatText Nat) : V → Json.JVal
  | .null => .null
  | .bool b => .bool b
  | .int n => .num (intText n)
  | .float x => .num (ft.fmt x)
  | .str s => .str s
  | .sym s => .str s
  | .var s => .str ('$' :: s)
  | .list xs => .arr (xs.map (toJ ft))
  | .map kvs => .obj (kvs.map (fun p => (p.1, toJ ft p.2)))

partial def jEq : Json.JVal → Json.JVal → Bool
  | .null, .null => true
  | .bool a, .bool b => a == b
  | .num a, .num b => a == b
  | .str a, .str b => a == b
  | .arr a, .arr b => a.length == b.length && (a.zip b).all (fun p => jEq p.1 p.2)
  | .obj a, .obj b => a.length == b.length && (a.zip b).all (fun p => p.1.1 == p.2.1 && jEq p.1.2 p.2.2)
  | _, _ => false

partial def keysOk (tbl : Tbl) (sdl : Bool) : V → Bool
  | .list xs => xs.all (keysOk tbl sdl)
  | .map kvs => kvs.all (fun p =>
      (if sdl then !p.1.isEmpty && p.1.all (isToken tbl)
       else tbl.jsonKeysEscaped || p.1.all (fun c => c != '"' && c != '\\' && c.toNat ≥ 32)) && keysOk tbl sdl p.2)
  | _ => true

def handle (tb : Tables) (c impl : T) : String :=
  match c with
  | .node "c18" [v, indent, sdl] =>
    match decV (fun _ => ()) (relabel (fun _ => true) v), decV (fun _ => ()) (relabel (fun k => tb.writerIntKinds.contains k) v), indent.asInt, sdl.asBool with
    | some val, some valW, some indent, some sdl =>
      let tbl := tblOf tb
      let fl := floatTexts v ++ floatTexts impl
      let ft : FloatText Nat :=
        { fmt := fun b => match fl.find? (fun p => p.1 == b) with | some p => p.2 | none => "?".toList
          parse := fun t => (fl.find? (fun p => p.2 == t)).map (·.1) }
      let text := writeValue tbl ft sdl 0 indent valW
      let implText : Option (List Char) := match impl with | .node "obs" (t :: _) => t.asChars | _ => none
      let readBack : T := match implText with
        | some t => (match readValue tbl ft (t.length + 2) t with
                     | some (r, _) => encV r
                     | none => .node "error" [])
        | none => .node "error" []
      let jsonModel : Bool := !sdl && (match implText with
        | some t => (match Json.read t with | some j => jEq j (toJ ft val) | none => false)
        | none => false)
      let cur := T.node "obs" [T.ofChars text, readBack, if sdl then .atom "na" else T.ofBool jsonModel]
      -- the property, on the implementation's own output
      let want := encV (if sdl then val else asJsonRead val)
      let specOk : Bool := match impl with
        | .node "obs" [_, rb, j] => wmatch want rb && (sdl || (j == T.ofBool true && jsonModel))
        | _ => false
      let unarmed := (otherKinds v).any (fun k => !tb.writerIntKinds.contains k)
      verdictAttr impl cur specOk ((if keysOk tbl sdl val then [] else [if sdl then "D22" else "D22-json"]) ++ (if unarmed then ["D97"] else []))
    | _, _, _, _ => "bad-op"
  | .node "c18raw" [_] =>
    -- bytes that are not valid UTF-8: outside the character-level model; only the JSON clause is judged
    (match impl with
     | .node "obs" [j] => if j == T.ofBool true then "ok" else "mismatch spec-bad (obs true)"
     | _ => "bad-op")
  | _ => "bad-op"

def flags (tb : Tables) : List (String × Bool) := [("D22", true), ("D22-json", !(tblOf tb).jsonKeysEscaped),
  ("D97", ["int", "int8", "int16", "int32", "int64", "uint", "uint8", "uint16", "uint32", "uint64"].any (fun k => !tb.writerIntKinds.contains k))]

end Ggql.Driver.C18
