import Ggql.Driver.C01
namespace Ggql.Driver.C08
open Ggql Ggql.Walk Ggql.Driver.WalkWire

/-- D51 (hand-set): by-name binding of union members is first-come: `metaCheck` fails on the first
member that is neither bound nor name-equal, so a union value whose type is not the *first* member
resolves to null + error until an earlier member has been bound by another value. -/
def d51 : Bool := true

def handle (tb : Tables) (c impl : T) : String :=
  match c, impl with
  | .node "c08cold" [], .node "obs" [same] =>
    (match same.asBool with
     | some true => if d51 then "repaired D51" else "ok"
     | some false => if d51 then "dev D51" else "mismatch spec-bad (obs true)"
     | none => "bad-op")
  | _, _ => C01.handle tb c impl

def flags (tb : Tables) : List (String × Bool) := [("D14", (cfgCur tb).condByIdentity), ("D51", d51)]

end Ggql.Driver.C08
