import Ggql.Driver.C01
import Ggql.Model.Binding
namespace Ggql.Driver.C08
open Ggql Ggql.Walk Ggql.Driver.WalkWire Ggql.Binding

/- D51 (read from the `*Union` arm of `resolve` by the translator): by-name binding of union members is
first-come: `metaCheck` fails on the first member that is neither bound nor name-equal, so a union value whose
type is not the *first* member resolves to null + error until an earlier member has been bound by another value.
D47 (read from `getReflectType`): an interface-typed position on a cold root finds no object type for the value. -/
def bcfg (tb : Tables) : Binding.Cfg := { unionFirstCome := tb.unionFirstCome, ifaceNeedsBound := tb.ifaceNeedsBound }

def decObj : T → Option ObjT
  | .node "obj" [n, .atom "none"] => do pure ⟨(← n.asStr), none⟩
  | .node "obj" [n, d] => do pure ⟨(← n.asStr), some (← d.asStr)⟩
  | _ => none

def decGo : T → Option GoT
  | .node "go" [f, s, n] => do pure ⟨(← f.asStr), (← s.asStr), (← n.asStr)⟩
  | _ => none

def decEv : T → Option (Pos × GoT)
  | .node "ev" [.node "o" [t], g] => do pure (.obj (← t.asStr), (← decGo g))
  | .node "ev" [.node "u" [ms], g] => do pure (.union (← optMap T.asStr (← ms.asList)), (← decGo g))
  | .node "ev" [.atom "i", g] => do pure (.iface, (← decGo g))
  | _ => none

def encOut (p : Pos) : Out → T
  | .asType t => (match p with | .union _ => .node "as" [T.ofStr t] | _ => .atom "bound")
  | .unbound => .atom "unbound"
  | .err _ => .atom "err"
  | .empty => .atom "empty"

/-- what the property prescribes: the value is resolved as its own concrete type -/
def specOut (objs : List ObjT) (p : Pos) (g : GoT) : T :=
  match p with
  | .union ms =>
    -- a value whose type is not a member of the union is not typed by the schema: `{}` (outside the property)
    (match objs.find? (fun o => ms.contains o.name && bindsByName {} o g) with | some o => .node "as" [T.ofStr o.name] | none => .atom "empty")
  | _ => .atom "bound"

def handle (tb : Tables) (c impl : T) : String :=
  let d51 := tb.unionFirstCome
  let d47 := tb.ifaceNeedsBound
  match c, impl with
  | .node "c08cold" [], .node "obs" [same] =>
    (match same.asBool with
     | some true => if d51 then "repaired D51" else "ok"
     | some false => if d51 then "dev D51" else "mismatch spec-bad (obs true)"
     | none => "bad-op")
  | .node "c08l" [_], .node "obs" [same, refAbstract] =>
    -- a Go type bound after it was first seen (fixed table): the model is the property — once bound, the object is
    -- resolved as its concrete type, exactly as on a root that was bound before its first request (and that reference
    -- itself names the concrete type, not the interface)
    if same == T.ofBool true && refAbstract == T.ofBool false then "ok" else "mismatch spec-bad (obs true false)"
  | .node "c08b" [os, ord, evs], .node "l" outs =>
    -- a history of values reaching object / union / interface positions of one cold reflection root
    (match (do pure ((← optMap decObj (← os.asList)), (← optMap T.asStr (← ord.asList)), (← optMap decEv (← evs.asList)))) with
     | none => "bad-op"
     | some (objs, order, events) =>
       let model := run (bcfg tb) objs order [] events
       let cur : List T := (events.zip model).map (fun p => encOut p.1.1 p.2)
       let spec : List T := events.map (fun e => specOut objs e.1 e.2)
       -- a value whose type is not a member of the union is outside the property: whether the answer is `{}` (every
       -- member bound to something else) or an error naming an undecided member is not prescribed
       let specOk := outs.length == spec.length &&
         (outs.zip spec).all (fun p => p.1 == p.2 || (p.2 == T.atom "empty" && p.1 == T.atom "err"))
       if outs == cur then
         (if specOk then "ok"
          else
            let fl := (if d51 && model.any (fun o => match o with | .err _ => true | _ => false) then ["D51"] else []) ++
                      (if d47 && model.any (fun o => o == .unbound) then ["D47"] else [])
            if fl.isEmpty then "unattributed " ++ (T.list cur).render else "dev " ++ ",".intercalate fl)
       else if tb.ptrValueDistinct && !specOk then
         -- (D102) bound to the exact reflect.Type first seen: a value and a pointer to it are told apart, which the
         -- binding model (one Go type per struct) does not do
         "dev D102"
       else "mismatch " ++ (if specOk then "spec-ok " else "spec-bad ") ++ (T.list cur).render)
  | _, _ => C01.handle tb c impl

def flags (tb : Tables) : List (String × Bool) := [("D14", (cfgCur tb).condByIdentity), ("D51", tb.unionFirstCome), ("D47", tb.ifaceNeedsBound), ("D102", tb.ptrValueDistinct)]

end Ggql.Driver.C08
