import Ggql.Driver.Common
import Ggql.Driver.Tables
import Ggql.Spec.Rules
namespace Ggql.Driver.C13
open Ggql Ggql.Rules

partial def decTRef : T → Option TRef
  | .node "named" [n] => do pure (.named (← n.asStr))
  | .node "list" [t] => do pure (.list (← decTRef t))
  | .node "nn" [t] => do pure (.nonNull (← decTRef t))
  | _ => none

def decUse : T → Option DirUse
  | .node "use" [n, as] => do
    let as ← optMap (fun a => match a with
      | .node "a" [k, .atom kind] => do pure ((← k.asStr), kind)
      | _ => none) (← as.asList)
    pure { name := (← n.asStr), args := as }
  | _ => none

def decUses (t : T) : Option (List DirUse) := do optMap decUse (← t.asList)

def decArg : T → Option Arg
  | .node "arg" [n, t, ds] => do pure { name := (← n.asStr), type := (← decTRef t), dirs := (← decUses ds) }
  | .node "arg" [n, t, ds, hd] => do pure { name := (← n.asStr), type := (← decTRef t), dirs := (← decUses ds), hasDefault := (← hd.asBool) }
  | _ => none

def decField : T → Option Field
  | .node "field" [n, t, as, ds] => do
    pure { name := (← n.asStr), type := (← decTRef t), args := (← optMap decArg (← as.asList)), dirs := (← decUses ds) }
  | _ => none

def strs (t : T) : Option (List String) := do optMap T.asStr (← t.asList)

def decDef : T → Option Def
  | .node "scalar" [n, ds] => do pure (.scalar (← n.asStr) (← decUses ds))
  | .node "enum" [n, vs, ds] => do
    let vs ← optMap (fun v => match v with
      | .node "v" [vn, vds] => do pure ((← vn.asStr), (← decUses vds))
      | _ => none) (← vs.asList)
    pure (.enum (← n.asStr) vs (← decUses ds))
  | .node "input" [n, fs, ds] => do pure (.input (← n.asStr) (← optMap decArg (← fs.asList)) (← decUses ds))
  | .node "iface" [n, fs, ds] => do pure (.iface (← n.asStr) (← optMap decField (← fs.asList)) (← decUses ds))
  | .node "object" [n, is, fs, ds] => do pure (.object (← n.asStr) (← strs is) (← optMap decField (← fs.asList)) (← decUses ds))
  | .node "union" [n, ms, ds] => do pure (.union (← n.asStr) (← strs ms) (← decUses ds))
  | .node "directive" [n, as, ls] => do pure (.directive (← n.asStr) (← optMap decArg (← as.asList)) (← strs ls))
  | .node "schema" [rs, ds] => do
    let rs ← optMap (fun r => match r with
      | .node "r" [a, b] => do pure ((← a.asStr), (← b.asStr))
      | _ => none) (← rs.asList)
    pure (.schemaBlock rs (← decUses ds))
  | _ => none

def cfgCurOf (tb : Tables) : Cfg :=
  { subtypeNarrow := tb.subtypeNarrow, dupScalarDropped := tb.dupScalarDropped,
    dirArgWrapperAccepted := tb.dirArgWrapperAccepted, dirRequiredUnchecked := tb.dirRequiredUnchecked, dirLoopByVisited := tb.dirLoopByVisited, dupMembersAccepted := tb.dupMembersAccepted }

/-- case: (c13 MUTATION (l DEF…)); obs: (obs accepted offenderNamed) -/
def handle (tb : Tables) (c impl : T) : String :=
  match c with
  | .node "c13h" [_, refuse] =>
    -- a later load that breaks a rule for a type of an earlier load (fixed table); obs: (obs refused named
    -- rootUnchanged).  The model is the property: refused exactly when the resulting schema breaks a rule, the
    -- error names the offender, and a refused load leaves the root as it was (C14).
    (match refuse.asBool, impl with
     | some true, .node "obs" [r, n, u] =>
       if r == T.ofBool true && n == T.ofBool true && u == T.ofBool true then "ok"
       else if tb.impliedSchemaUnvalidated && r == T.ofBool false then "dev D105"
       else "mismatch spec-bad (obs true true true)"
     | some false, .node "obs" [r, _, _] => if r == T.ofBool false then "ok" else "mismatch spec-bad (obs false true true)"
     | _, _ => "bad-op")
  | .node "c13" [_, defs] =>
    match (do optMap decDef (← defs.asList)) with
    | none => "bad-op"
    | some s =>
      let cfgCur := cfgCurOf tb
      let cm := tb.valueTbl.charMap
      let tc := tb.valueTbl.tokenClass
      let predicted := checkAll cm tc cfgCur s
      let wf := wellFormed cm tc s
      match impl with
      | .node "obs" [acc, named] =>
        (match acc.asBool, named.asBool with
         | some acc, some named =>
           let specOk := acc == wf && (acc || named)
           if acc == predicted then
             if specOk then "ok"
             else
               let toggles : List (String × Cfg) :=
                 ([("D28", { cfgCur with fieldDirUsesUnchecked := false }), ("D29", { cfgCur with argLocIsInputField := false }),
                  ("D43", { cfgCur with dupScalarDropped := false }), ("D43s", { cfgCur with dupScalarOverScalar := false }), ("D44", { cfgCur with dirArgWrapperAccepted := false }),
                  ("D45", { cfgCur with subtypeNarrow := false }), ("D78", { cfgCur with dirRequiredUnchecked := false }), ("D83", { cfgCur with dirLoopByVisited := false }), ("D89", { cfgCur with dupMembersAccepted := false })] : List (String × Cfg))
               let trig := toggles.filter (fun p => checkAll cm tc p.2 s != predicted)
               if acc == wf && !named then "unattributed offender-not-named"
               else if trig.isEmpty then "unattributed (obs " ++ toString predicted ++ ")"
               else "dev " ++ ",".intercalate (trig.map (·.1))
           else "mismatch " ++ (if specOk then "spec-ok " else "spec-bad ") ++ "(obs " ++ toString predicted ++ " _)"
         | _, _ => "bad-op")
      | _ => "bad-op"
  | _ => "bad-op"

def flags (tb : Tables) : List (String × Bool) :=
  let cfgCur := cfgCurOf tb
  [("D28", cfgCur.fieldDirUsesUnchecked), ("D29", cfgCur.argLocIsInputField), ("D43", cfgCur.dupScalarDropped), ("D43s", cfgCur.dupScalarOverScalar),
   ("D44", cfgCur.dirArgWrapperAccepted), ("D45", cfgCur.subtypeNarrow), ("D78", cfgCur.dirRequiredUnchecked), ("D83", cfgCur.dirLoopByVisited), ("D89", cfgCur.dupMembersAccepted), ("D105", tb.impliedSchemaUnvalidated)]

end Ggql.Driver.C13
