import Ggql.Driver.Common
import Ggql.Driver.Tables
import Ggql.Driver.NativeExt
import Ggql.Model.Leaf
namespace Ggql.Driver.C05
open Ggql Ggql.Coerce

def decKind : String → Option Kind
  | "nil" => some .nil | "int" => some .int | "i8" => some .i8 | "i16" => some .i16 | "i32" => some .i32
  | "i64" => some .i64 | "uint" => some .uint | "u8" => some .u8 | "u16" => some .u16 | "u32" => some .u32
  | "u64" => some .u64 | "f32" => some .f32 | "f64" => some .f64 | _ => none

def encKind : Kind → String
  | .nil => "nil" | .int => "int" | .i8 => "i8" | .i16 => "i16" | .i32 => "i32" | .i64 => "i64"
  | .uint => "uint" | .u8 => "u8" | .u16 => "u16" | .u32 => "u32" | .u64 => "u64" | .f32 => "f32"
  | .f64 => "f64" | .str => "str" | .bool => "bool" | .time => "time" | .sym => "sym" | .other => "other"

def decVal : T → Option (GoVal Nat)
  | .node "nil" [] => some .nil
  | .node "int" [.atom k, n] => do pure (.int (← decKind k) (← n.asInt))
  | .node "f32" [b] => do pure (.flt .f32 (← b.asNat))
  | .node "f64" [b] => do pure (.flt .f64 (← b.asNat))
  | .node "str" [s] => do pure (.str (← s.asStr))
  | .node "bool" [b] => do pure (.bool (← b.asBool))
  | .node "sym" [s] => do pure (.sym (← s.asStr))
  | .node "time" [n] => do pure (.time (← n.asInt))
  | .node "other" [s] => do pure (.other (← s.asStr))
  | _ => none

def encVal : GoVal Nat → T
  | .nil => .node "nil" []
  | .int k n => .node "int" [.atom (encKind k), T.ofInt n]
  | .flt k b => .node (encKind k) [T.ofNat b]
  | .str s => if s == "_" then .node "str" [.atom "_"] else .node "str" [T.ofStr s]
  | .bool b => .node "bool" [T.ofBool b]
  | .sym s => .node "sym" [T.ofStr s]
  | .time n => .node "time" [T.ofInt n]
  | .other s => .node "other" [T.ofStr s]

def decScalar : String → Option Scalar
  | "int" => some .int | "int64" => some .int64 | "float" => some .float | "float64" => some .float64
  | "string" => some .string | "id" => some .id | "boolean" => some .boolean | "time" => some .time | _ => none

partial def decT : T → Option TRef
  | .node "scalar" [.atom s] => do pure (.scalar (← decScalar s))
  | .node "enum" vs => do pure (.enum (← optMap T.asStr vs))
  | .node "list" [t] => do pure (.list (← decT t))
  | .node "nn" [t] => do pure (.nonNull (← decT t))
  | _ => none

partial def decData : T → Option (Data Nat)
  | .node "leaf" [v] => do pure (.leaf (← decVal v))
  | .node "list" ds => do pure (.list (← optMap decData ds))
  | .node "slice" (.atom "fast" :: vs) => do pure (.slice .fast (← optMap decVal vs))
  | .node "slice" (.atom "reflect" :: vs) => do pure (.slice .reflect (← optMap decVal vs))
  | _ => none

partial def encOut : ROut Nat → T
  | .leaf v => .node "leaf" [encVal v]
  | .list xs => .node "list" (xs.map encOut)

partial def decOut : T → Option (ROut Nat)
  | .node "leaf" [v] => do pure (.leaf (← decVal v))
  | .node "list" ds => do pure (.list (← optMap decOut ds))
  | _ => none

def decHint : T → Option (String × Option Nat × Option Int)
  | .node "h" [s, b, t] => do
    let s ← s.asStr
    pure (s, b.asNat, t.asInt)
  | _ => none

def outTables (tb : Tables) : Scalar → Table
  | .int => tb.outInt | .int64 => tb.outInt64 | .float => tb.outFloat | .float64 => tb.outFloat64
  | .string => tb.outString | .id => tb.outId | .boolean => tb.outBoolean | .time => tb.outTime

/-- which listed deviation an unsound output arm belongs to -/
def flagOfArm (nulls : Bool) (s : Scalar) (k : Kind) (a : Action) : String :=
  let floatScalar := s == .float || s == .float64
  match a with
  | .parseIntKeep _ | .parseInt32Keep | .parseBoolKeep | .timeParseKeep | .convCheckedKeep _ =>
    if nulls then "D16-int" else "D15"
  | .parseFloatKeep _ => if nulls then "D16-float" else "D15"
  | .fmtInt => "D48"
  | .conv _ => if k.isInt && (s == .int || s == .int64) then "D16-int" else if floatScalar then "D16-float" else "D16"
  | _ => if floatScalar && k == .str && !nulls then "D15" else if floatScalar then "D16-float" else "D16"

/-- deviations exercised by this case -/
partial def attribution (tb : Tables) : TRef → Data Nat → List String
  | _, .leaf .nil => []
  | .nonNull t, d => attribution tb t d
  | .list t, .list xs => xs.flatMap (attribution tb t)
  | .list t, .slice .fast xs =>
    if tb.fastSliceCopies then ["D18"] else xs.flatMap (fun x => attribution tb t (.leaf x))
  | .list t, .slice .reflect xs => xs.flatMap (fun x => attribution tb t (.leaf x))
  | .scalar s, .leaf v =>
    let a := (outTables tb s).armFor v.kind
    if armSoundOutR tb.leafErrNulls s v.kind a then [] else
    -- Int / Int64 ← float: the range half of D16 is repaired (`convTrunc`), dropping the fraction is not
    (match s, v, a with
     | .int, .flt _ x, .conv _ => if (f64Trunc x).any inRange32 then ["D16"] else ["D16-range"]
     | .int64, .flt _ x, .conv _ => if (f64Trunc x).any inRange64 then ["D16"] else ["D16-range"]
     | _, _, _ => [flagOfArm tb.leafErrNulls s v.kind a])
  | .enum _, .leaf (.str _) => ["D17"]
  | .enum _, .leaf (.sym _) => ["D17"]
  | _, _ => []

/-- the property's oracle on (type, resolver value, response value) -/
partial def dataOk (ext : Ext Nat) : TRef → Data Nat → ROut Nat → Bool
  | _, .leaf .nil, out => (match out with | .leaf .nil => true | _ => false)
  | .nonNull t, d, out => dataOk ext t d out
  | .list t, .list xs, .list ys => xs.length == ys.length && (xs.zip ys).all (fun p => dataOk ext t p.1 p.2)
  | .list t, .slice _ xs, .list ys => xs.length == ys.length && (xs.zip ys).all (fun p => dataOk ext t (.leaf p.1) p.2)
  | .list _, _, .leaf .nil => true
  | .list _, _, _ => false
  | .scalar s, .leaf v, .leaf r => checkOut ext s v (r, false) && wellTyped ext (.scalar s) (.leaf r)
  | .scalar _, _, .leaf .nil => true
  | .scalar _, _, _ => false
  | .enum vals, .leaf v, .leaf r =>
    (match r with
     | .nil => true
     | .str s => vals.contains s && (match v with | .sym s' => s == s' | .str s' => s == s' | _ => false)
     | _ => false)
  | .enum _, _, .leaf .nil => true
  | .enum _, _, _ => false

def handle (tb : Tables) (c impl : T) : String :=
  match c with
  | .node "c05" [t, d, hs] =>
    match (do pure ((← decT t), (← decData d), (← optMap decHint (← hs.asList)))) with
    | none => "bad-op"
    | some (t, d, hs) =>
      let ext := nativeExt hs
      let (out, nerr) := resolveData ext (outTables tb) tb.leafErrNulls tb.fastSliceCopies t d
      let cur := T.node "obs" [encOut out, T.ofNat nerr]
      let specOk := match impl with
        | .node "obs" [o, _] => (match decOut o with | some o => dataOk ext t d o | none => false)
        | _ => false
      verdictAttr impl cur specOk (attribution tb t d)
  | _ => "bad-op"

def hasKeep (tbl : Table) : Bool :=
  tbl.arms.any (fun p => match p.2 with
    | .parseIntKeep _ | .parseInt32Keep | .parseFloatKeep _ | .parseBoolKeep | .timeParseKeep => true | _ => false)

def flags (tb : Tables) : List (String × Bool) :=
  let all : List Scalar := [.int, .int64, .float, .float64, .string, .id, .boolean, .time]
  let unsound := all.flatMap (fun s => (unsoundOutR tb.leafErrNulls s (outTables tb s)).map (fun p => flagOfArm tb.leafErrNulls s p.1 p.2))
  [("D15", unsound.contains "D15"), ("D16", unsound.contains "D16"), ("D16-int", unsound.contains "D16-int"), ("D16-float", unsound.contains "D16-float"), ("D48", unsound.contains "D48"),
   ("D16-range", all.any (fun s => (s == .int || s == .int64) && (outTables tb s).arms.any (fun p => p.1.isFloat && (match p.2 with | .conv _ => true | _ => false)))),
   ("D17", true), ("D18", tb.fastSliceCopies)]

end Ggql.Driver.C05
