/-
Line-protocol loop.  stdin: `<prop> <case-term> <impl-obs-term>` per line; stdout: one verdict line
per input line.  `flags` as the first argument prints the deviation flags read off the tables.
-/
import Ggql.Driver.C01
import Ggql.Driver.C02
import Ggql.Driver.C03
import Ggql.Driver.C04
import Ggql.Driver.C05
import Ggql.Driver.C06
import Ggql.Driver.C07
import Ggql.Driver.C08
import Ggql.Driver.C09
import Ggql.Driver.C10
import Ggql.Driver.C11
import Ggql.Driver.C12
import Ggql.Driver.C13
import Ggql.Driver.C17
import Ggql.Driver.C14
import Ggql.Driver.C15
import Ggql.Driver.C16
import Ggql.Driver.C18
import Ggql.Driver.C19
import Ggql.Driver.C20
namespace Ggql.Driver
open Ggql

def splitLine (line : String) : Option (String × T × T) :=
  match T.tokens line.toList with
  | [] => none
  | prop :: rest =>
    -- two terms follow; split them by balancing parentheses
    let rec take (toks : List String) (depth : Nat) (acc : List String) : Option (List String × List String) :=
      match toks with
      | [] => none
      | t :: ts =>
        let acc := t :: acc
        if t = "(" then take ts (depth + 1) acc
        else if t = ")" then
          (if depth = 1 then some (acc.reverse, ts) else if depth = 0 then none else take ts (depth - 1) acc)
        else if depth = 0 then some (acc.reverse, ts) else take ts depth acc
    do
      let (a, rest) ← take rest 0 []
      let (b, rest) ← take rest 0 []
      if !rest.isEmpty then none
      let ta ← T.parseTokens a
      let tb ← T.parseTokens b
      pure (prop, ta, tb)

def handleLine (tb : Tables) (line : String) : String :=
  match splitLine line with
  | none => "bad-op"
  | some (prop, c, impl) =>
    -- whole-walk cases (`(walk …)`) share C01's model and oracle whichever property's harness produced them
    let prop := match c, prop with
      | .node "walk" _, "C05" => "C01"
      | .node "walk" _, "C09" => "C01"
      | .node "walk" _, "C11" => "C01"
      | _, p => p
    match prop with
    | "C01" => C01.handle tb c impl
    | "C02" => C02.handle tb c impl
    | "C03" => C03.handle tb c impl
    | "C04" => C04.handle tb c impl
    | "C05" => C05.handle tb c impl
    | "C06" => C06.handle tb c impl
    | "C07" => C07.handle tb c impl
    | "C08" => C08.handle tb c impl
    | "C09" => C09.handle tb c impl
    | "C10" => C10.handle tb c impl
    | "C11" => C11.handle tb c impl
    | "C12" => C12.handle tb c impl
    | "C13" => C13.handle tb c impl
    | "C17" => C17.handle tb c impl
    | "C14" => C14.handle tb c impl
    | "C15" => C15.handle tb c impl
    | "C16" => C16.handle tb c impl
    | "C18" => C18.handle tb c impl
    | "C19" => C19.handle tb c impl
    | "C20" => C20.handle tb c impl
    | _ => "bad-op"

def allFlags (tb : Tables) : List (String × List (String × Bool)) := [("C01", C01.flags tb), ("C02", C02.flags tb), ("C03", C03.flags tb), ("C04", C04.flags tb), ("C05", C05.flags tb), ("C06", C06.flags tb), ("C07", C07.flags tb), ("C08", C08.flags tb), ("C09", C09.flags tb), ("C10", C10.flags tb), ("C11", C11.flags tb), ("C12", C12.flags tb), ("C13", C13.flags tb), ("C14", C14.flags tb), ("C15", C15.flags tb), ("C16", C16.flags tb), ("C17", C17.flags tb), ("C18", C18.flags tb), ("C19", C19.flags tb), ("C20", C20.flags tb)]

partial def loop (tb : Tables) (h : IO.FS.Stream) (out : IO.FS.Stream) : IO Unit := do
  let line ← h.getLine
  if line.isEmpty then return ()
  out.putStrLn (handleLine tb line)
  loop tb h out

def run (tb : Tables) (args : List String) : IO Unit := do
  match args with
  | ["flags"] =>
    for (p, fs) in allFlags tb do
      for (f, b) in fs do
        IO.println s!"{p} {f} {b}"
  | _ =>
    let out ← IO.getStdout
    loop tb (← IO.getStdin) out
    out.flush

end Ggql.Driver
