/-
The generated tables the driver interprets, gathered in one structure so that the same handlers can
run over the tables generated on this run (`ggqldrv`) or over the tables pinned at the commit the
model was written against (`ggqldrv_pinned`, used only to search for a failing input when the
generated ones no longer elaborate).
-/
import Ggql.Model.Skip
import Ggql.Model.LockTable
namespace Ggql.Driver

structure Tables where
  skip : Skip.Table
  locks : List LockTable.Access

def pinnedTables : Tables :=
  { skip := Skip.tableAssign,
    -- pinned: the one unguarded site of the pinned tree (D26)
    locks := [⟨"regField", .objMeta, false, [.fdMu], true⟩, ⟨"assureType", .objMeta, true, [.objMu], true⟩] }

end Ggql.Driver
