/-
The generated tables the driver interprets, gathered in one structure so that the same handlers can
run over the tables generated on this run (`ggqldrv`) or over the tables pinned at the commit the
model was written against (`ggqldrv_pinned`, used only to search for a failing input when the
generated ones no longer elaborate).
-/
import Ggql.Model.Skip
import Ggql.Model.LockTable
import Ggql.Model.Coerce
import Ggql.Driver.PinnedCoerce
namespace Ggql.Driver

structure Tables where
  skip : Skip.Table
  locks : List LockTable.Access
  outInt : Coerce.Table
  inInt : Coerce.Table
  outInt64 : Coerce.Table
  inInt64 : Coerce.Table
  outFloat : Coerce.Table
  inFloat : Coerce.Table
  outFloat64 : Coerce.Table
  inFloat64 : Coerce.Table
  outString : Coerce.Table
  inString : Coerce.Table
  outId : Coerce.Table
  inId : Coerce.Table
  outBoolean : Coerce.Table
  inBoolean : Coerce.Table
  outTime : Coerce.Table
  inTime : Coerce.Table

def pinnedTables : Tables :=
  { skip := Skip.tableAssign,
    -- pinned: the one unguarded site of the pinned tree (D26)
    locks := [⟨"regField", .objMeta, false, [.fdMu], true⟩, ⟨"assureType", .objMeta, true, [.objMu], true⟩],
    outInt := Pinned.coerceOutInt, inInt := Pinned.coerceInInt,
    outInt64 := Pinned.coerceOutInt64, inInt64 := Pinned.coerceInInt64,
    outFloat := Pinned.coerceOutFloat, inFloat := Pinned.coerceInFloat,
    outFloat64 := Pinned.coerceOutFloat64, inFloat64 := Pinned.coerceInFloat64,
    outString := Pinned.coerceOutString, inString := Pinned.coerceInString,
    outId := Pinned.coerceOutId, inId := Pinned.coerceInId,
    outBoolean := Pinned.coerceOutBoolean, inBoolean := Pinned.coerceInBoolean,
    outTime := Pinned.coerceOutTime, inTime := Pinned.coerceInTime }

end Ggql.Driver
