/-
The generated tables the driver interprets, gathered in one structure so that the same handlers can
run over the tables generated on this run (`ggqldrv`) or over the tables pinned at the commit the
model was written against (`ggqldrv_pinned`, used only to search for a failing input when the
generated ones no longer elaborate).
-/
import Ggql.Model.Skip
namespace Ggql.Driver

structure Tables where
  skip : Skip.Table

def pinnedTables : Tables :=
  { skip := Skip.tableAssign }

end Ggql.Driver
