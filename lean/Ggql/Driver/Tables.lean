/-
The generated tables the driver interprets, gathered in one structure so that the same handlers can
run over the tables generated on this run (`ggqldrv`) or over the pinned copy of them
(`Ggql/Pinned/*.lean`, written by `bin/pin_tables` from /repo's last committed tree; `ggqldrv_pinned`
is used only to search for a failing input when the generated ones no longer elaborate).
-/
import Ggql.Model.Skip
import Ggql.Model.LockTable
import Ggql.Model.Coerce
import Ggql.Model.ValueText
import Ggql.Model.IntroArm
namespace Ggql.Driver

structure Tables where
  skip : Skip.Table
  locks : List LockTable.Access
  valueTbl : ValueText.Tbl
  outInt : Coerce.Table
  inInt : Coerce.Table
  outInt64 : Coerce.Table
  inInt64 : Coerce.Table
  outFloat : Coerce.Table
  inFloat : Coerce.Table
  outFloat64 : Coerce.Table
  inFloat64 : Coerce.Table
  outString : Coerce.Table
  inString : Coerce.Table
  outId : Coerce.Table
  inId : Coerce.Table
  outBoolean : Coerce.Table
  inBoolean : Coerce.Table
  outTime : Coerce.Table
  inTime : Coerce.Table
  introTable : List (Intro.GoT × String × Intro.Arm)
  locateTable : List (Intro.GoT × String)
  metaLiteral : Option String
  sdlEmptyTokenSpins : Bool
  exeVarTypeOptional : Bool
  opFallbackAnyName : Bool
  nullVarUsesDefault : Bool
  argsInPlace : Bool
  argsSortedOnce : Bool
  condByIdentity : Bool
  writerIntKinds : List String
  anonAmongOthers : Bool
  metaArgsUnchecked : Bool
  ptrValueDistinct : Bool
  unionAtMember : Bool
  impliedSchemaUnvalidated : Bool
  dupDirectiveInlineAccepted : Bool
  listNeedsMember : Bool
  condStrict : Bool
  reflectOptionalRefused : Bool
  eventVarsEmpty : Bool
  symbolBaseEnum : Bool
  inputDefaultsRaw : Bool
  objectUnchecked : Bool
  schemaDuringScan : Bool
  descRaw : Bool
  toolOmitsDirectives : Bool
  assureOnce : Bool
  dupMembersAccepted : Bool
  opLineBeforeSkip : Bool
  inputNullTakesDefault : Bool
  dirLoopByVisited : Bool
  typeLookupFindsDirectives : Bool
  argPosAfterToken : Bool
  subOrderByMap : Bool
  dirRequiredUnchecked : Bool
  dirRefTypeFirst : Bool
  extendSchemaNeedsSchema : Bool
  dupKeyOverwrites : Bool
  maxParseDepth : Option Nat
  unionFirstCome : Bool
  ifaceNeedsBound : Bool
  shallowRollback : Bool
  inputExtendMapOrder : Bool
  toolEmbedRaw : Bool
  dirArgWrapperAccepted : Bool
  dupScalarDropped : Bool
  subtypeNarrow : Bool
  argCountCheckOnly : Bool
  listNotCoerced : Bool
  symbolUnchecked : Bool
  fieldPosAfterLookahead : Bool
  opErrPosAfterLookahead : Bool
  fragCondPosAfterToken : Bool
  varDefPosAfterToken : Bool
  leafErrNulls : Bool
  fastSliceCopies : Bool

end Ggql.Driver
