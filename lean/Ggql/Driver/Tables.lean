/-
The generated tables the driver interprets, gathered in one structure so that the same handlers can
run over the tables generated on this run (`ggqldrv`) or over the tables pinned at the commit the
model was written against (`ggqldrv_pinned`, used only to search for a failing input when the
generated ones no longer elaborate).
-/
import Ggql.Model.Skip
import Ggql.Model.LockTable
import Ggql.Model.Coerce
import Ggql.Driver.PinnedCoerce
import Ggql.Model.ValueText
namespace Ggql.Driver

structure Tables where
  skip : Skip.Table
  locks : List LockTable.Access
  valueTbl : ValueText.Tbl
  outInt : Coerce.Table
  inInt : Coerce.Table
  outInt64 : Coerce.Table
  inInt64 : Coerce.Table
  outFloat : Coerce.Table
  inFloat : Coerce.Table
  outFloat64 : Coerce.Table
  inFloat64 : Coerce.Table
  outString : Coerce.Table
  inString : Coerce.Table
  outId : Coerce.Table
  inId : Coerce.Table
  outBoolean : Coerce.Table
  inBoolean : Coerce.Table
  outTime : Coerce.Table
  inTime : Coerce.Table

/-- snapshot of `Gen/Tables.lean` at the pinned commit -/
def pinnedValueTbl : ValueText.Tbl :=
  { charMap := (".........ww..w..................wp......pp..w.p.ttttttttttp..p..pttttttttttttttttttttttttttp.p.t.ttttttttttttttttttttttttttppp..".toList.map Char.toNat) ++ List.replicate 128 46,
    numMap := ("...........................................n.nn.nnnnnnnnnn...........n...............................n..........................".toList.map Char.toNat) ++ List.replicate 128 46,
    spaceClass := 119, tokenClass := 116, numClass := 110,
    escapes := [(8, [92, 98]), (12, [92, 102]), (10, [92, 110]), (13, [92, 114]), (9, [92, 116]), (92, [92, 92]), (34, [92, 34])],
    unescapes := [(34, 34), (92, 92), (47, 47), (98, 8), (102, 12), (110, 10), (114, 13), (116, 9)],
    terminators := [0, 32, 9, 10, 13, 12, 44, 125, 93, 123, 91, 41] }

def pinnedTables : Tables :=
  { skip := Skip.tableAssign, valueTbl := pinnedValueTbl,
    -- pinned: the one unguarded site of the pinned tree (D26)
    locks := [⟨"regField", .objMeta, false, [.fdMu], true⟩, ⟨"assureType", .objMeta, true, [.objMu], true⟩],
    outInt := Pinned.coerceOutInt, inInt := Pinned.coerceInInt,
    outInt64 := Pinned.coerceOutInt64, inInt64 := Pinned.coerceInInt64,
    outFloat := Pinned.coerceOutFloat, inFloat := Pinned.coerceInFloat,
    outFloat64 := Pinned.coerceOutFloat64, inFloat64 := Pinned.coerceInFloat64,
    outString := Pinned.coerceOutString, inString := Pinned.coerceInString,
    outId := Pinned.coerceOutId, inId := Pinned.coerceInId,
    outBoolean := Pinned.coerceOutBoolean, inBoolean := Pinned.coerceInBoolean,
    outTime := Pinned.coerceOutTime, inTime := Pinned.coerceInTime }

end Ggql.Driver
