/-
The generated tables the driver interprets, gathered in one structure so that the same handlers can
run over the tables generated on this run (`ggqldrv`) or over the tables pinned at the commit the
model was written against (`ggqldrv_pinned`, used only to search for a failing input when the
generated ones no longer elaborate).
-/
import Ggql.Model.Skip
import Ggql.Model.LockTable
import Ggql.Model.Coerce
import Ggql.Driver.PinnedCoerce
import Ggql.Model.ValueText
import Ggql.Model.IntroArm
namespace Ggql.Driver

structure Tables where
  skip : Skip.Table
  locks : List LockTable.Access
  valueTbl : ValueText.Tbl
  outInt : Coerce.Table
  inInt : Coerce.Table
  outInt64 : Coerce.Table
  inInt64 : Coerce.Table
  outFloat : Coerce.Table
  inFloat : Coerce.Table
  outFloat64 : Coerce.Table
  inFloat64 : Coerce.Table
  outString : Coerce.Table
  inString : Coerce.Table
  outId : Coerce.Table
  inId : Coerce.Table
  outBoolean : Coerce.Table
  inBoolean : Coerce.Table
  outTime : Coerce.Table
  inTime : Coerce.Table
  introTable : List (Intro.GoT × String × Intro.Arm)
  locateTable : List (Intro.GoT × String)
  metaLiteral : String
  sdlEmptyTokenSpins : Bool
  exeVarTypeOptional : Bool
  opFallbackAnyName : Bool
  fieldPosAfterLookahead : Bool
  leafErrNulls : Bool

/-- snapshot of `Gen/Tables.lean` at the pinned commit -/
def pinnedValueTbl : ValueText.Tbl :=
  { charMap := (".........ww..w..................wp......pp..w.p.ttttttttttp..p..pttttttttttttttttttttttttttp.p.t.ttttttttttttttttttttttttttppp..".toList.map Char.toNat) ++ List.replicate 128 46,
    numMap := ("...........................................n.nn.nnnnnnnnnn...........n...............................n..........................".toList.map Char.toNat) ++ List.replicate 128 46,
    spaceClass := 119, tokenClass := 116, numClass := 110,
    escapes := [(8, [92, 98]), (12, [92, 102]), (10, [92, 110]), (13, [92, 114]), (9, [92, 116]), (92, [92, 92]), (34, [92, 34])],
    unescapes := [(34, 34), (92, 92), (47, 47), (98, 8), (102, 12), (110, 10), (114, 13), (116, 9)],
    terminators := [0, 32, 9, 10, 13, 12, 44, 125, 93, 123, 91, 41] }

/-- snapshot of `Gen/Intro.lean` at the pinned commit -/
def pinnedIntroTable : List (Intro.GoT × String × Intro.Arm) :=
  [(.arg, "defaultValue", .default),
   (.arg, "description", .desc),
   (.arg, "name", .name),
   (.arg, "type", .type),
   (.directive, "args", .args),
   (.directive, "description", .desc),
   (.directive, "locations", .locations),
   (.directive, "name", .name),
   (.enum, "description", .desc),
   (.enum, "enumValues", .enumValuesByArg),
   (.enum, "fields", .nil),
   (.enum, "inputFields", .nil),
   (.enum, "interfaces", .nil),
   (.enum, "kind", .kindLocate),
   (.enum, "name", .name),
   (.enum, "ofType", .nil),
   (.enum, "possibleTypes", .nil),
   (.enumValue, "deprecationReason", .deprecationReason),
   (.enumValue, "description", .desc),
   (.enumValue, "isDeprecated", .isDeprecated),
   (.enumValue, "name", .name),
   (.fieldDef, "args", .args),
   (.fieldDef, "deprecationReason", .deprecationReason),
   (.fieldDef, "description", .desc),
   (.fieldDef, "isDeprecated", .isDeprecated),
   (.fieldDef, "name", .name),
   (.fieldDef, "type", .type),
   (.iface, "description", .desc),
   (.iface, "enumValues", .nil),
   (.iface, "fields", .fieldsAll),
   (.iface, "inputFields", .nil),
   (.iface, "interfaces", .nil),
   (.iface, "kind", .kindLocate),
   (.iface, "name", .name),
   (.iface, "ofType", .nil),
   (.iface, "possibleTypes", .possibleImpl),
   (.input, "description", .desc),
   (.input, "enumValues", .nil),
   (.input, "fields", .nil),
   (.input, "inputFields", .fieldsAll),
   (.input, "interfaces", .nil),
   (.input, "kind", .kindLocate),
   (.input, "name", .name),
   (.input, "ofType", .nil),
   (.input, "possibleTypes", .nil),
   (.inputField, "defaultValue", .default),
   (.inputField, "description", .desc),
   (.inputField, "name", .name),
   (.inputField, "type", .type),
   (.list, "description", (.const "LIST")),
   (.list, "enumValues", .nil),
   (.list, "fields", .nil),
   (.list, "inputFields", .nil),
   (.list, "interfaces", .nil),
   (.list, "kind", (.const "LIST")),
   (.list, "name", .wrapperName),
   (.list, "ofType", .base),
   (.list, "possibleTypes", .nil),
   (.nonNull, "description", (.const "NON_NULL")),
   (.nonNull, "enumValues", .nil),
   (.nonNull, "fields", .nil),
   (.nonNull, "inputFields", .nil),
   (.nonNull, "interfaces", .nil),
   (.nonNull, "kind", (.const "NON_NULL")),
   (.nonNull, "name", .wrapperName),
   (.nonNull, "ofType", .base),
   (.nonNull, "possibleTypes", .nil),
   (.object, "description", .desc),
   (.object, "enumValues", .nil),
   (.object, "fields", .fieldsByArg),
   (.object, "inputFields", .nil),
   (.object, "interfaces", .interfacesPlain),
   (.object, "kind", .kindLocate),
   (.object, "name", .nameOrSchema),
   (.object, "ofType", .nil),
   (.object, "possibleTypes", .nil),
   (.root, "directives", .directives),
   (.root, "mutationType", (.rootOp "mutation")),
   (.root, "queryType", (.rootOp "query")),
   (.root, "subscriptionType", (.rootOp "subscription")),
   (.root, "types", .types),
   (.scalar, "description", .desc),
   (.scalar, "enumValues", .nil),
   (.scalar, "fields", .nil),
   (.scalar, "inputFields", .nil),
   (.scalar, "interfaces", .nil),
   (.scalar, "kind", .kindLocate),
   (.scalar, "name", .name),
   (.scalar, "ofType", .nil),
   (.scalar, "possibleTypes", .nil),
   (.union, "description", .desc),
   (.union, "enumValues", .nil),
   (.union, "fields", .nil),
   (.union, "inputFields", .nil),
   (.union, "interfaces", .nil),
   (.union, "kind", .kindLocate),
   (.union, "name", .name),
   (.union, "ofType", .nil),
   (.union, "possibleTypes", .members)]

def pinnedTables : Tables :=
  { skip := Skip.tableAssign, valueTbl := pinnedValueTbl,
    -- pinned: the one unguarded site of the pinned tree (D26)
    locks := [⟨"regField", .objMeta, false, [.fdMu], true⟩, ⟨"assureType", .objMeta, true, [.objMu], true⟩],
    outInt := Pinned.coerceOutInt, inInt := Pinned.coerceInInt,
    outInt64 := Pinned.coerceOutInt64, inInt64 := Pinned.coerceInInt64,
    outFloat := Pinned.coerceOutFloat, inFloat := Pinned.coerceInFloat,
    outFloat64 := Pinned.coerceOutFloat64, inFloat64 := Pinned.coerceInFloat64,
    outString := Pinned.coerceOutString, inString := Pinned.coerceInString,
    outId := Pinned.coerceOutId, inId := Pinned.coerceInId,
    outBoolean := Pinned.coerceOutBoolean, inBoolean := Pinned.coerceInBoolean,
    outTime := Pinned.coerceOutTime, inTime := Pinned.coerceInTime,
    introTable := pinnedIntroTable,
    locateTable := [(.enum, "ENUM"), (.iface, "INTERFACE"), (.input, "INPUT_OBJECT"), (.object, "OBJECT"), (.scalar, "SCALAR"), (.union, "UNION")],
    metaLiteral := "Query", sdlEmptyTokenSpins := true, exeVarTypeOptional := true, opFallbackAnyName := true, fieldPosAfterLookahead := true, leafErrNulls := false }

end Ggql.Driver
