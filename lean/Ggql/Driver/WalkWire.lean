import Ggql.Driver.Common
import Ggql.Driver.Tables
import Ggql.Driver.C09
import Ggql.Model.Walk
import Ggql.Spec.Select
namespace Ggql.Driver.WalkWire
open Ggql Ggql.Walk

partial def decTRef : T → Option TRef
  | .node "named" [n] => do pure (.named (← n.asStr))
  | .node "list" [t] => do pure (.list (← decTRef t))
  | .node "nn" [t] => do pure (.nonNull (← decTRef t))
  | _ => none

def decArgDef : T → Option ArgDef
  | .node "arg" [n, r] => do pure ⟨(← n.asStr), (← r.asBool)⟩
  | _ => none

def decFd : T → Option FieldDef
  | .node "fd" [n, t, as] => do pure { name := (← n.asStr), type := (← decTRef t), args := (← optMap decArgDef (← as.asList)) }
  | _ => none

def strList (t : T) : Option (List String) := do optMap T.asStr (← t.asList)

def decType : T → Option TypeDef
  | .node "object" [n, fs, is] => do pure (.object (← n.asStr) (← optMap decFd (← fs.asList)) (← strList is))
  | .node "iface" [n, fs] => do pure (.iface (← n.asStr) (← optMap decFd (← fs.asList)))
  | .node "union" [n, ms] => do pure (.union (← n.asStr) (← strList ms))
  | .node "leaf" [n] => do pure (.leaf (← n.asStr))
  | _ => none

partial def decDVal : T → Option DVal
  | .node "nil" [] => some .nil
  | .node "int" [n] => do pure (.leaf (.int (← n.asInt)))
  | .node "str" [s] => do pure (.leaf (.str (← s.asStr)))
  | .node "bool" [b] => do pure (.leaf (.bool (← b.asBool)))
  | .node "ref" [n] => do pure (.ref (← n.asNat))
  | .node "list" xs => do pure (.list (← optMap decDVal xs))
  | _ => none

def decNode : T → Option Node
  | .node "node" [gt, fs] => do
    let fs ← optMap (fun f => match f with
      | .node "fr" [n, v, e] => do pure ((← n.asStr), ({ val := (← decDVal v), errs := (← e.asNat) } : FieldRes))
      | _ => none) (← fs.asList)
    pure { goType := (← gt.asStr), fields := fs }
  | _ => none

def decArgVal : T → Option ArgVal
  | .node "arg" [n, b] => do pure ⟨(← n.asStr), (← b.asBool)⟩
  | _ => none

partial def decSel : T → Option Sel
  | .node "field" [al, n, as, ds, ss] => do
    pure (.field (← al.asStr) (← n.asStr) (← optMap decArgVal (← as.asList)) (← optMap C09.decDir (← ds.asList))
      (← optMap decSel (← ss.asList)))
  | .node "inline" [c, ds, ss, sp] => do
    let cond ← (match c with | .atom "none" => some none | c => (c.asStr).map some)
    let spread ← (match sp with | .atom "none" => some none | s => (s.asStr).map (fun n => some (⟨n⟩ : SpreadInfo)))
    pure (.inline cond (← optMap C09.decDir (← ds.asList)) (← optMap decSel (← ss.asList)) spread)
  | _ => none

def decOp : T → Option Op
  | .node "op" [n, .atom k, ss] => do pure { name := (← n.asStr), kind := k, sels := (← optMap decSel (← ss.asList)) }
  | _ => none

structure Case where
  schema : Schema
  graph : Graph
  ops : List Op
  opName : String
  vars : Skip.Vars
  rootNode : Nat

def decCase : T → Option Case
  | .node "walk" [s, g, ops, on, vs, rn] => do
    pure { schema := (← optMap decType (← s.asList)), graph := (← optMap decNode (← g.asList)),
           ops := (← optMap decOp (← ops.asList)), opName := (← on.asStr),
           vars := (← optMap C09.decVar (← vs.asList)), rootNode := (← rn.asNat) }
  | _ => none

def encLeaf : Leaf → T
  | .int n => .node "int" [T.ofInt n]
  | .str s => .node "str" [T.ofStr s]
  | .bool b => .node "bool" [T.ofBool b]

def insertSorted (p : String × T) : List (String × T) → List (String × T)
  | [] => [p]
  | q :: rest => if p.1 ≤ q.1 then p :: q :: rest else q :: insertSorted p rest

partial def encJ : J → T
  | .null => .node "null" []
  | .leaf l => encLeaf l
  | .str s => .node "str" [T.ofStr s]
  | .raw => .node "raw" []
  | .list xs => .node "list" (xs.map encJ)
  | .obj kvs =>
    let sorted := (kvs.map (fun p => (p.1, encJ p.2))).foldr insertSorted []
    .node "obj" (sorted.map (fun p => .node "kv" [T.ofStr p.1, p.2]))

def encSeg : Seg → T
  | .key s => .node "key" [T.ofStr s]
  | .idx n => .node "idx" [T.ofNat n]
  | .frag => .node "frag" []

def sortTerms (ts : List T) : List T :=
  ((ts.map (fun t => (t.render, t))).foldr insertSorted []).map (·.2)

def encResp (r : Response) : T :=
  let data := match r.data with | some j => encJ j | none => .atom "none"
  let errs := sortTerms (r.acc.errs.map (fun e => .node "err" [T.list (e.path.map encSeg), T.ofStr e.cls.render]))
  let calls := sortTerms (r.acc.calls.map (fun c => .node "call" [T.ofNat c.node, T.ofStr c.field]))
  .node "resp" [data, T.list errs, T.list calls]

def rootTy (c : Case) (kind : String) : Option String :=
  if kind == "query" then (if (c.schema.find "Query").isSome then some "Query" else none)
  else if kind == "mutation" then (if (c.schema.find "Mutation").isSome then some "Mutation" else none)
  else none

def envOf (tb : Tables) (c : Case) (cfg : Cfg) : Env := { cfg := cfg, schema := c.schema, graph := c.graph, vars := c.vars }

def cfgCur (tb : Tables) : Cfg :=
  { skipTable := tb.skip, opFallbackAnyName := tb.opFallbackAnyName, argCountCheckOnly := tb.argCountCheckOnly,
    dupKeyOverwrites := tb.dupKeyOverwrites, condByIdentity := tb.condByIdentity, anonAmongOthers := tb.anonAmongOthers, metaArgsUnchecked := tb.metaArgsUnchecked, unionAtMember := tb.unionAtMember }

def runModel (tb : Tables) (c : Case) (cfg : Cfg) : T :=
  encResp (request (envOf tb c cfg) c.ops c.opName c.rootNode (rootTy c))

end Ggql.Driver.WalkWire
