import Ggql.Driver.Common
import Ggql.Driver.Tables
import Ggql.Model.Scan
import Ggql.Model.SdlCF
import Ggql.Model.ExeCF
import Ggql.Model.NumText
import Ggql.Model.ScanTables
import Ggql.Model.CharTables
import Ggql.Props.FragCycle
namespace Ggql.Driver.C03
open Ggql Ggql.Scan

def cmOf (tb : Tables) (known : List (List UInt8)) (composite : List (List UInt8) := []) : CM :=
  { cmOfTbl tb.valueTbl known with depthLimit := tb.maxParseDepth, listNeedsMember := tb.listNeedsMember, condStrict := tb.condStrict, composite := fun t => composite.contains t }

def tailOf : T → Option Tail
  | .atom "eof" => some .eof
  | .atom "eofLast" => some .eofLast
  | .atom "fault" => some .fault
  | _ => none

def errT (e : Err) : T :=
  .node "err" [.atom (match e.kind with | .parse => "parse" | .io => "io" | .dup => "dup"), T.ofInt e.line, T.ofInt e.col]

def insertSorted (x : String) : List String → List String
  | [] => [x]
  | y :: ys => if x ≤ y then x :: y :: ys else y :: insertSorted x ys

def sortStrs (xs : List String) : List String := xs.foldl (fun acc x => insertSorted x acc) []

def sdlObs (cm : CM) (cfg : SdlCF.Cfg) (bytes : List UInt8) (tail : Tail) : T :=
  let r := SdlCF.parseSDL cm cfg (SdlCF.sdlFuel bytes) bytes tail
  if r.2.oof then .atom "hang"
  else match r.1.2 with
    | some e => errT e
    | none =>
      let ds := r.1.1
      -- Go returns types first, then extends
      let ds := ds.filter (fun d => !d.ext) ++ ds.filter (fun d => d.ext)
      .node "ok" [.node "l" (ds.map fun d => .node "d" [.atom d.kind, T.ofBytes d.name, T.ofBool d.ext])]

def exeObs (cm : CM) (cfg : ExeCF.Cfg) (bytes : List UInt8) (tail : Tail) : T :=
  let r := ExeCF.parseExe cm cfg (SdlCF.sdlFuel bytes) bytes tail
  if r.2.oof then .atom "hang"
  else match r.1.2 with
    | some e => errT e
    | none => .node "ok" [.node "l" ((sortStrs (r.1.1.map T.hex)).map fun h => .atom ("x" ++ h))]

def valObs (cm : CM) (bytes : List UInt8) (tail : Tail) : T :=
  let r := parseValue cm bytes tail
  if r.2.oof then .atom "hang"
  else match r.1 with
    | some e => errT e
    | none => .node "ok" [.atom "v"]

def isReturn : T → Bool
  | .node "ok" _ => true
  | .node "err" _ => true
  | _ => false

/-- resolution-time outcomes are classified by the harness (signature of the panic / overflow / hang);
the listed signatures are the known findings, anything else is unattributed -/
def sigFinding : String → Option String
  | "fragcycle-overflow" => some "D02"
  | "deep-nesting-overflow" => some "D03"
  | "reflect-args" => some "D04"
  | "vardef-nil-type" => some "D05"
  | "nil-root-object" => some "D06"
  | "cyclic-print" => some "D42"
  | "sdl-spin" => some "D01"
  | "inputfield-nil-type" => some "D60"
  | "nil-schema-resolve" => some "D74"
  | "nil-schema-extend" => some "D75"
  | _ => none

/-- cases
  (c03p sdl|exe|val x<bytes> tail (l x<known name>…))   impl: (ok …) | (err kind line col) | hang | (panic x<msg>)
  (c03r x<signature-or-empty>)                           impl: ret | (crash x<class>) -/
def handle (tb : Tables) (c impl : T) : String :=
  match c with
  | .node "c03p" [.atom kind, bs, tl, .node "known" [.node "l" kn, .node "l" cn]] =>
    match (do let b ← bs.asBytes; let t ← tailOf tl; let k ← optMap T.asBytes kn; let c ← optMap T.asBytes cn; pure (b, t, k, c)) with
    | none => "bad-op"
    | some (bytes, tail, known, composite) =>
      let cm := cmOf tb known composite
      let specOk := isReturn impl
      match kind with
      | "sdl" =>
        let cur := sdlObs cm { emptyTokenSpins := tb.sdlEmptyTokenSpins } bytes tail
        let alt := sdlObs cm { emptyTokenSpins := !tb.sdlEmptyTokenSpins } bytes tail
        verdict impl cur [{ flag := "D01", onInCur := tb.sdlEmptyTokenSpins, obs := alt }] specOk
      | "exe" =>
        let cfgE : ExeCF.Cfg := { varTypeOptional := tb.exeVarTypeOptional, opErrPosAfterLookahead := tb.opErrPosAfterLookahead, fragCondPosAfterToken := tb.fragCondPosAfterToken, opLineBeforeSkip := tb.opLineBeforeSkip }
        let cur := exeObs cm cfgE bytes tail
        let alt := exeObs cm { cfgE with varTypeOptional := !tb.exeVarTypeOptional } bytes tail
        -- the scanner returns either way; the nil type only crashes later (validation), so this flag is never a
        -- scanner-level deviation: it only selects the member of the family the scanner behaves as
        verdict impl cur [{ flag := "D05", onInCur := false, obs := alt }] specOk
      | "val" => verdict impl (valObs cm bytes tail) [] specOk
      | _ => "bad-op"
  | .node "c03f" [names, edges] =>
    -- the fragment-cycle check: (c03f (l NAME…sorted) (l (e NAME (l SPREAD…))…)); impl: (l REPORTED…)
    (match (do
        let ns ← optMap T.asStr (← names.asList)
        let es ← optMap (fun (e : T) => match e with
          | T.node "e" [n, ss] => do pure ((← n.asStr), (← optMap T.asStr (← ss.asList)))
          | _ => none) (← edges.asList)
        pure (ns, es)) with
     | none => "bad-op"
     | some (ns, es) =>
       let cur := T.list ((FragCycle.reported es (ns.length + 2) {} ns).map T.ofStr)
       -- the property: a request with a spread cycle must be refused (else resolving it never ends)
       if impl == cur then "ok" else "mismatch spec-bad " ++ cur.render)
  | .node "c03r" [sg] =>
    match sg.asStr with
    | none => "bad-op"
    | some _ =>
      match impl with
      | .atom "ret" => "ok"
      | .node "crash" [cls] =>
        (match cls.asStr.bind sigFinding with
         | some f => "dev " ++ f
         | none => "unattributed " ++ impl.render)
      | _ => "bad-op"
  | _ => "bad-op"

def flags (tb : Tables) : List (String × Bool) := [("D01", tb.sdlEmptyTokenSpins), ("D05", tb.exeVarTypeOptional)]

end Ggql.Driver.C03
