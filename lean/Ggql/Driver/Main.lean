import Ggql.Driver.Loop
import Ggql.Gen.Skip
import Ggql.Gen.Locks
open Ggql Ggql.Driver

def genTables : Tables :=
  { skip := Gen.skipTable, locks := Gen.lockTable }

def main (args : List String) : IO Unit := run genTables args
