import Ggql.Driver.Loop
import Ggql.Gen.Skip
import Ggql.Gen.Locks
import Ggql.Gen.Coerce
import Ggql.Gen.Tables
import Ggql.Gen.Intro
import Ggql.Gen.Parse
import Ggql.Gen.Dispatch
open Ggql Ggql.Driver

def genTables : Tables :=
  { skip := Gen.skipTable,
    valueTbl := { charMap := Gen.charMap, numMap := Gen.numMap, spaceClass := Gen.spaceClass, tokenClass := Gen.tokenClass,
                  numClass := Gen.numClass, escapes := Gen.escapeTable, unescapes := Gen.unescapeTable, terminators := Gen.numberTerminators, jsonKeysEscaped := Gen.jsonKeysEscaped }, locks := Gen.lockTable,
    outInt := Gen.coerceOutInt, inInt := Gen.coerceInInt,
    outInt64 := Gen.coerceOutInt64, inInt64 := Gen.coerceInInt64,
    outFloat := Gen.coerceOutFloat, inFloat := Gen.coerceInFloat,
    outFloat64 := Gen.coerceOutFloat64, inFloat64 := Gen.coerceInFloat64,
    outString := Gen.coerceOutString, inString := Gen.coerceInString,
    outId := Gen.coerceOutId, inId := Gen.coerceInId,
    outBoolean := Gen.coerceOutBoolean, inBoolean := Gen.coerceInBoolean,
    outTime := Gen.coerceOutTime, inTime := Gen.coerceInTime,
    introTable := Gen.introTable, locateTable := Gen.locateTable, metaLiteral := Gen.metaContainerLiteral,
    sdlEmptyTokenSpins := Gen.sdlEmptyTokenSpins,
    exeVarTypeOptional := Gen.exeVarTypeOptional,
    opFallbackAnyName := Gen.opFallbackAnyName,
    nullVarUsesDefault := Gen.nullVarUsesDefault, argsInPlace := Gen.argsInPlace, argsSortedOnce := Gen.argsSortedOnce, condByIdentity := Gen.condByIdentity, writerIntKinds := Gen.writerIntKinds, anonAmongOthers := Gen.anonAmongOthers, metaArgsUnchecked := Gen.metaArgsUnchecked, ptrValueDistinct := Gen.ptrValueDistinct, unionAtMember := Gen.unionAtMember, impliedSchemaUnvalidated := Gen.impliedSchemaUnvalidated, dupDirectiveInlineAccepted := Gen.dupDirectiveInlineAccepted, listNeedsMember := Gen.listNeedsMember, condStrict := Gen.condStrict, reflectOptionalRefused := Gen.reflectOptionalRefused, eventVarsEmpty := Gen.eventVarsEmpty, symbolBaseEnum := Gen.symbolBaseEnum, inputDefaultsRaw := Gen.inputDefaultsRaw, objectUnchecked := Gen.objectUnchecked, schemaDuringScan := Gen.schemaDuringScan, descRaw := Gen.descRaw, toolOmitsDirectives := Gen.toolOmitsDirectives, assureOnce := Gen.assureOnce, dupMembersAccepted := Gen.dupMembersAccepted, opLineBeforeSkip := Gen.opLineBeforeSkip, inputNullTakesDefault := Gen.inputNullTakesDefault, dirLoopByVisited := Gen.dirLoopByVisited, typeLookupFindsDirectives := Gen.typeLookupFindsDirectives, argPosAfterToken := Gen.argPosAfterToken, subOrderByMap := Gen.subOrderByMap, dirRequiredUnchecked := Gen.dirRequiredUnchecked, dirRefTypeFirst := Gen.dirRefTypeFirst, extendSchemaNeedsSchema := Gen.extendSchemaNeedsSchema, dupKeyOverwrites := Gen.dupKeyOverwrites, maxParseDepth := Gen.maxParseDepth, unionFirstCome := Gen.unionFirstCome, ifaceNeedsBound := Gen.ifaceNeedsBound, shallowRollback := Gen.shallowRollback, inputExtendMapOrder := Gen.inputExtendMapOrder, toolEmbedRaw := Gen.toolEmbedRaw, dirArgWrapperAccepted := Gen.dirArgWrapperAccepted, dupScalarDropped := Gen.dupScalarDropped, subtypeNarrow := Gen.subtypeNarrow, argCountCheckOnly := Gen.argCountCheckOnly,
    listNotCoerced := Gen.listNotCoerced, symbolUnchecked := Gen.symbolUnchecked,
    fieldPosAfterLookahead := Gen.fieldPosAfterLookahead,
    opErrPosAfterLookahead := Gen.opErrPosAfterLookahead,
    fragCondPosAfterToken := Gen.fragCondPosAfterToken, varDefPosAfterToken := Gen.varDefPosAfterToken,
    leafErrNulls := Gen.leafErrNulls, fastSliceCopies := Gen.fastSliceCopies }

def main (args : List String) : IO Unit := run genTables args
