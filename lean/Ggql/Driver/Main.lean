import Ggql.Driver.Loop
import Ggql.Gen.Skip
open Ggql Ggql.Driver

def genTables : Tables :=
  { skip := Gen.skipTable }

def main (args : List String) : IO Unit := run genTables args
