import Ggql.Driver.Common
import Ggql.Driver.Tables
import Ggql.Driver.NativeExt
import Ggql.Driver.C05
import Ggql.Spec.ArgsSpec
namespace Ggql.Driver.C04
open Ggql Ggql.Coerce Ggql.Args

partial def decV : T → Option (Val Nat)
  | .node "go" [g] => do pure (.go (← C05.decVal g))
  | .node "var" [n] => do pure (.var (← n.asStr))
  | .node "list" vs => do pure (.list (← optMap decV vs))
  | .node "obj" kvs => do
    let kvs ← optMap (fun kv => match kv with
      | .node "kv" [k, v] => do pure ((← k.asStr), (← decV v))
      | _ => none) kvs
    pure (.obj kvs)
  | _ => none

def insertSorted (p : String × T) : List (String × T) → List (String × T)
  | [] => [p]
  | q :: rest => if p.1 ≤ q.1 then p :: q :: rest else q :: insertSorted p rest

partial def encV : Val Nat → T
  | .go g => .node "go" [C05.encVal g]
  | .var n => .node "var" [T.ofStr n]
  | .list xs => .node "list" (xs.map encV)
  | .obj kvs =>
    let sorted := (kvs.map (fun p => (p.1, encV p.2))).foldr insertSorted []
    .node "obj" (sorted.map (fun p => .node "kv" [T.ofStr p.1, p.2]))

partial def decInT : T → Option InT
  | .node "scalar" [.atom s] => do pure (.scalar (← C05.decScalar s))
  | .node "enum" vs => do pure (.enum (← optMap T.asStr vs))
  | .node "input" [n] => do pure (.input (← n.asStr))
  | .node "list" [t] => do pure (.list (← decInT t))
  | .node "nn" [t] => do pure (.nonNull (← decInT t))
  | _ => none

def decOptV : T → Option (Option (Val Nat))
  | .atom "none" => some none
  | t => (decV t).map some

def decInput : T → Option (InputDef Nat)
  | .node "input" (n :: fs) => do
    let fs ← optMap (fun f => match f with
      | .node "f" [fn, t, d] => do pure ({ name := (← fn.asStr), type := (← decInT t), dflt := (← decOptV d) } : InField Nat)
      | _ => none) fs
    pure { name := (← n.asStr), fields := fs }
  | _ => none

def decKVs (t : T) : Option (List (String × Val Nat)) := do
  let l ← t.asList
  optMap (fun kv => match kv with
    | .node "kv" [k, v] => do pure ((← k.asStr), (← decV v))
    | _ => none) l

def inTbl (tb : Tables) : Scalar → Table
  | .int => tb.inInt | .int64 => tb.inInt64 | .float => tb.inFloat | .float64 => tb.inFloat64
  | .string => tb.inString | .id => tb.inId | .boolean => tb.inBoolean | .time => tb.inTime

/-- repaired tables: every arm failing the soundness test replaced by its strict form -/
def strictIn (tb : Tables) (s : Scalar) : Table :=
  let tbl := inTbl tb s
  { tbl with arms := tbl.arms.map (fun p =>
      if armSoundInT s p.1 p.2 then p else
      match p.2 with
      | .conv t => (p.1, .convStrict t)
      | .asIs => (p.1, if p.1 == .f32 then .convStrict .f32 else if p.1 == .f64 then .convStrict .f64 else .asIs)
      | a => (p.1, a)) }

def encOutcome (o : Outcome Nat) : T :=
  let sorted := (o.args.map (fun p => (p.1, encV p.2))).foldr insertSorted []
  .node "obs" [T.ofBool o.reqFailed, T.ofBool o.called,
    .node "args" (sorted.map (fun p => .node "kv" [T.ofStr p.1, p.2])), T.ofNat o.nerr]

/-- does the received value agree with what the specification demands? (canonical encodings) -/
def agrees (exp recv : Val Nat) : Bool := encV exp == encV recv

def cfgCurOf (tb : Tables) : Cfg :=
  { nullVarUsesDefault := tb.nullVarUsesDefault, listNotCoerced := tb.listNotCoerced, symbolUnchecked := tb.symbolUnchecked,
    objectUnchecked := tb.objectUnchecked, symbolBaseEnum := tb.symbolBaseEnum }

structure Case where
  ins : List (InputDef Nat)
  vds : List (VarDef Nat)
  sup : List (String × Val Nat)
  decl : List ArgDef
  given : List (String × Val Nat)
  hs : List (String × Option Nat × Option Int)

def decVd : T → Option (VarDef Nat)
  | .node "vd" [n, t, d] => do pure { name := (← n.asStr), type := (← decInT t), dflt := (← decOptV d) }
  | _ => none

def decArg : T → Option ArgDef
  | .node "a" [n, t] => do pure { name := (← n.asStr), type := (← decInT t) }
  | _ => none

def decCase : T → Option Case
  | .node "c04" [ins, vds, sup, decl, given, hs] => do
    let ins ← optMap decInput (← ins.asList)
    let vds ← optMap decVd (← vds.asList)
    let sup ← decKVs sup
    let decl ← optMap decArg (← decl.asList)
    let given ← decKVs given
    let hs ← optMap C05.decHint (← hs.asList)
    pure { ins, vds, sup, decl, given, hs }
  | _ => none

/-- an input object whose type has (or has not) a Go struct registered; obs: (obs resolverCalled errorNamesMember).
The model is the property: an undeclared member is refused before the resolver, and named. -/
def handleStruct (c impl : T) : Option String :=
  match c with
  | .node "c04s" [_, _, unk] =>
    (match unk.asBool with
     | some true => some (if impl == T.node "obs" [T.ofBool false, T.ofBool true] then "ok" else "mismatch spec-bad (obs false true)")
     | some false => some (if impl == T.node "obs" [T.ofBool true, T.ofBool false] then "ok" else "mismatch spec-bad (obs true false)")
     | none => some "bad-op")
  | _ => none

def handle (tb : Tables) (c impl : T) : String :=
  match handleStruct c impl with
  | some v => v
  | none =>
  match decCase c with
  | none => "bad-op"
  | some ⟨ins0, vds, sup, decl, given, hs⟩ =>
    let ins := ins0.map (fun d => { d with nullDflt := tb.inputNullTakesDefault })
    let ext := nativeExt hs
    let cfgCur := cfgCurOf tb
    let run := fun (cfg : Cfg) (tin : Scalar → Table) => encOutcome (formArgs cfg ext tin ins vds sup decl given)
    let cur := run cfgCur (inTbl tb)
    -- specification
    let exps := decl.map (fun a =>
      match lookup given a.name with
      | some v => (a.name, specIn ext ins 64 a.type (substVars vds sup 64 v))
      | none => (a.name, (match a.type with | .nonNull _ => Exp.refuse | _ => Exp.free)))
    let mustRefuse := exps.any (fun p => p.2.isRefuse)
    let specOk : Bool := match impl with
      | .node "obs" [rf, called, .node "args" kvs, nerr] =>
        let called := called == T.ofBool true
        let failed := rf == T.ofBool true
        if mustRefuse then !called && (failed || !(nerr == T.ofNat 0))
        else
          -- over-rejection (an error instead of a call) never hands a resolver a bad value: tolerated
          !called || exps.all (fun p =>
            match p.2 with
            | .must v =>
              (match kvs.find? (fun kv => match kv with | .node "kv" [k, _] => k == T.ofStr p.1 | _ => false) with
               | some (.node "kv" [_, r]) => r == encV v
               | _ => (match v with | .go .nil => true | _ => false))
            | _ => true)
      | _ => false
    let alts : List Alt :=
      [ { flag := "D09", onInCur := cfgCur.listNotCoerced, obs := run { cfgCur with listNotCoerced := !cfgCur.listNotCoerced } (inTbl tb) },
        { flag := "D10", onInCur := cfgCur.symbolUnchecked, obs := run { cfgCur with symbolUnchecked := !cfgCur.symbolUnchecked } (inTbl tb) },
        -- D66: input-field defaults are handed on as the scanner produced them (not validated, not coerced): the
        -- alternative is the model over the same input types with every default replaced by its coerced form
        { flag := "D66", onInCur := tb.inputDefaultsRaw,
          obs := encOutcome (formArgs cfgCur ext (inTbl tb) (ins.map (fun d => { d with fields := d.fields.map (fun f =>
            { f with dflt := f.dflt.map (fun dv => (coerceInT ext (inTbl tb) ins 64 f.type dv).1) }) })) vds sup decl given) },
        { flag := "D68", onInCur := cfgCur.symbolBaseEnum, obs := run { cfgCur with symbolBaseEnum := !cfgCur.symbolBaseEnum } (inTbl tb) },
        { flag := "D65", onInCur := cfgCur.objectUnchecked, obs := run { cfgCur with objectUnchecked := !cfgCur.objectUnchecked } (inTbl tb) },
        { flag := "D41", onInCur := cfgCur.nullVarUsesDefault, obs := run { cfgCur with nullVarUsesDefault := !cfgCur.nullVarUsesDefault } (inTbl tb) },
        { flag := "D08", onInCur := !(unsoundIn .int (inTbl tb .int)).isEmpty,
          obs := run cfgCur (fun s => if s == .int then strictIn tb s else inTbl tb s) },
        { flag := "D46", onInCur := !(unsoundIn .float (inTbl tb .float)).isEmpty || !(unsoundIn .float64 (inTbl tb .float64)).isEmpty,
          obs := run cfgCur (fun s => if s == .float || s == .float64 then strictIn tb s else inTbl tb s) } ]
    -- the property's first clause, checked with the independent conformance predicate on what the resolver
    -- received (the model's arguments are the implementation's when the observations match)
    let curOut := formArgs cfgCur ext (inTbl tb) ins vds sup decl given
    let conformOk : Bool := !curOut.called || decl.all (fun a =>
      match lookup curOut.args a.name with
      | some v => conforms ext ins 64 a.type v
      | none => a.type.nullable)
    if wmatch cur impl then
      if specOk && conformOk then "ok"
      else
        let trig := alts.filter (fun a => a.onInCur && !(a.obs == cur))
        if trig.isEmpty then "unattributed " ++ cur.render
        else "dev " ++ ",".intercalate (trig.map (·.flag))
    else
      match alts.find? (fun a => wmatch a.obs impl) with
      | some a => if a.onInCur then (if specOk then "repaired " ++ a.flag else "mismatch spec-bad " ++ cur.render)
                  else "regress " ++ a.flag ++ (if specOk then " spec-ok" else " spec-bad")
      | none => "mismatch " ++ (if specOk then "spec-ok " else "spec-bad ") ++ cur.render

def flags (tb : Tables) : List (String × Bool) :=
  [("D08", !(unsoundIn .int (inTbl tb .int)).isEmpty),
   ("D46", !(unsoundIn .float (inTbl tb .float)).isEmpty),
   ("D09", (cfgCurOf tb).listNotCoerced), ("D10", (cfgCurOf tb).symbolUnchecked), ("D41", (cfgCurOf tb).nullVarUsesDefault),
   ("D65", (cfgCurOf tb).objectUnchecked), ("D66", tb.inputDefaultsRaw),
   ("D68", (cfgCurOf tb).symbolBaseEnum), ("D85", tb.inputNullTakesDefault)]

end Ggql.Driver.C04
