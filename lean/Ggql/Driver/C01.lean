import Ggql.Driver.WalkWire
namespace Ggql.Driver.C01
open Ggql Ggql.Walk Ggql.Driver.WalkWire

/- D11 (hand-set): an unknown operation name falls back to the only operation.
    (read from ResolveExecutable by the translator).  D12 (read from the tail of resolveField): response keys are overwritten, not merged.  D13: depth limit leaks raw objects. -/

/-- alternatives of the family: one flag toggled -/
def alts (tb : Tables) (c : Case) : List Alt :=
  let cur := cfgCur tb
  [ { flag := "D14", onInCur := cur.condByIdentity, obs := runModel tb c { cur with condByIdentity := !cur.condByIdentity } },
    { flag := "D12-data", onInCur := cur.dupKeyOverwrites, obs := runModel tb c { cur with dupKeyOverwrites := !cur.dupKeyOverwrites } },
    { flag := "D07", onInCur := !tb.skip.accumulates,
      obs := runModel tb c { cur with skipTable := if tb.skip.accumulates then Skip.tableAssign else Skip.tableOr } },
    { flag := "D19", onInCur := cur.fragPathSegment, obs := runModel tb c { cur with fragPathSegment := !cur.fragPathSegment } },
    { flag := "D11", onInCur := cur.opFallbackAnyName, obs := runModel tb c { cur with opFallbackAnyName := !cur.opFallbackAnyName } },
    { flag := "D96", onInCur := cur.anonAmongOthers, obs := runModel tb c { cur with anonAmongOthers := !cur.anonAmongOthers } },
    { flag := "D20", onInCur := cur.keepValueOnError, obs := runModel tb c { cur with keepValueOnError := !cur.keepValueOnError } } ]

/-- the data part of an observation -/
def dataOf : T → Option T
  | .node "resp" [d, _, _] => some d
  | _ => none

def callsOf : T → Option T
  | .node "resp" [_, _, cs] => some cs
  | _ => none

/-- does the document have a response-key collision or an unknown operation name?  (for attribution) -/
partial def hasCollision : List Sel → Bool
  | sels =>
    let keys := sels.filterMap (fun s => match s with | .field .. => some s.key | _ => none)
    keys.eraseDups.length != keys.length ||
    sels.any (fun s => match s with | .field _ _ _ _ ss => hasCollision ss | .inline _ _ ss _ => true && (hasCollision ss || !ss.isEmpty && false) )

partial def flatKeys : List Sel → List String
  | sels => sels.flatMap (fun s => match s with | .field .. => [s.key] | .inline _ _ ss _ => flatKeys ss)

partial def collides : List Sel → Bool
  | sels =>
    let ks := flatKeys sels
    ks.eraseDups.length != ks.length || sels.any (fun s => match s with | .field _ _ _ _ ss => collides ss | .inline _ _ ss _ => collides ss)

/-- the fields a selection list contributes, fragments opened (whatever their conditions) -/
partial def flatFields : List Sel → List (String × String × List ArgVal × List Sel)
  | sels => sels.flatMap (fun s => match s with
      | .field _ n args _ ss => [(s.key, n, args, ss)]
      | .inline _ _ ss _ => flatFields ss)

/-- does the request select two *different* fields (another name, other arguments) under one response key, at any
level of the merged selection?  Such a request is not valid GraphQL (FieldsInSetCanMerge) and what it answers is
outside C01, which quantifies over valid requests.  (Conditions are ignored: an over-approximation.) -/
partial def conflicting (sels : List Sel) : Bool :=
  let fs := flatFields sels
  let keys := (fs.map (·.1)).eraseDups
  keys.any (fun k =>
    match fs.filter (fun f => f.1 == k) with
    | [] => false
    | f :: rest =>
      rest.any (fun g => g.2.1 != f.2.1 || g.2.2.1 != f.2.2.1) ||
      conflicting ((f :: rest).flatMap (fun g => g.2.2.2)))

def handle (tb : Tables) (c impl : T) : String :=
  match decCase c with
  | none => "bad-op"
  | some cs =>
    let cur := runModel tb cs (cfgCur tb)
    -- oracle: data = selection semantics for the chosen operation; no operation ⇒ no resolver runs
    let specData := Spec.execute cs.schema cs.graph cs.vars cs.ops cs.opName cs.rootNode (rootTy cs)
    let specOk : Bool := match specData, dataOf impl, callsOf impl with
      | some j, some d, _ => d == encJ j
      | none, some d, some calls => (d == .atom "none" || d == .node "null" []) && calls == T.list []
      | _, _, _ => false
    if impl == cur then
      -- (a document with an operation without a name next to others is not valid GraphQL either: once it is
      -- rejected, whatever name the caller gave, no resolver runs and there is no data)
      let rejected := !(cfgCur tb).anonAmongOthers && !loneAnonymousOk cs.ops &&
        callsOf impl == some (T.list []) && dataOf impl == some (.atom "none")
      if specOk || rejected || cs.ops.any (fun o => conflicting o.sels) then "ok"
      else
        let trig := (alts tb cs).filter (fun a => a.onInCur && !(a.obs == cur))
        let extra : List String :=
          (if tb.dupKeyOverwrites && cs.ops.any (fun o => collides o.sels) && !trig.any (fun a => a.flag == "D12-data") then ["D12-data"] else []) ++
          []
        let fl := trig.map (·.flag) ++ extra
        if fl.isEmpty then "unattributed " ++ cur.render else "dev " ++ ",".intercalate fl
    else
      match (alts tb cs).find? (fun a => a.obs == impl) with
      | some a => if a.onInCur then (if specOk then "repaired " ++ a.flag else "mismatch spec-bad " ++ cur.render)
                  else "regress " ++ a.flag ++ (if specOk then " spec-ok" else " spec-bad")
      | none => "mismatch " ++ (if specOk then "spec-ok " else "spec-bad ") ++ cur.render

def flags (tb : Tables) : List (String × Bool) :=
  [("D11", (cfgCur tb).opFallbackAnyName), ("D12-data", tb.dupKeyOverwrites), ("D14", (cfgCur tb).condByIdentity), ("D96", (cfgCur tb).anonAmongOthers)]

end Ggql.Driver.C01
