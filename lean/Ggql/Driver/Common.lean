/-
Common verdict logic of the correspondence driver (DESIGN.md §4.3).

For one case the handler computes
  * `cur`   – the model's observation under the configuration generated/hand-set for the pinned tree,
  * `alts`  – the model's observation with one deviation flag toggled, per flag,
  * `specOk`– the property's own oracle evaluated on the *implementation's* observation.
and the verdict line is derived from them uniformly.
-/
import Ggql.Wire
namespace Ggql.Driver
open Ggql

structure Alt where
  flag : String      -- deviation id, e.g. "D07"
  onInCur : Bool     -- is the flag on in the current configuration?
  obs : T            -- model observation with just this flag toggled

/-- structural match where the atom `_` in the model's observation wmatch anything -/
partial def wmatch : T → T → Bool
  | .atom "_", _ => true
  | .atom a, .atom b => a == b
  | .node t as, .node u bs => t == u && as.length == bs.length && (as.zip bs).all (fun p => wmatch p.1 p.2)
  | _, _ => false

/-- verdict with explicit attribution: `attr` = the listed deviations this case exercises -/
def verdictAttr (impl cur : T) (specOk : Bool) (attr : List String) : String :=
  if wmatch cur impl then
    if specOk then "ok"
    else if attr.isEmpty then "unattributed " ++ cur.render
    else "dev " ++ ",".intercalate attr.eraseDups
  else if !specOk && !attr.isEmpty then
    -- the oracle fails on a case that also exercises listed deviations: not evidence of a new failure
    "mismatch spec-bad-known " ++ ",".intercalate attr.eraseDups ++ " " ++ cur.render
  else "mismatch " ++ (if specOk then "spec-ok " else "spec-bad ") ++ cur.render

/-- verdict line:
  ok                          impl = model(cur), oracle holds
  dev <flags>                 impl = model(cur), oracle fails, flags whose toggle changes the model's answer
  unattributed <model>        impl = model(cur), oracle fails, no flag explains it
  repaired <flag>             impl = model(cur with <flag> off), oracle holds
  regress <flag>              impl = model(cur with <flag> on)
  mismatch spec-ok|spec-bad <model>   no member of the family wmatch
-/
def verdict (impl cur : T) (alts : List Alt) (specOk : Bool) : String :=
  if impl == cur then
    if specOk then "ok"
    else
      let trig := alts.filter (fun a => a.onInCur && !(a.obs == cur))
      if trig.isEmpty then "unattributed " ++ cur.render
      else "dev " ++ ",".intercalate (trig.map (·.flag))
  else
    match alts.find? (fun a => a.obs == impl) with
    | some a =>
      if a.onInCur then (if specOk then "repaired " ++ a.flag else "mismatch spec-bad " ++ cur.render)
      else "regress " ++ a.flag ++ (if specOk then " spec-ok" else " spec-bad")
    | none =>
      let trig := alts.filter (fun a => a.onInCur && !(a.obs == cur))
      if !specOk && !trig.isEmpty then
        "mismatch spec-bad-known " ++ ",".intercalate (trig.map (·.flag)) ++ " " ++ cur.render
      else "mismatch " ++ (if specOk then "spec-ok " else "spec-bad ") ++ cur.render

end Ggql.Driver
