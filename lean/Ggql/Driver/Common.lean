/-
Common verdict logic of the correspondence driver (DESIGN.md §4.3).

For one case the handler computes
  * `cur`   – the model's observation under the configuration generated/hand-set for the pinned tree,
  * `alts`  – the model's observation with one deviation flag toggled, per flag,
  * `specOk`– the property's own oracle evaluated on the *implementation's* observation.
and the verdict line is derived from them uniformly.
-/
import Ggql.Wire
namespace Ggql.Driver
open Ggql

structure Alt where
  flag : String      -- deviation id, e.g. "D07"
  onInCur : Bool     -- is the flag on in the current configuration?
  obs : T            -- model observation with just this flag toggled

/-- verdict line:
  ok                          impl = model(cur), oracle holds
  dev <flags>                 impl = model(cur), oracle fails, flags whose toggle changes the model's answer
  unattributed <model>        impl = model(cur), oracle fails, no flag explains it
  repaired <flag>             impl = model(cur with <flag> off), oracle holds
  regress <flag>              impl = model(cur with <flag> on)
  mismatch spec-ok|spec-bad <model>   no member of the family matches
-/
def verdict (impl cur : T) (alts : List Alt) (specOk : Bool) : String :=
  if impl == cur then
    if specOk then "ok"
    else
      let trig := alts.filter (fun a => a.onInCur && !(a.obs == cur))
      if trig.isEmpty then "unattributed " ++ cur.render
      else "dev " ++ ",".intercalate (trig.map (·.flag))
  else
    match alts.find? (fun a => a.obs == impl) with
    | some a =>
      if a.onInCur then (if specOk then "repaired " ++ a.flag else "mismatch spec-bad " ++ cur.render)
      else "regress " ++ a.flag ++ (if specOk then " spec-ok" else " spec-bad")
    | none => "mismatch " ++ (if specOk then "spec-ok " else "spec-bad ") ++ cur.render

end Ggql.Driver
