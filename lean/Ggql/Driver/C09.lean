import Ggql.Driver.Common
import Ggql.Model.Skip
import Ggql.Driver.Tables
namespace Ggql.Driver.C09
open Ggql Ggql.Skip

def decCond : T → Option (Option Cond)
  | .atom "none" => some none
  | .node "lit" [b] => do let b ← b.asBool; pure (some (.lit b))
  | .node "var" [n] => do let n ← n.asStr; pure (some (.var n))
  | .atom "otherval" => some (some .otherVal)
  | _ => none

def decDir : T → Option DirUse
  | .node "d" [.atom nm, c] => do
    let name ← (match nm with | "skip" => some DName.skip | "incl" => some .incl | "other" => some .other | _ => none)
    let c ← decCond c
    pure ⟨name, c⟩
  | _ => none

def decVar : T → Option (String × VarVal)
  | .node "v" [n, .atom "true"] => do pure ((← n.asStr), .bool true)
  | .node "v" [n, .atom "false"] => do pure ((← n.asStr), .bool false)
  | .node "v" [n, .atom "other"] => do pure ((← n.asStr), .other)
  | _ => none

def obsOf (r : Bool × Nat) : T := .node "obs" [T.ofBool (!r.1), T.ofNat (if r.1 then 0 else 1), T.ofNat r.2]

/-- case: (c09 (l dir…) (l var…)); impl obs: (obs present calls errs) -/
def handle (tb : Tables) (c impl : T) : String :=
  match c with
  | .node "c09" [ds, vs] =>
    match (do let ds ← ds.asList; let vs ← vs.asList; pure ((← optMap decDir ds), (← optMap decVar vs))) with
    | none => "bad-op"
    | some (dirs, vars) =>
      let cur := obsOf (skipSel tb.skip dirs vars)
      let d07on := !tb.skip.accumulates
      -- toggle D07: accumulate ↔ assign, everything else as generated
      let toggled : Table :=
        let u : Upd := if d07on then .orAssign else .assign
        { tb.skip with
          skipLit := { tb.skip.skipLit with upd := u }, skipVar := { tb.skip.skipVar with upd := u },
          inclLit := { tb.skip.inclLit with upd := u }, inclVar := { tb.skip.inclVar with upd := u } }
      let alts := [{ flag := "D07", onInCur := d07on, obs := obsOf (skipSel toggled dirs vars) : Alt }]
      let specOk := match impl with
        | .node "obs" [p, calls, _] =>
          p == T.ofBool (included dirs vars) && calls == T.ofNat (if included dirs vars then 1 else 0)
        | _ => false
      verdict impl cur alts specOk
  | _ => "bad-op"

def flags (tb : Tables) : List (String × Bool) := [("D07", !tb.skip.accumulates)]

end Ggql.Driver.C09
