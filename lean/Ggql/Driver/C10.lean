import Ggql.Driver.C06
namespace Ggql.Driver.C10
open Ggql Ggql.Walk Ggql.Driver.WalkWire

/-- D69 (hand-set): `readFragmentDef` does not check that the type condition is defined -/
def d69 : Bool := true

def callsErrs : T → Option (T × T)
  | .node "resp" [_, es, cs] => some (es, cs)
  | _ => none

/-- case: (c10 KIND WALKCASE) with KIND ∈ field | arg | required (resolved, judged against the repaired
member of the family) | reject (whole document refused before execution: no data, no resolver) -/
def handle (tb : Tables) (c impl : T) : String :=
  match c with
  | .node "c10r" [_, refuse] =>
    -- a reflection-bound method and a required argument left out (fixed table); obs: (obs methodCalled hasError).
    -- The model is the property: refused ⇒ not called and an error; otherwise called without error.
    (match refuse.asBool with
     | some true => if impl == T.node "obs" [T.ofBool false, T.ofBool true] then "ok" else "mismatch spec-bad (obs false true)"
     | some false => if impl == T.node "obs" [T.ofBool true, T.ofBool false] then "ok" else "mismatch spec-bad (obs true false)"
     | none => "bad-op")
  | .node "c10l" [_, nerr] =>
    -- an undeclared / missing argument on every member of a list and on each member type of a union (fixed table);
    -- obs: (obs forbiddenCalls errors).  The model is the property: no resolver invoked with the offending
    -- selection, one error per member.  With the argument check made at the first use of a field only (D93) the
    -- later members are resolved.
    (match impl with
     | .node "obs" [bad, n] =>
       if bad == T.ofInt 0 && n == nerr then "ok"
       else if tb.argsSortedOnce then "dev D93"
       else "mismatch spec-bad " ++ (T.node "obs" [T.ofInt 0, nerr]).render
     | _ => "bad-op")
  | .node "c10" [.atom kind, w] =>
    match decCase w with
    | none => "bad-op"
    | some cs =>
      if kind == "rejectfragdef" then
        -- an undefined type as the condition of a fragment definition: as coded (D69, hand-set; pinned by the
        -- suite's TestParseExecutableError) the definition is accepted and its spreads select nothing
        (match impl with
         | .node "resp" [d, es, calls] =>
           if (d == .atom "none" || d == .node "null" []) && !(es == T.list []) && calls == T.list [] then
             (if d69 then "repaired D69" else "ok")
           else if d69 then "dev D69" else "mismatch spec-bad (resp none _ (l))"
         | _ => "bad-op")
      else if kind == "reject" then
        -- unknown / misplaced directive, unknown directive argument, undefined type condition
        (match impl with
         | .node "resp" [d, es, calls] =>
           if (d == .atom "none" || d == .node "null" []) && !(es == T.list []) && calls == T.list [] then "ok"
           else "mismatch spec-bad (resp none _ (l))"
         | _ => "bad-op")
      else
        let cfg := cfgCur tb
        let cur := runModel tb cs cfg
        -- the oracle: the walk with every deviation that bears on C10 repaired (undeclared arguments always looked
        -- for, selections typed by the position — interface or union — not by the value, `__typename` takes no argument)
        let repaired := runModel tb cs { cfg with argCountCheckOnly := false, unionAtMember := false, condByIdentity := false, metaArgsUnchecked := false }
        let specOk := match callsErrs impl, callsErrs repaired with
          | some a, some b => a == b
          | _, _ => false
        if impl == cur then
          if specOk then "ok"
          else if cfg.argCountCheckOnly && !(runModel tb cs { cfg with argCountCheckOnly := false } == cur) then "dev D23"
          else if cfg.unionAtMember && !(runModel tb cs { cfg with unionAtMember := false } == cur) then "dev D103"
          else "unattributed " ++ cur.render
        else if impl == repaired && cfg.argCountCheckOnly then "repaired D23"
        else "mismatch " ++ (if specOk then "spec-ok " else "spec-bad ") ++ cur.render
  | _ => "bad-op"

def flags (tb : Tables) : List (String × Bool) := [("D23", (cfgCur tb).argCountCheckOnly), ("D69", d69), ("D93", tb.argsSortedOnce), ("D103", tb.unionAtMember)]

end Ggql.Driver.C10
