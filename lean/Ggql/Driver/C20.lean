import Ggql.Driver.Common
import Ggql.Driver.Tables
import Ggql.Model.RegistryConc
namespace Ggql.Driver.C20
open Ggql Ggql.Registry

def decPat : T → Option Pat
  | .node "any" [] => some .any
  | .node "exact" [s] => do pure (.exact (← s.asStr))
  | _ => none

def decBlock : T → Option Block
  | .node "sub" [p] => do pure (.sub (← decPat p))
  | .node "unsub" [e] => do pure (.unsub (← e.asStr))
  | .node "deliver" [k, e, fs] => do
    let fs ← fs.asList
    pure (.deliver (← k.asNat) (← e.asStr) (← optMap T.asNat fs))
  | .node "reap" [k] => do pure (.reap (← k.asNat))
  | _ => none

def natList (l : List Nat) : T := T.list (l.map T.ofNat)

/-- per block: (o delivered cleaned count); the count of a publish is reported on its deliver block
as the number delivered and on its reap block as the call's return value; an unsubscribe reports its
own count -/
def observe (bs : List Block) : T :=
  let rec go (c : CState) (bs : List Block) (counts : List (Nat × Nat)) (acc : List T) : List T :=
    match bs with
    | [] => acc.reverse
    | b :: rest =>
      let (c', o) := cstep c b
      match b with
      | .deliver k _ _ =>
        go c' rest ((k, o.count) :: counts) (.node "o" [natList o.delivered, natList o.cleaned, T.ofNat o.count] :: acc)
      | .reap k =>
        let cnt := match counts.find? (fun p => p.1 == k) with | some (_, n) => n | none => 0
        go c' rest counts (.node "o" [natList o.delivered, natList o.cleaned, T.ofNat cnt] :: acc)
      | _ => go c' rest counts (.node "o" [natList o.delivered, natList o.cleaned, T.ofNat o.count] :: acc)
  T.list (go cinit bs [] [])

structure IOut where
  delivered : List Nat
  cleaned : List Nat

def decOut : T → Option IOut
  | .node "o" [d, c, _] => do
    let d ← d.asList; let c ← c.asList
    pure { delivered := (← optMap T.asNat d), cleaned := (← optMap T.asNat c) }
  | _ => none

/-- the property's four guarantees, evaluated directly on the implementation's per-block logs -/
def oracle (bs : List Block) (outs : List IOut) : Bool :=
  -- (1) a publish delivers at most once per subscriber
  outs.all (fun o => o.delivered.eraseDups.length == o.delivered.length) &&
  -- (2) clean-up at most once per subscriber over the whole execution
  (let all := outs.flatMap (·.cleaned); all.eraseDups.length == all.length) &&
  -- (3) nothing is delivered to a subscriber by a block after the block that cleaned it
  (let rec quiet : List IOut → Bool
    | [] => true
    | o :: rest => o.cleaned.all (fun c => rest.all (fun o' => !o'.delivered.contains c)) && quiet rest
   quiet outs) &&
  -- (4) a deliver block after a subscribe block reaches that subscriber if it matches and was not cleaned
  (let rec vis (bs : List Block) (outs : List IOut) (next : Nat) (live : List (Nat × Pat)) : Bool :=
    match bs, outs with
    | b :: bs', o :: outs' =>
      let live := live.filter (fun p => !o.cleaned.contains p.1)
      (match b with
       | .sub p => vis bs' outs' (next + 1) (live ++ [(next, p)])
       | .deliver _ ev _ =>
         (live.filter (fun p => p.2.matches ev)).all (fun p => o.delivered.contains p.1) && vis bs' outs' next live
       | _ => vis bs' outs' next live)
    | _, _ => true
   vis bs outs 0 [])

def handle (_tb : Tables) (c impl : T) : String :=
  match c with
  | .node "c20" [bs] =>
    match (do let bs ← bs.asList; optMap decBlock bs) with
    | none => "bad-op"
    | some bs =>
      let cur := observe bs
      let specOk := match (do let os ← impl.asList; optMap decOut os) with
        | some outs => outs.length == bs.length && oracle bs outs
        | none => false
      verdict impl cur [] specOk
  | _ => "bad-op"

def flags (_tb : Tables) : List (String × Bool) := []

end Ggql.Driver.C20
