import Ggql.Driver.Common
import Ggql.Driver.Tables
import Ggql.Model.Position
import Ggql.Spec.Json
namespace Ggql.Driver.C07
open Ggql Ggql.Position

/-- D21: the field position is sampled after the look-ahead byte (read from exeParser.readField by the translator) -/
def cfgCurOf (tb : Tables) : Cfg := { sampleAfterLookahead := tb.fieldPosAfterLookahead }

def encLoc (l : Int × Int) : T := .node "loc" [T.ofInt l.1, T.ofInt l.2]

def handle (tb : Tables) (c impl : T) : String :=
  let cfgCur := cfgCurOf tb
  match c with
  | .node "c07loc" [src, off, len] =>
    (match src.asChars, off.asNat, len.asNat with
     | some src, some off, some len =>
       let cur := encLoc (fieldLoc cfgCur src off len)
       let alt := encLoc (fieldLoc { sampleAfterLookahead := !cfgCur.sampleAfterLookahead } src off len)
       let specOk : Bool := match impl with
         | .node "loc" [l, c] => (match l.asInt, c.asInt with | some l, some c => locOk src off (l, c) | _, _ => false)
         | _ => false
       verdict impl cur [{ flag := "D21", onInCur := cfgCur.sampleAfterLookahead, obs := alt }] specOk
     | _, _, _ => "bad-op")
  | .node "c07op" [.atom kind, src, off, len] =>
    -- a location that must be the start of the token at src[off, off+len):
    --   opword   "'x' is not a valid executable operation type"                (D64)
    --   fragcond "missing fragment condition" (the token where `on` is expected) (D70)
    --   vardef   a variable coercion error, located at the variable's name       (D71)
    --   argname  an undeclared or repeated argument, located at the argument's name (D82)
    --   opname   a repeated operation name, located at the name                     (D88)
    (match src.asChars, off.asNat, len.asNat with
     | some src, some off, some len =>
       let (flag, asCoded) : String × Bool := match kind with
         | "opword" => ("D64", tb.opErrPosAfterLookahead)
         | "fragcond" => ("D70", tb.fragCondPosAfterToken)
         | "argname" => ("D82", tb.argPosAfterToken)
         | "opname" => ("D88", tb.opLineBeforeSkip)
         | _ => ("D71", tb.varDefPosAfterToken)
       -- at end of input there is no look-ahead byte to consume: the as-coded form then samples after the token only
       let atEof := decide (src.length ≤ off + len)
       let locOf (c : Bool) : Int × Int :=
         if kind == "opname" then
           -- (for this kind `len` carries the offset where the `query` keyword ends; the name is one character)
           -- as coded: the column of the name, on the line the scanner stood on after the keyword and the one byte
           -- `readToken` looked ahead
           let fl := fieldLoc { sampleAfterLookahead := false } src off 1
           if c then ((after (src.take (len + 1))).line, fl.2) else fl
         else if c then
           let p := after (src.take (if atEof then off + len else off + len + 1))
           (p.line, (p.col : Int) - (if kind == "fragcond" then 2 else if kind == "argname" then len + 1 else len))
         else
           -- (an argument is located one column before where a field, an operation word or a variable is: the
           -- scanner's column of the name's first character minus one, as it always was on one line)
           let fl := fieldLoc { sampleAfterLookahead := false } src off len
           if kind == "argname" then (fl.1, fl.2 - 1) else fl
       let cur := encLoc (locOf asCoded)
       let alt := encLoc (locOf (!asCoded))
       let specOk : Bool := match impl with
         | .node "loc" [l, c] => (match l.asInt, c.asInt with | some l, some c => locOk src off (l, c) | _, _ => false)
         | _ => false
       -- a deviation form that happens to give the right location (keyword and name on one line) is not a deviation
       if cur == alt then (if impl == cur then "ok" else "mismatch " ++ (if specOk then "spec-ok " else "spec-bad ") ++ cur.render) else
       verdict impl cur [{ flag := flag, onInCur := asCoded, obs := alt }] specOk
     | _, _, _ => "bad-op")
  | .node "c07env" [] =>
    -- (env keysOk errorsNonEmpty msgsOk pathsOk locsPositive rejectedNoData jsonOk)
    (match impl with
     | .node "env" [k, e, m, p, l, r, j] =>
       let t := T.ofBool true
       if k == t && e == t && m == t && p == t && r == t && j == t then
         (if l == t then "ok" else if cfgCur.sampleAfterLookahead then "dev D21"
          else if tb.opErrPosAfterLookahead then "dev D64"
          else if tb.fragCondPosAfterToken then "dev D70" else if tb.varDefPosAfterToken then "dev D71"
          else if tb.argPosAfterToken then "dev D82"
          else if tb.opLineBeforeSkip then "dev D88"
          else "mismatch spec-bad (env …)")
       else "mismatch spec-bad (env true true true true true true true)"
     | _ => "bad-op")
  | .node "c07json" [txt] =>
    -- the serialised envelope must be accepted by the RFC 8259 reader, and encoding/json must agree
    (match txt.asChars, impl with
     | some cs, .node "json" [ok] =>
       let mine := (Json.read cs).isSome
       if mine && ok == T.ofBool true then "ok"
       else if !mine && ok == T.ofBool false then "mismatch spec-bad (json true)"
       else "mismatch spec-ok (json " ++ toString mine ++ ")"     -- the two JSON readers disagree
     | _, _ => "bad-op")
  | _ => "bad-op"

def flags (tb : Tables) : List (String × Bool) :=
  [("D21", (cfgCurOf tb).sampleAfterLookahead), ("D64", tb.opErrPosAfterLookahead), ("D70", tb.fragCondPosAfterToken), ("D82", tb.argPosAfterToken), ("D88", tb.opLineBeforeSkip),
   ("D71", tb.varDefPosAfterToken)]

end Ggql.Driver.C07
