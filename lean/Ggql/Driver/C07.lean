import Ggql.Driver.Common
import Ggql.Driver.Tables
import Ggql.Model.Position
import Ggql.Spec.Json
namespace Ggql.Driver.C07
open Ggql Ggql.Position

/-- D21: the field position is sampled after the look-ahead byte (read from exeParser.readField by the translator) -/
def cfgCurOf (tb : Tables) : Cfg := { sampleAfterLookahead := tb.fieldPosAfterLookahead }

def encLoc (l : Int × Int) : T := .node "loc" [T.ofInt l.1, T.ofInt l.2]

def handle (tb : Tables) (c impl : T) : String :=
  let cfgCur := cfgCurOf tb
  match c with
  | .node "c07loc" [src, off, len] =>
    (match src.asChars, off.asNat, len.asNat with
     | some src, some off, some len =>
       let cur := encLoc (fieldLoc cfgCur src off len)
       let alt := encLoc (fieldLoc { sampleAfterLookahead := !cfgCur.sampleAfterLookahead } src off len)
       let specOk : Bool := match impl with
         | .node "loc" [l, c] => (match l.asInt, c.asInt with | some l, some c => locOk src off (l, c) | _, _ => false)
         | _ => false
       verdict impl cur [{ flag := "D21", onInCur := cfgCur.sampleAfterLookahead, obs := alt }] specOk
     | _, _, _ => "bad-op")
  | .node "c07env" [] =>
    -- (env keysOk errorsNonEmpty msgsOk pathsOk locsPositive rejectedNoData jsonOk)
    (match impl with
     | .node "env" [k, e, m, p, l, r, j] =>
       let t := T.ofBool true
       if k == t && e == t && m == t && p == t && r == t && j == t then
         (if l == t then "ok" else if cfgCur.sampleAfterLookahead then "dev D21" else "mismatch spec-bad (env …)")
       else "mismatch spec-bad (env true true true true true true true)"
     | _ => "bad-op")
  | .node "c07json" [txt] =>
    -- the serialised envelope must be accepted by the RFC 8259 reader, and encoding/json must agree
    (match txt.asChars, impl with
     | some cs, .node "json" [ok] =>
       let mine := (Json.read cs).isSome
       if mine && ok == T.ofBool true then "ok"
       else if !mine && ok == T.ofBool false then "mismatch spec-bad (json true)"
       else "mismatch spec-ok (json " ++ toString mine ++ ")"     -- the two JSON readers disagree
     | _, _ => "bad-op")
  | _ => "bad-op"

def flags (tb : Tables) : List (String × Bool) := [("D21", (cfgCurOf tb).sampleAfterLookahead)]

end Ggql.Driver.C07
