-- PINNED by bin/pin_tables: copy of Gen/Dispatch.lean as generated from /repo at 0fe64d0 — regenerate, do not edit
namespace Ggql.Pinned
def dispatchOrder : List String := ["resolver", "any", "reflect"]
def opFallbackAnyName : Bool := false
end Ggql.Pinned
