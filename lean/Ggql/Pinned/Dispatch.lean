-- PINNED by bin/pin_tables: copy of Gen/Dispatch.lean as generated from /repo at dee58c0 — regenerate, do not edit
namespace Ggql.Pinned
def dispatchOrder : List String := ["resolver", "any", "reflect"]
def opFallbackAnyName : Bool := false
def nullVarUsesDefault : Bool := false
def argCountCheckOnly : Bool := false
def subtypeNarrow : Bool := false
def dupScalarDropped : Bool := false
def dirArgWrapperAccepted : Bool := false
def descRaw : Bool := false
def assureOnce : Bool := false
def dupMembersAccepted : Bool := false
def inputNullTakesDefault : Bool := false
def dirLoopByVisited : Bool := false
def typeLookupFindsDirectives : Bool := false
def dirRequiredUnchecked : Bool := false
def dirRefTypeFirst : Bool := false
def extendSchemaNeedsSchema : Bool := false
def dupKeyOverwrites : Bool := false
def unionFirstCome : Bool := false
def ifaceNeedsBound : Bool := false
def shallowRollback : Bool := false
def inputExtendMapOrder : Bool := false
def toolOmitsDirectives : Bool := false
def toolEmbedRaw : Bool := false
def eventVarsEmpty : Bool := false
def subOrderByMap : Bool := false
def schemaDuringScan : Bool := false
def objectUnchecked : Bool := false
def argsInPlace : Bool := false
def argsSortedOnce : Bool := false
def condByIdentity : Bool := false
def anonAmongOthers : Bool := false
def metaArgsUnchecked : Bool := false
def ptrValueDistinct : Bool := false
def unionAtMember : Bool := false
def impliedSchemaUnvalidated : Bool := false
def dupDirectiveInlineAccepted : Bool := false
def reflectOptionalRefused : Bool := false
def inputDefaultsRaw : Bool := true
def listNotCoerced : Bool := false
def symbolUnchecked : Bool := false
def symbolBaseEnum : Bool := false
/-- hashes of the functions that form, coerce and hand on argument values (strings and comments stripped) -/
def argSkeleton : List (String × String) := [
  ("Error.in", "cffe1f43c8db"),
  ("Errors.in", "fbcdd807c73e"),
  ("Input.CoerceIn", "1ae44ebae6eb"),
  ("Input.reflectSet", "d6bbe634d4a6"),
  ("Input.reflectSetKey", "b97163bbb51d"),
  ("List.CoerceIn", "342314fa8b37"),
  ("Root.addError", "c5f7e10ca815"),
  ("NonNull.CoerceIn", "07c35bfdab4c"),
  ("Root.formArgs", "4ce1628b3fc4"),
  ("Root.formReflectArgs", "d5fdfd091c17"),
  ("Root.replaceArgVars", "8e6170986780"),
  ("Root.resolveField", "d8dcc1486960"),
  ("Root.resolveReflect", "15757bc1bc70"),
  ("checkReflectArgs", "3e548d39715f")
]
end Ggql.Pinned
