-- PINNED by bin/pin_tables: copy of Gen/Dispatch.lean as generated from /repo at 18263c5 — regenerate, do not edit
namespace Ggql.Pinned
def dispatchOrder : List String := ["resolver", "any", "reflect"]
def opFallbackAnyName : Bool := false
def nullVarUsesDefault : Bool := false
def argCountCheckOnly : Bool := false
def subtypeNarrow : Bool := false
def dupScalarDropped : Bool := false
def dirArgWrapperAccepted : Bool := false
def descRaw : Bool := false
def assureOnce : Bool := false
def unionFirstCome : Bool := false
def ifaceNeedsBound : Bool := false
def shallowRollback : Bool := false
def inputExtendMapOrder : Bool := false
def toolOmitsDirectives : Bool := false
def toolEmbedRaw : Bool := false
def eventVarsEmpty : Bool := false
def schemaDuringScan : Bool := false
def objectUnchecked : Bool := false
def argsInPlace : Bool := false
def inputDefaultsRaw : Bool := true
def listNotCoerced : Bool := false
def symbolUnchecked : Bool := false
def symbolBaseEnum : Bool := false
end Ggql.Pinned
