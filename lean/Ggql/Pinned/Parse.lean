-- PINNED by bin/pin_tables: copy of Gen/Parse.lean as generated from /repo at dee58c0 — regenerate, do not edit
namespace Ggql.Pinned
def sdlEmptyTokenSpins : Bool := false
def exeVarTypeOptional : Bool := false
def fieldPosAfterLookahead : Bool := false
def opErrPosAfterLookahead : Bool := false
def fragCondPosAfterToken : Bool := false
def varDefPosAfterToken : Bool := false
def argPosAfterToken : Bool := false
def opLineBeforeSkip : Bool := false
def maxParseDepth : Option Nat := (some 1000)
/-- `readFragment`: the type condition of an inline fragment must be a named object / interface / union type (D100, D110) -/
def condStrict : Bool := true
/-- `readType`: a list type without a member type (`[]`) is a parse error (D107) -/
def listNeedsMember : Bool := true
def parserSkeleton : List (String × String) := [
  ("Executable.SetContextRecursive", "fecba30c47b5"),
  ("Executable.String", "36b2f6bde286"),
  ("Executable.Validate", "93a685e83687"),
  ("Executable.validateFragmentCycles", "1eb7c3116412"),
  ("Executable.write", "bdebd1326245"),
  ("Field.String", "235038b68a19"),
  ("Field.Validate", "58181d2e4a99"),
  ("Field.checkArgs", "8fe29135e2fc"),
  ("Field.getArg", "19ad5e763d53"),
  ("Field.key", "4682fb716138"),
  ("Field.write", "4d719e643171"),
  ("FragRef.Column", "76112db58cac"),
  ("FragRef.Directives", "ac1a67195301"),
  ("FragRef.Line", "8220243e1233"),
  ("FragRef.SelectionSet", "3298e82781a6"),
  ("FragRef.String", "b52e492c741b"),
  ("FragRef.Validate", "a569e1d89379"),
  ("FragRef.write", "58607979af01"),
  ("Fragment.String", "0b361c0d5975"),
  ("Fragment.Validate", "16471fa11431"),
  ("Fragment.write", "fd3d0721c6d4"),
  ("Inline.String", "19ac801e75e7"),
  ("Inline.Validate", "2c875a8a1c3f"),
  ("Inline.write", "4dab8dd4543f"),
  ("Op.String", "57716655fe75"),
  ("Op.Validate", "a27a5549f9e6"),
  ("Op.write", "0044e235a56a"),
  ("ParseValue", "aee9fa3d28d3"),
  ("ParseValueString", "03432091c79e"),
  ("VarDef.Validate", "8dd49799f901"),
  ("VarDef.write", "5634fcdebcb5"),
  ("exeParser.readField", "a34d4efa5ee5"),
  ("exeParser.readFragRef", "9c97fce48d73"),
  ("exeParser.readFragment", "ddd930c0e6c7"),
  ("exeParser.readFragmentDef", "ac7947967256"),
  ("exeParser.readInline", "c937b7931829"),
  ("exeParser.readOp", "fd5442d6288c"),
  ("exeParser.readSelectionSet", "355ecb6ffc3e"),
  ("exeParser.readVarDef", "c683f216d2b6"),
  ("exeParser.readVarDefs", "007f8ff5b513"),
  ("parseExe", "b2fc5513a9c5"),
  ("parseSDL", "5c0f8828856d"),
  ("parser.deeper", "f95cc851b447"),
  ("parser.putBack", "53625e41ee42"),
  ("parser.readArgValue", "9028b5da71ab"),
  ("parser.readArgValues", "cdf8819b1f0b"),
  ("parser.readByte", "17681f2c239b"),
  ("parser.readDesc", "4d773b7bf13a"),
  ("parser.readDirUse", "b8689d53bc0c"),
  ("parser.readDirUses", "3aef5c6ea839"),
  ("parser.readEscaped", "6e29c300ab39"),
  ("parser.readNumberToken", "f3b19f6d64a1"),
  ("parser.readString", "898da43fe809"),
  ("parser.readToken", "ef9998d985e1"),
  ("parser.readType", "f9e7d1c2a133"),
  ("parser.readValue", "67b6dc0216a2"),
  ("parser.shallower", "6a32e8f2f49b"),
  ("parser.skipBOM", "3748472419d4"),
  ("parser.skipSpace", "c52c2c490dec"),
  ("sdlParser.readArg", "1fd975e944de"),
  ("sdlParser.readArgs", "673f4fa124af"),
  ("sdlParser.readDirective", "6901232ff5a0"),
  ("sdlParser.readEnum", "6a534ea70ec9"),
  ("sdlParser.readEnumValue", "d7ea323f2858"),
  ("sdlParser.readField", "35797de4a2ff"),
  ("sdlParser.readFields", "89356d25b88c"),
  ("sdlParser.readImplements", "e0b9405f7967"),
  ("sdlParser.readInput", "795d3b71d37d"),
  ("sdlParser.readInputField", "bfb02722136d"),
  ("sdlParser.readInputFields", "f44cbc8f2af0"),
  ("sdlParser.readInterface", "8c9edbb69222"),
  ("sdlParser.readObject", "77fb47c2dc94"),
  ("sdlParser.readScalar", "bb58c591ae15"),
  ("sdlParser.readSchema", "546dc31c30c3"),
  ("sdlParser.readUnion", "1b522b6e5905"),
  ("writeVarDefs", "55cea593d151")
]
end Ggql.Pinned
