-- PINNED by bin/pin_tables: copy of Gen/Parse.lean as generated from /repo at 596f79e — regenerate, do not edit
namespace Ggql.Pinned
def sdlEmptyTokenSpins : Bool := false
def exeVarTypeOptional : Bool := false
def fieldPosAfterLookahead : Bool := false
def opErrPosAfterLookahead : Bool := false
def fragCondPosAfterToken : Bool := false
def varDefPosAfterToken : Bool := false
def maxParseDepth : Option Nat := (some 1000)
def parserSkeleton : List (String × String) := [
  ("ParseValue", "aee9fa3d28d3"),
  ("ParseValueString", "03432091c79e"),
  ("exeParser.readField", "a34d4efa5ee5"),
  ("exeParser.readFragRef", "9c97fce48d73"),
  ("exeParser.readFragment", "9888b86ba516"),
  ("exeParser.readFragmentDef", "ac7947967256"),
  ("exeParser.readInline", "c937b7931829"),
  ("exeParser.readOp", "3f2c7946f8fe"),
  ("exeParser.readSelectionSet", "355ecb6ffc3e"),
  ("exeParser.readVarDef", "c683f216d2b6"),
  ("exeParser.readVarDefs", "007f8ff5b513"),
  ("parseExe", "b2fc5513a9c5"),
  ("parseSDL", "5c0f8828856d"),
  ("parser.deeper", "f95cc851b447"),
  ("parser.putBack", "53625e41ee42"),
  ("parser.readArgValue", "88c58bf573bb"),
  ("parser.readArgValues", "cdf8819b1f0b"),
  ("parser.readByte", "17681f2c239b"),
  ("parser.readDesc", "4d773b7bf13a"),
  ("parser.readDirUse", "6e7a61cf90ed"),
  ("parser.readDirUses", "3aef5c6ea839"),
  ("parser.readEscaped", "6e29c300ab39"),
  ("parser.readNumberToken", "f3b19f6d64a1"),
  ("parser.readString", "898da43fe809"),
  ("parser.readToken", "ef9998d985e1"),
  ("parser.readType", "08e7d55e1191"),
  ("parser.readValue", "67b6dc0216a2"),
  ("parser.shallower", "6a32e8f2f49b"),
  ("parser.skipBOM", "3748472419d4"),
  ("parser.skipSpace", "c52c2c490dec"),
  ("sdlParser.readArg", "1fd975e944de"),
  ("sdlParser.readArgs", "673f4fa124af"),
  ("sdlParser.readDirective", "6901232ff5a0"),
  ("sdlParser.readEnum", "6a534ea70ec9"),
  ("sdlParser.readEnumValue", "d7ea323f2858"),
  ("sdlParser.readField", "35797de4a2ff"),
  ("sdlParser.readFields", "89356d25b88c"),
  ("sdlParser.readImplements", "e0b9405f7967"),
  ("sdlParser.readInput", "795d3b71d37d"),
  ("sdlParser.readInputField", "bfb02722136d"),
  ("sdlParser.readInputFields", "f44cbc8f2af0"),
  ("sdlParser.readInterface", "8c9edbb69222"),
  ("sdlParser.readObject", "77fb47c2dc94"),
  ("sdlParser.readScalar", "bb58c591ae15"),
  ("sdlParser.readSchema", "546dc31c30c3"),
  ("sdlParser.readUnion", "1b522b6e5905")
]
end Ggql.Pinned
