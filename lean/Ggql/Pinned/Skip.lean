-- PINNED by bin/pin_tables: copy of Gen/Skip.lean as generated from /repo at dee58c0 — regenerate, do not edit
import Ggql.Model.Skip
namespace Ggql.Pinned
open Ggql.Skip
def skipTable : Table :=
  { skipLit := ⟨.orAssign, false⟩, skipVar := ⟨.orAssign, false⟩, skipBad := ⟨.assign, true, true⟩,
    inclLit := ⟨.orAssign, true⟩, inclVar := ⟨.orAssign, true⟩, inclBad := ⟨.assign, true, true⟩ }
end Ggql.Pinned
