-- PINNED by bin/pin_tables: copy of Gen/Coerce.lean as generated from /repo at dee58c0 — regenerate, do not edit
import Ggql.Model.Coerce
namespace Ggql.Pinned
open Ggql.Coerce
def coerceInInt : Table :=
  { arms := [(.f64, .convCheckedKeep .i32), (.i16, .conv .i32), (.i32, .asIs), (.i64, .convCheckedKeep .i32), (.i8, .conv .i32), (.int, .convCheckedKeep .i32), (.nil, .asIs), (.u16, .conv .i32), (.u32, .convCheckedKeep .i32), (.u64, .convCheckedKeep .i32), (.u8, .conv .i32), (.uint, .convCheckedKeep .i32)],
    dflt := .failNil, formatTime := false }
def coerceOutInt : Table :=
  { arms := [(.f32, .convTrunc .i32), (.f64, .convTrunc .i32), (.i16, .conv .i32), (.i32, .asIs), (.i64, .convCheckedKeep .i32), (.i8, .conv .i32), (.int, .convCheckedKeep .i32), (.nil, .asIs), (.str, .parseInt32Keep), (.u16, .conv .i32), (.u32, .convCheckedKeep .i32), (.u64, .convCheckedKeep .i32), (.u8, .conv .i32), (.uint, .convCheckedKeep .i32)],
    dflt := .failNil, formatTime := false }
def coerceInInt64 : Table :=
  { arms := [(.i32, .asIs), (.i64, .asIs), (.nil, .asIs), (.str, .parseIntKeep .i64)],
    dflt := .failNil, formatTime := false }
def coerceOutInt64 : Table :=
  { arms := [(.f32, .convTrunc .i64), (.f64, .convTrunc .i64), (.i16, .conv .i64), (.i32, .conv .i64), (.i64, .asIs), (.i8, .conv .i64), (.int, .conv .i64), (.nil, .asIs), (.str, .parseIntKeep .i64), (.u16, .conv .i64), (.u32, .conv .i64), (.u64, .convCheckedKeep .i64), (.u8, .conv .i64), (.uint, .convCheckedKeep .i64)],
    dflt := .failNil, formatTime := false }
def coerceInFloat : Table :=
  { arms := [(.f32, .convStrict .f32), (.f64, .convStrict .f32), (.i32, .conv .f32), (.i64, .conv .f32), (.nil, .asIs)],
    dflt := .failNil, formatTime := false }
def coerceOutFloat : Table :=
  { arms := [(.f32, .convStrict .f32), (.f64, .convStrict .f32), (.i16, .conv .f32), (.i32, .conv .f32), (.i64, .conv .f32), (.i8, .conv .f32), (.int, .conv .f32), (.nil, .asIs), (.str, .parseFloatFinite .f32), (.u16, .conv .f32), (.u32, .conv .f32), (.u64, .conv .f32), (.u8, .conv .f32), (.uint, .conv .f32)],
    dflt := .failNil, formatTime := false }
def coerceInFloat64 : Table :=
  { arms := [(.f32, .convStrict .f64), (.f64, .convStrict .f64), (.i32, .conv .f64), (.i64, .conv .f64), (.nil, .asIs), (.str, .parseFloatFinite .f64)],
    dflt := .failNil, formatTime := false }
def coerceOutFloat64 : Table :=
  { arms := [(.f32, .convStrict .f64), (.f64, .convStrict .f64), (.i16, .conv .f64), (.i32, .conv .f64), (.i64, .conv .f64), (.i8, .conv .f64), (.int, .conv .f64), (.nil, .asIs), (.str, .parseFloatFinite .f64), (.u16, .conv .f64), (.u32, .conv .f64), (.u64, .conv .f64), (.u8, .conv .f64), (.uint, .conv .f64)],
    dflt := .failNil, formatTime := false }
def coerceInString : Table :=
  { arms := [(.nil, .asIs), (.str, .asIs)],
    dflt := .failNil, formatTime := false }
def coerceOutString : Table :=
  { arms := [(.bool, .boolStr), (.f32, .fmtFloat 32), (.f64, .fmtFloat 64), (.i16, .fmtInt), (.i32, .fmtInt), (.i64, .fmtInt), (.i8, .fmtInt), (.int, .fmtInt), (.nil, .asIs), (.str, .asIs), (.u16, .fmtInt), (.u32, .fmtInt), (.u64, .fmtUint), (.u8, .fmtInt), (.uint, .fmtUint)],
    dflt := .failNil, formatTime := false }
def coerceInId : Table :=
  { arms := [(.i32, .fmtInt), (.i64, .fmtInt), (.int, .fmtInt), (.nil, .asIs), (.str, .asIs)],
    dflt := .failNil, formatTime := false }
def coerceOutId : Table :=
  { arms := [(.i16, .fmtInt), (.i32, .fmtInt), (.i64, .fmtInt), (.i8, .fmtInt), (.int, .fmtInt), (.nil, .asIs), (.str, .asIs), (.u16, .fmtInt), (.u32, .fmtInt), (.u64, .fmtUint), (.u8, .fmtInt), (.uint, .fmtUint)],
    dflt := .failNil, formatTime := false }
def coerceInBoolean : Table :=
  { arms := [(.bool, .asIs), (.nil, .asIs)],
    dflt := .failNil, formatTime := false }
def coerceOutBoolean : Table :=
  { arms := [(.bool, .asIs), (.f32, .neZero), (.i32, .neZero), (.nil, .asIs), (.str, .parseBoolKeep)],
    dflt := .failNil, formatTime := false }
def coerceInTime : Table :=
  { arms := [(.f64, .timeOfFloatChk), (.i64, .timeOfIntChk), (.nil, .asIs), (.str, .timeParseKeep), (.time, .asIs)],
    dflt := .failNil, formatTime := false }
def coerceOutTime : Table :=
  { arms := [(.f64, .timeOfFloatChk), (.i64, .timeOfIntChk), (.nil, .asIs), (.str, .timeParseKeep), (.time, .asIs)],
    dflt := .failNil, formatTime := true }
/-- `resolve`, leaf branch: on a `CoerceOut` error the response value is set to nil -/
def leafErrNulls : Bool := true
/-- `resolveList`: members of the typed slices ([]string, []int, …) are copied into the response without being resolved -/
def fastSliceCopies : Bool := false
end Ggql.Pinned
