-- PINNED by bin/pin_tables: copy of Gen/MapOrder.lean as generated from /repo at dee58c0 — regenerate, do not edit
namespace Ggql.Pinned
/-- (function, ranged map expression, what the loop body does that can expose the order) -/
def mapRanges : List (String × String × String) :=
  [("DirectiveUse.Write", "dir.Args", "sorted-keys"),
   ("Executable.SetContextRecursive", "ex.Ops", "none"),
   ("Executable.Validate", "ex.Fragments", "sorted-keys"),
   ("Executable.Validate", "ex.Ops", "sorted-keys"),
   ("Executable.validateFragmentCycles", "ex.Fragments", "sorted-keys"),
   ("Executable.write", "ex.Fragments", "sorted-keys"),
   ("Executable.write", "ex.Ops", "sorted-keys"),
   ("Input.CoerceIn", "tv", "none"),
   ("Input.CoerceIn", "tv", "none"),
   ("Root.ParseFS", "fileSet", "append+return"),
   ("Root.ResolveExecutable", "exe.Ops", "break"),
   ("Root.formArgs", "fd.args.dict", "none"),
   ("Root.replaceArgVars", "tv", "sorted-keys"),
   ("Root.validateDirUse", "du.Args", "sorted-keys"),
   ("VerifParseExe", "exe.Ops", "append"),
   ("mergeValue", "ta", "none"),
   ("mergeValue", "tp", "none"),
   ("typeList.dup", "tl.dict", "none"),
   ("writeMap", "m", "none"),
   ("writeMap", "m", "sorted-keys")]
end Ggql.Pinned
