/-
Fuel sufficiency for the SDL scanner model `Model/SdlCF` (C03): with the empty-token guard of D01 in place
(`emptyTokenSpins := false`) `parseSDL` never runs out of fuel, for every byte string and reader ending.
Each loop's progress argument is stated next to it.
-/
import Ggql.Proofs.ExeTotal
import Ggql.Model.SdlCF
namespace Ggql.SdlCF
open Ggql.Scan Ggql.ExeCF

variable (cm : CM)
variable (hnum : ∀ b, isNumStart b = true → cm.isNum b = true)
include hnum

theorem dirLoop_le (p : P) : Le (dirLoop cm p).2 p := readDirs_le cm hnum p

/-- `readArg`: only consumes; an argument read without error cost at least its colon -/
theorem readArg_spec (p : P) : Le (readArg cm p).2 p ∧ ((readArg cm p).1.2 = none → Lt (readArg cm p).2 p) := by
  unfold readArg
  have ld := readString_le cm p
  rcases hd : readDesc cm p with ⟨rd, p0⟩
  have l0 : Le p0 p := by unfold readDesc at hd; rw [hd] at ld; exact ld
  cases rd with
  | some e => exact ⟨l0, fun h => by cases h⟩
  | none =>
    simp only
    rcases ht : readToken cm p0 with ⟨⟨tok, ioe⟩, p1⟩
    have l1 : Le p1 p := by have := readToken_le cm p0; rw [ht] at this; exact this.trans l0
    cases ioe with
    | true => exact ⟨l1, fun h => by cases h⟩
    | false =>
      simp only
      rcases h2 : skipSp cm p1 with ⟨r2, p2⟩
      have l2 : Le p2 p := by have := skipSp_le cm p1; rw [h2] at this; exact this.trans l1
      cases r2 with
      | none => exact ⟨l2, fun h => by cases h⟩
      | some b2 =>
        simp only
        by_cases h58 : b2 = 58
        · have hne : (b2 != 58) = false := by simp [h58]
          simp only [hne, Bool.false_eq_true, if_false]
          have hdk : p2.onDeck = b2 := by
            have := skipSp_deck cm p1 b2 (by rw [h2]) (by rw [h58]; decide); rwa [h2] at this
          have ltr : Lt (reRead p2) p := (reRead_lt p2 (by rw [hdk, h58]; decide)).trans_le l2
          have lty := readType_le cm (reRead p2)
          rcases hty : readType cm (reRead p2).vfuel (reRead p2) with ⟨⟨t, e⟩, p3⟩
          rw [hty] at lty
          have lt3 : Lt p3 p := lty.trans_lt ltr
          cases e with
          | some e => exact ⟨lt3.le, fun h => by cases h⟩
          | none =>
            cases t with
            | none => exact ⟨lt3.le, fun h => by cases h⟩
            | some t =>
              simp only
              rcases h4 : skipSp cm p3 with ⟨r4, p4⟩
              have l4 : Le p4 p3 := by have := skipSp_le cm p3; rwa [h4] at this
              cases r4 with
              | none => exact ⟨(l4.trans_lt lt3).le, fun h => by cases h⟩
              | some b4 =>
                simp only
                have lo := optDefault_le cm hnum b4 p4
                rcases ho : optDefault cm b4 p4 with ⟨re, p5⟩
                rw [ho] at lo
                have lt5 : Lt p5 p := (lo.trans l4).trans_lt lt3
                cases re with
                | some e => exact ⟨lt5.le, fun h => by cases h⟩
                | none =>
                  simp only
                  have := (dirLoop_le cm hnum p5).trans_lt lt5
                  exact ⟨this.le, fun _ => this⟩
        · have hne : (b2 != 58) = true := by simp [h58]
          simp only [hne, if_true]
          exact ⟨l2, fun h => by cases h⟩

theorem argsLoop_spec : ∀ (n : Nat) (p : P) (names : List (List UInt8)), p.mu + 1 ≤ n → Le (argsLoop cm n p names).2 p
  | 0, p, _, h => by omega
  | n + 1, p, names, h => by
    unfold argsLoop
    rcases h0 : skipSp cm p with ⟨r0, p0⟩
    have l0 : Le p0 p := by have := skipSp_le cm p; rwa [h0] at this
    cases r0 with
    | none => exact l0
    | some b0 =>
      simp only
      split
      · exact (reRead_le p0).trans l0
      · split
        · exact l0
        · have ha := readArg_spec cm hnum p0
          rcases hr : readArg cm p0 with ⟨⟨nm, e⟩, p1⟩
          rw [hr] at ha
          cases e with
          | some e => exact ha.1.trans l0
          | none =>
            simp only
            have lt1 : Lt p1 p := (ha.2 rfl).trans_le l0
            split
            · exact lt1.le
            · exact (argsLoop_spec n p1 _ (by have := lt1.2; omega)).trans lt1.le

/-- `readArgs`: only consumes; when a `(` is on deck it is consumed -/
theorem readArgs_spec (p : P) : Le (readArgs cm p).2 p ∧ ((skipSp cm p).1 = some 40 → Lt (readArgs cm p).2 p) := by
  unfold readArgs
  rcases h0 : skipSp cm p with ⟨r0, p0⟩
  have l0 : Le p0 p := by have := skipSp_le cm p; rwa [h0] at this
  cases r0 with
  | none => exact ⟨l0, fun h => by cases h⟩
  | some b0 =>
    simp only
    by_cases h40 : b0 = 40
    · have hne : (b0 != 40) = false := by simp [h40]
      simp only [hne, Bool.false_eq_true, if_false]
      have hdk : p0.onDeck = b0 := by
        have := skipSp_deck cm p b0 (by rw [h0]) (by rw [h40]; decide); rwa [h0] at this
      have ltr : Lt (reRead p0) p := (reRead_lt p0 (by rw [hdk, h40]; decide)).trans_le l0
      have := (argsLoop_spec cm hnum p0.vfuel (reRead p0) [] (by have := vfuel_ok p0; have := (reRead_le p0).2; omega)).trans_lt ltr
      exact ⟨this.le, fun _ => this⟩
    · have hne : (b0 != 40) = true := by simp [h40]
      simp only [hne, if_true]
      exact ⟨l0, fun h => by simp at h; exact absurd h h40⟩

/-- `fieldHead`: only consumes; a non-zero `b` is the byte on deck -/
theorem fieldHead_spec (p : P) :
    Le (fieldHead cm p).2 p ∧ ((fieldHead cm p).1.1.2 ≠ 0 → (fieldHead cm p).2.onDeck = (fieldHead cm p).1.1.2 ∧ Sig cm (fieldHead cm p).1.1.2) := by
  unfold fieldHead
  have ld := readString_le cm p
  rcases hd : readDesc cm p with ⟨rd, p0⟩
  have l0 : Le p0 p := by unfold readDesc at hd; rw [hd] at ld; exact ld
  cases rd with
  | some e => exact ⟨l0, fun h => absurd rfl h⟩
  | none =>
    simp only
    rcases ht : readToken cm p0 with ⟨⟨tok, ioe⟩, p1⟩
    have l1 : Le p1 p := by have := readToken_le cm p0; rw [ht] at this; exact this.trans l0
    cases ioe with
    | true => exact ⟨l1, fun h => absurd rfl h⟩
    | false =>
      simp only
      rcases h2 : skipSp cm p1 with ⟨r2, p2⟩
      have l2 : Le p2 p := by have := skipSp_le cm p1; rw [h2] at this; exact this.trans l1
      cases r2 with
      | none => exact ⟨l2, fun h => absurd rfl h⟩
      | some b2 =>
        refine ⟨l2, fun hb => ?_⟩
        simp only at hb ⊢
        have h1 := skipSp_deck cm p1 b2 (by rw [h2]) hb
        have h3 := skipSp_sig cm p1 b2 (by rw [h2]) hb
        rw [h2] at h1
        exact ⟨h1, h3⟩

/-- `fieldArgs` from a state with `b` on deck: only consumes; a non-zero `b'` handed on is on deck -/
theorem fieldArgs_spec (b : UInt8) (p : P) (hd : p.onDeck = b) (hs : Sig cm b) :
    Le (fieldArgs cm b p).2 p ∧
    ((fieldArgs cm b p).1.2 = none → (fieldArgs cm b p).1.1 ≠ 0 → (fieldArgs cm b p).2.onDeck = (fieldArgs cm b p).1.1) := by
  unfold fieldArgs
  split
  · have la := (readArgs_spec cm hnum p).1
    rcases hr : readArgs cm p with ⟨ra, p1⟩
    rw [hr] at la
    cases ra with
    | some e => exact ⟨la, fun h => by cases h⟩
    | none =>
      simp only
      rcases h2 : skipSp cm p1 with ⟨r2, p2⟩
      have l2 : Le p2 p1 := by have := skipSp_le cm p1; rwa [h2] at this
      cases r2 with
      | none => exact ⟨l2.trans la, fun h => by cases h⟩
      | some b2 =>
        refine ⟨l2.trans la, fun _ hb => ?_⟩
        simp only at hb ⊢
        have := skipSp_deck cm p1 b2 (by rw [h2]) hb; rwa [h2] at this
  · exact ⟨Le.refl p, fun _ _ => hd⟩

/-- `readField`: only consumes; a field that is returned cost at least its colon -/
theorem readField_spec (p : P) :
    Le (readField cm p).2 p ∧ (∀ nm, (readField cm p).1 = (some nm, none) → Lt (readField cm p).2 p) := by
  unfold readField
  have hh := fieldHead_spec cm hnum p
  rcases hf : fieldHead cm p with ⟨⟨⟨tok, b⟩, e⟩, p0⟩
  rw [hf] at hh
  simp only at hh ⊢
  by_cases hb : b = 0
  · simp only [hb, beq_self_eq_true, if_true]; exact ⟨hh.1, fun _ h => by cases h⟩
  · simp only [beq_iff_eq, hb, if_false]
    have hfa := fieldArgs_spec cm hnum b p0 (hh.2 hb).1 (hh.2 hb).2
    rcases hr : fieldArgs cm b p0 with ⟨⟨b', e'⟩, p1⟩
    rw [hr] at hfa
    simp only at hfa
    have l1 : Le p1 p := hfa.1.trans hh.1
    cases e' with
    | some e => exact ⟨l1, fun _ h => by cases h⟩
    | none =>
      simp only
      by_cases h58 : b' = 58
      · have hne : (b' != 58) = false := by simp [h58]
        simp only [hne, Bool.false_eq_true, if_false]
        have hdk : p1.onDeck = b' := hfa.2 rfl (by rw [h58]; decide)
        have ltr : Lt (reRead p1) p := (reRead_lt p1 (by rw [hdk, h58]; decide)).trans_le l1
        have lty := readType_le cm (reRead p1)
        rcases hty : readType cm (reRead p1).vfuel (reRead p1) with ⟨⟨t, e⟩, p2⟩
        rw [hty] at lty
        have lt2 : Lt p2 p := lty.trans_lt ltr
        cases t with
        | none => exact ⟨lt2.le, fun _ h => by cases h⟩
        | some t =>
          cases e with
          | some e => exact ⟨lt2.le, fun _ h => by cases h⟩
          | none =>
            simp only
            have ld := dirLoop_le cm hnum p2
            rcases hdl : dirLoop cm p2 with ⟨rd, p3⟩
            rw [hdl] at ld
            have lt3 : Lt p3 p := ld.trans_lt lt2
            cases rd with
            | some e => exact ⟨lt3.le, fun _ h => by cases h⟩
            | none => exact ⟨lt3.le, fun _ _ => lt3⟩
      · have hne : (b' != 58) = true := by simp [h58]
        simp only [hne, if_true]
        exact ⟨l1, fun _ h => by cases h⟩

theorem readFields_spec : ∀ (n : Nat) (p : P) (names : List (List UInt8)), p.mu + 1 ≤ n → Le (readFields cm n p names).2 p
  | 0, p, _, h => by omega
  | n + 1, p, names, h => by
    unfold readFields
    rcases h0 : skipSp cm p with ⟨r0, p0⟩
    have l0 : Le p0 p := by have := skipSp_le cm p; rwa [h0] at this
    cases r0 with
    | none => exact l0
    | some b0 =>
      simp only
      split
      · exact (reRead_le p0).trans l0
      · split
        · exact l0
        · have hf := readField_spec cm hnum p0
          rcases hr : readField cm p0 with ⟨⟨nm, e⟩, p1⟩
          rw [hr] at hf
          cases e with
          | some e => exact hf.1.trans l0
          | none =>
            cases nm with
            | none => exact hf.1.trans l0
            | some nm =>
              simp only
              have lt1 : Lt p1 p := (hf.2 nm rfl).trans_le l0
              split
              · exact lt1.le
              · exact (readFields_spec n p1 _ (by have := lt1.2; omega)).trans lt1.le


/-! ### input fields -/

theorem inputFieldType_spec (b : UInt8) (p : P) (hd : p.onDeck = b) :
    Le (inputFieldType cm b p).2 p ∧ (b = 58 → Lt (inputFieldType cm b p).2 p) ∧
    (b ≠ 58 → inputFieldType cm b p = (some p.perr, p)) := by
  unfold inputFieldType
  by_cases h58 : b = 58
  · have hne : (b != 58) = false := by simp [h58]
    simp only [hne, Bool.false_eq_true, if_false]
    have ltr : Lt (reRead p) p := reRead_lt p (by rw [hd, h58]; decide)
    have lty := readType_le cm (reRead p)
    rcases hty : readType cm (reRead p).vfuel (reRead p) with ⟨⟨t, e⟩, p1⟩
    rw [hty] at lty
    have lt1 : Lt p1 p := lty.trans_lt ltr
    cases t <;> cases e <;> exact ⟨lt1.le, fun _ => lt1, fun h => absurd h58 h⟩
  · have hne : (b != 58) = true := by simp [h58]
    simp only [hne, if_true]
    exact ⟨Le.refl p, fun h => absurd h h58, fun _ => trivial⟩

omit hnum in
theorem afterType_spec (b : UInt8) (r : Option Err × P) :
    Le (afterType cm b r).2 r.2 ∧ (∀ e, r.1 = some e → afterType cm b r = ((b, some e), r.2)) := by
  unfold afterType
  rcases r with ⟨re, pr⟩
  cases re with
  | some e => exact ⟨Le.refl pr, fun e' h => by simp at h; subst h; rfl⟩
  | none =>
    simp only
    rcases h2 : skipSp cm pr with ⟨r2, p2⟩
    have l2 : Le p2 pr := by have := skipSp_le cm pr; rwa [h2] at this
    cases r2 with
    | none => exact ⟨l2, fun e h => by cases h⟩
    | some b2 => exact ⟨l2, fun e h => by cases h⟩

/-- `readInputField`: only consumes; an input field that is returned cost at least one byte (its colon, or
— on the path where the missing colon is forgotten — the `=` of its default) -/
theorem readInputField_spec (p : P) :
    Le (readInputField cm p).2 p ∧ (∀ nm, (readInputField cm p).1 = (some nm, none) → Lt (readInputField cm p).2 p) := by
  unfold readInputField
  have hh := fieldHead_spec cm hnum p
  rcases hf : fieldHead cm p with ⟨⟨⟨tok, b⟩, e⟩, p0⟩
  rw [hf] at hh
  simp only at hh ⊢
  by_cases hb : b = 0
  · simp only [hb, beq_self_eq_true, if_true]; exact ⟨hh.1, fun _ h => by cases h⟩
  · simp only [beq_iff_eq, hb, if_false]
    have hdk : p0.onDeck = b := (hh.2 hb).1
    have hit := inputFieldType_spec cm hnum b p0 hdk
    have hat := afterType_spec cm b (inputFieldType cm b p0)
    -- the value after `=`, or the error carried so far
    have hdv : Le (inputDefaultVal cm (afterType cm b (inputFieldType cm b p0))).2 p0 ∧
        ((inputDefaultVal cm (afterType cm b (inputFieldType cm b p0))).1 = none →
          Lt (inputDefaultVal cm (afterType cm b (inputFieldType cm b p0))).2 p0) := by
      by_cases h58 : b = 58
      · -- the colon was consumed by inputFieldType
        have lt1 := hit.2.1 h58
        have la := hat.1
        unfold inputDefaultVal
        split
        · have lv := (readValue_spec cm hnum (afterType cm b (inputFieldType cm b p0)).2.vfuel (reRead (afterType cm b (inputFieldType cm b p0)).2)
              (by have := vfuel_ok (afterType cm b (inputFieldType cm b p0)).2
                  have := (reRead_le (afterType cm b (inputFieldType cm b p0)).2).2; omega)).1
          have := (lv.trans ((reRead_le _).trans la)).trans_lt lt1
          exact ⟨this.le, fun _ => this⟩
        · exact ⟨(la.trans_lt lt1).le, fun _ => la.trans_lt lt1⟩
      · -- no colon: the error is carried, unless the byte on deck is `=`
        have heq := hit.2.2 h58
        have hat2 := hat.2 p0.perr (by rw [heq])
        rw [heq] at hat2
        simp only at hat2
        rw [heq, hat2]
        unfold inputDefaultVal
        simp only
        by_cases h61 : b = 61
        · have h61' : (b == 61) = true := by simp [h61]
          simp only [h61', if_true]
          have ltr : Lt (reRead p0) p0 := reRead_lt p0 (by rw [hdk, h61]; decide)
          have lv := (readValue_spec cm hnum p0.vfuel (reRead p0) (by have := vfuel_ok p0; have := ltr.2; omega)).1
          have := lv.trans_lt ltr
          exact ⟨this.le, fun _ => this⟩
        · have h61' : (b == 61) = false := by simp [h61]
          simp only [h61', Bool.false_eq_true, if_false]
          exact ⟨Le.refl p0, fun h => by cases h⟩
    rcases hr : inputDefaultVal cm (afterType cm b (inputFieldType cm b p0)) with ⟨rv, p1⟩
    rw [hr] at hdv
    cases rv with
    | some e => exact ⟨hdv.1.trans hh.1, fun _ h => by cases h⟩
    | none =>
      simp only
      have lt1 : Lt p1 p := (hdv.2 rfl).trans_le hh.1
      have ld := dirLoop_le cm hnum p1
      rcases hdl : dirLoop cm p1 with ⟨rd, p2⟩
      rw [hdl] at ld
      have lt2 : Lt p2 p := ld.trans_lt lt1
      cases rd with
      | some e => exact ⟨lt2.le, fun _ h => by cases h⟩
      | none => exact ⟨lt2.le, fun _ _ => lt2⟩

theorem readInputFields_spec : ∀ (n : Nat) (p : P) (names : List (List UInt8)), p.mu + 1 ≤ n → Le (readInputFields cm n p names).2 p
  | 0, p, _, h => by omega
  | n + 1, p, names, h => by
    unfold readInputFields
    rcases h0 : skipSp cm p with ⟨r0, p0⟩
    have l0 : Le p0 p := by have := skipSp_le cm p; rwa [h0] at this
    cases r0 with
    | none => exact l0
    | some b0 =>
      simp only
      split
      · exact (reRead_le p0).trans l0
      · split
        · exact l0
        · have hf := readInputField_spec cm hnum p0
          rcases hr : readInputField cm p0 with ⟨⟨nm, e⟩, p1⟩
          rw [hr] at hf
          cases e with
          | some e => exact hf.1.trans l0
          | none =>
            cases nm with
            | none => exact hf.1.trans l0
            | some nm =>
              simp only
              have lt1 : Lt p1 p := (hf.2 nm rfl).trans_le l0
              split
              · exact lt1.le
              · exact (readInputFields_spec n p1 _ (by have := lt1.2; omega)).trans lt1.le

/-! ### names, braces, and the type readers -/

omit hnum in
theorem readName_spec (p : P) : Le (readName cm p).2 p ∧ ((readName cm p).1.2 = none → Lt (readName cm p).2 p) := by
  unfold readName
  rcases ht : readToken cm p with ⟨⟨tok, ioe⟩, p1⟩
  have l1 : Le p1 p := by have := readToken_le cm p; rwa [ht] at this
  cases ioe with
  | true => exact ⟨l1, fun h => by cases h⟩
  | false =>
    simp only
    by_cases hte : tok.isEmpty = true
    · simp only [hte, if_true]; exact ⟨l1, fun h => by cases h⟩
    · simp only [hte, Bool.false_eq_true, if_false]
      have := tok_lt cm p tok false p1 ht (by simpa using hte)
      exact ⟨l1, fun _ => this⟩

omit hnum in
theorem expectByte_le (c : UInt8) (p : P) : Le (expectByte cm c p).2 p := by
  unfold expectByte
  rcases h0 : skipSp cm p with ⟨r0, p0⟩
  have l0 : Le p0 p := by have := skipSp_le cm p; rwa [h0] at this
  cases r0 with
  | none => exact (reRead_le p0).trans l0
  | some b => simp only; split <;> exact (reRead_le p0).trans l0

theorem nameDirsBody_le (body : P → Option Err × P) (hbody : ∀ q, Le (body q).2 q) (p : P) :
    Le (nameDirsBody cm body p).2 p := by
  unfold nameDirsBody
  have hn := (readName_spec cm p).1
  rcases hr : readName cm p with ⟨⟨t, e⟩, p1⟩
  rw [hr] at hn
  cases e with
  | some e => exact (reRead_le p1).trans hn
  | none =>
    simp only
    have ld := readDirs_le cm hnum p1
    rcases hd : readDirs cm p1 with ⟨rd, p2⟩
    rw [hd] at ld
    cases rd with
    | some e => exact (reRead_le p2).trans (ld.trans hn)
    | none =>
      simp only
      have le := expectByte_le cm 123 p2
      rcases he : expectByte cm 123 p2 with ⟨re, p3⟩
      rw [he] at le
      cases re with
      | some e => exact le.trans (ld.trans hn)
      | none => exact (hbody p3).trans (le.trans (ld.trans hn))

theorem readInput_le (p : P) : Le (readInput cm p).2 p :=
  nameDirsBody_le cm hnum _ (fun q => readInputFields_spec cm hnum q.vfuel q [] (by have := vfuel_ok q; omega)) p

theorem readInterface_le (p : P) : Le (readInterface cm p).2 p :=
  nameDirsBody_le cm hnum _ (fun q => readFields_spec cm hnum q.vfuel q [] (by have := vfuel_ok q; omega)) p

theorem readScalar_le (p : P) : Le (readScalar cm p).2 p := by
  unfold readScalar
  have hn := (readName_spec cm p).1
  rcases hr : readName cm p with ⟨⟨t, e⟩, p1⟩
  rw [hr] at hn
  cases e with
  | some e => exact hn
  | none => exact (readDirs_le cm hnum p1).trans hn

theorem readSchema_le (p : P) : Le (readSchema cm p).2 p := by
  unfold readSchema
  have ld := readDirs_le cm hnum p
  rcases hd : readDirs cm p with ⟨rd, p1⟩
  rw [hd] at ld
  cases rd with
  | some e => exact (reRead_le p1).trans ld
  | none =>
    simp only
    have le := expectByte_le cm 123 p1
    rcases he : expectByte cm 123 p1 with ⟨re, p2⟩
    rw [he] at le
    cases re with
    | some e => exact le.trans ld
    | none => exact (readFields_spec cm hnum p2.vfuel p2 [] (by have := vfuel_ok p2; omega)).trans (le.trans ld)

theorem readEnumValue_spec (p : P) :
    Le (readEnumValue cm p).2 p ∧ ((readEnumValue cm p).1.2 = none → Lt (readEnumValue cm p).2 p) := by
  unfold readEnumValue
  have ld := readString_le cm p
  rcases hd : readDesc cm p with ⟨rd, p0⟩
  have l0 : Le p0 p := by unfold readDesc at hd; rw [hd] at ld; exact ld
  cases rd with
  | some e => exact ⟨l0, fun h => by cases h⟩
  | none =>
    simp only
    have hn := readName_spec cm p0
    rcases hr : readName cm p0 with ⟨⟨t, e⟩, p1⟩
    rw [hr] at hn
    cases e with
    | some e => exact ⟨hn.1.trans l0, fun h => by cases h⟩
    | none =>
      have lt1 : Lt p1 p := (hn.2 rfl).trans_le l0
      have := (dirLoop_le cm hnum p1).trans_lt lt1
      exact ⟨this.le, fun _ => this⟩

theorem enumLoop_spec : ∀ (n : Nat) (p : P) (names : List (List UInt8)), p.mu + 1 ≤ n → Le (enumLoop cm n p names).2 p
  | 0, p, _, h => by omega
  | n + 1, p, names, h => by
    unfold enumLoop
    rcases h0 : skipSp cm p with ⟨r0, p0⟩
    have l0 : Le p0 p := by have := skipSp_le cm p; rwa [h0] at this
    cases r0 with
    | none => exact l0
    | some b0 =>
      simp only
      split
      · exact (reRead_le p0).trans l0
      · have hf := readEnumValue_spec cm hnum p0
        rcases hr : readEnumValue cm p0 with ⟨⟨nm, e⟩, p1⟩
        rw [hr] at hf
        cases e with
        | some e => exact hf.1.trans l0
        | none =>
          simp only
          have lt1 : Lt p1 p := (hf.2 rfl).trans_le l0
          split
          · exact lt1.le
          · exact (enumLoop_spec n p1 _ (by have := lt1.2; omega)).trans lt1.le

theorem readEnum_le (p : P) : Le (readEnum cm p).2 p :=
  nameDirsBody_le cm hnum _ (fun q => enumLoop_spec cm hnum q.vfuel q [] (by have := vfuel_ok q; omega)) p

/-! ### implements, objects, unions, directives -/

theorem implLoop_spec : ∀ (n : Nat) (p : P) (cnt : Nat), p.mu + 1 ≤ n → Le (implLoop cm n p cnt).2 p
  | 0, p, _, h => by omega
  | n + 1, p, cnt, h => by
    unfold implLoop
    rcases h0 : skipSp cm p with ⟨r0, p0⟩
    have l0 : Le p0 p := by have := skipSp_le cm p; rwa [h0] at this
    cases r0 with
    | none => exact l0
    | some b0 =>
      simp only
      split
      · exact l0
      · have lq : Le (if 0 < cnt then reRead p0 else p0) p := by split; exact (reRead_le p0).trans l0; exact l0
        generalize (if 0 < cnt then reRead p0 else p0) = q at lq ⊢
        have hty := readType_spec cm q.vfuel q (by have := vfuel_ok q; omega)
        rcases hr : readType cm q.vfuel q with ⟨⟨t, e⟩, p1⟩
        rw [hr] at hty
        cases t with
        | none => exact hty.1.trans lq
        | some t =>
          have lt1 : Lt p1 p := (hty.2 t rfl).trans_le lq
          cases e with
          | some e => exact lt1.le
          | none => exact (implLoop_spec n p1 _ (by have := lt1.2; omega)).trans lt1.le

omit hnum in
theorem ampOpt_le (p : P) : Le (ampOpt cm p).2 p := by
  unfold ampOpt
  rcases h0 : skipSp cm p with ⟨r0, p0⟩
  have l0 : Le p0 p := by have := skipSp_le cm p; rwa [h0] at this
  cases r0 with
  | none => exact l0
  | some b => simp only; split; exact (reRead_le p0).trans l0; exact l0

theorem readImplements_le (p : P) : Le (readImplements cm p).2 p := by
  unfold readImplements
  rcases h0 : skipSp cm p with ⟨r0, p0⟩
  have l0 : Le p0 p := by have := skipSp_le cm p; rwa [h0] at this
  cases r0 with
  | none => exact l0
  | some b0 =>
    simp only
    split
    · exact l0
    · rcases ht : readToken cm p0 with ⟨⟨tok, ioe⟩, p1⟩
      have l1 : Le p1 p := by have := readToken_le cm p0; rw [ht] at this; exact this.trans l0
      simp only
      split
      · exact l1
      · split
        · exact l1
        · have la := ampOpt_le cm p1
          rcases ha : ampOpt cm p1 with ⟨ra, p2⟩
          rw [ha] at la
          cases ra with
          | some e => exact la.trans l1
          | none =>
            simp only
            have li := implLoop_spec cm hnum p2.vfuel p2 0 (by have := vfuel_ok p2; omega)
            rcases hi : implLoop cm p2.vfuel p2 0 with ⟨⟨cnt, e⟩, p3⟩
            rw [hi] at li
            have l3 : Le p3 p := li.trans (la.trans l1)
            cases e with
            | some e => exact l3
            | none => simp only; split <;> exact l3

theorem readObject_le (p : P) : Le (readObject cm p).2 p := by
  unfold readObject
  have hn := (readName_spec cm p).1
  rcases hr : readName cm p with ⟨⟨t, e⟩, p1⟩
  rw [hr] at hn
  cases e with
  | some e => exact (reRead_le p1).trans hn
  | none =>
    simp only
    have li := readImplements_le cm hnum p1
    rcases hi : readImplements cm p1 with ⟨ri, p2⟩
    rw [hi] at li
    cases ri with
    | some e => exact (reRead_le p2).trans (li.trans hn)
    | none =>
      simp only
      have ld := readDirs_le cm hnum p2
      rcases hd : readDirs cm p2 with ⟨rd, p3⟩
      rw [hd] at ld
      cases rd with
      | some e => exact (reRead_le p3).trans (ld.trans (li.trans hn))
      | none =>
        simp only
        have le := expectByte_le cm 123 p3
        rcases he : expectByte cm 123 p3 with ⟨re, p4⟩
        rw [he] at le
        have l4 : Le p4 p := le.trans (ld.trans (li.trans hn))
        cases re with
        | some e => exact l4
        | none => exact (readFields_spec cm hnum p4.vfuel p4 [] (by have := vfuel_ok p4; omega)).trans l4

theorem unionLoop_spec : ∀ (n : Nat) (p : P) (cnt : Nat), p.mu + 1 ≤ n → Le (unionLoop cm n p cnt).2 p
  | 0, p, _, h => by omega
  | n + 1, p, cnt, h => by
    unfold unionLoop
    rcases h0 : skipSp cm p with ⟨r0, p0⟩
    have l0 : Le p0 p := by have := skipSp_le cm p; rwa [h0] at this
    cases r0 with
    | none => exact l0
    | some b0 =>
      simp only
      split
      · exact l0
      · have lq : Le (if (b0 == 124) = true then reRead p0 else p0) p := by split; exact (reRead_le p0).trans l0; exact l0
        generalize (if (b0 == 124) = true then reRead p0 else p0) = q at lq ⊢
        have hty := readType_spec cm q.vfuel q (by have := vfuel_ok q; omega)
        rcases hr : readType cm q.vfuel q with ⟨⟨t, e⟩, p1⟩
        rw [hr] at hty
        cases t with
        | none => exact hty.1.trans lq
        | some t =>
          have lt1 : Lt p1 p := (hty.2 t rfl).trans_le lq
          exact (unionLoop_spec n p1 _ (by have := lt1.2; omega)).trans lt1.le

theorem readUnion_le (p : P) : Le (readUnion cm p).2 p := by
  unfold readUnion
  have hn := (readName_spec cm p).1
  rcases hr : readName cm p with ⟨⟨t, e⟩, p1⟩
  rw [hr] at hn
  cases e with
  | some e => exact (reRead_le p1).trans hn
  | none =>
    simp only
    have ld := readDirs_le cm hnum p1
    rcases hd : readDirs cm p1 with ⟨rd, p2⟩
    rw [hd] at ld
    cases rd with
    | some e => exact (reRead_le p2).trans (ld.trans hn)
    | none =>
      simp only
      have le := expectByte_le cm 61 p2
      rcases he : expectByte cm 61 p2 with ⟨re, p3⟩
      rw [he] at le
      have l3 : Le p3 p := le.trans (ld.trans hn)
      cases re with
      | some e => exact l3
      | none => exact (unionLoop_spec cm hnum p3.vfuel p3 0 (by have := vfuel_ok p3; omega)).trans l3

omit hnum in
theorem onLoop_spec : ∀ (n : Nat) (p : P) (cnt : Nat), p.mu + 1 ≤ n → Le (onLoop cm n p cnt).2 p
  | 0, p, _, h => by omega
  | n + 1, p, cnt, h => by
    unfold onLoop
    rcases h0 : skipSp cm p with ⟨r0, p0⟩
    have l0 : Le p0 p := by have := skipSp_le cm p; rwa [h0] at this
    cases r0 with
    | none => exact l0
    | some b0 =>
      simp only
      split
      · exact l0
      · have lq : Le (if (b0 == 124) = true then reRead p0 else p0) p := by split; exact (reRead_le p0).trans l0; exact l0
        generalize (if (b0 == 124) = true then reRead p0 else p0) = q at lq ⊢
        rcases ht : readToken cm q with ⟨⟨tok, ioe⟩, p1⟩
        have l1 : Le p1 q := by have := readToken_le cm q; rwa [ht] at this
        cases ioe with
        | true => exact l1.trans lq
        | false =>
          simp only
          by_cases hte : tok.isEmpty = true
          · simp only [hte, if_true]; exact l1.trans lq
          · simp only [hte, Bool.false_eq_true, if_false]
            have lt1 : Lt p1 p := (tok_lt cm q tok false p1 ht (by simpa using hte)).trans_le lq
            exact (onLoop_spec n p1 _ (by have := lt1.2; omega)).trans lt1.le

theorem readDirective_le (p : P) : Le (readDirective cm p).2 p := by
  unfold readDirective
  rcases h0 : skipSp cm p with ⟨r0, p0⟩
  have l0 : Le p0 p := by have := skipSp_le cm p; rwa [h0] at this
  cases r0 with
  | none => exact l0
  | some b0 =>
    simp only
    split
    · exact l0
    · have hn := (readName_spec cm (reRead p0)).1
      rcases hr : readName cm (reRead p0) with ⟨⟨t, e⟩, p1⟩
      rw [hr] at hn
      have l1 : Le p1 p := hn.trans ((reRead_le p0).trans l0)
      cases e with
      | some e => exact l1
      | none =>
        simp only
        have la := (readArgs_spec cm hnum p1).1
        rcases ha : readArgs cm p1 with ⟨ra, p2⟩
        rw [ha] at la
        cases ra with
        | some e => exact la.trans l1
        | none =>
          simp only
          rcases ht : readToken cm p2 with ⟨⟨tok, ioe⟩, p3⟩
          have l3 : Le p3 p := by have := readToken_le cm p2; rw [ht] at this; exact this.trans (la.trans l1)
          cases ioe with
          | true => exact l3
          | false =>
            simp only
            split
            · exact l3
            · exact (onLoop_spec cm p3.vfuel p3 0 (by have := vfuel_ok p3; omega)).trans l3

theorem readDef_le (kw : List UInt8) (p : P) (r : (String × (List UInt8 × Option Err)) × P)
    (h : readDef cm kw p = some r) : Le r.2 p := by
  unfold readDef at h
  split at h
  · simp at h; rw [← h]; exact readDirective_le cm hnum p
  · split at h
    · simp at h; rw [← h]; exact readEnum_le cm hnum p
    · split at h
      · simp at h; rw [← h]; exact readInput_le cm hnum p
      · split at h
        · simp at h; rw [← h]; exact readInterface_le cm hnum p
        · split at h
          · simp at h; rw [← h]; exact readScalar_le cm hnum p
          · split at h
            · simp at h; rw [← h]; exact readSchema_le cm hnum p
            · split at h
              · simp at h; rw [← h]; exact readObject_le cm hnum p
              · split at h
                · simp at h; rw [← h]; exact readUnion_le cm hnum p
                · simp at h

/-! ### the top level -/

/-- the repaired member: `emptyTokenSpins := false` -/
def fixedCfg : Cfg := { emptyTokenSpins := false }

/-- what one pass from label `TOP` leaves behind, with the guard of D01 in place.  Only consumes; and when
it reports no error: a definition that was read cost at least its keyword, and when none was read either
something was consumed, or the end of the input has been seen, or a quote (a description) is on deck. -/
theorem top_spec : ∀ (n : Nat) (p : P) (x : Bool), p.oof = false → p.mu + 1 ≤ n →
    Le (top cm fixedCfg n p x).2 p ∧
    ((top cm fixedCfg n p x).1.2 = none →
      (∀ d, (top cm fixedCfg n p x).1.1.1 = some d → Lt (top cm fixedCfg n p x).2 p) ∧
      ((top cm fixedCfg n p x).1.1.1 = none →
        Lt (top cm fixedCfg n p x).2 p ∨ (top cm fixedCfg n p x).2.eof = true ∨ (top cm fixedCfg n p x).2.onDeck = 34))
  | 0, p, x, ho, h => by omega
  | n + 1, p, x, ho, h => by
    unfold top
    rcases ht : readToken cm p with ⟨⟨tok, ioe⟩, p1⟩
    have l1 : Le p1 p := by have := readToken_le cm p; rwa [ht] at this
    cases ioe with
    | true => exact ⟨l1, fun h => by cases h⟩
    | false =>
      simp only
      by_cases hte : tok.isEmpty = true
      · simp only [hte, if_true]
        have htn : tok = [] := by simpa using hte
        subst htn
        have hemp := readToken_empty cm p ho p1 ht
        split
        · exact ⟨l1, fun h => by cases h⟩
        · rename_i hg
          refine ⟨l1, fun _ => ?_⟩
          simp only
          constructor
          · intro d h; cases h
          · intro _
            rcases hemp with ⟨_, hcase⟩ | hsig
            · rcases hcase with he | hlt
              · right; left; exact he
              · left; exact ⟨l1.1, hlt⟩
            · -- a significant byte on deck that passed the guard is a quote
              right; right
              simp only [fixedCfg, Bool.not_false, Bool.true_and, Bool.and_eq_true, bne_iff_ne, ne_eq, not_and, Decidable.not_not] at hg
              by_cases h0 : p1.onDeck = 0
              · exact absurd h0 hsig.1
              · exact hg h0
      · simp only [hte, Bool.false_eq_true, if_false]
        have lt1 : Lt p1 p := tok_lt cm p tok false p1 ht (by simpa using hte)
        have fin : ∀ (r : ((Option Def × Bool) × Option Err) × P), Le r.2 p1 →
            Le r.2 p ∧ (r.1.2 = none → (∀ d, r.1.1.1 = some d → Lt r.2 p) ∧ (r.1.1.1 = none → Lt r.2 p ∨ r.2.eof = true ∨ r.2.onDeck = 34)) :=
          fun r hr => ⟨hr.trans l1, fun _ => ⟨fun _ _ => hr.trans_lt lt1, fun _ => Or.inl (hr.trans_lt lt1)⟩⟩
        split
        · have ih := top_spec n p1 true (by rw [lt1.1]; exact ho) (by have := lt1.2; omega)
          exact fin _ ih.1
        · rcases hd : readDef cm tok p1 with _ | ⟨⟨kind, ⟨name, e⟩⟩, p2⟩
          · exact fin _ (Le.refl p1)
          · have l2 := readDef_le cm hnum tok p1 _ hd
            cases e with
            | some e => exact fin (((none, x), some e), p2) l2
            | none => exact fin (((some ⟨kind, name, x⟩, false), none), p2) l2

/-- the measure of `parseSDL`'s main loop: twice the bytes and end-of-input still ahead, plus one unless a
quote is on deck (an iteration may stop in front of a description without consuming; the next one reads it) -/
def psi (p : P) : Nat := 2 * nu p + (if p.onDeck == 34 then 0 else 1)

variable (hq : cm.isSpace 34 = false)
include hq

omit hnum in
theorem deck_quote (p : P) (h : p.onDeck = 34) : skipSp cm p = (some 34, p) :=
  skipSp_idem cm p 34 h ⟨by decide, hq, by decide⟩

theorem mainLoop_spec : ∀ (n : Nat) (p : P) (x : Bool) (acc : List Def), p.oof = false → psi p + 1 ≤ n →
    (mainLoop cm fixedCfg n p x acc).2.oof = false
  | 0, p, x, acc, ho, h => by omega
  | n + 1, p, x, acc, ho, h => by
    unfold mainLoop
    by_cases he : p.eof = true
    · simp [he, ho]
    · simp only [he, Bool.false_eq_true, if_false]
      have hnu : nu p = p.mu + 1 := by simp [nu, he]
      rcases h0 : skipSp cm p with ⟨r0, p0⟩
      have l0 : Le p0 p := by have := skipSp_le cm p; rwa [h0] at this
      have ho0 : p0.oof = false := by rw [l0.1]; exact ho
      cases r0 with
      | none => exact ho0
      | some b0 =>
        simp only
        -- the description, when the byte on deck is a quote
        have hdesc : Le (descOpt cm b0 p0).2 p0 ∧ (b0 = 34 → Lt (descOpt cm b0 p0).2 p0) := by
          unfold descOpt
          by_cases h34 : b0 = 34
          · have hd : p0.onDeck = 34 := by
              have := skipSp_deck cm p b0 (by rw [h0]) (by rw [h34]; decide); rw [h0] at this; rw [this, h34]
            simp only [h34, beq_self_eq_true, if_true]
            have := readString_lt_of_quote cm p0 hd
            exact ⟨this.le, fun _ => this⟩
          · have : (b0 == 34) = false := by simp [h34]
            simp only [this, Bool.false_eq_true, if_false]
            exact ⟨Le.refl p0, fun h => absurd h h34⟩
        rcases hdo : descOpt cm b0 p0 with ⟨rd, p1⟩
        rw [hdo] at hdesc
        have l1 : Le p1 p := hdesc.1.trans l0
        have ho1 : p1.oof = false := by rw [l1.1]; exact ho
        cases rd with
        | some e => exact ho1
        | none =>
          simp only
          have hts := top_spec cm hnum p1.vfuel p1 x ho1 (by have := vfuel_ok p1; omega)
          rcases htp : top cm fixedCfg p1.vfuel p1 x with ⟨⟨⟨d, x'⟩, e⟩, p2⟩
          rw [htp] at hts
          simp only at hts
          have l2 : Le p2 p := hts.1.trans l1
          have ho2 : p2.oof = false := by rw [l2.1]; exact ho
          cases e with
          | some e => exact ho2
          | none =>
            -- psi went down: the fuel that is left suffices
            have hpsi : psi p2 + 1 ≤ n := by
              have hnu2 : nu p2 ≤ p2.mu + 1 := by unfold nu; split <;> omega
              have hps2 : psi p2 ≤ 2 * nu p2 + 1 := by unfold psi; split <;> omega
              by_cases h34 : b0 = 34
              · -- the description was consumed
                have h1 : p1.mu < p0.mu := (hdesc.2 h34).2
                have h2 : p2.mu ≤ p1.mu := hts.1.2
                have h3 : p0.mu ≤ p.mu := l0.2
                have hpp : 2 * nu p ≤ psi p := by unfold psi; omega
                omega
              · -- no quote was on deck at the start of this iteration
                have hpd : p.onDeck ≠ 34 := by
                  intro hd
                  rw [deck_quote cm hq p hd] at h0
                  simp at h0; exact h34 h0.1.symm
                have hpp : psi p = 2 * nu p + 1 := by
                  unfold psi
                  have : (p.onDeck == 34) = false := by simp [hpd]
                  simp [this]
                cases d with
                | some d =>
                  have h1 : p2.mu < p1.mu := ((hts.2 rfl).1 d rfl).2
                  have h2 : p1.mu ≤ p.mu := l1.2
                  omega
                | none =>
                  rcases (hts.2 rfl).2 rfl with hlt | heof | hdk
                  · have h1 : p2.mu < p1.mu := hlt.2
                    have h2 : p1.mu ≤ p.mu := l1.2
                    omega
                  · have h0 : nu p2 = p2.mu := by simp [nu, heof]
                    have h1 : p2.mu ≤ p1.mu := hts.1.2
                    have h2 : p1.mu ≤ p.mu := l1.2
                    omega
                  · have h0 : psi p2 = 2 * nu p2 := by unfold psi; simp [hdk]
                    have h1 : p2.mu ≤ p1.mu := hts.1.2
                    have h2 : p1.mu ≤ p.mu := l1.2
                    omega
            cases d with
            | none => exact mainLoop_spec n p2 x' acc ho2 hpsi
            | some d => exact mainLoop_spec n p2 x' (d :: acc) ho2 hpsi

/-- **`parseSDL` returns** (with the empty-token guard in place): for every byte string and reader ending
the model never runs out of the fuel `2·|input| + 8` -/
theorem parseSDL_total (bytes : List UInt8) (tail : Tail) :
    (parseSDL cm fixedCfg (sdlFuel bytes) bytes tail).2.oof = false := by
  unfold parseSDL
  simp only
  have hb := ExeCF.skipBOM_bound bytes tail
  rcases hsb : skipBOM (P.init bytes tail) with ⟨e, p⟩
  rw [hsb] at hb
  cases e with
  | some e => exact hb.1
  | none =>
    simp only
    apply mainLoop_spec cm hnum hq _ p false [] hb.1
    have : nu p ≤ p.mu + 1 := by unfold nu; split <;> omega
    have : psi p ≤ 2 * nu p + 1 := by unfold psi; split <;> omega
    have h2 : p.mu ≤ bytes.length := hb.2
    unfold sdlFuel; omega

end Ggql.SdlCF
