/-
Character-level facts about the standard table (the one the source defines; `Props/C18Inst.lean`
proves the regenerated table equal to it), lifted from finite checks to all characters.
-/
import Ggql.Model.ValueText
namespace Ggql.ValueText

def stdCharMap : List Nat := [46, 46, 46, 46, 46, 46, 46, 46, 46, 119, 119, 46, 46, 119, 46, 46, 46, 46, 46, 46, 46, 46, 46, 46, 46, 46, 46, 46, 46, 46, 46, 46, 119, 112, 46, 46, 46, 46, 46, 46, 112, 112, 46, 46, 119, 46, 112, 46, 116, 116, 116, 116, 116, 116, 116, 116, 116, 116, 112, 46, 46, 112, 46, 46, 112, 116, 116, 116, 116, 116, 116, 116, 116, 116, 116, 116, 116, 116, 116, 116, 116, 116, 116, 116, 116, 116, 116, 116, 116, 116, 116, 112, 46, 112, 46, 116, 46, 116, 116, 116, 116, 116, 116, 116, 116, 116, 116, 116, 116, 116, 116, 116, 116, 116, 116, 116, 116, 116, 116, 116, 116, 116, 116, 112, 112, 112, 46, 46, 46, 46, 46, 46, 46, 46, 46, 46, 46, 46, 46, 46, 46, 46, 46, 46, 46, 46, 46, 46, 46, 46, 46, 46, 46, 46, 46, 46, 46, 46, 46, 46, 46, 46, 46, 46, 46, 46, 46, 46, 46, 46, 46, 46, 46, 46, 46, 46, 46, 46, 46, 46, 46, 46, 46, 46, 46, 46, 46, 46, 46, 46, 46, 46, 46, 46, 46, 46, 46, 46, 46, 46, 46, 46, 46, 46, 46, 46, 46, 46, 46, 46, 46, 46, 46, 46, 46, 46, 46, 46, 46, 46, 46, 46, 46, 46, 46, 46, 46, 46, 46, 46, 46, 46, 46, 46, 46, 46, 46, 46, 46, 46, 46, 46, 46, 46, 46, 46, 46, 46, 46, 46, 46, 46, 46, 46, 46, 46]
def stdNumMap : List Nat := [46, 46, 46, 46, 46, 46, 46, 46, 46, 46, 46, 46, 46, 46, 46, 46, 46, 46, 46, 46, 46, 46, 46, 46, 46, 46, 46, 46, 46, 46, 46, 46, 46, 46, 46, 46, 46, 46, 46, 46, 46, 46, 46, 110, 46, 110, 110, 46, 110, 110, 110, 110, 110, 110, 110, 110, 110, 110, 46, 46, 46, 46, 46, 46, 46, 46, 46, 46, 46, 110, 46, 46, 46, 46, 46, 46, 46, 46, 46, 46, 46, 46, 46, 46, 46, 46, 46, 46, 46, 46, 46, 46, 46, 46, 46, 46, 46, 46, 46, 46, 46, 110, 46, 46, 46, 46, 46, 46, 46, 46, 46, 46, 46, 46, 46, 46, 46, 46, 46, 46, 46, 46, 46, 46, 46, 46, 46, 46, 46, 46, 46, 46, 46, 46, 46, 46, 46, 46, 46, 46, 46, 46, 46, 46, 46, 46, 46, 46, 46, 46, 46, 46, 46, 46, 46, 46, 46, 46, 46, 46, 46, 46, 46, 46, 46, 46, 46, 46, 46, 46, 46, 46, 46, 46, 46, 46, 46, 46, 46, 46, 46, 46, 46, 46, 46, 46, 46, 46, 46, 46, 46, 46, 46, 46, 46, 46, 46, 46, 46, 46, 46, 46, 46, 46, 46, 46, 46, 46, 46, 46, 46, 46, 46, 46, 46, 46, 46, 46, 46, 46, 46, 46, 46, 46, 46, 46, 46, 46, 46, 46, 46, 46, 46, 46, 46, 46, 46, 46, 46, 46, 46, 46, 46, 46, 46, 46, 46, 46, 46, 46, 46, 46, 46, 46, 46, 46]

/-- the tables of the pinned source -/
def stdTbl : Tbl :=
  { charMap := stdCharMap, numMap := stdNumMap,
    spaceClass := 119, tokenClass := 116, numClass := 110,
    escapes := [(8, [92, 98]), (12, [92, 102]), (10, [92, 110]), (13, [92, 114]), (9, [92, 116]), (92, [92, 92]), (34, [92, 34])],
    unescapes := [(34, 34), (92, 92), (47, 47), (98, 8), (102, 12), (110, 10), (114, 13), (116, 9)],
    terminators := [0, 32, 9, 10, 13, 12, 44, 125, 93, 123, 91, 41],
    jsonKeysEscaped := true }

/-- a property that holds of the 128 ASCII characters and of every character ≥ 128 holds of all -/
theorem forall_char_of_ascii (P : Char → Prop) (hlo : ∀ n, n < 128 → P (Char.ofNat n)) (hhi : ∀ c : Char, 128 ≤ c.toNat → P c) :
    ∀ c, P c := by
  intro c
  by_cases h : c.toNat < 128
  · have := hlo c.toNat h; rwa [Char.ofNat_toNat] at this
  · exact hhi c (by omega)

theorem isSpace_hi (c : Char) (h : 128 ≤ c.toNat) : isSpace stdTbl c = false := by
  unfold isSpace CharTables.classAt
  rw [if_neg (by omega)]; rfl

theorem isToken_hi (c : Char) (h : 128 ≤ c.toNat) : isToken stdTbl c = false := by
  unfold isToken CharTables.classAt
  rw [if_neg (by omega)]; rfl

theorem isNum_hi (c : Char) (h : 128 ≤ c.toNat) : isNum stdTbl c = false := by
  unfold isNum CharTables.classAt
  rw [if_neg (by omega)]; rfl

/-- lift a Boolean implication checked on ASCII -/
theorem lift_bool (p : Char → Bool) (hlo : (List.range 128).all (fun n => p (Char.ofNat n)) = true)
    (hhi : ∀ c : Char, 128 ≤ c.toNat → p c = true) : ∀ c, p c = true := by
  apply forall_char_of_ascii
  · intro n hn; exact List.all_eq_true.mp hlo n (List.mem_range.mpr hn)
  · exact hhi

theorem token_not_space (c : Char) (h : isToken stdTbl c = true) : isSpace stdTbl c = false := by
  have := lift_bool (fun c => !isToken stdTbl c || !isSpace stdTbl c) (by decide +kernel)
    (fun c hc => by simp [isToken_hi c hc]) c
  simpa [h] using this

theorem token_not_num_sep (c : Char) (h : isToken stdTbl c = true) : c ≠ '"' ∧ c ≠ '#' ∧ c ≠ '[' ∧ c ≠ '{' ∧ c ≠ '$' ∧ c ≠ '-' := by
  have := lift_bool (fun c => !isToken stdTbl c || (c != '"' && c != '#' && c != '[' && c != '{' && c != '$' && c != '-'))
    (by decide +kernel) (fun c hc => by simp [isToken_hi c hc]) c
  simp only [h, Bool.not_true, Bool.false_or, Bool.and_eq_true, bne_iff_ne, ne_eq] at this
  obtain ⟨⟨⟨⟨⟨h1, h2⟩, h3⟩, h4⟩, h5⟩, h6⟩ := this
  exact ⟨h1, h2, h3, h4, h5, h6⟩

end Ggql.ValueText
