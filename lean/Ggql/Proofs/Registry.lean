/-
Helper lemmas for C19/C20: the index-by-index reverse scan is `filter`; phase 2 of a publish removes
exactly the failed subscriptions once each.
-/
import Ggql.Model.Registry
namespace Ggql.Registry

theorem scanRev_spec (m : Sub → Bool) (r suf c : List Sub) (n : Nat) :
    scanRev m r.length (r.reverse ++ suf) c n =
      (r.reverse.filter (fun s => !m s) ++ suf, c ++ r.filter m, n + (r.filter m).length) := by
  induction r generalizing suf c n with
  | nil => simp [scanRev]
  | cons x r ih =>
    have hidx : (r.reverse ++ x :: suf)[r.length]? = some x := by
      rw [List.getElem?_append_right (by simp)]; simp
    simp only [List.length_cons, List.reverse_cons, List.append_assoc, List.singleton_append, scanRev, hidx]
    by_cases hm : m x = true
    · have herase : (r.reverse ++ x :: suf).eraseIdx r.length = r.reverse ++ suf := by
        rw [List.eraseIdx_append_of_length_le (by simp)]; simp
      simp only [hm, if_true, herase, ih]
      simp [List.filter_append, List.filter_cons, hm]; omega
    · have hm' : m x = false := by simpa using hm
      simp only [hm', Bool.false_eq_true, if_false, ih]
      simp [List.filter_append, List.filter_cons, hm']

/-- the Go reverse scan over the whole slice -/
theorem scanRev_full (m : Sub → Bool) (l : List Sub) :
    scanRev m l.length l [] 0 = (l.filter (fun s => !m s), (l.filter m).reverse, (l.filter m).length) := by
  have := scanRev_spec m l.reverse [] [] 0
  simp only [List.length_reverse, List.reverse_reverse, List.append_nil, List.nil_append, Nat.zero_add] at this
  rw [this]; simp [List.filter_reverse]

theorem filter_beq_of_nodup (l : List Sub) (f : Sub) (hn : l.Nodup) (hf : f ∈ l) :
    l.filter (fun s => s == f) = [f] := by
  induction l with
  | nil => simp at hf
  | cons x xs ih =>
    rw [List.nodup_cons] at hn
    by_cases hx : x = f
    · subst hx
      have : xs.filter (fun s => s == x) = [] := by
        simp only [List.filter_eq_nil_iff, beq_iff_eq]
        intro a ha hax; subst hax; exact hn.1 ha
      simp [List.filter_cons, this]
    · have hf' : f ∈ xs := by
        cases hf with
        | head => exact absurd rfl hx
        | tail _ h => exact h
      have : (x == f) = false := by simpa using hx
      simp [List.filter_cons, this, ih hn.2 hf']

theorem reap_spec (reg failed : List Sub) (acc : List Sub) (hn : reg.Nodup) (hfn : failed.Nodup)
    (hsub : ∀ f ∈ failed, f ∈ reg) :
    failed.foldl (fun (a : List Sub × List Sub) f =>
      (a.1.filter (fun s => !(s == f)), a.2 ++ (a.1.filter (fun s => s == f)).reverse)) (reg, acc)
      = (reg.filter (fun s => !failed.contains s), acc ++ failed) := by
  induction failed generalizing reg acc with
  | nil =>
    simp only [List.foldl_nil, List.contains_nil, Bool.not_false, List.append_nil, Prod.mk.injEq, and_true]
    exact (List.filter_eq_self.mpr (fun _ _ => rfl)).symm
  | cons f fs ih =>
    rw [List.nodup_cons] at hfn
    simp only [List.foldl_cons]
    have hf : f ∈ reg := hsub f (List.mem_cons_self ..)
    rw [filter_beq_of_nodup reg f hn hf]
    have hn' : (reg.filter (fun s => !(s == f))).Nodup := hn.filter _
    have hsub' : ∀ g ∈ fs, g ∈ reg.filter (fun s => !(s == f)) := by
      intro g hg
      refine List.mem_filter.mpr ⟨hsub g (List.mem_cons_of_mem _ hg), ?_⟩
      have : g ≠ f := fun h => hfn.1 (h ▸ hg)
      simpa using this
    have := ih (reg.filter (fun s => !(s == f))) (acc ++ [f]) hn' hfn.2 hsub'
    simp only [List.reverse_cons, List.reverse_nil, List.nil_append] at *
    rw [this]
    simp only [List.filter_filter, List.append_assoc, List.singleton_append, Prod.mk.injEq, and_true]
    apply List.filter_congr
    intro s _
    simp only [List.contains_cons, Bool.not_or, Bool.and_comm]

theorem reap_eq (reg failed : List Sub) (hn : reg.Nodup) (hfn : failed.Nodup) (hsub : ∀ f ∈ failed, f ∈ reg) :
    reap reg failed = (reg.filter (fun s => !failed.contains s), failed) := by
  have := reap_spec reg failed [] hn hfn hsub
  simp only [List.nil_append] at this
  unfold reap
  rw [← this]
  congr 1
  funext a f
  simp only [scanRev_full]

theorem nodup_of_ids_nodup (l : List Sub) (h : (l.map (·.id)).Nodup) : l.Nodup :=
  by
  induction l with
  | nil => simp
  | cons x xs ih =>
    simp only [List.map_cons, List.nodup_cons, List.mem_map] at h ⊢
    exact ⟨fun hx => h.1 ⟨x, hx, rfl⟩, ih h.2⟩

end Ggql.Registry
