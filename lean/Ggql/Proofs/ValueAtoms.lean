/-
Atom layer of C18: strings in context, integers, tokens, white space.
-/
import Ggql.Proofs.ValueString
namespace Ggql.ValueText

/-! ### generic list facts -/

theorem takeWhile_append_stop {α} (p : α → Bool) (xs k : List α) (hx : ∀ x ∈ xs, p x = true)
    (hk : ∀ c r, k = c :: r → p c = false) : (xs ++ k).takeWhile p = xs ∧ (xs ++ k).dropWhile p = k := by
  induction xs with
  | nil =>
    cases k with
    | nil => simp
    | cons c r => simp [List.takeWhile_cons, List.dropWhile_cons, hk c r rfl]
  | cons x xs ih =>
    have hx' := hx x (List.mem_cons_self ..)
    have := ih (fun y hy => hx y (List.mem_cons_of_mem _ hy))
    simp [List.takeWhile_cons, List.dropWhile_cons, hx', this.1, this.2]

/-! ### strings -/

theorem escapeChar_ne_nil (c : Char) : escapeChar stdTbl c ≠ [] := by
  rw [escapeChar_std]; repeat' split
  all_goals simp

theorem escapeChar_head_ne_quote (c : Char) : ∀ x r, escapeChar stdTbl c = x :: r → x ≠ '"' := by
  intro x r h
  rw [escapeChar_std] at h
  repeat' split at h
  all_goals (simp only [List.cons.injEq] at h)
  all_goals first
    | (obtain ⟨rfl, _⟩ := h; decide)
    | (obtain ⟨rfl, _⟩ := h; intro hc; subst hc; exact absurd (by decide : ('"' : Char).toNat = 34) ‹¬('"' : Char).toNat = 34›)

theorem flatMap_escape_length (s : List Char) : s.length ≤ (s.flatMap (escapeChar stdTbl)).length := by
  induction s with
  | nil => simp
  | cons c s ih =>
    simp only [List.flatMap_cons, List.length_append, List.length_cons]
    have : 1 ≤ (escapeChar stdTbl c).length := by
      cases h : escapeChar stdTbl c with
      | nil => exact absurd h (escapeChar_ne_nil c)
      | cons _ _ => simp
    omega

theorem readString_open (x : Char) (rest : List Char) (hx : x ≠ '"') :
    readString stdTbl ('"' :: x :: rest) = readStrBody stdTbl ((x :: rest).length + 1) (x :: rest) [] := by
  unfold readString
  split
  · rename_i heq; simp only [List.cons.injEq] at heq; exact absurd heq.2.1 hx
  · rename_i heq; simp only [List.cons.injEq] at heq; exact absurd heq.2.1 hx
  · rename_i r _ _ heq; injection heq with _ h2; subst h2; rfl
  · rename_i h; exact absurd rfl (h _)

/-- **readString ∘ writeString = id**, in any context that does not continue with a quote -/
theorem readString_roundtrip (s k : List Char) (hk : ∀ r, k ≠ '"' :: r) :
    readString stdTbl (writeString stdTbl s true ++ k) = some (s, k) := by
  simp only [writeString, if_true, List.cons_append, List.append_assoc, List.singleton_append]
  cases s with
  | nil =>
    simp only [List.flatMap_nil, List.nil_append]
    cases k with
    | nil => simp [readString]
    | cons c r =>
      have : c ≠ '"' := fun h => hk r (by rw [h])
      simp [readString, this]
  | cons c s =>
    simp only [List.flatMap_cons, List.append_assoc]
    cases he : escapeChar stdTbl c with
    | nil => exact absurd he (escapeChar_ne_nil c)
    | cons x r =>
      have hx : x ≠ '"' := escapeChar_head_ne_quote c x r he
      simp only [List.cons_append]
      have hbody := readStrBody_roundtrip (c :: s) k [] ((x :: (r ++ (s.flatMap (escapeChar stdTbl) ++ '"' :: k))).length + 1) (by
        have := flatMap_escape_length s
        simp only [List.length_cons, List.length_append]; omega)
      simp only [List.flatMap_cons, he, List.cons_append, List.append_assoc, List.reverse_nil, List.nil_append] at hbody
      simp only [List.nil_append]
      rw [readString_open x _ hx]
      exact hbody

/-! ### integers -/

theorem digit_char_val (d : Nat) (h : d < 10) : (Char.ofNat (48 + d)).toNat - 48 = d ∧ isDigit (Char.ofNat (48 + d)) = true := by
  have : (List.range 10).all (fun d => (Char.ofNat (48 + d)).toNat - 48 == d && isDigit (Char.ofNat (48 + d))) = true := by decide
  have := List.all_eq_true.mp this d (List.mem_range.mpr h)
  simpa using this

theorem digitsVal_append (xs : List Char) (c : Char) : digitsVal (xs ++ [c]) = digitsVal xs * 10 + (c.toNat - 48) := by
  simp [digitsVal, List.foldl_append]

theorem natDigits_spec (fuel n : Nat) (h : n < fuel) :
    digitsVal (natDigits fuel n) = n ∧ (natDigits fuel n).all isDigit = true ∧ natDigits fuel n ≠ [] := by
  induction fuel generalizing n with
  | zero => omega
  | succ f ih =>
    unfold natDigits
    by_cases h10 : n < 10
    · simp only [h10, if_true]
      have := digit_char_val n h10
      simp [digitsVal, this.1, this.2]
    · simp only [h10, if_false]
      have hlt : n / 10 < f := by omega
      obtain ⟨h1, h2, _⟩ := ih (n / 10) hlt
      have hd := digit_char_val (n % 10) (by omega)
      refine ⟨?_, ?_, by simp⟩
      · rw [digitsVal_append, h1, hd.1]; omega
      · simp [List.all_append, h2, hd.2]

theorem splitSign_digit (c : Char) (r : List Char) (hc : isDigit c = true) : splitSign (c :: r) = (false, c :: r) := by
  have h1 : c ≠ '-' := by intro h; subst h; simp [isDigit] at hc
  have h2 : c ≠ '+' := by intro h; subst h; simp [isDigit] at hc
  unfold splitSign
  split
  · rename_i heq; simp only [List.cons.injEq] at heq; exact absurd heq.1 h1
  · rename_i heq; simp only [List.cons.injEq] at heq; exact absurd heq.1 h2
  · rfl

/-- `ParseInt(FormatInt(n)) = n` for every int64 -/
theorem parseInt64_intText (n : Int) (h1 : -9223372036854775808 ≤ n) (h2 : n < 9223372036854775808) :
    parseInt64 (intText n) = some n := by
  obtain ⟨hv, hall, hne⟩ := natDigits_spec (n.natAbs + 1) n.natAbs (by omega)
  have hemp : (natDigits (n.natAbs + 1) n.natAbs).isEmpty = false := by
    cases h : natDigits (n.natAbs + 1) n.natAbs with
    | nil => exact absurd h hne
    | cons _ _ => rfl
  unfold intText
  by_cases hneg : n < 0
  · simp only [hneg, if_true, parseInt64, splitSign]
    simp only [hemp, hall, Bool.not_true, Bool.or_self, Bool.false_eq_true, if_false, hv, if_true]
    have hn : -((n.natAbs : Nat) : Int) = n := by omega
    simp only [hn]
    simp [h1, h2]
  · simp only [hneg, if_false]
    cases hd : natDigits (n.natAbs + 1) n.natAbs with
    | nil => exact absurd hd hne
    | cons c r =>
      have hc : isDigit c = true := by
        have := hall; rw [hd] at this; simp only [List.all_cons, Bool.and_eq_true] at this; exact this.1
      unfold parseInt64
      rw [splitSign_digit c r hc, ← hd]
      simp only [hemp, hall, Bool.not_true, Bool.or_self, Bool.false_eq_true, if_false, hv]
      have hn : ((n.natAbs : Nat) : Int) = n := by omega
      simp only [hn]
      simp [h1, h2]

theorem digit_isNum : ∀ c, isDigit c = true → isNum stdTbl c = true := by
  intro c h
  have := lift_bool (fun c => !isDigit c || isNum stdTbl c) (by decide +kernel)
    (fun c hc => by
      have : isDigit c = false := by
        simp only [isDigit, Bool.and_eq_false_iff, decide_eq_false_iff_not]
        right; intro hle
        have : c.toNat ≤ ('9' : Char).toNat := hle
        have h9 : ('9' : Char).toNat = 57 := by decide
        omega
      simp [this]) c
  simpa [h] using this

theorem intText_all_num (n : Int) : (intText n).all (isNum stdTbl) = true := by
  obtain ⟨_, hall, _⟩ := natDigits_spec (n.natAbs + 1) n.natAbs (by omega)
  have hd : (natDigits (n.natAbs + 1) n.natAbs).all (isNum stdTbl) = true := by
    rw [List.all_eq_true] at hall ⊢
    intro c hc; exact digit_isNum c (hall c hc)
  unfold intText
  split
  · simp only [List.all_cons, hd, Bool.and_true]; decide +kernel
  · exact hd

theorem intText_head (n : Int) : ∃ c r, intText n = c :: r ∧ (c = '-' ∨ isDigit c = true) := by
  obtain ⟨_, hall, hne⟩ := natDigits_spec (n.natAbs + 1) n.natAbs (by omega)
  unfold intText
  split
  · exact ⟨'-', _, rfl, Or.inl rfl⟩
  · cases hd : natDigits (n.natAbs + 1) n.natAbs with
    | nil => exact absurd hd hne
    | cons c r =>
      rw [hd] at hall; simp only [List.all_cons, Bool.and_eq_true] at hall
      exact ⟨c, r, rfl, Or.inr hall.1⟩

end Ggql.ValueText
