/-
Fuel sufficiency for the executable-document scanner model `Model/ExeCF` (C03): `parseExe` never runs out of
fuel, for every byte string and every reader ending.
-/
import Ggql.Proofs.ScanTotal
import Ggql.Model.ExeCF
namespace Ggql.ExeCF
open Ggql.Scan Ggql.SdlCF

variable (cm : CM) (cfg : Cfg)

/-! ### what a zero from `skipSpace` means: the end of the input was reached, or a NUL byte was consumed -/

theorem readByte_zero (p : P) (h : (readByte p).1 = some 0) : (readByte p).2.eof = true ∨ (readByte p).2.mu < p.mu := by
  by_cases hd : p.onDeck = 0
  · by_cases he : p.eof = true
    · left; simp [readByte, hd, he]
    · cases hr : p.rest with
      | nil =>
        left
        cases ht : p.tail <;> simp [readByte, hd, he, hr, ht] at h ⊢
      | cons b r =>
        by_cases hc : (r.isEmpty && p.tail == Tail.eofLast) = true
        · left; simp [readByte, hd, he, hr, hc, P.lastByte]
        · right
          simp [readByte, hd, he, hr, hc, P.mu]
  · exfalso
    simp [readByte, hd] at h

theorem skipComment_zero : ∀ (n : Nat) (p : P), (skipComment n p).1 = some 0 →
    (skipComment n p).2.oof = true ∨ (skipComment n p).2.eof = true ∨ (skipComment n p).2.mu < p.mu
  | 0, p, h => by simp [skipComment] at h
  | n + 1, p, h => by
    unfold skipComment at h ⊢
    rcases hr : readByte p with ⟨r, p'⟩
    rw [hr] at h
    have hm := readByte_mu_le p; rw [hr] at hm; simp at hm
    cases r with
    | none => simp at h
    | some b =>
      simp only at h ⊢
      by_cases hb : b = 0
      · simp only [hb, beq_self_eq_true, if_true] at h ⊢
        have := readByte_zero p (by rw [hr, hb]); rw [hr] at this
        right; exact this
      · simp only [beq_iff_eq, hb, if_false] at h ⊢
        by_cases h10 : b = 10
        · simp [h10] at h
        · simp only [h10, if_false] at h ⊢
          rcases skipComment_zero n p' h with h1 | h1 | h1
          · left; exact h1
          · right; left; exact h1
          · right; right; omega

theorem skipSpace_zero : ∀ (n : Nat) (p : P), (skipSpace cm n p).1 = some 0 →
    (skipSpace cm n p).2.oof = true ∨ (skipSpace cm n p).2.eof = true ∨ (skipSpace cm n p).2.mu < p.mu
  | 0, p, h => by simp [skipSpace] at h
  | n + 1, p, h => by
    unfold skipSpace at h ⊢
    rcases hr : readByte p with ⟨r, p'⟩
    rw [hr] at h
    have hm := readByte_mu_le p; rw [hr] at hm; simp at hm
    cases r with
    | none => simp at h
    | some b =>
      simp only at h ⊢
      by_cases hb : b = 0
      · simp only [hb, beq_self_eq_true, if_true] at h ⊢
        have := readByte_zero p (by rw [hr, hb]); rw [hr] at this
        right; exact this
      · simp only [beq_iff_eq, hb, if_false] at h ⊢
        by_cases hs : cm.isSpace b = true
        · simp only [hs, if_true] at h ⊢
          rcases skipSpace_zero n p' h with h1 | h1 | h1
          · left; exact h1
          · right; left; exact h1
          · right; right; omega
        · simp only [hs, Bool.false_eq_true, if_false] at h ⊢
          by_cases h35 : b = 35
          · simp only [h35, if_true] at h ⊢
            rcases hk : skipComment n p' with ⟨r2, p2⟩
            rw [hk] at h
            have hcm := skipComment_spec n p'
            cases r2 with
            | none => simp at h
            | some b' =>
              simp only at h ⊢
              by_cases hb' : b' = 0
              · simp only [hb', beq_self_eq_true, if_true] at h ⊢
                have := skipComment_zero n p' (by rw [hk, hb']); rw [hk] at this
                simp only at this
                rcases this with h1 | h1 | h1
                · left; exact h1
                · right; left; exact h1
                · right; right; omega
              · simp only [beq_iff_eq, hb', if_false] at h ⊢
                -- the comment loop consumed at least the newline it returned
                have hle : p2.mu ≤ p'.mu := by
                  by_cases hfu : p'.mu < n
                  · have := (hcm hfu).2.1; rw [hk] at this; exact this
                  · -- not enough fuel for the lemma: fall back on monotonicity of readByte, proved inside skipComment
                    have : ∀ (m : Nat) (q : P), (skipComment m q).2.mu ≤ q.mu := by
                      intro m
                      induction m with
                      | zero => intro q; simp [skipComment, P.outOfFuel, P.mu]
                      | succ k ih =>
                        intro q
                        unfold skipComment
                        rcases hq : readByte q with ⟨rq, q'⟩
                        have hmq := readByte_mu_le q; rw [hq] at hmq; simp at hmq
                        cases rq with
                        | none => exact hmq
                        | some c =>
                          simp only
                          split
                          · exact hmq
                          · split
                            · exact hmq
                            · exact Nat.le_trans (ih q') hmq
                    have := this n p'; rw [hk] at this; exact this
                rcases skipSpace_zero n p2 h with h1 | h1 | h1
                · left; exact h1
                · right; left; exact h1
                · right; right; have hc := readByte_consumes p b hb (by rw [hr]); rw [hr] at hc; simp at hc; omega
          · simp only [h35, if_false] at h; simp at h; exact absurd h hb

/-- the measure of the top-level loops: bytes still to consume, plus one while the end of input has not been seen -/
def nu (p : P) : Nat := p.mu + (if p.eof then 0 else 1)

theorem skipSp_zero (p : P) (ho : p.oof = false) (h : (skipSp cm p).1 = some 0) :
    (skipSp cm p).2.eof = true ∨ (skipSp cm p).2.mu < p.mu := by
  have := skipSpace_zero cm p.sfuel p h
  have hoo := (skipSp_spec cm p).1
  rcases this with h1 | h1 | h1
  · unfold skipSp at hoo; rw [h1, ho] at hoo; cases hoo
  · left; exact h1
  · right; exact h1


theorem tok_lt (p : P) (tok : List UInt8) (ioe : Bool) (p1 : P) (ht : readToken cm p = ((tok, ioe), p1))
    (hne : tok.isEmpty = false) : Lt p1 p := by
  have hts := readToken_spec cm p; rw [ht] at hts; simp only at hts
  have hlen : 0 < tok.length := by
    cases tok with
    | nil => simp at hne
    | cons _ _ => simp
  exact ⟨hts.1, by omega⟩

variable (hnum : ∀ b, isNumStart b = true → cm.isNum b = true)
include hnum

@[simp] theorem frags_mu (p : P) (f : List (List UInt8 × Bool)) : ({ p with frags := f } : P).mu = p.mu := rfl
@[simp] theorem frags_oof (p : P) (f : List (List UInt8 × Bool)) : ({ p with frags := f } : P).oof = p.oof := rfl

/-- `readVarDef`: only consumes, and consumes the variable name when it reports no error -/
theorem readVarDef_spec (p : P) :
    Le (readVarDef cm cfg p).2 p ∧ ((readVarDef cm cfg p).1 = none → Lt (readVarDef cm cfg p).2 p) := by
  unfold readVarDef
  rcases ht : readToken cm p with ⟨⟨tok, ioe⟩, p1⟩
  have l1 : Le p1 p := by have := readToken_le cm p; rwa [ht] at this
  cases ioe with
  | true => exact ⟨l1, fun h => by cases h⟩
  | false =>
    simp only
    by_cases hte : tok.isEmpty = true
    · simp only [hte, if_true]; exact ⟨l1, fun h => by cases h⟩
    · simp only [hte, Bool.false_eq_true, if_false]
      have lt1 : Lt p1 p := tok_lt cm p tok false p1 ht (by simpa using hte)
      rcases h2 : skipSp cm p1 with ⟨r2, p2⟩
      have l2 : Le p2 p1 := by have := skipSp_le cm p1; rwa [h2] at this
      cases r2 with
      | none => exact ⟨l2.trans l1, fun h => by cases h⟩
      | some b2 =>
        simp only
        split
        · exact ⟨l2.trans l1, fun h => by cases h⟩
        · have lty := (readType_spec cm (reRead p2).vfuel (reRead p2) (by have := vfuel_ok (reRead p2); omega)).1
          rcases hty : readType cm (reRead p2).vfuel (reRead p2) with ⟨⟨t, e⟩, p3⟩
          rw [hty] at lty
          have lt3 : Lt p3 p := (lty.trans ((reRead_le p2).trans l2)).trans_lt lt1
          cases e with
          | some e => exact ⟨lt3.le, fun h => by cases h⟩
          | none =>
            simp only
            split
            · exact ⟨lt3.le, fun h => by cases h⟩
            · rcases h4 : skipSp cm p3 with ⟨r4, p4⟩
              have l4 : Le p4 p3 := by have := skipSp_le cm p3; rwa [h4] at this
              cases r4 with
              | none => exact ⟨l4.trans lt3.le, fun h => by cases h⟩
              | some b4 =>
                simp only
                have lo := optDefault_le cm hnum b4 p4
                rcases ho : optDefault cm b4 p4 with ⟨re, pr⟩
                rw [ho] at lo
                cases re with
                | some e => exact ⟨lo.trans (l4.trans lt3.le), fun h => by cases h⟩
                | none =>
                  have := ((readDirs_le cm hnum pr).trans (lo.trans l4)).trans_lt lt3
                  exact ⟨this.le, fun _ => this⟩

theorem varLoop_spec : ∀ (n : Nat) (p : P), p.mu + 1 ≤ n → Le (varLoop cm cfg n p).2 p
  | 0, p, h => by omega
  | n + 1, p, h => by
    unfold varLoop
    rcases h0 : skipSp cm p with ⟨r0, p0⟩
    have l0 : Le p0 p := by have := skipSp_le cm p; rwa [h0] at this
    cases r0 with
    | none => exact l0
    | some b0 =>
      simp only
      split
      · exact l0
      · split
        · exact (reRead_le p0).trans l0
        · split
          · exact l0
          · have hv := readVarDef_spec cm cfg hnum (reRead p0)
            rcases hr : readVarDef cm cfg (reRead p0) with ⟨rv, p1⟩
            rw [hr] at hv
            cases rv with
            | some e => exact hv.1.trans ((reRead_le p0).trans l0)
            | none =>
              simp only
              have lt1 : Lt p1 p := (hv.2 rfl).trans_le ((reRead_le p0).trans l0)
              exact (varLoop_spec n p1 (by have := lt1.2; omega)).trans lt1.le

theorem readVarDefs_le (p : P) : Le (readVarDefs cm cfg p).2 p := by
  unfold readVarDefs
  rcases h0 : skipSp cm p with ⟨r0, p0⟩
  have l0 : Le p0 p := by have := skipSp_le cm p; rwa [h0] at this
  cases r0 with
  | none => exact l0
  | some b0 =>
    simp only
    split
    · exact ((varLoop_spec cm cfg hnum p0.vfuel (reRead p0) (by have := vfuel_ok p0; have := (reRead_le p0).2; omega)).trans (reRead_le p0)).trans l0
    · exact l0

theorem readFragRef_le (tok : List UInt8) (p : P) : Le (readFragRef cm tok p).2 p := by
  unfold readFragRef
  split
  · exact readDirs_le cm hnum p
  · exact (readDirs_le cm hnum _).trans ⟨rfl, Nat.le_refl _⟩


omit hnum in
theorem aliasTail_le (b : UInt8) (p : P) : Le (aliasTail cm b p).2 p := by
  unfold aliasTail
  split
  · rcases ht : readToken cm (reRead p) with ⟨⟨tok, ioe⟩, p1⟩
    have l1 : Le p1 (reRead p) := by have := readToken_le cm (reRead p); rwa [ht] at this
    cases ioe <;> exact l1.trans (reRead_le p)
  · exact Le.refl p

omit hnum in
theorem readDot_le (acc : Option Err × P) : Le (readDot acc).2 acc.2 := by
  unfold readDot
  rcases acc with ⟨e, q⟩
  cases e with
  | some e => exact Le.refl q
  | none =>
    simp only
    rcases hq : readByte q with ⟨rq, q'⟩
    have lq : Le q' q := by have := readByte_le q; rwa [hq] at this
    cases rq with
    | none => exact lq
    | some c => simp only; split <;> exact lq

omit hnum in
/-- a dot that was read without error cost exactly one byte -/
theorem readDot_consumes (e : Option Err) (q : P) (e' : Option Err) (q' : P) (h : readDot (e, q) = (e', q')) (he' : e' = none) :
    e = none ∧ q'.mu + 1 = q.mu := by
  unfold readDot at h
  cases e with
  | some e => subst he'; simp at h
  | none =>
    simp only at h
    rcases hq : readByte q with ⟨rq, q1⟩
    rw [hq] at h
    cases rq with
    | none => subst he'; simp at h
    | some c =>
      simp only at h
      by_cases hc : c = 46
      · have hne : (c != 46) = false := by simp [hc]
        simp only [hne, Bool.false_eq_true, if_false] at h
        have hq' : q1 = q' := by simpa using congrArg Prod.snd h
        have := readByte_consumes q c (by rw [hc]; decide) (by rw [hq])
        rw [hq] at this; simp at this
        exact ⟨rfl, by rw [← hq']; exact this⟩
      · have hne : (c != 46) = true := by simp [hc]
        simp only [hne, if_true] at h
        subst he'; simp at h

mutual
theorem readSelectionSet_spec : ∀ (n : Nat) (p : P), 2 * p.mu + 4 ≤ n →
    Le (readSelectionSet cm n p).2 p ∧ ((skipSp cm p).1 = some 123 → Lt (readSelectionSet cm n p).2 p)
  | 0, p, h => by omega
  | n + 1, p, h => by
    unfold readSelectionSet
    rcases h0 : skipSp cm p with ⟨r0, p0⟩
    have l0 : Le p0 p := by have := skipSp_le cm p; rwa [h0] at this
    cases r0 with
    | none => exact ⟨(reRead_le p0).trans l0, fun h => by cases h⟩
    | some b0 =>
      simp only
      by_cases h123 : b0 = 123
      · have hne : (b0 != 123) = false := by simp [h123]
        simp only [hne, Bool.false_eq_true, if_false]
        have hd : p0.onDeck = b0 := by
          have := skipSp_deck cm p b0 (by rw [h0]) (by rw [h123]; decide); rwa [h0] at this
        have ltr : Lt (reRead p0) p := (reRead_lt p0 (by rw [hd, h123]; decide)).trans_le l0
        by_cases htd : tooDeep cm (reRead p0) = true
        · simp only [htd, if_true]; exact ⟨ltr.le, fun _ => ltr⟩
        simp only [htd, Bool.false_eq_true, if_false]
        have hfu : 2 * (reRead p0).enter.mu + 4 ≤ n := by have := ltr.2; simp; omega
        have ih := selLoop_spec n (reRead p0).enter 0 hfu
        have : Lt (selLoop cm n (reRead p0).enter 0).2.leave p :=
          Le.trans_lt ((leave_le _).trans (ih.trans (enter_le _))) ltr
        exact ⟨this.le, fun _ => this⟩
      · have hne : (b0 != 123) = true := by simp [h123]
        simp only [hne, if_true]
        exact ⟨l0, fun h => by simp at h; exact absurd h h123⟩

theorem selLoop_spec : ∀ (n : Nat) (p : P) (cnt : Nat), 2 * p.mu + 4 ≤ n → Le (selLoop cm n p cnt).2 p
  | 0, p, cnt, h => by omega
  | n + 1, p, cnt, h => by
    unfold selLoop
    rcases h0 : skipSp cm p with ⟨r0, p0⟩
    have l0 : Le p0 p := by have := skipSp_le cm p; rwa [h0] at this
    cases r0 with
    | none => exact l0
    | some b0 =>
      simp only
      by_cases hb : b0 = 0
      · simp [hb]; exact l0
      · have hd : p0.onDeck = b0 := by have := skipSp_deck cm p b0 (by rw [h0]) hb; rwa [h0] at this
        simp only [beq_iff_eq, hb, if_false]
        split
        · exact (reRead_le p0).trans l0
        · have hfu : 2 * p0.mu + 3 ≤ n := by have := l0.2; omega
          split
          · rename_i h46
            have ih := readFragment_spec n p0 hfu
            rcases hr : readFragment cm n p0 with ⟨rf, p1⟩
            rw [hr] at ih
            cases rf with
            | some e => exact ih.1.trans l0
            | none =>
              simp only
              have lt1 : Lt p1 p0 := ih.2 rfl
              exact (selLoop_spec n p1 (cnt + 1) (by have := lt1.2; have := l0.2; omega)).trans (lt1.le.trans l0)
          · have ih := readField_spec n p0 hfu
            rcases hr : readField cm n p0 with ⟨rf, p1⟩
            rw [hr] at ih
            cases rf with
            | some e => exact ih.1.trans l0
            | none =>
              simp only
              have lt1 : Lt p1 p0 := ih.2 rfl
              exact (selLoop_spec n p1 (cnt + 1) (by have := lt1.2; have := l0.2; omega)).trans (lt1.le.trans l0)

theorem readField_spec : ∀ (n : Nat) (p : P), 2 * p.mu + 3 ≤ n →
    Le (readField cm n p).2 p ∧ ((readField cm n p).1 = none → Lt (readField cm n p).2 p)
  | 0, p, h => by omega
  | n + 1, p, h => by
    unfold readField
    rcases ht : readToken cm p with ⟨⟨tok, ioe⟩, p1⟩
    have l1 : Le p1 p := by have := readToken_le cm p; rwa [ht] at this
    cases ioe with
    | true => exact ⟨l1, fun h => by cases h⟩
    | false =>
      simp only
      by_cases hte : tok.isEmpty = true
      · simp only [hte, if_true]; exact ⟨l1, fun h => by cases h⟩
      · simp only [hte, Bool.false_eq_true, if_false]
        have lt1 : Lt p1 p := tok_lt cm p tok false p1 ht (by simpa using hte)
        rcases h2 : skipSp cm p1 with ⟨r2, p2⟩
        have l2 : Le p2 p1 := by have := skipSp_le cm p1; rwa [h2] at this
        cases r2 with
        | none => exact ⟨l2.trans l1, fun h => by cases h⟩
        | some b2 =>
          simp only
          have la := aliasTail_le cm b2 p2
          rcases ha : aliasTail cm b2 p2 with ⟨ra, p3⟩
          rw [ha] at la
          have lt3 : Lt p3 p := (la.trans l2).trans_lt lt1
          cases ra with
          | some e => exact ⟨lt3.le, fun h => by cases h⟩
          | none =>
            simp only
            have lav := readArgValues_le cm hnum p3
            rcases hav : readArgValues cm p3 with ⟨rv, p4⟩
            rw [hav] at lav
            have lt4 : Lt p4 p := lav.trans_lt lt3
            cases rv with
            | some e => exact ⟨lt4.le, fun h => by cases h⟩
            | none =>
              simp only
              have ld := readDirs_le cm hnum p4
              rcases hdd : readDirs cm p4 with ⟨rd, p5⟩
              rw [hdd] at ld
              have lt5 : Lt p5 p := ld.trans_lt lt4
              cases rd with
              | some e => exact ⟨lt5.le, fun h => by cases h⟩
              | none =>
                simp only
                have ih := readSelectionSet_spec n p5 (by have := lt5.2; omega)
                have : Lt (readSelectionSet cm n p5).2 p := ih.1.trans_lt lt5
                exact ⟨this.le, fun _ => this⟩

theorem readInline_spec : ∀ (n : Nat) (p : P), 2 * p.mu + 5 ≤ n → Le (readInline cm n p).2 p
  | 0, p, h => by omega
  | n + 1, p, h => by
    unfold readInline
    have ld := readDirs_le cm hnum p
    rcases hdd : readDirs cm p with ⟨rd, p1⟩
    rw [hdd] at ld
    cases rd with
    | some e => exact ld
    | none =>
      simp only
      simp only at ld
      exact (readSelectionSet_spec n p1 (by have := ld.2; omega)).1.trans ld

theorem readFragment_spec : ∀ (n : Nat) (p : P), 2 * p.mu + 3 ≤ n →
    Le (readFragment cm n p).2 p ∧ ((readFragment cm n p).1 = none → Lt (readFragment cm n p).2 p)
  | 0, p, h => by omega
  | n + 1, p, h => by
    unfold readFragment
    have ld1 := readDot_le (none, p)
    have ld2 := readDot_le (readDot (none, p))
    have ld3 := readDot_le (readDot (readDot (none, p)))
    rcases hd1 : readDot (none, p) with ⟨e1, q1⟩
    rw [hd1] at ld1 ld2 ld3
    rcases hd2 : readDot (e1, q1) with ⟨e2, q2⟩
    rw [hd2] at ld2 ld3
    rcases hd3 : readDot (e2, q2) with ⟨e3, q3⟩
    rw [hd3] at ld3
    simp only at ld1 ld2 ld3
    have l3 : Le q3 p := ld3.trans (ld2.trans ld1)
    cases e3 with
    | some e => exact ⟨l3, fun h => by cases h⟩
    | none =>
      simp only
      -- three dots, three bytes
      have c3 := readDot_consumes e2 q2 none q3 hd3 rfl
      have c2 := readDot_consumes e1 q1 e2 q2 hd2 c3.1
      have c1 := readDot_consumes none p e1 q1 hd1 c2.1
      have hmu3 : q3.mu + 3 = p.mu := by omega
      have lt3 : Lt q3 p := ⟨l3.1, by omega⟩
      rcases ht : readToken cm q3 with ⟨⟨tok, ioe⟩, p1⟩
      have l1 : Le p1 q3 := by have := readToken_le cm q3; rwa [ht] at this
      have fin : ∀ (r : Option Err × P), Le r.2 p1 → Le r.2 p ∧ (r.1 = none → Lt r.2 p) :=
        fun r hr => ⟨hr.trans (l1.trans l3), fun _ => (hr.trans l1).trans_lt lt3⟩
      have hfu : ∀ q : P, Le q p1 → 2 * q.mu + 5 ≤ n := by
        intro q hq; have := hq.2; have := l1.2; omega
      cases ioe with
      | true => exact fin (some ioErr, p1) (Le.refl p1)
      | false =>
        simp only
        split
        · rcases hty : readType cm p1.vfuel p1 with ⟨⟨t, e⟩, p2⟩
          have lty := readType_le cm p1; rw [hty] at lty
          cases e with
          | some e => exact fin (some e, p2) lty
          | none =>
            have hin := (readInline_spec n p2 (hfu p2 lty)).trans lty
            cases t with
            | none => exact fin _ hin
            | some t =>
              cases t <;> dsimp only <;>
                first
                | exact fin _ hin
                | exact fin (some _, p2) lty
                | (split <;> first | exact fin _ hin | exact fin (some _, p2) lty)
        · split
          · exact fin _ (readInline_spec n p1 (hfu p1 (Le.refl p1)))
          · exact fin _ (readFragRef_le cm hnum tok p1)
end

theorem readOp_le (fuel : Nat) (p : P) (hf : 2 * p.mu + 4 ≤ fuel) : Le (readOp cm cfg fuel p).2 p := by
  unfold readOp
  simp only
  rcases h0 : skipSp cm p with ⟨r0, p0⟩
  have l0 : Le p0 p := by have := skipSp_le cm p; rwa [h0] at this
  cases r0 with
  | none => exact l0
  | some b0 =>
    simp only
    rcases ht : readToken cm p0 with ⟨⟨tok, ioe⟩, p1⟩
    have l1 : Le p1 p := by have := readToken_le cm p0; rw [ht] at this; exact this.trans l0
    cases ioe with
    | true => exact l1
    | false =>
      simp only
      have lv := readVarDefs_le cm cfg hnum p1
      rcases hv : readVarDefs cm cfg p1 with ⟨rv, p2⟩
      rw [hv] at lv
      cases rv with
      | some e => exact lv.trans l1
      | none =>
        simp only
        have ld := readDirs_le cm hnum p2
        rcases hd : readDirs cm p2 with ⟨rd, p3⟩
        rw [hd] at ld
        have l3 : Le p3 p := ld.trans (lv.trans l1)
        cases rd with
        | some e => exact l3
        | none =>
          simp only
          exact (readSelectionSet_spec cm hnum fuel p3 (by have := l3.2; omega)).1.trans l3

theorem readFragmentDef_le (fuel : Nat) (p : P) (hf : 2 * p.mu + 4 ≤ fuel) : Le (readFragmentDef cm cfg fuel p).2 p := by
  unfold readFragmentDef
  rcases h0 : skipSp cm p with ⟨r0, p0⟩
  have l0 : Le p0 p := by have := skipSp_le cm p; rwa [h0] at this
  cases r0 with
  | none => exact l0
  | some b0 =>
    simp only
    rcases ht : readToken cm p0 with ⟨⟨tok, ioe⟩, p1⟩
    have l1 : Le p1 p := by have := readToken_le cm p0; rw [ht] at this; exact this.trans l0
    cases ioe with
    | true => exact l1
    | false =>
      simp only
      rcases h2 : skipSp cm p1 with ⟨r2, p2⟩
      have l2 : Le p2 p := by have := skipSp_le cm p1; rw [h2] at this; exact this.trans l1
      cases r2 with
      | none => exact l2
      | some b2 =>
        simp only
        rcases ht2 : readToken cm p2 with ⟨⟨tok2, ioe2⟩, p3⟩
        have l3 : Le p3 p := by have := readToken_le cm p2; rw [ht2] at this; exact this.trans l2
        simp only
        split
        · exact l3
        · have lty := readType_le cm p3
          rcases hty : readType cm p3.vfuel p3 with ⟨⟨t, e⟩, p4⟩
          rw [hty] at lty
          cases e with
          | some e => exact lty.trans l3
          | none =>
            simp only
            have ld := readDirs_le cm hnum p4
            rcases hd : readDirs cm p4 with ⟨rd, p5⟩
            rw [hd] at ld
            have l5 : Le p5 p := ld.trans (lty.trans l3)
            cases rd with
            | some e => exact l5
            | none =>
              simp only
              exact (readSelectionSet_spec cm hnum fuel p5 (by have := l5.2; omega)).1.trans l5

omit hnum in
/-- an empty token without a reader error: either `skipSpace` hit a zero (end of input seen, or a NUL byte
consumed) and nothing is on deck, or a significant non-token byte is on deck -/
theorem readToken_empty (p : P) (ho : p.oof = false) (p1 : P) (h : readToken cm p = (([], false), p1)) :
    (p1.onDeck = 0 ∧ (p1.eof = true ∨ p1.mu < p.mu)) ∨ Sig cm p1.onDeck := by
  unfold readToken at h
  have hs := skipSp_spec cm p
  have hz := skipSp_zero cm p ho
  rcases h0 : skipSp cm p with ⟨r0, p0⟩
  rw [h0] at h hs hz
  cases r0 with
  | none => simp at h
  | some b =>
    simp only at h
    by_cases hb : b = 0
    · simp only [hb, beq_self_eq_true, if_true] at h
      have hp : p0 = p1 := by simpa using congrArg Prod.snd h
      subst hp
      left
      exact ⟨hs.2.2.2 (by rw [hb]), hz (by rw [hb])⟩
    · simp only [beq_iff_eq, hb, if_false] at h
      have hd : p0.onDeck = b := (hs.2.2.1 b rfl hb).1
      have hsig : Sig cm b := ⟨hb, (hs.2.2.1 b rfl hb).2.1, (hs.2.2.1 b rfl hb).2.2⟩
      by_cases htk : cm.isToken b = true
      · have := (classLoop_first cm.isToken p0 b hd hb htk).2
        rw [h] at this; simp at this
      · rw [classLoop_none cm.isToken p0 b hd hb (by simpa using htk)] at h
        have hp : p0 = p1 := by simpa using congrArg Prod.snd h
        subst hp
        right; rw [hd]; exact hsig

omit hnum in
theorem skipSp_at_eof (p : P) (he : p.eof = true) (hd : p.onDeck = 0) : skipSp cm p = (some 0, p) := by
  unfold skipSp P.sfuel
  show skipSpace cm (p.rest.length + 2 + 1) p = _
  unfold skipSpace
  have : readByte p = (some 0, p) := by simp [readByte, hd, he]
  rw [this]; simp

omit hnum in
theorem readSelectionSet_at_eof (m : Nat) (p : P) (he : p.eof = true) (hd : p.onDeck = 0) :
    readSelectionSet cm (m + 1) p = ((0, none), p) := by
  unfold readSelectionSet
  rw [skipSp_at_eof cm p he hd]
  simp

omit hnum in
theorem isOpWord_ne (t : List UInt8) (h : isOpWord t = true) : t.isEmpty = false := by
  cases t with
  | nil => simp [isOpWord, kw_query, kw_mutation, kw_subscription] at h
  | cons _ _ => rfl

theorem mainLoop_spec : ∀ (n : Nat) (p : P) (ops : List (List UInt8)), p.oof = false → nu p + 1 ≤ n →
    (mainLoop cm cfg n p ops).2.oof = false
  | 0, p, ops, ho, h => by omega
  | n + 1, p, ops, ho, h => by
    unfold mainLoop
    by_cases he : p.eof = true
    · simp [he, ho]
    · simp only [he, Bool.false_eq_true, if_false]
      have hnu : nu p = p.mu + 1 := by simp [nu, he]
      rcases h0 : skipSp cm p with ⟨r0, p0⟩
      have l0 : Le p0 p := by have := skipSp_le cm p; rwa [h0] at this
      have ho0 : p0.oof = false := by rw [l0.1]; exact ho
      cases r0 with
      | none => exact ho0
      | some b0 =>
        simp only
        rcases ht : readToken cm p0 with ⟨⟨tok, ioe⟩, p1⟩
        have l1 : Le p1 p := by have := readToken_le cm p0; rw [ht] at this; exact this.trans l0
        have ho1 : p1.oof = false := by rw [l1.1]; exact ho
        -- a recursive call after at least one consumed byte
        have recur : ∀ (q : P) (ops' : List (List UInt8)), Le q p → q.mu < p.mu → (mainLoop cm cfg n q ops').2.oof = false := by
          intro q ops' hq hlt
          apply mainLoop_spec n q ops' (by rw [hq.1]; exact ho)
          have : nu q ≤ q.mu + 1 := by unfold nu; split <;> omega
          omega
        cases ioe with
        | true => exact ho1
        | false =>
          simp only
          by_cases hop : isOpWord tok = true
          · simp only [hop, if_true]
            have lt1 : Lt p1 p := (tok_lt cm p0 tok false p1 ht (isOpWord_ne tok hop)).trans_le l0
            have lo := readOp_le cm cfg hnum p1.vfuel p1 (by have := vfuel_ok p1; omega)
            rcases hr : readOp cm cfg p1.vfuel p1 with ⟨⟨⟨name, line, col⟩, e⟩, p2⟩
            rw [hr] at lo
            have lt2 : Lt p2 p := lo.trans_lt lt1
            have ho2 : p2.oof = false := by rw [lt2.1]; exact ho
            simp only
            split
            · exact ho2
            · cases e with
              | some e => exact ho2
              | none => exact recur p2 _ lt2.le lt2.2
          · simp only [hop, Bool.false_eq_true, if_false]
            by_cases hfr : (tok == kw_fragment) = true
            · simp only [hfr, if_true]
              have hne : tok.isEmpty = false := by
                have : tok = kw_fragment := by simpa using hfr
                rw [this]; decide
              have lt1 : Lt p1 p := (tok_lt cm p0 tok false p1 ht hne).trans_le l0
              have lf := readFragmentDef_le cm cfg hnum p1.vfuel p1 (by have := vfuel_ok p1; omega)
              rcases hr : readFragmentDef cm cfg p1.vfuel p1 with ⟨⟨⟨name, line, col, hasSels⟩, e⟩, p2⟩
              rw [hr] at lf
              have lt2 : Lt p2 p := lf.trans_lt lt1
              have ho2 : p2.oof = false := by rw [lt2.1]; exact ho
              cases e with
              | some e => exact ho2
              | none =>
                simp only
                split
                · exact ho2
                · exact recur _ _ ⟨lt2.1, lt2.le.2⟩ lt2.2
            · simp only [hfr, Bool.false_eq_true, if_false]
              by_cases hte : tok.isEmpty = true
              · simp only [hte, if_true]
                have htn : tok = [] := by simpa using hte
                subst htn
                split
                · exact ho1
                · rename_i hdk
                  -- on deck: `{` or nothing
                  rcases readToken_empty cm p0 ho0 p1 ht with ⟨hd0, hcase⟩ | hsig
                  · -- nothing on deck: the end of the input was seen, or a NUL byte was consumed
                    rcases hcase with heof | hlt
                    · -- end of input: the selection set reader returns at once and the loop ends
                      have hv : p1.vfuel = (2 * p1.rest.length + 7) + 1 := by unfold P.vfuel; omega
                      rw [hv, readSelectionSet_at_eof cm _ p1 heof hd0]
                      simp only [beq_self_eq_true, if_true]
                      have hn : n = (n - 1) + 1 := by omega
                      rw [hn]; unfold mainLoop; simp [heof, ho1]
                    · have lss := (readSelectionSet_spec cm hnum p1.vfuel p1 (by have := vfuel_ok p1; omega)).1
                      rcases hr : readSelectionSet cm p1.vfuel p1 with ⟨⟨cnt, e⟩, p2⟩
                      rw [hr] at lss
                      simp only at lss
                      have l2 : Le p2 p := lss.trans l1
                      have hlt2 : p2.mu < p.mu := by
                        have h1 := lss.2
                        have h2 : p1.mu ≤ p0.mu := by have := readToken_le cm p0; rw [ht] at this; exact this.2
                        have h3 := l0.2
                        omega
                      have ho2 : p2.oof = false := by rw [l2.1]; exact ho
                      simp only
                      split
                      · cases e with
                        | some e => exact ho2
                        | none => exact recur p2 _ l2 hlt2
                      · split
                        · exact ho2
                        · cases e with
                          | some e => exact ho2
                          | none => exact recur p2 _ l2 hlt2
                  · -- a significant byte on deck which is `{`: the selection set reader consumes it
                    have h123 : p1.onDeck = 123 := by
                      have hdk' : ¬((p1.onDeck != 123 && p1.onDeck != 0) = true) := hdk
                      simp only [Bool.and_eq_true, bne_iff_ne, ne_eq, not_and, Decidable.not_not] at hdk'
                      by_cases h1 : p1.onDeck = 123
                      · exact h1
                      · exact absurd (hdk' h1) hsig.1
                    have hss := readSelectionSet_spec cm hnum p1.vfuel p1 (by have := vfuel_ok p1; omega)
                    have hsk : (skipSp cm p1).1 = some 123 := by rw [skipSp_idem cm p1 p1.onDeck rfl hsig, h123]
                    rcases hr : readSelectionSet cm p1.vfuel p1 with ⟨⟨cnt, e⟩, p2⟩
                    rw [hr] at hss
                    have lt2 : Lt p2 p := (hss.2 hsk).trans_le l1
                    have ho2 : p2.oof = false := by rw [lt2.1]; exact ho
                    simp only
                    split
                    · cases e with
                      | some e => exact ho2
                      | none => exact recur p2 _ lt2.le lt2.2
                    · split
                      · exact ho2
                      · cases e with
                        | some e => exact ho2
                        | none => exact recur p2 _ lt2.le lt2.2
              · simp only [hte, Bool.false_eq_true, if_false]
                split <;> exact ho1

omit hnum in
/-- `skipBOM` reads at most three bytes and puts at most one back -/
theorem skipBOM_bound (bytes : List UInt8) (tail : Tail) :
    (skipBOM (P.init bytes tail)).2.oof = false ∧ (skipBOM (P.init bytes tail)).2.mu ≤ bytes.length := by
  rcases hb : skipBOM (P.init bytes tail) with ⟨e, p⟩
  simp only
  have hinit : (P.init bytes tail).oof = false ∧ (P.init bytes tail).mu = bytes.length := by simp [P.init, P.mu]
  unfold skipBOM at hb
  rcases h0 : readByte (P.init bytes tail) with ⟨r0, p0⟩
  have l0 : Le p0 (P.init bytes tail) := by have := readByte_le (P.init bytes tail); rwa [h0] at this
  rw [h0] at hb
  cases r0 with
  | none => simp at hb; rw [← hb.2]; exact ⟨by rw [l0.1]; exact hinit.1, by rw [← hinit.2]; exact l0.2⟩
  | some b =>
    simp only at hb
    by_cases hef : b = 0xEF
    · have hne : (b != 0xEF) = false := by simp [hef]
      simp only [hne, Bool.false_eq_true, if_false] at hb
      rcases h1 : readByte p0 with ⟨r1, p1⟩
      have l1 : Le p1 p0 := by have := readByte_le p0; rwa [h1] at this
      rw [h1] at hb
      cases r1 with
      | none => simp at hb; rw [← hb.2]; exact ⟨by rw [(l1.trans l0).1]; exact hinit.1, by rw [← hinit.2]; exact (l1.trans l0).2⟩
      | some b1 =>
        simp only at hb
        split at hb
        · simp at hb; rw [← hb.2]; exact ⟨by rw [(l1.trans l0).1]; exact hinit.1, by rw [← hinit.2]; exact (l1.trans l0).2⟩
        · rcases h2 : readByte p1 with ⟨r2, p2⟩
          have l2 : Le p2 p1 := by have := readByte_le p1; rwa [h2] at this
          rw [h2] at hb
          have l20 := l2.trans (l1.trans l0)
          cases r2 with
          | none => simp at hb; rw [← hb.2]; exact ⟨by rw [l20.1]; exact hinit.1, by rw [← hinit.2]; exact l20.2⟩
          | some b2 =>
            simp only at hb
            split at hb <;> (simp at hb; rw [← hb.2]; exact ⟨by rw [l20.1]; exact hinit.1, by rw [← hinit.2]; exact l20.2⟩)
    · have hne : (b != 0xEF) = true := by simp [hef]
      simp only [hne, if_true] at hb
      simp at hb
      rw [← hb.2]
      by_cases hb0 : b = 0
      · subst hb0
        have hd := readByte_deck (P.init bytes tail); rw [h0] at hd; simp at hd
        exact ⟨by simp [putBack_oof]; rw [l0.1]; exact hinit.1, by simp [putBack, P.mu, hd]; have := l0.2; simp [P.mu, hd] at this; rw [← hinit.2]; simpa [P.mu] using this⟩
      · have := putBack_le_of_read (P.init bytes tail) b hb0 (by rw [h0]); rw [h0] at this
        exact ⟨by rw [this.1]; exact hinit.1, by rw [← hinit.2]; exact this.2⟩

/-- **`parseExe` returns**: for every byte string and every reader ending the model never runs out of
fuel with `2·|input| + 8` -/
theorem parseExe_total (bytes : List UInt8) (tail : Tail) :
    (parseExe cm cfg (sdlFuel bytes) bytes tail).2.oof = false := by
  unfold parseExe
  simp only
  have hle := skipBOM_bound bytes tail
  rcases hb : skipBOM (P.init bytes tail) with ⟨e, p⟩
  rw [hb] at hle
  cases e with
  | some e => exact hle.1
  | none =>
    simp only
    apply mainLoop_spec cm cfg hnum _ p [] hle.1
    have : nu p ≤ p.mu + 1 := by unfold nu; split <;> omega
    have h2 : p.mu ≤ bytes.length := hle.2
    unfold sdlFuel; omega

end Ggql.ExeCF
