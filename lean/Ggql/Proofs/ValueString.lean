/-
String layer of C18: `readString (writeString s) = s` for every string, from
`unescapeTable ∘ escapeTable = id` on the finite tables, lifted over strings by induction.
-/
import Ggql.Proofs.ValueChars
namespace Ggql.ValueText

theorem escapeChar_std (c : Char) :
    escapeChar stdTbl c =
      if c.toNat = 8 then ['\\', 'b'] else if c.toNat = 12 then ['\\', 'f'] else if c.toNat = 10 then ['\\', 'n']
      else if c.toNat = 13 then ['\\', 'r'] else if c.toNat = 9 then ['\\', 't'] else if c.toNat = 92 then ['\\', '\\']
      else if c.toNat = 34 then ['\\', '"']
      else if c.toNat < 32 then ['\\', 'u', hexDigit (c.toNat / 4096), hexDigit (c.toNat / 256 % 16), hexDigit (c.toNat / 16 % 16), hexDigit (c.toNat % 16)]
      else [c] := by
  simp only [escapeChar, stdTbl, List.find?]
  by_cases h1 : c.toNat = 8
  · simp [h1]
  by_cases h2 : c.toNat = 12
  · simp [h2]
  by_cases h3 : c.toNat = 10
  · simp [h3]
  by_cases h4 : c.toNat = 13
  · simp [h4]
  by_cases h5 : c.toNat = 9
  · simp [h5]
  by_cases h6 : c.toNat = 92
  · simp [h6]
  by_cases h7 : c.toNat = 34
  · simp [h7]
  have e1 : (8 == c.toNat) = false := by simpa using fun h => h1 h.symm
  have e2 : (12 == c.toNat) = false := by simpa using fun h => h2 h.symm
  have e3 : (10 == c.toNat) = false := by simpa using fun h => h3 h.symm
  have e4 : (13 == c.toNat) = false := by simpa using fun h => h4 h.symm
  have e5 : (9 == c.toNat) = false := by simpa using fun h => h5 h.symm
  have e6 : (92 == c.toNat) = false := by simpa using fun h => h6 h.symm
  have e7 : (34 == c.toNat) = false := by simpa using fun h => h7 h.symm
  simp only [e1, e2, e3, e4, e5, e6, e7, h1, h2, h3, h4, h5, h6, h7, if_false]

theorem hexVal_hexDigit (k : Nat) (h : k < 16) : hexVal (hexDigit k) = some k := by
  have : (List.range 16).all (fun k => hexVal (hexDigit k) == some k) = true := by decide
  have := List.all_eq_true.mp this k (List.mem_range.mpr h)
  simpa using this

theorem char_of_toNat_eq (c : Char) (n : Nat) (h : c.toNat = n) : c = Char.ofNat n := by
  rw [← h, Char.ofNat_toNat]

/-- one loop iteration of the string body reads one escaped character back -/
theorem readStrBody_escapeChar (c : Char) (tail acc : List Char) (f : Nat) :
    readStrBody stdTbl (f + 1) (escapeChar stdTbl c ++ tail) acc = readStrBody stdTbl f tail (c :: acc) := by
  rw [escapeChar_std]
  split
  · rename_i h; rw [char_of_toNat_eq c 8 h]; simp [readStrBody, readEscaped, stdTbl]
  split
  · rename_i h; rw [char_of_toNat_eq c 12 h]; simp [readStrBody, readEscaped, stdTbl]
  split
  · rename_i h; rw [char_of_toNat_eq c 10 h]; simp [readStrBody, readEscaped, stdTbl]
  split
  · rename_i h; rw [char_of_toNat_eq c 13 h]; simp [readStrBody, readEscaped, stdTbl]
  split
  · rename_i h; rw [char_of_toNat_eq c 9 h]; simp [readStrBody, readEscaped, stdTbl]
  split
  · rename_i h; rw [char_of_toNat_eq c 92 h]; simp [readStrBody, readEscaped, stdTbl]
  split
  · rename_i h; rw [char_of_toNat_eq c 34 h]; simp [readStrBody, readEscaped, stdTbl]
  split
  · -- \u00XY
    rename_i h1 h2 h3 h4 h5 h6 h7 hlt
    have hd1 : c.toNat / 4096 = 0 := by omega
    have hd2 : c.toNat / 256 % 16 = 0 := by omega
    have hd3 : c.toNat / 16 % 16 < 16 := by omega
    have hd4 : c.toNat % 16 < 16 := by omega
    simp only [List.cons_append, List.nil_append, readStrBody]
    simp only [show ('\\' : Char) ≠ '"' by decide, if_false, if_true, readEscaped, hd1, hd2,
      hexVal_hexDigit 0 (by omega), hexVal_hexDigit _ hd3, hexVal_hexDigit _ hd4]
    have : c.toNat / 16 % 16 * 16 + c.toNat % 16 = c.toNat := by omega
    simp [this]
  · rename_i h1 h2 h3 h4 h5 h6 h7 hlt
    have hq : c ≠ '"' := fun h => h7 (by rw [h]; rfl)
    have hb : c ≠ '\\' := fun h => h6 (by rw [h]; rfl)
    have h0 : c.toNat ≠ 0 := by omega
    simp [readStrBody, hq, hb, h0]

/-- **C18 string layer (body).**  Reading the escaped body of `s` up to the closing quote gives `s`. -/
theorem readStrBody_roundtrip (s rest acc : List Char) (f : Nat) (hf : s.length + 1 ≤ f) :
    readStrBody stdTbl f (s.flatMap (escapeChar stdTbl) ++ '"' :: rest) acc = some (acc.reverse ++ s, rest) := by
  induction s generalizing acc f with
  | nil =>
    cases f with
    | zero => omega
    | succ f => simp [readStrBody]
  | cons c s ih =>
    cases f with
    | zero => simp at hf
    | succ f =>
      simp only [List.flatMap_cons, List.append_assoc]
      rw [readStrBody_escapeChar, ih (c :: acc) f (by simp at hf; omega)]
      simp

end Ggql.ValueText
