/-
Reader lemmas for C18: white space, the first character of a written value, and what `readValue`
does on each kind of atom in a context that starts with a follower character.
-/
import Ggql.Proofs.ValueAtoms
namespace Ggql.ValueText

variable {F : Type}

/-- characters that may come right after a written value: separators, closers, openers (tight mode) -/
def follower (c : Char) : Bool := c == ',' || c == '\n' || c == ']' || c == '}' || c == '[' || c == '{' || c == ' '

/-- the continuation starts with a follower (or is empty) -/
def Foll (k : List Char) : Prop := ∀ c r, k = c :: r → follower c = true

theorem follower_facts (c : Char) (h : follower c = true) :
    isToken stdTbl c = false ∧ isNum stdTbl c = false ∧ c ≠ '"' ∧ stdTbl.terminators.contains c.toNat = true := by
  simp only [follower, Bool.or_eq_true, beq_iff_eq] at h
  rcases h with (((((h | h) | h) | h) | h) | h) | h <;> subst h <;> decide +kernel

theorem foll_terminator (k : List Char) (hk : Foll k) : isTerminator stdTbl k = true := by
  cases k with
  | nil => decide +kernel
  | cons c r => exact (follower_facts c (hk c r rfl)).2.2.2

theorem foll_not_quote (k : List Char) (hk : Foll k) : ∀ r, k ≠ '"' :: r := by
  intro r h; exact (follower_facts '"' (hk '"' r h)).2.2.1 rfl

/-- separators and indentation are white space -/
def isSepChar (c : Char) : Bool := c == ',' || c == ' ' || c == '\n'

theorem sepChar_space (c : Char) (h : isSepChar c = true) : isSpace stdTbl c = true := by
  simp only [isSepChar, Bool.or_eq_true, beq_iff_eq] at h
  rcases h with (h | h) | h <;> subst h <;> decide +kernel

/-- a character a value can start with: not white space, not a comment, not a closer -/
def starter (c : Char) : Prop := isSpace stdTbl c = false ∧ c ≠ '#'

theorem skipSpace_starter (n : Nat) (c : Char) (r : List Char) (h : starter c) : skipSpace stdTbl (n + 1) (c :: r) = c :: r := by
  simp [skipSpace, h.1, h.2]

theorem skipSpace_seps (ws : List Char) (c : Char) (r : List Char) (n : Nat) (hws : ∀ x ∈ ws, isSepChar x = true)
    (hc : starter c) (hn : ws.length + 1 ≤ n) : skipSpace stdTbl n (ws ++ c :: r) = c :: r := by
  induction ws generalizing n with
  | nil =>
    cases n with
    | zero => omega
    | succ n => exact skipSpace_starter n c r hc
  | cons w ws ih =>
    cases n with
    | zero => simp at hn
    | succ n =>
      have hw := sepChar_space w (hws w (List.mem_cons_self ..))
      simp only [List.cons_append, skipSpace, hw, if_true]
      exact ih n (fun x hx => hws x (List.mem_cons_of_mem _ hx)) (by simp at hn; omega)

theorem token_starter (c : Char) (h : isToken stdTbl c = true) : starter c :=
  ⟨token_not_space c h, (token_not_num_sep c h).2.1⟩

/-- `takeToken` on a token followed by a non-token -/
theorem takeToken_stop (s k : List Char) (hs : ∀ c ∈ s, isToken stdTbl c = true) (hk : ∀ c r, k = c :: r → isToken stdTbl c = false) :
    takeToken stdTbl (s ++ k) = (s, k) := by
  have := takeWhile_append_stop (isToken stdTbl) s k hs hk
  simp [takeToken, this.1, this.2]

theorem takeNumber_stop (s k : List Char) (hs : s.all (isNum stdTbl) = true) (hk : ∀ c r, k = c :: r → isNum stdTbl c = false) :
    takeNumber stdTbl (s ++ k) = (s, k) := by
  have := takeWhile_append_stop (isNum stdTbl) s k (by simpa [List.all_eq_true] using hs) hk
  simp [takeNumber, this.1, this.2]

end Ggql.ValueText

namespace Ggql.ValueText
variable {F : Type} (ft : FloatText F)

/-- `readValue` on a text whose first character starts a value: the dispatch, with `skipSpace` gone -/
theorem readValue_starter (fuel : Nat) (c : Char) (r : List Char) (hc : starter c) :
    readValue stdTbl ft (fuel + 1) (c :: r) =
      (if c = '"' then
        (match readString stdTbl (c :: r) with
         | some (s, rest') => some (.str s, rest')
         | none => none)
      else if c = '$' then
        some (.var (takeToken stdTbl (skipSpace stdTbl (r.length + 1) r)).1, (takeToken stdTbl (skipSpace stdTbl (r.length + 1) r)).2)
      else if c = '-' || isDigit c then
        (if !isTerminator stdTbl (takeNumber stdTbl (c :: r)).2 then none
         else (match parseInt64 (takeNumber stdTbl (c :: r)).1 with
               | some i => some (.int i, (takeNumber stdTbl (c :: r)).2)
               | none => (match ft.parse (takeNumber stdTbl (c :: r)).1 with
                          | some x => some (.float x, (takeNumber stdTbl (c :: r)).2)
                          | none => none)))
      else if c = '[' then readList stdTbl ft fuel r []
      else if c = '{' then readMembers stdTbl ft fuel r []
      else
        (if (takeToken stdTbl (c :: r)).1.isEmpty then none
         else if (takeToken stdTbl (c :: r)).1 = "true".toList then some (.bool true, (takeToken stdTbl (c :: r)).2)
         else if (takeToken stdTbl (c :: r)).1 = "false".toList then some (.bool false, (takeToken stdTbl (c :: r)).2)
         else if (takeToken stdTbl (c :: r)).1 = "null".toList then some (.null, (takeToken stdTbl (c :: r)).2)
         else some (.sym (takeToken stdTbl (c :: r)).1, (takeToken stdTbl (c :: r)).2))) := by
  rw [readValue]
  have := skipSpace_starter (c :: r).length c r hc
  simp only [List.length_cons] at this
  simp only [List.length_cons, this]
  rfl

end Ggql.ValueText

namespace Ggql.ValueText
variable {F : Type} (ft : FloatText F)

/-- what the theorems assume of `strconv.FormatFloat(x,'g',-1,64)` / `ParseFloat` on the floats of the
domain (finite, non-integral): the text parses back to the same float, is made of number characters,
starts with a digit or a minus sign, and is not an integer literal -/
structure FloatOK (ft : FloatText F) : Prop where
  parse_fmt : ∀ x, ft.parse (ft.fmt x) = some x
  all_num : ∀ x, (ft.fmt x).all (isNum stdTbl) = true
  head : ∀ x, ∃ c r, ft.fmt x = c :: r ∧ (c = '-' ∨ isDigit c = true)
  not_int : ∀ x, parseInt64 (ft.fmt x) = none

theorem digit_starter (c : Char) (h : c = '-' ∨ isDigit c = true) : starter c ∧ c ≠ '"' ∧ c ≠ '$' := by
  rcases h with rfl | h
  · refine ⟨⟨by decide +kernel, by decide⟩, by decide, by decide⟩
  · have := lift_bool (fun c => !isDigit c || (!isSpace stdTbl c && c != '#' && c != '"' && c != '$')) (by decide +kernel)
      (fun c hc => by
        have : isDigit c = false := by
          simp only [isDigit, Bool.and_eq_false_iff, decide_eq_false_iff_not]
          right; intro hle
          have : c.toNat ≤ ('9' : Char).toNat := hle
          have h9 : ('9' : Char).toNat = 57 := by decide
          omega
        simp [this]) c
    simp only [h, Bool.not_true, Bool.false_or, Bool.and_eq_true, Bool.not_eq_true', bne_iff_ne, ne_eq] at this
    exact ⟨⟨this.1.1.1, this.1.1.2⟩, this.1.2, this.2⟩

/-- a number text (integer or float) in a follower context -/
theorem readValue_number (fuel : Nat) (txt k : List Char) (v : Value F)
    (hhead : ∃ c r, txt = c :: r ∧ (c = '-' ∨ isDigit c = true))
    (hnum : txt.all (isNum stdTbl) = true) (hk : Foll k)
    (hparse : (match parseInt64 txt with
               | some i => some (Value.int i, k)
               | none => (match ft.parse txt with | some x => some (Value.float x, k) | none => none)) = some (v, k)) :
    readValue stdTbl ft (fuel + 1) (txt ++ k) = some (v, k) := by
  obtain ⟨c, r, rfl, hc⟩ := hhead
  obtain ⟨hst, hq, hd⟩ := digit_starter c hc
  rw [List.cons_append, readValue_starter ft fuel c (r ++ k) hst]
  have hdig : (decide (c = '-') || isDigit c) = true := by
    rcases hc with rfl | h
    · simp
    · simp [h]
  have htn := takeNumber_stop (c :: r) k hnum (fun x y hxy => (follower_facts x (hk x y hxy)).2.1)
  rw [List.cons_append] at htn
  simp only [hq, hd, if_false, hdig, if_true, htn, foll_terminator k hk, Bool.not_true, Bool.false_eq_true]
  exact hparse

/-- a bare token (null / true / false / enum symbol) in a follower context -/
theorem readValue_token (fuel : Nat) (tok k : List Char) (hne : tok ≠ [])
    (htok : ∀ c ∈ tok, isToken stdTbl c = true) (hhd : ∀ c r, tok = c :: r → isDigit c = false) (hk : Foll k) :
    readValue stdTbl ft (fuel + 1) (tok ++ k) =
      (if tok = "true".toList then some (.bool true, k)
       else if tok = "false".toList then some (.bool false, k)
       else if tok = "null".toList then some (.null, k)
       else some (.sym tok, k)) := by
  cases tok with
  | nil => exact absurd rfl hne
  | cons c r =>
    have hct := htok c (List.mem_cons_self ..)
    have hst := token_starter c hct
    obtain ⟨h1, _, h3, h4, h5, h6⟩ := token_not_num_sep c hct
    have hdg := hhd c r rfl
    rw [List.cons_append, readValue_starter ft fuel c (r ++ k) hst]
    have htt := takeToken_stop (c :: r) k htok (fun x y hxy => (follower_facts x (hk x y hxy)).1)
    rw [List.cons_append] at htt
    simp [h1, h5, h6, hdg, h3, h4, htt]

/-- a quoted string in a follower context -/
theorem readValue_string (fuel : Nat) (s k : List Char) (hk : Foll k) :
    readValue stdTbl ft (fuel + 1) (writeString stdTbl s true ++ k) = some (.str s, k) := by
  have hrs := readString_roundtrip s k (foll_not_quote k hk)
  have hw : writeString stdTbl s true ++ k = '"' :: (s.flatMap (escapeChar stdTbl) ++ ['"'] ++ k) := by
    simp [writeString]
  rw [hw] at hrs ⊢
  rw [readValue_starter ft fuel '"' _ ⟨by decide +kernel, by decide⟩]
  simp only [List.append_assoc, List.singleton_append] at hrs ⊢
  simp [hrs]

/-- a variable `$name` in a follower context -/
theorem readValue_var (fuel : Nat) (s k : List Char) (hne : s ≠ []) (htok : ∀ c ∈ s, isToken stdTbl c = true) (hk : Foll k) :
    readValue stdTbl ft (fuel + 1) ('$' :: s ++ k) = some (.var s, k) := by
  rw [List.cons_append, readValue_starter ft fuel '$' _ ⟨by decide +kernel, by decide⟩]
  cases s with
  | nil => exact absurd rfl hne
  | cons c r =>
    have hst := token_starter c (htok c (List.mem_cons_self ..))
    have hss := skipSpace_starter (r ++ k).length c (r ++ k) hst
    have htt := takeToken_stop (c :: r) k htok (fun x y hxy => (follower_facts x (hk x y hxy)).1)
    simp only [List.cons_append] at htt ⊢
    have hss2 := skipSpace_starter ((r ++ k).length + 1) c (r ++ k) hst
    simp only [List.length_cons, hss2, htt]
    simp

end Ggql.ValueText

namespace Ggql.ValueText
variable {F : Type} (ft : FloatText F)

/-- leading separators / indentation are skipped -/
theorem readValue_skip (fuel : Nat) (ws : List Char) (c : Char) (r : List Char)
    (hws : ∀ x ∈ ws, isSepChar x = true) (hc : starter c) :
    readValue stdTbl ft (fuel + 1) (ws ++ c :: r) = readValue stdTbl ft (fuel + 1) (c :: r) := by
  rw [readValue, readValue]
  rw [skipSpace_seps ws c r _ hws hc (by simp), skipSpace_starter _ c r hc]

theorem readList_close (fuel : Nat) (ws k : List Char) (acc : List (Value F)) (hws : ∀ x ∈ ws, isSepChar x = true) :
    readList stdTbl ft (fuel + 1) (ws ++ ']' :: k) acc = some (.list acc.reverse, k) := by
  rw [readList, skipSpace_seps ws ']' k _ hws ⟨by decide +kernel, by decide⟩ (by simp)]
  simp

theorem readList_elem (fuel : Nat) (ws : List Char) (c : Char) (r : List Char) (acc : List (Value F))
    (hws : ∀ x ∈ ws, isSepChar x = true) (hc : starter c) (hnc : c ≠ ']') :
    readList stdTbl ft (fuel + 1) (ws ++ c :: r) acc =
      (match readValue stdTbl ft fuel (c :: r) with
       | some (v, rest') => readList stdTbl ft fuel rest' (v :: acc)
       | none => none) := by
  rw [readList, skipSpace_seps ws c r _ hws hc (by simp)]
  simp only [hnc, if_false]
  rfl

theorem readMembers_close (fuel : Nat) (ws k : List Char) (acc : List (List Char × Value F)) (hws : ∀ x ∈ ws, isSepChar x = true) :
    readMembers stdTbl ft (fuel + 1) (ws ++ '}' :: k) acc = some (.map acc.reverse, k) := by
  rw [readMembers, skipSpace_seps ws '}' k _ hws ⟨by decide +kernel, by decide⟩ (by simp)]
  simp

/-- one `key: value` member with a bare (token) key, as the SDL form writes it -/
theorem readMembers_member (fuel : Nat) (ws key rest : List Char) (acc : List (List Char × Value F))
    (hws : ∀ x ∈ ws, isSepChar x = true) (hne : key ≠ []) (hkey : ∀ c ∈ key, isToken stdTbl c = true) :
    readMembers stdTbl ft (fuel + 1) (ws ++ key ++ ':' :: rest) acc =
      (match readValue stdTbl ft fuel rest with
       | some (v, rest3) => readMembers stdTbl ft fuel rest3 ((key, v) :: acc)
       | none => none) := by
  cases key with
  | nil => exact absurd rfl hne
  | cons c r =>
    have hct := hkey c (List.mem_cons_self ..)
    have hst := token_starter c hct
    obtain ⟨h1, _, _, h4, _, _⟩ := token_not_num_sep c hct
    have hcb : c ≠ '}' := by
      intro h; subst h; revert hct; decide +kernel
    have htt := takeToken_stop (c :: r) (':' :: rest) hkey (fun x y hxy => by
      simp only [List.cons.injEq] at hxy; rw [← hxy.1]; decide +kernel)
    simp only [List.cons_append, List.append_assoc] at htt ⊢
    rw [readMembers, skipSpace_seps ws c _ _ hws hst (by simp)]
    simp only [hcb, if_false, h1, htt]
    rw [skipSpace_starter _ ':' rest ⟨by decide +kernel, by decide⟩]
    rfl

end Ggql.ValueText

namespace Ggql.ValueText

/-- token characters are written raw -/
theorem escapeChar_token (c : Char) (h : isToken stdTbl c = true) : escapeChar stdTbl c = [c] := by
  have := lift_bool (fun c => !isToken stdTbl c || (escapeChar stdTbl c == [c])) (by decide +kernel)
    (fun c hc => by simp [isToken_hi c hc]) c
  simpa [h] using this

theorem flatMap_escape_tokens (s : List Char) (h : ∀ c ∈ s, isToken stdTbl c = true) : s.flatMap (escapeChar stdTbl) = s := by
  induction s with
  | nil => rfl
  | cons c s ih =>
    simp only [List.flatMap_cons, escapeChar_token c (h c (List.mem_cons_self ..)),
      ih (fun x hx => h x (List.mem_cons_of_mem _ hx)), List.singleton_append]

end Ggql.ValueText
