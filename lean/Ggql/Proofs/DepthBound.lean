/-
The stack clause of C03 for the shared scanner, once D03 is repaired: with `deeper()` called by every
recursive construct (`cm.depthLimit = some l`), the depth of the Go call recursion never exceeds `l`, whatever
the input.

`maxDepth` is only written by `P.enter`, and every `enter` of the model stands behind the `tooDeep` guard, which
lets it pass only when `depth + 1 ≤ l`.  Everything else leaves `maxDepth` alone (the frame lemmas below).
-/
import Ggql.Model.Scan
namespace Ggql.Scan

variable (cm : CM)

/-- `p'` was reached from `p` without the recursion ever standing deeper than `l` (or than it already had) -/
def MB (l : Nat) (p' p : P) : Prop := p'.maxDepth ≤ max l p.maxDepth

theorem MB.refl (l : Nat) (p : P) : MB l p p := Nat.le_max_right _ _
theorem MB.trans {l : Nat} {p2 p1 p0 : P} (h2 : MB l p2 p1) (h1 : MB l p1 p0) : MB l p2 p0 := by
  unfold MB at *; omega
theorem MB.of_eq {l : Nat} {p' p : P} (h : p'.maxDepth = p.maxDepth) : MB l p' p := by
  unfold MB; omega

/-! ### frame: the leaves of the scanner do not touch `maxDepth` -/

@[simp] theorem initPos_md (p : P) : p.initPos.maxDepth = p.maxDepth := by unfold P.initPos; split <;> rfl
@[simp] theorem advance_md (p : P) (b r) : (p.advance b r).maxDepth = p.maxDepth := by unfold P.advance; split <;> rfl
@[simp] theorem lastByte_md (p : P) : p.lastByte.maxDepth = p.maxDepth := rfl
@[simp] theorem outOfFuel_md (p : P) : p.outOfFuel.maxDepth = p.maxDepth := rfl
@[simp] theorem putBack_md (b : UInt8) (p : P) : (putBack b p).maxDepth = p.maxDepth := rfl
@[simp] theorem leave_md (p : P) : p.leave.maxDepth = p.maxDepth := rfl

@[simp] theorem readByte_md (p : P) : (readByte p).2.maxDepth = p.maxDepth := by
  unfold readByte
  split
  · rfl
  · split
    · rfl
    · split
      · split <;> simp
      · split <;> simp

@[simp] theorem reRead_md (p : P) : (reRead p).maxDepth = p.maxDepth := readByte_md p

theorem skipComment_md : ∀ (n : Nat) (p : P), (skipComment n p).2.maxDepth = p.maxDepth
  | 0, p => rfl
  | n + 1, p => by
    unfold skipComment
    have h := readByte_md p
    rcases hr : readByte p with ⟨r, p1⟩
    rw [hr] at h
    try dsimp only at h
    cases r with
    | none => exact h
    | some b =>
      simp only
      split
      · exact h
      · split
        · exact h
        · rw [skipComment_md n p1]; exact h

theorem skipSpace_md : ∀ (n : Nat) (p : P), (skipSpace cm n p).2.maxDepth = p.maxDepth
  | 0, p => rfl
  | n + 1, p => by
    unfold skipSpace
    have h := readByte_md p
    rcases hr : readByte p with ⟨r, p1⟩
    rw [hr] at h
    try dsimp only at h
    cases r with
    | none => exact h
    | some b =>
      simp only
      split
      · exact h
      · split
        · rw [skipSpace_md n p1]; exact h
        · split
          · have hc := skipComment_md n p1
            rcases hcm : skipComment n p1 with ⟨r2, p2⟩
            rw [hcm] at hc
            try dsimp only at hc
            cases r2 with
            | none => simp only; rw [hc]; exact h
            | some b' =>
              simp only
              split
              · rw [hc]; exact h
              · rw [skipSpace_md n p2, hc]; exact h
          · simp [h]

@[simp] theorem skipSp_md (p : P) : (skipSp cm p).2.maxDepth = p.maxDepth := skipSpace_md cm _ p

theorem classLoop_md (cls : UInt8 → Bool) : ∀ (n : Nat) (p : P) (acc : List UInt8), (classLoop cls n p acc).2.maxDepth = p.maxDepth
  | 0, p, acc => rfl
  | n + 1, p, acc => by
    unfold classLoop
    have h := readByte_md p
    rcases hr : readByte p with ⟨r, p1⟩
    rw [hr] at h
    try dsimp only at h
    cases r with
    | none => exact h
    | some b =>
      simp only
      split
      · exact h
      · split
        · rw [classLoop_md cls n p1]; exact h
        · simp [h]

@[simp] theorem readToken_md (p : P) : (readToken cm p).2.maxDepth = p.maxDepth := by
  unfold readToken
  have h := skipSp_md cm p
  rcases hr : skipSp cm p with ⟨r, p1⟩
  rw [hr] at h
  try dsimp only at h
  cases r with
  | none => exact h
  | some b =>
    simp only
    split
    · exact h
    · rw [classLoop_md]; exact h

@[simp] theorem readNumberToken_md (p : P) : (readNumberToken cm p).2.maxDepth = p.maxDepth := classLoop_md _ _ p []

theorem bang_md (t : Ty) (p : P) : (bang cm t p).2.maxDepth = p.maxDepth := by
  unfold bang
  have h := skipSp_md cm p
  rcases hr : skipSp cm p with ⟨r, p1⟩
  rw [hr] at h
  try dsimp only at h
  cases r with
  | none => exact h
  | some b => simp only; split <;> simp [h]

theorem readEscaped_md (p : P) : (readEscaped cm p).2.maxDepth = p.maxDepth := by
  unfold readEscaped
  have h := readByte_md p
  rcases hr : readByte p with ⟨r, p1⟩
  rw [hr] at h
  try dsimp only at h
  cases r with
  | none => exact h
  | some b =>
    simp only
    split
    · exact h
    · split
      · -- four hex digits
        have step : ∀ (acc : Option Err × P), acc.2.maxDepth = p.maxDepth →
            (match acc with
              | (some e, p) => (some e, p)
              | (none, p) =>
                match readByte p with
                | (none, p) => (some ioErr, p)
                | (some c, p) =>
                  if ((48 ≤ c && c ≤ 57) || (97 ≤ c && c ≤ 102) || (65 ≤ c && c ≤ 70)) then (none, p) else (some p.perr, p)
              : Option Err × P).2.maxDepth = p.maxDepth := by
          intro acc ha
          rcases acc with ⟨e, q⟩
          cases e with
          | some e => exact ha
          | none =>
            simp only
            have hq := readByte_md q
            rcases hrq : readByte q with ⟨rq, q1⟩
            rw [hrq] at hq
            try dsimp only at hq
            cases rq with
            | none => simp only; rw [hq]; exact ha
            | some c => simp only; split <;> (simp only; rw [hq]; exact ha)
        exact step _ (step _ (step _ (step (none, p1) h)))
      · split <;> exact h

theorem strLoop_md : ∀ (n : Nat) (p : P), (strLoop cm n p).2.maxDepth = p.maxDepth
  | 0, p => rfl
  | n + 1, p => by
    unfold strLoop
    have h := readByte_md p
    rcases hr : readByte p with ⟨r, p1⟩
    rw [hr] at h
    try dsimp only at h
    cases r with
    | none => exact h
    | some b =>
      simp only
      split
      · exact h
      · split
        · have he := readEscaped_md cm p1
          rcases hre : readEscaped cm p1 with ⟨e, p2⟩
          rw [hre] at he
          try dsimp only at he
          cases e with
          | some e => simp only; rw [he]; exact h
          | none => simp only; rw [strLoop_md n p2, he]; exact h
        · split
          · exact h
          · rw [strLoop_md n p1]; exact h

theorem blockLoop_md : ∀ (n : Nat) (p : P), (blockLoop cm n p).2.maxDepth = p.maxDepth
  | 0, p => rfl
  | n + 1, p => by
    unfold blockLoop
    have h := readByte_md p
    rcases hr : readByte p with ⟨r, p1⟩
    rw [hr] at h
    try dsimp only at h
    cases r with
    | none => exact h
    | some b =>
      simp only
      split
      · have h1 := readByte_md p1
        rcases hr1 : readByte p1 with ⟨r1, p2⟩
        rw [hr1] at h1
        try dsimp only at h1
        cases r1 with
        | none => simp only; rw [h1]; exact h
        | some b1 =>
          simp only
          split
          · have h2 := readByte_md p2
            rcases hr2 : readByte p2 with ⟨r2, p3⟩
            rw [hr2] at h2
            try dsimp only at h2
            cases r2 with
            | none => simp only; rw [h2, h1]; exact h
            | some b2 =>
              simp only
              split
              · rw [h2, h1]; exact h
              · rw [blockLoop_md n p3, h2, h1]; exact h
          · rw [blockLoop_md n p2, h1]; exact h
      · split
        · have he := readEscaped_md cm p1
          rcases hre : readEscaped cm p1 with ⟨e, p2⟩
          rw [hre] at he
          try dsimp only at he
          cases e with
          | some e => simp only; rw [he]; exact h
          | none => simp only; rw [blockLoop_md n p2, he]; exact h
        · split
          · exact h
          · rw [blockLoop_md n p1]; exact h

theorem readString_md (p : P) : (readString cm p).2.maxDepth = p.maxDepth := by
  unfold readString
  have h := readByte_md p
  rcases hr : readByte p with ⟨r, p1⟩
  rw [hr] at h
  try dsimp only at h
  cases r with
  | none => exact h
  | some b =>
    simp only
    split
    · exact h
    · split
      · simp [h]
      · have h1 := readByte_md p1
        rcases hr1 : readByte p1 with ⟨r1, p2⟩
        rw [hr1] at h1
        try dsimp only at h1
        cases r1 with
        | none => simp only; rw [h1]; exact h
        | some b1 =>
          simp only
          split
          · have h2 := readByte_md p2
            rcases hr2 : readByte p2 with ⟨r2, p3⟩
            rw [hr2] at h2
            try dsimp only at h2
            cases r2 with
            | none => simp only; rw [h2, h1]; exact h
            | some b2 =>
              simp only
              split
              · simp [h2, h1, h]
              · rw [blockLoop_md, h2, h1]; exact h
          · split
            · rw [h1]; exact h
            · rw [strLoop_md]; simp [h1, h]

theorem readKey_md (b : UInt8) (p : P) : (readKey cm b p).2.maxDepth = p.maxDepth := by
  unfold readKey
  split
  · exact readString_md cm p
  · have h := readToken_md cm p
    rcases hr : readToken cm p with ⟨⟨tok, e⟩, p1⟩
    rw [hr] at h
    try dsimp only at h
    cases e <;> exact h

/-! ### the guarded `enter` -/

theorem enter_mb (l : Nat) (q : P) (hl : cm.depthLimit = some l) (hg : tooDeep cm q = false) : MB l q.enter q := by
  unfold tooDeep at hg
  rw [hl] at hg
  try dsimp only at hg
  simp only [decide_eq_false_iff_not, Nat.not_lt] at hg
  unfold MB P.enter
  simp only
  split <;> omega

/-! ### the recursive constructs -/

theorem readType_mb (l : Nat) (hl : cm.depthLimit = some l) : ∀ (n : Nat) (p : P), MB l (readType cm n p).2 p
  | 0, p => MB.of_eq rfl
  | n + 1, p => by
    unfold readType
    have h := skipSp_md cm p
    rcases hr : skipSp cm p with ⟨r, p0⟩
    rw [hr] at h
    try dsimp only at h
    cases r with
    | none => exact MB.of_eq h
    | some b =>
      simp only
      split
      · exact MB.of_eq h
      · split
        · -- a list type
          by_cases htd : tooDeep cm (reRead p0) = true
          · simp only [htd, if_true]; exact MB.of_eq (by simp [h])
          · have htd' : tooDeep cm (reRead p0) = false := by simpa using htd
            simp only [htd', Bool.false_eq_true, if_false]
            have hin : MB l (reRead p0).enter p := (enter_mb cm l _ hl htd').trans (MB.of_eq (by simp [h]))
            have ih := readType_mb l hl n (reRead p0).enter
            rcases hi : readType cm n (reRead p0).enter with ⟨⟨ti, ei⟩, pi⟩
            rw [hi] at ih
            try dsimp only at ih
            have hpi : MB l pi p := ih.trans hin
            cases ei with
            | some e => exact (MB.of_eq (leave_md pi)).trans hpi
            | none =>
              simp only
              by_cases hlm : (cm.listNeedsMember && ti.isNone) = true
              · simp only [hlm, if_true]; exact (MB.of_eq (leave_md pi)).trans hpi
              simp only [hlm, Bool.false_eq_true, if_false]
              have h2 := skipSp_md cm pi.leave
              rcases hr2 : skipSp cm pi.leave with ⟨r2, p2⟩
              rw [hr2] at h2
              try dsimp only at h2
              have hp2 : MB l p2 p := (MB.of_eq (by rw [h2]; rfl)).trans hpi
              cases r2 with
              | none => exact hp2
              | some b2 =>
                simp only
                split
                · exact (MB.of_eq (bang_md cm _ _)).trans ((MB.of_eq (reRead_md p2)).trans hp2)
                · exact hp2
        · have ht := readToken_md cm p0
          rcases hrt : readToken cm p0 with ⟨⟨tok, e⟩, p1⟩
          rw [hrt] at ht
          try dsimp only at ht
          have hp1 : MB l p1 p := MB.of_eq (by rw [ht]; exact h)
          cases e with
          | true => exact hp1
          | false =>
            simp only
            split
            · exact hp1
            · exact (MB.of_eq (bang_md cm _ _)).trans hp1

mutual
theorem readValue_mb (l : Nat) (hl : cm.depthLimit = some l) : ∀ (n : Nat) (p : P), MB l (readValue cm n p).2 p
  | 0, p => by unfold readValue; exact MB.of_eq rfl
  | n + 1, p => by
    unfold readValue
    have h := skipSp_md cm p
    rcases hr : skipSp cm p with ⟨r, p0⟩
    rw [hr] at h
    try dsimp only at h
    cases r with
    | none => exact MB.of_eq h
    | some b =>
      simp only
      split
      · exact MB.of_eq h
      · split
        · exact MB.of_eq (by rw [readString_md]; exact h)
        · split
          · have ht := readToken_md cm (reRead p0)
            rcases hrt : readToken cm (reRead p0) with ⟨⟨tok, e⟩, p1⟩
            rw [hrt] at ht
            try dsimp only at ht
            cases e <;> exact MB.of_eq (by simp only; rw [ht]; simp [h])
          · split
            · have ht := readNumberToken_md cm p0
              rcases hrt : readNumberToken cm p0 with ⟨⟨tok, e⟩, p1⟩
              rw [hrt] at ht
              try dsimp only at ht
              cases e with
              | true => exact MB.of_eq (by simp only; rw [ht]; exact h)
              | false =>
                simp only
                split
                · exact MB.of_eq (by rw [ht]; exact h)
                · split <;> exact MB.of_eq (by rw [ht]; exact h)
            · split
              · by_cases htd : tooDeep cm (reRead p0) = true
                · simp only [htd, if_true]; exact MB.of_eq (by simp [h])
                · have htd' : tooDeep cm (reRead p0) = false := by simpa using htd
                  simp only [htd', Bool.false_eq_true, if_false]
                  have hin : MB l (reRead p0).enter p := (enter_mb cm l _ hl htd').trans (MB.of_eq (by simp [h]))
                  exact (MB.of_eq (leave_md _)).trans ((readListBody_mb l hl n _).trans hin)
              · split
                · by_cases htd : tooDeep cm (reRead p0) = true
                  · simp only [htd, if_true]; exact MB.of_eq (by simp [h])
                  · have htd' : tooDeep cm (reRead p0) = false := by simpa using htd
                    simp only [htd', Bool.false_eq_true, if_false]
                    have hin : MB l (reRead p0).enter p := (enter_mb cm l _ hl htd').trans (MB.of_eq (by simp [h]))
                    exact (MB.of_eq (leave_md _)).trans ((readObjBody_mb l hl n _).trans hin)
                · have ht := readToken_md cm p0
                  rcases hrt : readToken cm p0 with ⟨⟨tok, e⟩, p1⟩
                  rw [hrt] at ht
                  try dsimp only at ht
                  cases e with
                  | true => exact MB.of_eq (by simp only; rw [ht]; exact h)
                  | false => simp only; split <;> exact MB.of_eq (by rw [ht]; exact h)

theorem readListBody_mb (l : Nat) (hl : cm.depthLimit = some l) : ∀ (n : Nat) (p : P), MB l (readListBody cm n p).2 p
  | 0, p => by unfold readListBody; exact MB.of_eq rfl
  | n + 1, p => by
    unfold readListBody
    have h := skipSp_md cm p
    rcases hr : skipSp cm p with ⟨r, p0⟩
    rw [hr] at h
    try dsimp only at h
    cases r with
    | none => exact MB.of_eq h
    | some b =>
      simp only
      split
      · exact MB.of_eq h
      · split
        · exact MB.of_eq (by simp [h])
        · have hv := readValue_mb l hl n p0
          rcases hrv : readValue cm n p0 with ⟨e, p1⟩
          rw [hrv] at hv
          try dsimp only at hv
          have hp1 : MB l p1 p := hv.trans (MB.of_eq h)
          cases e with
          | some e => exact hp1
          | none => exact (readListBody_mb l hl n p1).trans hp1

theorem readObjBody_mb (l : Nat) (hl : cm.depthLimit = some l) : ∀ (n : Nat) (p : P), MB l (readObjBody cm n p).2 p
  | 0, p => by unfold readObjBody; exact MB.of_eq rfl
  | n + 1, p => by
    unfold readObjBody
    have h := skipSp_md cm p
    rcases hr : skipSp cm p with ⟨r, p0⟩
    rw [hr] at h
    try dsimp only at h
    cases r with
    | none => exact MB.of_eq h
    | some b =>
      simp only
      split
      · exact MB.of_eq h
      · split
        · exact MB.of_eq (by simp [h])
        · have hk := readKey_md cm b p0
          rcases hrk : readKey cm b p0 with ⟨e, p1⟩
          rw [hrk] at hk
          try dsimp only at hk
          have hp1 : MB l p1 p := MB.of_eq (by rw [hk]; exact h)
          cases e with
          | some e => exact hp1
          | none =>
            simp only
            have h2 := skipSp_md cm p1
            rcases hr2 : skipSp cm p1 with ⟨r2, p2⟩
            rw [hr2] at h2
            try dsimp only at h2
            have hp2 : MB l p2 p := (MB.of_eq h2).trans hp1
            cases r2 with
            | none => exact hp2
            | some b2 =>
              simp only
              split
              · exact hp2
              · have hv := readValue_mb l hl n (reRead p2)
                rcases hrv : readValue cm n (reRead p2) with ⟨e3, p3⟩
                rw [hrv] at hv
                try dsimp only at hv
                have hp3 : MB l p3 p := hv.trans ((MB.of_eq (reRead_md p2)).trans hp2)
                cases e3 with
                | some e => exact hp3
                | none => exact (readObjBody_mb l hl n p3).trans hp3
end

/-! ### arguments, directive uses, defaults (all reach `readValue` / `readType`) -/

theorem readArgValue_mb (l : Nat) (hl : cm.depthLimit = some l) (p : P) : MB l (readArgValue cm p).2 p := by
  unfold readArgValue
  have ht := readToken_md cm p
  rcases hrt : readToken cm p with ⟨⟨tok, e⟩, p1⟩
  rw [hrt] at ht
  try dsimp only at ht
  have hp1 : MB l p1 p := MB.of_eq ht
  cases e with
  | true => exact hp1
  | false =>
    simp only
    split
    · exact hp1
    · have h2 := skipSp_md cm p1
      rcases hr2 : skipSp cm p1 with ⟨r2, p2⟩
      rw [hr2] at h2
      try dsimp only at h2
      have hp2 : MB l p2 p := (MB.of_eq h2).trans hp1
      cases r2 with
      | none => exact hp2
      | some b =>
        simp only
        split
        · exact hp2
        · exact (readValue_mb cm l hl _ _).trans ((MB.of_eq (reRead_md p2)).trans hp2)

theorem argLoop_mb (l : Nat) (hl : cm.depthLimit = some l) : ∀ (n : Nat) (p : P), MB l (argLoop cm n p).2 p
  | 0, p => MB.of_eq rfl
  | n + 1, p => by
    unfold argLoop
    have h := skipSp_md cm p
    rcases hr : skipSp cm p with ⟨r, p0⟩
    rw [hr] at h
    try dsimp only at h
    cases r with
    | none => exact MB.of_eq h
    | some b =>
      simp only
      split
      · exact MB.of_eq (by simp [h])
      · split
        · exact MB.of_eq h
        · have ha := readArgValue_mb cm l hl p0
          rcases hra : readArgValue cm p0 with ⟨e, p1⟩
          rw [hra] at ha
          try dsimp only at ha
          have hp1 : MB l p1 p := ha.trans (MB.of_eq h)
          cases e with
          | some e => exact hp1
          | none => exact (argLoop_mb l hl n p1).trans hp1

theorem readDirUse_mb (l : Nat) (hl : cm.depthLimit = some l) (p : P) : MB l (readDirUse cm p).2 p := by
  unfold readDirUse
  have h := skipSp_md cm p
  rcases hr : skipSp cm p with ⟨r, p0⟩
  rw [hr] at h
  try dsimp only at h
  cases r with
  | none => exact MB.of_eq h
  | some b =>
    simp only
    split
    · exact MB.of_eq h
    · have ht := readType_mb cm l hl (reRead p0).vfuel (reRead p0)
      rcases hrt : readType cm (reRead p0).vfuel (reRead p0) with ⟨⟨t, e⟩, p1⟩
      rw [hrt] at ht
      try dsimp only at ht
      have hp1 : MB l p1 p := ht.trans (MB.of_eq (by simp [h]))
      cases e with
      | some e => exact hp1
      | none =>
        cases t with
        | none => exact hp1
        | some t =>
          simp only
          split
          · have ha := argLoop_mb cm l hl p1.vfuel (reRead p1)
            rcases hra : argLoop cm p1.vfuel (reRead p1) with ⟨e2, p2⟩
            rw [hra] at ha
            try dsimp only at ha
            have hp2 : MB l p2 p := ha.trans ((MB.of_eq (reRead_md p1)).trans hp1)
            cases e2 <;> exact hp2
          · exact hp1

theorem readDirUses_mb (l : Nat) (hl : cm.depthLimit = some l) : ∀ (n : Nat) (p : P), MB l (readDirUses cm n p).2 p
  | 0, p => MB.of_eq rfl
  | n + 1, p => by
    unfold readDirUses
    have hd := readDirUse_mb cm l hl p
    rcases hrd : readDirUse cm p with ⟨⟨ok, e⟩, p1⟩
    rw [hrd] at hd
    try dsimp only at hd
    cases e with
    | some e => exact hd
    | none =>
      cases ok with
      | false => exact hd
      | true => exact (readDirUses_mb l hl n p1).trans hd

theorem readDirs_mb (l : Nat) (hl : cm.depthLimit = some l) (p : P) : MB l (readDirs cm p).2 p :=
  readDirUses_mb cm l hl _ p

theorem readArgValues_mb (l : Nat) (hl : cm.depthLimit = some l) (p : P) : MB l (readArgValues cm p).2 p := by
  unfold readArgValues
  have h := skipSp_md cm p
  rcases hr : skipSp cm p with ⟨r, p0⟩
  rw [hr] at h
  try dsimp only at h
  cases r with
  | none => exact MB.of_eq h
  | some b =>
    simp only
    split
    · exact (argLoop_mb cm l hl _ _).trans (MB.of_eq (by simp [h]))
    · exact MB.of_eq h

theorem optDefault_mb (l : Nat) (hl : cm.depthLimit = some l) (b : UInt8) (p : P) : MB l (optDefault cm b p).2 p := by
  unfold optDefault
  split
  · exact (readValue_mb cm l hl _ _).trans (MB.of_eq (reRead_md p))
  · exact MB.refl l p

theorem skipBOM_md (p : P) : (skipBOM p).2.maxDepth = p.maxDepth := by
  unfold skipBOM
  have h := readByte_md p
  rcases hr : readByte p with ⟨r, p1⟩
  rw [hr] at h
  try dsimp only at h
  cases r with
  | none => exact h
  | some b =>
    simp only
    split
    · simp [h]
    · have h1 := readByte_md p1
      rcases hr1 : readByte p1 with ⟨r1, p2⟩
      rw [hr1] at h1
      try dsimp only at h1
      cases r1 with
      | none => simp only; rw [h1]; exact h
      | some b1 =>
        simp only
        split
        · simp only; rw [h1]; exact h
        · have h2 := readByte_md p2
          rcases hr2 : readByte p2 with ⟨r2, p3⟩
          rw [hr2] at h2
          try dsimp only at h2
          cases r2 with
          | none => simp only; rw [h2, h1]; exact h
          | some b2 => simp only; split <;> (rw [h2, h1]; exact h)

/-- **C03_value_depth_bounded.**  With the nesting limit `l` in force, `ParseValue` never recurses deeper than
`l`, for every byte sequence and every way the reader ends: the stack it needs is bounded by a constant, not by
the input. -/
theorem C03_value_depth_bounded (l : Nat) (hl : cm.depthLimit = some l) (bytes : List UInt8) (tail : Tail) :
    (parseValue cm bytes tail).2.maxDepth ≤ l := by
  have h := readValue_mb cm l hl (P.init bytes tail).vfuel (P.init bytes tail)
  unfold MB at h
  unfold parseValue
  simpa [P.init] using h

end Ggql.Scan
