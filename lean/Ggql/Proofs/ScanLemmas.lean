/-
Helper lemmas on the scanner model (C03): what `readByte`, `putBack`, `skipSpace`, the token loops and
`readToken` do to the measure `mu` (bytes still to be consumed, the byte on deck included) and to the
sticky out-of-fuel flag.
-/
import Ggql.Model.Scan
namespace Ggql.Scan

variable (cm : CM)

@[simp] theorem initPos_oof (p : P) : p.initPos.oof = p.oof := by unfold P.initPos; split <;> rfl
@[simp] theorem initPos_onDeck (p : P) : p.initPos.onDeck = p.onDeck := by unfold P.initPos; split <;> rfl
@[simp] theorem initPos_rest (p : P) : p.initPos.rest = p.rest := by unfold P.initPos; split <;> rfl
@[simp] theorem advance_oof (p : P) (b r) : (p.advance b r).oof = p.oof := by unfold P.advance; split <;> rfl
@[simp] theorem advance_onDeck (p : P) (b r) : (p.advance b r).onDeck = p.onDeck := by unfold P.advance; split <;> rfl
@[simp] theorem advance_rest (p : P) (b r) : (p.advance b r).rest = r := by unfold P.advance; split <;> rfl
@[simp] theorem lastByte_oof (p : P) : p.lastByte.oof = p.oof := rfl
@[simp] theorem lastByte_onDeck (p : P) : p.lastByte.onDeck = p.onDeck := rfl
@[simp] theorem lastByte_rest (p : P) : p.lastByte.rest = [] := rfl

/-- the four ways `readByte` can go -/
theorem readByte_cases (p : P) :
    (p.onDeck ≠ 0 ∧ readByte p = (some p.onDeck, { p with onDeck := 0 })) ∨
    (p.onDeck = 0 ∧ p.eof = true ∧ readByte p = (some 0, p)) ∨
    (p.onDeck = 0 ∧ p.rest = [] ∧ ((readByte p).1 = none ∨ (readByte p).1 = some 0) ∧
      (readByte p).2.rest = [] ∧ (readByte p).2.onDeck = 0 ∧ (readByte p).2.oof = p.oof) ∨
    (p.onDeck = 0 ∧ ∃ b r, p.rest = b :: r ∧ (readByte p).1 = some b ∧
      (readByte p).2.rest.length = r.length ∧ (readByte p).2.onDeck = 0 ∧ (readByte p).2.oof = p.oof) := by
  by_cases hd : p.onDeck = 0
  · by_cases he : p.eof = true
    · right; left; exact ⟨hd, he, by simp [readByte, hd, he]⟩
    · cases hr : p.rest with
      | nil =>
        right; right; left
        refine ⟨hd, rfl, ?_⟩
        cases ht : p.tail <;> simp [readByte, hd, he, hr, ht]
      | cons b r =>
        right; right; right
        refine ⟨hd, b, r, rfl, ?_⟩
        by_cases hc : (r.isEmpty && p.tail == Tail.eofLast) = true
        · simp [readByte, hd, he, hr, hc]
          simp at hc; simp [hc.1]
        · simp [readByte, hd, he, hr, hc]
  · left; exact ⟨hd, by simp [readByte, hd]⟩

theorem readByte_oof (p : P) : (readByte p).2.oof = p.oof := by
  rcases readByte_cases p with ⟨_, h⟩ | ⟨_, _, h⟩ | ⟨_, _, _, _, _, h⟩ | ⟨_, _, _, _, _, _, _, h⟩
  · rw [h]
  · rw [h]
  · exact h
  · exact h

theorem readByte_deck (p : P) : (readByte p).2.onDeck = 0 := by
  rcases readByte_cases p with ⟨_, h⟩ | ⟨hd, _, h⟩ | ⟨_, _, _, _, h, _⟩ | ⟨_, _, _, _, _, _, h, _⟩
  · rw [h]
  · rw [h]; exact hd
  · exact h
  · exact h

theorem readByte_mu_le (p : P) : (readByte p).2.mu ≤ p.mu := by
  rcases readByte_cases p with ⟨hd, h⟩ | ⟨_, _, h⟩ | ⟨hd, hr, _, hr', hd', _⟩ | ⟨hd, b, r, hr, _, hl, hd', _⟩
  · rw [h]; simp [P.mu, hd]
  · rw [h]; exact Nat.le_refl _
  · simp [P.mu, hd, hr, hr', hd']
  · simp [P.mu, hd, hr, hl, hd']

/-- a non-zero byte returned by `readByte` was consumed: the measure drops by exactly one -/
theorem readByte_consumes (p : P) (b : UInt8) (hb : b ≠ 0) (h : (readByte p).1 = some b) :
    (readByte p).2.mu + 1 = p.mu := by
  rcases readByte_cases p with ⟨hd, h'⟩ | ⟨_, _, h'⟩ | ⟨hd, hr, h', _⟩ | ⟨hd, b', r, hr, _, hl, hd', _⟩
  · rw [h']; simp [P.mu, hd]
  · rw [h'] at h; simp at h; exact absurd h.symm hb
  · rcases h' with h' | h' <;> rw [h'] at h <;> simp at h
    exact absurd h.symm hb
  · simp [P.mu, hd, hr, hl, hd']

theorem putBack_mu (b : UInt8) (p : P) (hb : b ≠ 0) (hd : p.onDeck = 0) : (putBack b p).mu = p.mu + 1 := by
  unfold putBack P.mu; simp [hb, hd]

theorem putBack_oof (b : UInt8) (p : P) : (putBack b p).oof = p.oof := rfl

/-- `readByte` then `putBack` of the same non-zero byte restores the measure -/
theorem read_putBack_mu (p : P) (b : UInt8) (hb : b ≠ 0) (h : (readByte p).1 = some b) :
    (putBack b (readByte p).2).mu = p.mu := by
  rw [putBack_mu b _ hb (readByte_deck p)]
  exact readByte_consumes p b hb h

theorem reRead_oof (p : P) : (reRead p).oof = p.oof := readByte_oof p
theorem reRead_mu_le (p : P) : (reRead p).mu ≤ p.mu := readByte_mu_le p

/-- re-reading the byte on deck consumes it -/
theorem reRead_consumes (p : P) (h : p.onDeck ≠ 0) : (reRead p).mu + 1 = p.mu := by
  unfold reRead
  apply readByte_consumes p p.onDeck h
  unfold readByte; simp [h]

theorem rest_le_mu (p : P) : p.rest.length ≤ p.mu := by unfold P.mu; omega
theorem mu_le_rest (p : P) : p.mu ≤ p.rest.length + 1 := by unfold P.mu; split <;> omega

/-! ### skipComment / skipSpace -/

theorem skipComment_spec : ∀ (n : Nat) (p : P), p.mu < n →
    (skipComment n p).2.oof = p.oof ∧ (skipComment n p).2.mu ≤ p.mu ∧ (skipComment n p).2.onDeck = 0
  | 0, p, h => by omega
  | n + 1, p, h => by
    unfold skipComment
    rcases hr : readByte p with ⟨r, p'⟩
    have ho := readByte_oof p; have hm := readByte_mu_le p; have hd := readByte_deck p
    rw [hr] at ho hm hd; simp at ho hm hd
    cases r with
    | none => simp [ho, hm, hd]
    | some b =>
      simp only
      by_cases hb : b = 0
      · simp [hb, ho, hm, hd]
      · have hc := readByte_consumes p b hb (by rw [hr])
        rw [hr] at hc; simp at hc
        simp only [beq_iff_eq, hb, if_false]
        by_cases h10 : b = 10
        · simp [h10, ho, hm, hd]
        · simp only [h10, if_false]
          have ih := skipComment_spec n p' (by omega)
          refine ⟨by rw [ih.1, ho], by omega, ih.2.2⟩

/-- `skipSpace`: with fuel above the measure it never runs out, never un-consumes, and a non-zero
result is the byte left on deck (which is neither white space nor `#`) -/
theorem skipSpace_spec : ∀ (n : Nat) (p : P), p.mu + 1 < n →
    (skipSpace cm n p).2.oof = p.oof ∧ (skipSpace cm n p).2.mu ≤ p.mu ∧
    (∀ b, (skipSpace cm n p).1 = some b → b ≠ 0 → (skipSpace cm n p).2.onDeck = b ∧ cm.isSpace b = false ∧ b ≠ 35) ∧
    ((skipSpace cm n p).1 = some 0 → (skipSpace cm n p).2.onDeck = 0)
  | 0, p, h => by omega
  | n + 1, p, h => by
    unfold skipSpace
    rcases hr : readByte p with ⟨r, p'⟩
    have ho := readByte_oof p; have hm := readByte_mu_le p; have hd := readByte_deck p
    rw [hr] at ho hm hd; simp at ho hm hd
    cases r with
    | none => simp [ho, hm]
    | some b =>
      simp only
      by_cases hb : b = 0
      · simp [hb, ho, hm, hd]
      · have hc := readByte_consumes p b hb (by rw [hr])
        rw [hr] at hc; simp at hc
        simp only [beq_iff_eq, hb, if_false]
        by_cases hs : cm.isSpace b = true
        · simp only [hs, if_true]
          have ih := skipSpace_spec n p' (by omega)
          exact ⟨by rw [ih.1, ho], by omega, ih.2.2.1, ih.2.2.2⟩
        · simp only [hs, Bool.false_eq_true, if_false]
          by_cases h35 : b = 35
          · simp only [h35, if_true]
            have hcm := skipComment_spec n p' (by omega)
            rcases hk : skipComment n p' with ⟨r2, p2⟩
            rw [hk] at hcm; simp at hcm
            cases r2 with
            | none => simp; exact ⟨by rw [hcm.1, ho], by omega⟩
            | some b' =>
              simp only
              by_cases hb' : b' = 0
              · simp [hb']; exact ⟨by rw [hcm.1, ho], by omega, hcm.2.2⟩
              · simp only [beq_iff_eq, hb', if_false]
                have ih := skipSpace_spec n p2 (by omega)
                exact ⟨by rw [ih.1, hcm.1, ho], by omega, ih.2.2.1, ih.2.2.2⟩
          · simp only [h35, if_false]
            refine ⟨by simp [putBack_oof, ho], ?_, ?_, ?_⟩
            · rw [putBack_mu b p' hb hd]; omega
            · intro b2 h2 _; simp at h2; subst h2
              exact ⟨rfl, by simpa using hs, h35⟩
            · intro h2; simp at h2; exact absurd h2 hb

theorem sfuel_ok (p : P) : p.mu + 1 < p.sfuel := by
  unfold P.sfuel; have := mu_le_rest p; omega

theorem skipSp_spec (p : P) :
    (skipSp cm p).2.oof = p.oof ∧ (skipSp cm p).2.mu ≤ p.mu ∧
    (∀ b, (skipSp cm p).1 = some b → b ≠ 0 → (skipSp cm p).2.onDeck = b ∧ cm.isSpace b = false ∧ b ≠ 35) ∧
    ((skipSp cm p).1 = some 0 → (skipSp cm p).2.onDeck = 0) :=
  skipSpace_spec cm p.sfuel p (sfuel_ok p)

/-! ### token loops -/

theorem classLoop_spec (cls : UInt8 → Bool) : ∀ (n : Nat) (p : P) (acc : List UInt8), p.mu < n →
    (classLoop cls n p acc).2.oof = p.oof ∧
    (classLoop cls n p acc).2.mu + (classLoop cls n p acc).1.1.length ≤ p.mu + acc.length ∧
    acc.length ≤ (classLoop cls n p acc).1.1.length
  | 0, p, acc, h => by omega
  | n + 1, p, acc, h => by
    unfold classLoop
    rcases hr : readByte p with ⟨r, p'⟩
    have ho := readByte_oof p; have hm := readByte_mu_le p; have hd := readByte_deck p
    rw [hr] at ho hm hd; simp at ho hm hd
    cases r with
    | none => simp [ho]; omega
    | some b =>
      simp only
      by_cases hb : b = 0
      · simp [hb, ho]; omega
      · have hc := readByte_consumes p b hb (by rw [hr])
        rw [hr] at hc; simp at hc
        simp only [beq_iff_eq, hb, if_false]
        by_cases hcl : cls b = true
        · simp only [hcl, if_true]
          have ih := classLoop_spec cls n p' (b :: acc) (by omega)
          simp only [List.length_cons] at ih
          exact ⟨by rw [ih.1, ho], by omega, by omega⟩
        · simp only [hcl, Bool.false_eq_true, if_false]
          refine ⟨by simp [putBack_oof, ho], ?_, by simp⟩
          rw [putBack_mu b p' hb hd]; simp; omega

/-- `readToken`: never out of fuel, consumes at least the token it returns -/
theorem readToken_spec (p : P) :
    (readToken cm p).2.oof = p.oof ∧ (readToken cm p).2.mu + (readToken cm p).1.1.length ≤ p.mu := by
  unfold readToken
  have hs := skipSp_spec cm p
  rcases hk : skipSp cm p with ⟨r, p1⟩
  rw [hk] at hs; simp at hs
  cases r with
  | none => simp; exact ⟨hs.1, hs.2.1⟩
  | some b =>
    simp only
    by_cases hb : b = 0
    · simp [hb]; exact ⟨hs.1, hs.2.1⟩
    · simp only [beq_iff_eq, hb, if_false]
      have hc := classLoop_spec cm.isToken p1.sfuel p1 [] (by have := sfuel_ok p1; omega)
      simp at hc
      exact ⟨by rw [hc.1, hs.1], by omega⟩

theorem readNumberToken_spec (p : P) :
    (readNumberToken cm p).2.oof = p.oof ∧ (readNumberToken cm p).2.mu + (readNumberToken cm p).1.1.length ≤ p.mu := by
  unfold readNumberToken
  have hc := classLoop_spec cm.isNum p.sfuel p [] (by have := sfuel_ok p; omega)
  simp at hc
  exact ⟨hc.1, hc.2⟩

end Ggql.Scan
