/-
Fuel sufficiency for the composite scanner functions of `Model/Scan` (C03): with the fuel the model gives
them, `readEscaped`, `readString`, `readType`, `readValue`, `readArgValue`, the argument loop, `readDirUse`
and `readDirUses` never run out of fuel and never un-consume input; where a loop relies on it, a
successful call has consumed at least one byte.

`Le p' p` : the flag is unchanged and the measure did not grow;  `Lt p' p` : … and it shrank.
-/
import Ggql.Proofs.ScanLemmas
namespace Ggql.Scan

variable (cm : CM)

def Le (p' p : P) : Prop := p'.oof = p.oof ∧ p'.mu ≤ p.mu
def Lt (p' p : P) : Prop := p'.oof = p.oof ∧ p'.mu < p.mu

theorem Le.refl (p : P) : Le p p := ⟨rfl, Nat.le_refl _⟩
theorem Le.trans {a b c : P} (h1 : Le a b) (h2 : Le b c) : Le a c := ⟨h1.1.trans h2.1, Nat.le_trans h1.2 h2.2⟩
theorem Lt.le {a b : P} (h : Lt a b) : Le a b := ⟨h.1, Nat.le_of_lt h.2⟩
theorem Lt.trans_le {a b c : P} (h1 : Lt a b) (h2 : Le b c) : Lt a c := ⟨h1.1.trans h2.1, Nat.lt_of_lt_of_le h1.2 h2.2⟩
theorem Le.trans_lt {a b c : P} (h1 : Le a b) (h2 : Lt b c) : Lt a c := ⟨h1.1.trans h2.1, Nat.lt_of_le_of_lt h1.2 h2.2⟩

theorem readByte_le (p : P) : Le (readByte p).2 p := ⟨readByte_oof p, readByte_mu_le p⟩
theorem reRead_le (p : P) : Le (reRead p) p := readByte_le p
theorem reRead_lt (p : P) (h : p.onDeck ≠ 0) : Lt (reRead p) p :=
  ⟨reRead_oof p, by have := reRead_consumes p h; omega⟩
theorem skipSp_le (p : P) : Le (skipSp cm p).2 p := ⟨(skipSp_spec cm p).1, (skipSp_spec cm p).2.1⟩
theorem readToken_le (p : P) : Le (readToken cm p).2 p :=
  ⟨(readToken_spec cm p).1, by have := (readToken_spec cm p).2; omega⟩
theorem readNumberToken_le (p : P) : Le (readNumberToken cm p).2 p :=
  ⟨(readNumberToken_spec cm p).1, by have := (readNumberToken_spec cm p).2; omega⟩

/-- a byte read and found non-zero: strictly consumed -/
theorem readByte_lt (p : P) (b : UInt8) (hb : b ≠ 0) (h : (readByte p).1 = some b) : Lt (readByte p).2 p :=
  ⟨readByte_oof p, by have := readByte_consumes p b hb h; omega⟩

theorem putBack_le_of_read (p : P) (b : UInt8) (hb : b ≠ 0) (h : (readByte p).1 = some b) :
    Le (putBack b (readByte p).2) p :=
  ⟨by rw [putBack_oof]; exact readByte_oof p, by rw [read_putBack_mu p b hb h]; exact Nat.le_refl _⟩

theorem enter_le (p : P) : Le p.enter p := ⟨rfl, Nat.le_refl _⟩
theorem leave_le (p : P) : Le p.leave p := ⟨rfl, Nat.le_refl _⟩
@[simp] theorem enter_mu (p : P) : p.enter.mu = p.mu := rfl
@[simp] theorem leave_mu (p : P) : p.leave.mu = p.mu := rfl
@[simp] theorem enter_oof (p : P) : p.enter.oof = p.oof := rfl
@[simp] theorem leave_oof (p : P) : p.leave.oof = p.oof := rfl
@[simp] theorem enter_onDeck (p : P) : p.enter.onDeck = p.onDeck := rfl

/-- after `skipSp` returned a significant byte, that byte is on deck -/
theorem skipSp_deck (p : P) (b : UInt8) (h : (skipSp cm p).1 = some b) (hb : b ≠ 0) : (skipSp cm p).2.onDeck = b :=
  ((skipSp_spec cm p).2.2.1 b h hb).1

/-! ### readEscaped -/

theorem readEscaped_le (p : P) : Le (readEscaped cm p).2 p := by
  unfold readEscaped
  rcases h0 : readByte p with ⟨r0, p0⟩
  have l0 : Le p0 p := by have := readByte_le p; rwa [h0] at this
  cases r0 with
  | none => exact l0
  | some b =>
    simp only
    split
    · exact l0
    · split
      · -- four hex digits: each step reads at most one byte
        have hstep : ∀ (acc : Option Err × P), Le acc.2 p →
            Le ((match acc with
                | (some e, p) => (some e, p)
                | (none, p) =>
                  match readByte p with
                  | (none, p) => (some ioErr, p)
                  | (some c, p) => if ((48 ≤ c && c ≤ 57) || (97 ≤ c && c ≤ 102) || (65 ≤ c && c ≤ 70)) = true then (none, p) else (some p.perr, p)) : Option Err × P).2 p := by
          intro acc hacc
          rcases acc with ⟨e, q⟩
          cases e with
          | some e => exact hacc
          | none =>
            simp only
            rcases hq : readByte q with ⟨rq, q'⟩
            have lq : Le q' q := by have := readByte_le q; rwa [hq] at this
            cases rq with
            | none => exact lq.trans hacc
            | some c => simp only; split <;> exact lq.trans hacc
        exact hstep _ (hstep _ (hstep _ (hstep (none, p0) l0)))
      · split <;> exact l0

/-! ### strings -/

theorem strLoop_le : ∀ (n : Nat) (p : P), p.mu < n → Le (strLoop cm n p).2 p
  | 0, p, h => by omega
  | n + 1, p, h => by
    unfold strLoop
    rcases h0 : readByte p with ⟨r0, p0⟩
    have l0 : Le p0 p := by have := readByte_le p; rwa [h0] at this
    cases r0 with
    | none => exact l0
    | some b =>
      simp only
      by_cases hb : b = 0
      · simp [hb]; exact l0
      · have lt0 : Lt p0 p := by have := readByte_lt p b hb (by rw [h0]); rwa [h0] at this
        split
        · exact l0
        · split
          · rcases he : readEscaped cm p0 with ⟨re, pe⟩
            have le : Le pe p0 := by have := readEscaped_le cm p0; rwa [he] at this
            cases re with
            | some e => exact le.trans l0
            | none =>
              simp only
              have : pe.mu < n := by have := le.2; have := lt0.2; omega
              exact (strLoop_le n pe this).trans (le.trans l0)
          · split
            · exact l0
            · have : p0.mu < n := by have := lt0.2; omega
              exact (strLoop_le n p0 this).trans l0

theorem blockLoop_le : ∀ (n : Nat) (p : P), p.mu < n → Le (blockLoop cm n p).2 p
  | 0, p, h => by omega
  | n + 1, p, h => by
    unfold blockLoop
    rcases h0 : readByte p with ⟨r0, p0⟩
    have l0 : Le p0 p := by have := readByte_le p; rwa [h0] at this
    cases r0 with
    | none => exact l0
    | some b =>
      simp only
      by_cases hb : b = 0
      · simp [hb]; exact l0
      · have lt0 : Lt p0 p := by have := readByte_lt p b hb (by rw [h0]); rwa [h0] at this
        have hn0 : p0.mu < n := by have := lt0.2; omega
        split
        · -- a quote: one or two more bytes are looked at
          rcases h1 : readByte p0 with ⟨r1, p1⟩
          have l1 : Le p1 p0 := by have := readByte_le p0; rwa [h1] at this
          cases r1 with
          | none => exact l1.trans l0
          | some b1 =>
            simp only
            have hn1 : p1.mu < n := by have := l1.2; omega
            split
            · rcases h2 : readByte p1 with ⟨r2, p2⟩
              have l2 : Le p2 p1 := by have := readByte_le p1; rwa [h2] at this
              cases r2 with
              | none => exact l2.trans (l1.trans l0)
              | some b2 =>
                simp only
                split
                · exact l2.trans (l1.trans l0)
                · have : p2.mu < n := by have := l2.2; omega
                  exact (blockLoop_le n p2 this).trans (l2.trans (l1.trans l0))
            · exact (blockLoop_le n p1 hn1).trans (l1.trans l0)
        · split
          · rcases he : readEscaped cm p0 with ⟨re, pe⟩
            have le : Le pe p0 := by have := readEscaped_le cm p0; rwa [he] at this
            cases re with
            | some e => exact le.trans l0
            | none =>
              simp only
              have : pe.mu < n := by have := le.2; omega
              exact (blockLoop_le n pe this).trans (le.trans l0)
          · split
            · exact l0
            · exact (blockLoop_le n p0 hn0).trans l0

theorem sfuel2_ok (p : P) : p.mu < 2 * p.sfuel := by have := sfuel_ok p; omega

/-- `readString`: never out of fuel, never un-consumes; when the byte on deck is a quote it is consumed -/
theorem readString_le (p : P) : Le (readString cm p).2 p := by
  unfold readString
  rcases h0 : readByte p with ⟨r0, p0⟩
  have l0 : Le p0 p := by have := readByte_le p; rwa [h0] at this
  cases r0 with
  | none => exact l0
  | some b =>
    simp only
    by_cases hb : b = 0
    · simp [hb]; exact l0
    · simp only [beq_iff_eq, hb, if_false]
      split
      · have := putBack_le_of_read p b hb (by rw [h0]); rwa [h0] at this
      · rcases h1 : readByte p0 with ⟨r1, p1⟩
        have l1 : Le p1 p0 := by have := readByte_le p0; rwa [h1] at this
        cases r1 with
        | none => exact l1.trans l0
        | some b1 =>
          simp only
          split
          · rcases h2 : readByte p1 with ⟨r2, p2⟩
            have l2 : Le p2 p1 := by have := readByte_le p1; rwa [h2] at this
            cases r2 with
            | none => exact l2.trans (l1.trans l0)
            | some b2 =>
              simp only
              split
              · by_cases hb2 : b2 = 0
                · subst hb2; exact ⟨by simp [putBack_oof]; exact (l2.trans (l1.trans l0)).1, by
                    have hd := readByte_deck p1; rw [h2] at hd; simp at hd
                    simp [putBack, P.mu, hd]; have := (l2.trans (l1.trans l0)).2; simp [P.mu, hd] at this; exact this⟩
                · have := putBack_le_of_read p1 b2 hb2 (by rw [h2]); rw [h2] at this
                  exact this.trans (l1.trans l0)
              · exact (blockLoop_le cm _ p2 (sfuel2_ok p2)).trans (l2.trans (l1.trans l0))
          · split
            · exact l1.trans l0
            · rename_i hq hz
              have hb1 : b1 ≠ 0 := by simpa using hz
              have lp := putBack_le_of_read p0 b1 hb1 (by rw [h1]); rw [h1] at lp
              exact (strLoop_le cm _ _ (sfuel2_ok _)).trans (lp.trans l0)

theorem readString_lt_of_quote (p : P) (h : p.onDeck = 34) : Lt (readString cm p).2 p := by
  have hne : p.onDeck ≠ 0 := by rw [h]; decide
  have hr : readByte p = (some 34, { p with onDeck := 0 }) := by
    unfold readByte; simp [h]
  have lt0 : Lt (readByte p).2 p := readByte_lt p 34 (by decide) (by rw [hr])
  -- everything after the first byte only consumes
  unfold readString
  rw [hr] at lt0 ⊢
  simp only
  have hq : ((34 : UInt8) == 0) = false := by decide
  have hq2 : ((34 : UInt8) != 34) = false := by decide
  simp only [hq, hq2, Bool.false_eq_true, if_false]
  generalize hp0 : ({ p with onDeck := 0 } : P) = p0 at lt0 ⊢
  rcases h1 : readByte p0 with ⟨r1, p1⟩
  have l1 : Le p1 p0 := by have := readByte_le p0; rwa [h1] at this
  cases r1 with
  | none => exact l1.trans_lt lt0
  | some b1 =>
    simp only
    split
    · rcases h2 : readByte p1 with ⟨r2, p2⟩
      have l2 : Le p2 p1 := by have := readByte_le p1; rwa [h2] at this
      cases r2 with
      | none => exact (l2.trans l1).trans_lt lt0
      | some b2 =>
        simp only
        split
        · by_cases hb2 : b2 = 0
          · subst hb2
            have hd := readByte_deck p1; rw [h2] at hd; simp at hd
            have : Le (putBack 0 p2) p2 := ⟨rfl, by simp [putBack, P.mu, hd]⟩
            exact (this.trans (l2.trans l1)).trans_lt lt0
          · have := putBack_le_of_read p1 b2 hb2 (by rw [h2]); rw [h2] at this
            exact (this.trans l1).trans_lt lt0
        · exact ((blockLoop_le cm _ p2 (sfuel2_ok p2)).trans (l2.trans l1)).trans_lt lt0
    · split
      · exact l1.trans_lt lt0
      · rename_i hq' hz
        have hb1 : b1 ≠ 0 := by simpa using hz
        have lp := putBack_le_of_read p0 b1 hb1 (by rw [h1]); rw [h1] at lp
        exact ((strLoop_le cm _ _ (sfuel2_ok _)).trans lp).trans_lt lt0


/-! ### readType -/

theorem vfuel_ok (p : P) : 2 * p.mu + 6 ≤ p.vfuel := by
  unfold P.vfuel; have := mu_le_rest p; omega

theorem bang_le (t : Ty) (p : P) : Le (bang cm t p).2 p := by
  unfold bang
  rcases h3 : skipSp cm p with ⟨r3, p3⟩
  have l3 : Le p3 p := by have := skipSp_le cm p; rwa [h3] at this
  cases r3 with
  | none => exact l3
  | some b3 => simp only; split; exact (reRead_le p3).trans l3; exact l3

/-- `readType`: never out of fuel (fuel ≥ 2·mu + 3), never un-consumes, and a type that is returned was
paid for with at least one byte -/
theorem readType_spec : ∀ (n : Nat) (p : P), 2 * p.mu + 3 ≤ n →
    Le (readType cm n p).2 p ∧ (∀ t, (readType cm n p).1.1 = some t → Lt (readType cm n p).2 p)
  | 0, p, h => by omega
  | n + 1, p, h => by
    unfold readType
    rcases h0 : skipSp cm p with ⟨r0, p0⟩
    have l0 : Le p0 p := by have := skipSp_le cm p; rwa [h0] at this
    cases r0 with
    | none => exact ⟨l0, by intro t ht; simp at ht⟩
    | some b =>
      simp only
      by_cases hb : b = 0
      · simp [hb]; exact l0
      · have hdeck : p0.onDeck = b := by have := skipSp_deck cm p b (by rw [h0]) hb; rwa [h0] at this
        simp only [beq_iff_eq, hb, if_false]
        by_cases h91 : b = 91
        · -- a list type
          simp only [h91, if_true]
          have ltr : Lt (reRead p0) p0 := reRead_lt p0 (by rw [hdeck]; exact hb)
          have ltp : Lt (reRead p0) p := ltr.trans_le l0
          by_cases htd : tooDeep cm (reRead p0) = true
          · simp only [htd, if_true]; exact ⟨ltp.le, by intro t ht; simp at ht⟩
          simp only [htd, Bool.false_eq_true, if_false]
          have hfu : 2 * (reRead p0).enter.mu + 3 ≤ n := by have := ltp.2; simp; omega
          have ih := readType_spec n (reRead p0).enter hfu
          rcases hi : readType cm n (reRead p0).enter with ⟨⟨ti, ei⟩, pi⟩
          rw [hi] at ih; simp only at ih
          have li : Le pi (reRead p0) := ⟨by rw [ih.1.1]; rfl, by have := ih.1.2; simpa using this⟩
          have ltpi : Lt pi.leave p := (Le.trans_lt ((leave_le pi).trans li) ltp)
          cases ei with
          | some e => exact ⟨ltpi.le, fun _ _ => ltpi⟩
          | none =>
            simp only
            by_cases hlm : (cm.listNeedsMember && ti.isNone) = true
            · simp only [hlm, if_true]; exact ⟨ltpi.le, fun _ _ => ltpi⟩
            simp only [hlm, Bool.false_eq_true, if_false]
            rcases h2 : skipSp cm pi.leave with ⟨r2, p2⟩
            have l2 : Le p2 pi.leave := by have := skipSp_le cm pi.leave; rwa [h2] at this
            have lt2 : Lt p2 p := l2.trans_lt ltpi
            cases r2 with
            | none => exact ⟨lt2.le, by intro t ht; simp at ht⟩
            | some b2 =>
              simp only
              by_cases h93 : b2 = 93
              · simp only [h93, if_true]
                have lb : Lt (bang cm .list (reRead p2)).2 p := ((bang_le cm .list (reRead p2)).trans (reRead_le p2)).trans_lt lt2
                exact ⟨lb.le, fun _ _ => lb⟩
              · simp only [beq_iff_eq, h93, if_false]
                exact ⟨lt2.le, fun _ _ => lt2⟩
        · simp only [h91, if_false]
          -- a named type
          rcases h1 : readToken cm p0 with ⟨⟨tok, ioe⟩, p1⟩
          have hts := readToken_spec cm p0; rw [h1] at hts; simp only at hts
          have l1 : Le p1 p0 := ⟨hts.1, by omega⟩
          cases ioe with
          | true => exact ⟨l1.trans l0, by intro t ht; simp at ht⟩
          | false =>
            simp only
            by_cases hte : tok.isEmpty = true
            · simp only [hte, if_true]; exact ⟨l1.trans l0, by intro t ht; simp at ht⟩
            · simp only [hte, Bool.false_eq_true, if_false]
              have hlen : 0 < tok.length := by
                cases tok with
                | nil => simp at hte
                | cons _ _ => simp
              have lt1 : Lt p1 p := ⟨(l1.trans l0).1, by have := l0.2; omega⟩
              have lb := (bang_le cm (if cm.known tok = true then Ty.known else Ty.ref) p1).trans_lt lt1
              exact ⟨lb.le, fun _ _ => lb⟩

theorem readType_le (p : P) : Le (readType cm p.vfuel p).2 p :=
  (readType_spec cm p.vfuel p (by have := vfuel_ok p; omega)).1


/-! ### readValue -/

/-- a byte `skipSpace` stops at: non-zero, not white space, not `#` -/
def Sig (b : UInt8) : Prop := b ≠ 0 ∧ cm.isSpace b = false ∧ b ≠ 35

theorem skipSp_sig (p : P) (b : UInt8) (h : (skipSp cm p).1 = some b) (hb : b ≠ 0) : Sig cm b :=
  ⟨hb, ((skipSp_spec cm p).2.2.1 b h hb).2.1, ((skipSp_spec cm p).2.2.1 b h hb).2.2⟩

theorem readByte_deck_eq (p : P) (b : UInt8) (hd : p.onDeck = b) (hb : b ≠ 0) :
    readByte p = (some b, { p with onDeck := 0 }) := by
  unfold readByte; simp [hd, hb]

theorem putBack_restore (p : P) (b : UInt8) (hd : p.onDeck = b) : putBack b { p with onDeck := 0 } = p := by
  cases p; simp [putBack] at *; exact hd.symm

/-- with a significant byte already on deck, `skipSpace` changes nothing -/
theorem skipSp_idem (p : P) (b : UInt8) (hd : p.onDeck = b) (hs : Sig cm b) : skipSp cm p = (some b, p) := by
  unfold skipSp P.sfuel
  show skipSpace cm (p.rest.length + 2 + 1) p = _
  unfold skipSpace
  rw [readByte_deck_eq p b hd hs.1]
  simp only [beq_iff_eq, hs.1, if_false, hs.2.1, Bool.false_eq_true, hs.2.2, putBack_restore p b hd]

theorem classLoop_first (cls : UInt8 → Bool) (p : P) (b : UInt8) (hd : p.onDeck = b) (hb : b ≠ 0) (hc : cls b = true) :
    Lt (classLoop cls p.sfuel p []).2 p ∧ 1 ≤ (classLoop cls p.sfuel p []).1.1.length := by
  unfold P.sfuel
  show Lt (classLoop cls (p.rest.length + 2 + 1) p []).2 p ∧ _
  unfold classLoop
  rw [readByte_deck_eq p b hd hb]
  simp only [beq_iff_eq, hb, if_false, hc, if_true]
  have hmu : ({ p with onDeck := 0 } : P).mu + 1 = p.mu := by simp [P.mu, hd, hb]
  have hsp := classLoop_spec cls (p.rest.length + 2) { p with onDeck := 0 } [b] (by simp [P.mu])
  simp only [List.length_cons, List.length_nil] at hsp
  refine ⟨⟨hsp.1, ?_⟩, ?_⟩ <;> omega

theorem classLoop_none (cls : UInt8 → Bool) (p : P) (b : UInt8) (hd : p.onDeck = b) (hb : b ≠ 0) (hc : cls b = false) :
    classLoop cls p.sfuel p [] = (([], false), p) := by
  unfold P.sfuel
  show classLoop cls (p.rest.length + 2 + 1) p [] = _
  unfold classLoop
  rw [readByte_deck_eq p b hd hb]
  simp [hb, hc, putBack_restore p b hd]

variable (hnum : ∀ b, isNumStart b = true → cm.isNum b = true)
include hnum

mutual
/-- `readValue`: fuel ≥ 2·mu + 3 suffices; it never un-consumes; and when `skipSpace` found a significant
byte and no error is returned, at least one byte was consumed -/
theorem readValue_spec : ∀ (n : Nat) (p : P), 2 * p.mu + 3 ≤ n →
    Le (readValue cm n p).2 p ∧
    (∀ b0, (skipSp cm p).1 = some b0 → b0 ≠ 0 → (readValue cm n p).1 = none → Lt (readValue cm n p).2 p)
  | 0, p, h => by omega
  | n + 1, p, h => by
    unfold readValue
    rcases h0 : skipSp cm p with ⟨r0, p0⟩
    have l0 : Le p0 p := by have := skipSp_le cm p; rwa [h0] at this
    cases r0 with
    | none => exact ⟨l0, by intro b hb; simp at hb⟩
    | some b0 =>
      simp only
      by_cases hb : b0 = 0
      · refine ⟨by simp [hb]; exact l0, ?_⟩
        intro b hb' hbn; simp at hb'; exact absurd (hb'.symm.trans hb) hbn
      · have hdeck : p0.onDeck = b0 := by have := skipSp_deck cm p b0 (by rw [h0]) hb; rwa [h0] at this
        have hsig : Sig cm b0 := skipSp_sig cm p b0 (by rw [h0]) hb
        have hd0 : p0.onDeck ≠ 0 := by rw [hdeck]; exact hb
        simp only [beq_iff_eq, hb, if_false]
        -- it is enough to show, arm by arm: the arm only consumes, and consumes when it reports no error
        have arm : ∀ (r : Option Err × P), Le r.2 p0 → (r.1 = none → Lt r.2 p0) → ∀ (x : UInt8),
            Le r.2 p ∧ (∀ b, some x = some b → b ≠ 0 → r.1 = none → Lt r.2 p) :=
          fun r hle hlt _ => ⟨hle.trans l0, fun _ _ _ hn => (hlt hn).trans_le l0⟩
        by_cases h34 : b0 = 34
        · simp only [h34, if_true]
          have := readString_lt_of_quote cm p0 (by rw [hdeck, h34])
          exact arm _ this.le (fun _ => this) _
        · simp only [h34, if_false]
          by_cases h36 : b0 = 36
          · simp only [h36, if_true]
            have ltr : Lt (reRead p0) p0 := reRead_lt p0 hd0
            rcases ht : readToken cm (reRead p0) with ⟨⟨tok, ioe⟩, p1⟩
            have l1 : Le p1 (reRead p0) := by have := readToken_le cm (reRead p0); rwa [ht] at this
            cases ioe with
            | true => exact arm (some ioErr, p1) (l1.trans ltr.le) (fun _ => l1.trans_lt ltr) _
            | false => exact arm (none, p1) (l1.trans ltr.le) (fun _ => l1.trans_lt ltr) _
          · simp only [h36, if_false]
            by_cases hns : isNumStart b0 = true
            · simp only [hns, if_true]
              have hcf := classLoop_first cm.isNum p0 b0 hdeck hb (hnum b0 hns)
              unfold readNumberToken
              rcases hc : classLoop cm.isNum p0.sfuel p0 [] with ⟨⟨tok, ioe⟩, p1⟩
              rw [hc] at hcf
              cases ioe with
              | true => exact arm (some ioErr, p1) hcf.1.le (fun _ => hcf.1) _
              | false =>
                simp only
                split
                · exact arm (_, p1) hcf.1.le (fun _ => hcf.1) _
                · split
                  · exact arm (none, p1) hcf.1.le (fun _ => hcf.1) _
                  · exact arm (_, p1) hcf.1.le (fun _ => hcf.1) _
            · simp only [hns, Bool.false_eq_true, if_false]
              by_cases h91 : b0 = 91
              · simp only [h91, if_true]
                have ltr : Lt (reRead p0) p0 := reRead_lt p0 hd0
                by_cases htd : tooDeep cm (reRead p0) = true
                · simp only [htd, if_true]; exact arm (_, reRead p0) ltr.le (fun _ => ltr) _
                simp only [htd, Bool.false_eq_true, if_false]
                have hfu : 2 * (reRead p0).enter.mu + 4 ≤ n := by have := ltr.2; have := l0.2; simp; omega
                have ih := readListBody_spec n (reRead p0).enter hfu
                have : Lt (readListBody cm n (reRead p0).enter).2.leave p0 :=
                  (Le.trans_lt ((leave_le _).trans (ih.trans (enter_le _))) ltr)
                exact arm ((readListBody cm n (reRead p0).enter).1, (readListBody cm n (reRead p0).enter).2.leave) this.le (fun _ => this) _
              · simp only [h91, if_false]
                by_cases h123 : b0 = 123
                · simp only [h123, if_true]
                  have ltr : Lt (reRead p0) p0 := reRead_lt p0 hd0
                  by_cases htd : tooDeep cm (reRead p0) = true
                  · simp only [htd, if_true]; exact arm (_, reRead p0) ltr.le (fun _ => ltr) _
                  simp only [htd, Bool.false_eq_true, if_false]
                  have hfu : 2 * (reRead p0).enter.mu + 4 ≤ n := by have := ltr.2; have := l0.2; simp; omega
                  have ih := readObjBody_spec n (reRead p0).enter hfu
                  have : Lt (readObjBody cm n (reRead p0).enter).2.leave p0 :=
                    (Le.trans_lt ((leave_le _).trans (ih.trans (enter_le _))) ltr)
                  exact arm ((readObjBody cm n (reRead p0).enter).1, (readObjBody cm n (reRead p0).enter).2.leave) this.le (fun _ => this) _
                · simp only [h123, if_false]
                  -- a word: `readToken` from a state with the byte on deck
                  unfold readToken
                  rw [skipSp_idem cm p0 b0 hdeck hsig]
                  simp only [beq_iff_eq, hb, if_false]
                  by_cases htk : cm.isToken b0 = true
                  · have hcf := classLoop_first cm.isToken p0 b0 hdeck hb htk
                    rcases hc : classLoop cm.isToken p0.sfuel p0 [] with ⟨⟨tok, ioe⟩, p1⟩
                    rw [hc] at hcf
                    cases ioe with
                    | true => exact arm (some ioErr, p1) hcf.1.le (fun _ => hcf.1) _
                    | false =>
                      simp only
                      split
                      · exact arm (_, p1) hcf.1.le (fun _ => hcf.1) _
                      · exact arm (none, p1) hcf.1.le (fun _ => hcf.1) _
                  · have hcn := classLoop_none cm.isToken p0 b0 hdeck hb (by simpa using htk)
                    rw [hcn]
                    simp only [beq_self_eq_true, Bool.and_self, if_true]
                    exact arm (some p0.perr, p0) (Le.refl p0) (fun hn => by cases hn) _

theorem readListBody_spec : ∀ (n : Nat) (p : P), 2 * p.mu + 4 ≤ n → Le (readListBody cm n p).2 p
  | 0, p, h => by omega
  | n + 1, p, h => by
    unfold readListBody
    rcases h0 : skipSp cm p with ⟨r0, p0⟩
    have l0 : Le p0 p := by have := skipSp_le cm p; rwa [h0] at this
    cases r0 with
    | none => exact l0
    | some b0 =>
      simp only
      by_cases hb : b0 = 0
      · simp [hb]; exact l0
      · have hdeck : p0.onDeck = b0 := by have := skipSp_deck cm p b0 (by rw [h0]) hb; rwa [h0] at this
        have hsig : Sig cm b0 := skipSp_sig cm p b0 (by rw [h0]) hb
        simp only [beq_iff_eq, hb, if_false]
        split
        · exact (reRead_le p0).trans l0
        · have hfu : 2 * p0.mu + 3 ≤ n := by have := l0.2; omega
          have ih := readValue_spec n p0 hfu
          rcases hv : readValue cm n p0 with ⟨rv, p1⟩
          rw [hv] at ih
          cases rv with
          | some e => exact ih.1.trans l0
          | none =>
            simp only
            have lt1 : Lt p1 p0 := ih.2 b0 (by rw [skipSp_idem cm p0 b0 hdeck hsig]) hb rfl
            have hfu2 : 2 * p1.mu + 4 ≤ n := by have := lt1.2; have := l0.2; omega
            exact (readListBody_spec n p1 hfu2).trans (lt1.le.trans l0)

theorem readObjBody_spec : ∀ (n : Nat) (p : P), 2 * p.mu + 4 ≤ n → Le (readObjBody cm n p).2 p
  | 0, p, h => by omega
  | n + 1, p, h => by
    unfold readObjBody
    rcases h0 : skipSp cm p with ⟨r0, p0⟩
    have l0 : Le p0 p := by have := skipSp_le cm p; rwa [h0] at this
    cases r0 with
    | none => exact l0
    | some b0 =>
      simp only
      by_cases hb : b0 = 0
      · simp [hb]; exact l0
      · simp only [beq_iff_eq, hb, if_false]
        split
        · exact (reRead_le p0).trans l0
        · -- the key, then a colon, then a value
          have hkle : Le (readKey cm b0 p0).2 p0 := by
            unfold readKey
            split
            · exact readString_le cm p0
            · rcases ht : readToken cm p0 with ⟨⟨tok, ioe⟩, p1⟩
              have l1 : Le p1 p0 := by have := readToken_le cm p0; rwa [ht] at this
              cases ioe <;> exact l1
          rcases hk : readKey cm b0 p0 with ⟨ke, pk⟩
          rw [hk] at hkle
          cases ke with
          | some e => exact hkle.trans l0
          | none =>
            simp only
            rcases h2 : skipSp cm pk with ⟨r2, p2⟩
            have l2 : Le p2 pk := by have := skipSp_le cm pk; rwa [h2] at this
            cases r2 with
            | none => exact l2.trans (hkle.trans l0)
            | some b2 =>
              simp only
              by_cases h58 : b2 = 58
              · have hne : (b2 != 58) = false := by simp [h58]
                simp only [hne, Bool.false_eq_true, if_false]
                have hd2 : p2.onDeck = b2 := by
                  have := skipSp_deck cm pk b2 (by rw [h2]) (by rw [h58]; decide); rwa [h2] at this
                have ltr : Lt (reRead p2) p2 := reRead_lt p2 (by rw [hd2, h58]; decide)
                have lr : Lt (reRead p2) p := ltr.trans_le (l2.trans (hkle.trans l0))
                have hfu : 2 * (reRead p2).mu + 3 ≤ n := by have := lr.2; omega
                have ih := readValue_spec n (reRead p2) hfu
                rcases hv : readValue cm n (reRead p2) with ⟨rv, p3⟩
                rw [hv] at ih
                cases rv with
                | some e => exact ih.1.trans lr.le
                | none =>
                  simp only
                  have l3 : Lt p3 p := ih.1.trans_lt lr
                  have hfu2 : 2 * p3.mu + 4 ≤ n := by have := l3.2; omega
                  exact (readObjBody_spec n p3 hfu2).trans l3.le
              · have hne : (b2 != 58) = true := by simp [h58]
                simp only [hne, if_true]
                exact l2.trans (hkle.trans l0)
end

theorem readValue_le (p : P) : Le (readValue cm p.vfuel p).2 p :=
  (readValue_spec cm hnum p.vfuel p (by have := vfuel_ok p; omega)).1

theorem optDefault_le (b : UInt8) (p : P) : Le (optDefault cm b p).2 p := by
  unfold optDefault
  split
  · exact (readValue_spec cm hnum p.vfuel (reRead p) (by have := vfuel_ok p; have := (reRead_le p).2; omega)).1.trans (reRead_le p)
  · exact Le.refl p

/-! ### arguments and directive uses -/

/-- `readArgValue`: only consumes; without an error the (non-empty) argument name was consumed -/
theorem readArgValue_spec (p : P) :
    Le (readArgValue cm p).2 p ∧ ((readArgValue cm p).1 = none → Lt (readArgValue cm p).2 p) := by
  unfold readArgValue
  rcases ht : readToken cm p with ⟨⟨tok, ioe⟩, p1⟩
  have hts := readToken_spec cm p; rw [ht] at hts; simp only at hts
  have l1 : Le p1 p := ⟨hts.1, by omega⟩
  cases ioe with
  | true => exact ⟨l1, fun hn => by cases hn⟩
  | false =>
    simp only
    by_cases hte : tok.isEmpty = true
    · simp only [hte, if_true]; exact ⟨l1, fun hn => by cases hn⟩
    · simp only [hte, Bool.false_eq_true, if_false]
      have hlen : 0 < tok.length := by
        cases tok with
        | nil => simp at hte
        | cons _ _ => simp
      have lt1 : Lt p1 p := ⟨l1.1, by omega⟩
      rcases h2 : skipSp cm p1 with ⟨r2, p2⟩
      have l2 : Le p2 p1 := by have := skipSp_le cm p1; rwa [h2] at this
      cases r2 with
      | none => exact ⟨l2.trans l1, fun hn => by cases hn⟩
      | some b2 =>
        simp only
        split
        · exact ⟨l2.trans l1, fun hn => by cases hn⟩
        · have hfu : 2 * (reRead p2).mu + 3 ≤ p2.vfuel := by
            have := vfuel_ok p2; have := (reRead_le p2).2; omega
          have lv := (readValue_spec cm hnum p2.vfuel (reRead p2) hfu).1
          have : Lt (readValue cm p2.vfuel (reRead p2)).2 p := (lv.trans ((reRead_le p2).trans l2)).trans_lt lt1
          exact ⟨this.le, fun _ => this⟩

theorem argLoop_spec : ∀ (n : Nat) (p : P), p.mu + 1 ≤ n → Le (argLoop cm n p).2 p
  | 0, p, h => by omega
  | n + 1, p, h => by
    unfold argLoop
    rcases h0 : skipSp cm p with ⟨r0, p0⟩
    have l0 : Le p0 p := by have := skipSp_le cm p; rwa [h0] at this
    cases r0 with
    | none => exact l0
    | some b0 =>
      simp only
      split
      · exact (reRead_le p0).trans l0
      · split
        · exact l0
        · have ha := readArgValue_spec cm hnum p0
          rcases hv : readArgValue cm p0 with ⟨rv, p1⟩
          rw [hv] at ha
          cases rv with
          | some e => exact ha.1.trans l0
          | none =>
            simp only
            have lt1 : Lt p1 p0 := ha.2 rfl
            have : p1.mu + 1 ≤ n := by have := lt1.2; have := l0.2; omega
            exact (argLoop_spec n p1 this).trans (lt1.le.trans l0)

theorem argLoop_le (p : P) : Le (argLoop cm p.vfuel p).2 p :=
  argLoop_spec cm hnum p.vfuel p (by have := vfuel_ok p; omega)

/-- `readDirUse`: only consumes; a directive use that was read cost at least its `@` -/
theorem readDirUse_spec (p : P) :
    Le (readDirUse cm p).2 p ∧ ((readDirUse cm p).1.1 = true → Lt (readDirUse cm p).2 p) := by
  unfold readDirUse
  rcases h0 : skipSp cm p with ⟨r0, p0⟩
  have l0 : Le p0 p := by have := skipSp_le cm p; rwa [h0] at this
  cases r0 with
  | none => exact ⟨l0, fun h => by cases h⟩
  | some b0 =>
    simp only
    by_cases h64 : b0 = 64
    · have hne : (b0 != 64) = false := by simp [h64]
      simp only [hne, Bool.false_eq_true, if_false]
      have hd : p0.onDeck = b0 := by
        have := skipSp_deck cm p b0 (by rw [h0]) (by rw [h64]; decide); rwa [h0] at this
      have ltr : Lt (reRead p0) p := (reRead_lt p0 (by rw [hd, h64]; decide)).trans_le l0
      have lty := readType_le cm (reRead p0)
      rcases hty : readType cm (reRead p0).vfuel (reRead p0) with ⟨⟨t, e⟩, p1⟩
      rw [hty] at lty
      have lt1 : Lt p1 p := lty.trans_lt ltr
      cases e with
      | some e => exact ⟨lt1.le, fun h => by cases h⟩
      | none =>
        cases t with
        | none => exact ⟨lt1.le, fun h => by cases h⟩
        | some t =>
          simp only
          split
          · have la := argLoop_spec cm hnum p1.vfuel (reRead p1) (by have := vfuel_ok p1; have := (reRead_le p1).2; omega)
            rcases hal : argLoop cm p1.vfuel (reRead p1) with ⟨ra, p2⟩
            rw [hal] at la
            have lt2 : Lt p2 p := (la.trans (reRead_le p1)).trans_lt lt1
            cases ra with
            | some e => exact ⟨lt2.le, fun h => by cases h⟩
            | none => exact ⟨lt2.le, fun _ => lt2⟩
          · exact ⟨lt1.le, fun _ => lt1⟩
    · have hne : (b0 != 64) = true := by simp [h64]
      simp only [hne, if_true]
      exact ⟨l0, fun h => by cases h⟩

theorem readDirUses_spec : ∀ (n : Nat) (p : P), p.mu + 1 ≤ n → Le (readDirUses cm n p).2 p
  | 0, p, h => by omega
  | n + 1, p, h => by
    unfold readDirUses
    have hd := readDirUse_spec cm hnum p
    rcases hr : readDirUse cm p with ⟨⟨ok, e⟩, p1⟩
    rw [hr] at hd
    cases e with
    | some e => exact hd.1
    | none =>
      cases ok with
      | false => exact hd.1
      | true =>
        simp only
        have lt1 : Lt p1 p := hd.2 rfl
        exact (readDirUses_spec n p1 (by have := lt1.2; omega)).trans lt1.le

theorem readDirs_le (p : P) : Le (readDirs cm p).2 p :=
  readDirUses_spec cm hnum p.vfuel p (by have := vfuel_ok p; omega)

theorem readArgValues_le (p : P) : Le (readArgValues cm p).2 p := by
  unfold readArgValues
  rcases h0 : skipSp cm p with ⟨r0, p0⟩
  have l0 : Le p0 p := by have := skipSp_le cm p; rwa [h0] at this
  cases r0 with
  | none => exact l0
  | some b0 =>
    simp only
    split
    · exact ((argLoop_spec cm hnum p0.vfuel (reRead p0) (by have := vfuel_ok p0; have := (reRead_le p0).2; omega)).trans (reRead_le p0)).trans l0
    · exact l0

end Ggql.Scan
