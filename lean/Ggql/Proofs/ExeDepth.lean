/-
The stack clause of C03 for requests, once D03 is repaired: `parseExe` never recurses deeper than the nesting
limit, whatever the bytes of the request.  Continues `Proofs/DepthBound` over the executable-document parser.
-/
import Ggql.Proofs.DepthBound
import Ggql.Model.ExeCF
namespace Ggql.ExeCF
open Ggql.Scan Ggql.SdlCF

variable (cm : CM) (cfg : Cfg)

theorem readVarDef_mb (l : Nat) (hl : cm.depthLimit = some l) (p : P) : MB l (readVarDef cm cfg p).2 p := by
  unfold readVarDef
  have ht := readToken_md cm p
  rcases hrt : readToken cm p with ⟨⟨tok, e⟩, p1⟩
  rw [hrt] at ht
  try dsimp only at ht
  have hp1 : MB l p1 p := MB.of_eq ht
  cases e with
  | true => exact hp1
  | false =>
    simp only
    split
    · exact hp1
    · have h2 := skipSp_md cm p1
      rcases hr2 : skipSp cm p1 with ⟨r2, p2⟩
      rw [hr2] at h2
      try dsimp only at h2
      have hp2 : MB l p2 p := (MB.of_eq h2).trans hp1
      cases r2 with
      | none => exact hp2
      | some b =>
        simp only
        split
        · exact hp2
        · have hty := readType_mb cm l hl (reRead p2).vfuel (reRead p2)
          rcases hrty : readType cm (reRead p2).vfuel (reRead p2) with ⟨⟨t, e3⟩, p3⟩
          rw [hrty] at hty
          try dsimp only at hty
          have hp3 : MB l p3 p := hty.trans ((MB.of_eq (reRead_md p2)).trans hp2)
          cases e3 with
          | some e => exact hp3
          | none =>
            simp only
            split
            · exact hp3
            · have h4 := skipSp_md cm p3
              rcases hr4 : skipSp cm p3 with ⟨r4, p4⟩
              rw [hr4] at h4
              try dsimp only at h4
              have hp4 : MB l p4 p := (MB.of_eq h4).trans hp3
              cases r4 with
              | none => exact hp4
              | some b4 =>
                simp only
                have hd := optDefault_mb cm l hl b4 p4
                rcases hrd : optDefault cm b4 p4 with ⟨e5, p5⟩
                rw [hrd] at hd
                try dsimp only at hd
                have hp5 : MB l p5 p := hd.trans hp4
                cases e5 with
                | some e => exact hp5
                | none => exact (readDirs_mb cm l hl p5).trans hp5

theorem varLoop_mb (l : Nat) (hl : cm.depthLimit = some l) : ∀ (n : Nat) (p : P), MB l (varLoop cm cfg n p).2 p
  | 0, p => MB.of_eq rfl
  | n + 1, p => by
    unfold varLoop
    have h := skipSp_md cm p
    rcases hr : skipSp cm p with ⟨r, p0⟩
    rw [hr] at h
    try dsimp only at h
    cases r with
    | none => exact MB.of_eq h
    | some b =>
      simp only
      split
      · exact MB.of_eq h
      · split
        · exact MB.of_eq (by simp [h])
        · split
          · exact MB.of_eq h
          · have hv := readVarDef_mb cm cfg l hl (reRead p0)
            rcases hrv : readVarDef cm cfg (reRead p0) with ⟨e, p1⟩
            rw [hrv] at hv
            try dsimp only at hv
            have hp1 : MB l p1 p := hv.trans (MB.of_eq (by simp [h]))
            cases e with
            | some e => exact hp1
            | none => exact (varLoop_mb l hl n p1).trans hp1

theorem readVarDefs_mb (l : Nat) (hl : cm.depthLimit = some l) (p : P) : MB l (readVarDefs cm cfg p).2 p := by
  unfold readVarDefs
  have h := skipSp_md cm p
  rcases hr : skipSp cm p with ⟨r, p0⟩
  rw [hr] at h
  try dsimp only at h
  cases r with
  | none => exact MB.of_eq h
  | some b =>
    simp only
    split
    · exact (varLoop_mb cm cfg l hl _ _).trans (MB.of_eq (by simp [h]))
    · exact MB.of_eq h

theorem readFragRef_mb (l : Nat) (hl : cm.depthLimit = some l) (tok : List UInt8) (p : P) : MB l (readFragRef cm tok p).2 p := by
  unfold readFragRef
  simp only
  split
  · exact readDirs_mb cm l hl p
  · exact (readDirs_mb cm l hl _).trans (MB.of_eq rfl)

theorem aliasTail_md (b : UInt8) (p : P) : (aliasTail cm b p).2.maxDepth = p.maxDepth := by
  unfold aliasTail
  split
  · have ht := readToken_md cm (reRead p)
    rcases hrt : readToken cm (reRead p) with ⟨⟨tok, e⟩, p1⟩
    rw [hrt] at ht
    try dsimp only at ht
    cases e <;> (simp only; rw [ht]; simp)
  · rfl

theorem readDot_md (acc : Option Err × P) : (readDot acc).2.maxDepth = acc.2.maxDepth := by
  unfold readDot
  rcases acc with ⟨e, q⟩
  cases e with
  | some e => rfl
  | none =>
    simp only
    have h := readByte_md q
    rcases hr : readByte q with ⟨r, q1⟩
    rw [hr] at h
    try dsimp only at h
    cases r with
    | none => exact h
    | some b => simp only; split <;> exact h

mutual
theorem readSelectionSet_mb (l : Nat) (hl : cm.depthLimit = some l) : ∀ (n : Nat) (p : P), MB l (readSelectionSet cm n p).2 p
  | 0, p => by unfold readSelectionSet; exact MB.of_eq rfl
  | n + 1, p => by
    unfold readSelectionSet
    have h := skipSp_md cm p
    rcases hr : skipSp cm p with ⟨r, p0⟩
    rw [hr] at h
    try dsimp only at h
    cases r with
    | none => exact MB.of_eq (by simp [h])
    | some b =>
      simp only
      split
      · exact MB.of_eq h
      · by_cases htd : tooDeep cm (reRead p0) = true
        · simp only [htd, if_true]; exact MB.of_eq (by simp [h])
        · have htd' : tooDeep cm (reRead p0) = false := by simpa using htd
          simp only [htd', Bool.false_eq_true, if_false]
          have hin : MB l (reRead p0).enter p := (enter_mb cm l _ hl htd').trans (MB.of_eq (by simp [h]))
          exact (MB.of_eq (leave_md _)).trans ((selLoop_mb l hl n _ 0).trans hin)

theorem selLoop_mb (l : Nat) (hl : cm.depthLimit = some l) : ∀ (n : Nat) (p : P) (cnt : Nat), MB l (selLoop cm n p cnt).2 p
  | 0, p, cnt => by unfold selLoop; exact MB.of_eq rfl
  | n + 1, p, cnt => by
    unfold selLoop
    have h := skipSp_md cm p
    rcases hr : skipSp cm p with ⟨r, p0⟩
    rw [hr] at h
    try dsimp only at h
    cases r with
    | none => exact MB.of_eq h
    | some b =>
      simp only
      split
      · exact MB.of_eq h
      · split
        · exact MB.of_eq (by simp [h])
        · split
          · have hf := readFragment_mb l hl n p0
            rcases hrf : readFragment cm n p0 with ⟨e, p1⟩
            rw [hrf] at hf
            try dsimp only at hf
            have hp1 : MB l p1 p := hf.trans (MB.of_eq h)
            cases e with
            | some e => exact hp1
            | none => exact (selLoop_mb l hl n p1 _).trans hp1
          · have hf := readField_mb l hl n p0
            rcases hrf : readField cm n p0 with ⟨e, p1⟩
            rw [hrf] at hf
            try dsimp only at hf
            have hp1 : MB l p1 p := hf.trans (MB.of_eq h)
            cases e with
            | some e => exact hp1
            | none => exact (selLoop_mb l hl n p1 _).trans hp1

theorem readField_mb (l : Nat) (hl : cm.depthLimit = some l) : ∀ (n : Nat) (p : P), MB l (readField cm n p).2 p
  | 0, p => by unfold readField; exact MB.of_eq rfl
  | n + 1, p => by
    unfold readField
    have ht := readToken_md cm p
    rcases hrt : readToken cm p with ⟨⟨tok, e⟩, p1⟩
    rw [hrt] at ht
    try dsimp only at ht
    have hp1 : MB l p1 p := MB.of_eq ht
    cases e with
    | true => exact hp1
    | false =>
      simp only
      split
      · exact hp1
      · have h2 := skipSp_md cm p1
        rcases hr2 : skipSp cm p1 with ⟨r2, p2⟩
        rw [hr2] at h2
        try dsimp only at h2
        have hp2 : MB l p2 p := (MB.of_eq h2).trans hp1
        cases r2 with
        | none => exact hp2
        | some b =>
          simp only
          have h3 := aliasTail_md cm b p2
          rcases hr3 : aliasTail cm b p2 with ⟨e3, p3⟩
          rw [hr3] at h3
          try dsimp only at h3
          have hp3 : MB l p3 p := (MB.of_eq h3).trans hp2
          cases e3 with
          | some e => exact hp3
          | none =>
            simp only
            have h4 := readArgValues_mb cm l hl p3
            rcases hr4 : readArgValues cm p3 with ⟨e4, p4⟩
            rw [hr4] at h4
            try dsimp only at h4
            have hp4 : MB l p4 p := h4.trans hp3
            cases e4 with
            | some e => exact hp4
            | none =>
              simp only
              have h5 := readDirs_mb cm l hl p4
              rcases hr5 : readDirs cm p4 with ⟨e5, p5⟩
              rw [hr5] at h5
              try dsimp only at h5
              have hp5 : MB l p5 p := h5.trans hp4
              cases e5 with
              | some e => exact hp5
              | none => exact (readSelectionSet_mb l hl n p5).trans hp5

theorem readInline_mb (l : Nat) (hl : cm.depthLimit = some l) : ∀ (n : Nat) (p : P), MB l (readInline cm n p).2 p
  | 0, p => by unfold readInline; exact MB.of_eq rfl
  | n + 1, p => by
    unfold readInline
    have h5 := readDirs_mb cm l hl p
    rcases hr5 : readDirs cm p with ⟨e5, p5⟩
    rw [hr5] at h5
    try dsimp only at h5
    cases e5 with
    | some e => exact h5
    | none => exact (readSelectionSet_mb l hl n p5).trans h5

theorem readFragment_mb (l : Nat) (hl : cm.depthLimit = some l) : ∀ (n : Nat) (p : P), MB l (readFragment cm n p).2 p
  | 0, p => by unfold readFragment; exact MB.of_eq rfl
  | n + 1, p => by
    unfold readFragment
    have hd : (readDot (readDot (readDot (none, p)))).2.maxDepth = p.maxDepth := by
      rw [readDot_md, readDot_md, readDot_md]
    rcases hrd : readDot (readDot (readDot (none, p))) with ⟨e, p1⟩
    rw [hrd] at hd
    try dsimp only at hd
    have hp1 : MB l p1 p := MB.of_eq hd
    cases e with
    | some e => exact hp1
    | none =>
      simp only
      have ht := readToken_md cm p1
      rcases hrt : readToken cm p1 with ⟨⟨tok, e2⟩, p2⟩
      rw [hrt] at ht
      try dsimp only at ht
      have hp2 : MB l p2 p := (MB.of_eq ht).trans hp1
      cases e2 with
      | true => exact hp2
      | false =>
        simp only
        split
        · have hty := readType_mb cm l hl p2.vfuel p2
          rcases hrty : readType cm p2.vfuel p2 with ⟨⟨t, e3⟩, p3⟩
          rw [hrty] at hty
          try dsimp only at hty
          have hp3 : MB l p3 p := hty.trans hp2
          cases e3 with
          | some e => exact hp3
          | none =>
            cases t with
            | none => exact (readInline_mb l hl n p3).trans hp3
            | some t =>
              have hin := (readInline_mb l hl n p3).trans hp3
              cases t <;> dsimp only <;>
                first
                | exact hp3
                | exact hin
                | (split <;> first | exact hp3 | exact hin)
        · split
          · exact (readInline_mb l hl n p2).trans hp2
          · exact (readFragRef_mb cm l hl tok p2).trans hp2
end

theorem readOp_mb (l : Nat) (hl : cm.depthLimit = some l) (fuel : Nat) (p : P) : MB l (readOp cm cfg fuel p).2 p := by
  unfold readOp
  simp only
  have h := skipSp_md cm p
  rcases hr : skipSp cm p with ⟨r, p0⟩
  rw [hr] at h
  try dsimp only at h
  cases r with
  | none => exact MB.of_eq h
  | some b =>
    simp only
    have ht := readToken_md cm p0
    rcases hrt : readToken cm p0 with ⟨⟨tok, e⟩, p1⟩
    rw [hrt] at ht
    try dsimp only at ht
    have hp1 : MB l p1 p := (MB.of_eq ht).trans (MB.of_eq h)
    cases e with
    | true => exact hp1
    | false =>
      simp only
      have h2 := readVarDefs_mb cm cfg l hl p1
      rcases hr2 : readVarDefs cm cfg p1 with ⟨e2, p2⟩
      rw [hr2] at h2
      try dsimp only at h2
      have hp2 : MB l p2 p := h2.trans hp1
      cases e2 with
      | some e => exact hp2
      | none =>
        simp only
        have h3 := readDirs_mb cm l hl p2
        rcases hr3 : readDirs cm p2 with ⟨e3, p3⟩
        rw [hr3] at h3
        try dsimp only at h3
        have hp3 : MB l p3 p := h3.trans hp2
        cases e3 with
        | some e => exact hp3
        | none => exact (readSelectionSet_mb cm l hl fuel p3).trans hp3

theorem readFragmentDef_mb (l : Nat) (hl : cm.depthLimit = some l) (fuel : Nat) (p : P) : MB l (readFragmentDef cm cfg fuel p).2 p := by
  unfold readFragmentDef
  have h := skipSp_md cm p
  rcases hr : skipSp cm p with ⟨r, p0⟩
  rw [hr] at h
  try dsimp only at h
  cases r with
  | none => exact MB.of_eq h
  | some b =>
    simp only
    have ht := readToken_md cm p0
    rcases hrt : readToken cm p0 with ⟨⟨tok, e⟩, p1⟩
    rw [hrt] at ht
    try dsimp only at ht
    have hp1 : MB l p1 p := (MB.of_eq ht).trans (MB.of_eq h)
    cases e with
    | true => exact hp1
    | false =>
      simp only
      have h2 := skipSp_md cm p1
      rcases hr2 : skipSp cm p1 with ⟨r2, p2⟩
      rw [hr2] at h2
      try dsimp only at h2
      have hp2 : MB l p2 p := (MB.of_eq h2).trans hp1
      cases r2 with
      | none => exact hp2
      | some b2 =>
        simp only
        have ht3 := readToken_md cm p2
        rcases hrt3 : readToken cm p2 with ⟨⟨tok3, ioe⟩, p3⟩
        rw [hrt3] at ht3
        try dsimp only at ht3
        have hp3 : MB l p3 p := (MB.of_eq ht3).trans hp2
        simp only
        split
        · exact hp3
        · have hty := readType_mb cm l hl p3.vfuel p3
          rcases hrty : readType cm p3.vfuel p3 with ⟨⟨t, e4⟩, p4⟩
          rw [hrty] at hty
          try dsimp only at hty
          have hp4 : MB l p4 p := hty.trans hp3
          cases e4 with
          | some e => exact hp4
          | none =>
            simp only
            have h5 := readDirs_mb cm l hl p4
            rcases hr5 : readDirs cm p4 with ⟨e5, p5⟩
            rw [hr5] at h5
            try dsimp only at h5
            have hp5 : MB l p5 p := h5.trans hp4
            cases e5 with
            | some e => exact hp5
            | none => exact (readSelectionSet_mb cm l hl fuel p5).trans hp5

theorem mainLoop_mb (l : Nat) (hl : cm.depthLimit = some l) : ∀ (n : Nat) (p : P) (ops : List (List UInt8)),
    MB l (mainLoop cm cfg n p ops).2 p
  | 0, p, ops => MB.of_eq rfl
  | n + 1, p, ops => by
    unfold mainLoop
    split
    · exact MB.refl l p
    · have h := skipSp_md cm p
      rcases hr : skipSp cm p with ⟨r, p0⟩
      rw [hr] at h
      try dsimp only at h
      cases r with
      | none => exact MB.of_eq h
      | some b =>
        simp only
        have ht := readToken_md cm p0
        rcases hrt : readToken cm p0 with ⟨⟨tok, e⟩, p1⟩
        rw [hrt] at ht
        try dsimp only at ht
        have hp1 : MB l p1 p := (MB.of_eq ht).trans (MB.of_eq h)
        cases e with
        | true => exact hp1
        | false =>
          simp only
          split
          · have ho := readOp_mb cm cfg l hl p1.vfuel p1
            rcases hro : readOp cm cfg p1.vfuel p1 with ⟨⟨⟨name, line, col⟩, e2⟩, p2⟩
            rw [hro] at ho
            try dsimp only at ho
            have hp2 : MB l p2 p := ho.trans hp1
            simp only
            split
            · exact hp2
            · cases e2 with
              | some e => exact hp2
              | none => exact (mainLoop_mb l hl n p2 _).trans hp2
          · split
            · have hf := readFragmentDef_mb cm cfg l hl p1.vfuel p1
              rcases hrf : readFragmentDef cm cfg p1.vfuel p1 with ⟨⟨⟨name, line, col, hasSels⟩, e2⟩, p2⟩
              rw [hrf] at hf
              try dsimp only at hf
              have hp2 : MB l p2 p := hf.trans hp1
              cases e2 with
              | some e => exact hp2
              | none =>
                simp only
                split
                · exact hp2
                · exact (mainLoop_mb l hl n _ _).trans ((MB.of_eq rfl).trans hp2)
            · split
              · split
                · exact hp1
                · have hs := readSelectionSet_mb cm l hl p1.vfuel p1
                  rcases hrs : readSelectionSet cm p1.vfuel p1 with ⟨⟨cnt, e2⟩, p2⟩
                  rw [hrs] at hs
                  try dsimp only at hs
                  have hp2 : MB l p2 p := hs.trans hp1
                  simp only
                  split
                  · cases e2 with
                    | some e => exact hp2
                    | none => exact (mainLoop_mb l hl n p2 _).trans hp2
                  · split
                    · exact hp2
                    · cases e2 with
                      | some e => exact hp2
                      | none => exact (mainLoop_mb l hl n p2 _).trans hp2
              · split <;> exact hp1

/-- **C03_request_depth_bounded.**  With the nesting limit `l` in force, parsing a request never recurses deeper
than `l` — selection sets, argument values, variable defaults and types together — for every byte sequence,
every way the reader ends, and every amount of fuel: the stack a request can make the parser use is bounded by a
constant. -/
theorem C03_request_depth_bounded (l : Nat) (hl : cm.depthLimit = some l) (fuel : Nat) (bytes : List UInt8) (tail : Tail) :
    (parseExe cm cfg fuel bytes tail).2.maxDepth ≤ l := by
  unfold parseExe
  simp only
  have hb := skipBOM_md (P.init bytes tail)
  rcases hrb : skipBOM (P.init bytes tail) with ⟨e, p1⟩
  rw [hrb] at hb
  try dsimp only at hb
  have h0 : p1.maxDepth = 0 := by rw [hb]; rfl
  cases e with
  | some e => simp only; omega
  | none =>
    simp only
    have h := mainLoop_mb cm cfg l hl fuel p1 []
    unfold MB at h
    omega

end Ggql.ExeCF
