/-
C08 — abstract-typed fields resolve by concrete type: property theorems on the binding state machine of
the reflection strategy (`Model/Binding`).  (The walk-level clauses — `__typename`, fragment application —
are in `Props/Walk`.)
-/
import Ggql.Model.Binding
namespace Ggql.C08
open Ggql.Binding

theorem get_set_self (m : Meta) (n : String) (g : GoT) (h : m.get n = none) : (m.set n g).get n = some g := by
  unfold Meta.set
  simp only [h, Option.isSome_none, Bool.false_eq_true, if_false]
  unfold Meta.get at *
  simp only [List.find?_append, Option.map_eq_none_iff] at *
  simp [h]

theorem get_set_other (m : Meta) (n n' : String) (g : GoT) (h : n' ≠ n) : (m.set n g).get n' = m.get n' := by
  unfold Meta.set
  split
  · rfl
  · unfold Meta.get
    simp only [List.find?_append]
    cases hf : List.find? (fun p => p.1 == n') m with
    | some p => simp
    | none =>
      have : (n == n') = false := by simpa using h.symm
      simp [List.find?, this]

/-- a binding, once made, is never changed by `set` -/
theorem get_set_bound (m : Meta) (n n' : String) (g b : GoT) (h : m.get n' = some b) : (m.set n g).get n' = some b := by
  by_cases hn : n' = n
  · subst hn; unfold Meta.set; simp [h]
  · rw [get_set_other m n n' g hn]; exact h

theorem metaCheck_keeps (cfg : Cfg) (m : Meta) (o : ObjT) (g : GoT) (n : String) (b : GoT) (h : m.get n = some b) :
    (metaCheck cfg m o g).1.get n = some b := by
  unfold metaCheck
  split
  · exact h
  · split
    · exact get_set_bound m o.name n g b h
    · exact h

theorem unionLoop_keeps (cfg : Cfg) (objs : List ObjT) (g : GoT) (n : String) (b : GoT) :
    ∀ (ms : List String) (m : Meta), m.get n = some b → (unionLoop cfg objs g m ms).1.get n = some b := by
  intro ms
  induction ms with
  | nil => intro m h; exact h
  | cons mem rest ih =>
    intro m h
    unfold unionLoop
    split
    · exact ih m h
    · rename_i o _
      have hk := metaCheck_keeps cfg m o g n b h
      rcases hmc : metaCheck cfg m o g with ⟨m', r⟩
      rw [hmc] at hk
      cases r with
      | none => exact hk
      | some b' =>
        simp only
        split
        · exact hk
        · exact ih m' hk

theorem unionLoopAll_keeps (cfg : Cfg) (objs : List ObjT) (g : GoT) (n : String) (b : GoT) :
    ∀ (ms : List String) (m : Meta) (pend : Option String), m.get n = some b →
      (unionLoopAll cfg objs g m pend ms).1.get n = some b := by
  intro ms
  induction ms with
  | nil => intro m pend h; exact h
  | cons mem rest ih =>
    intro m pend h
    unfold unionLoopAll
    split
    · exact ih m pend h
    · rename_i o _
      have hk := metaCheck_keeps cfg m o g n b h
      rcases hmc : metaCheck cfg m o g with ⟨m', r⟩
      rw [hmc] at hk
      cases r with
      | none => exact ih m' _ hk
      | some b' =>
        simp only
        split
        · exact hk
        · exact ih m' pend hk

/-- **C08_binding_stable.**  Whatever value reaches whatever position, an object type that is bound to a
Go type stays bound to that Go type: the binding is decided once (by the first value that gets there). -/
theorem C08_binding_stable (cfg : Cfg) (objs : List ObjT) (order : List String) (m : Meta) (p : Pos) (g : GoT)
    (n : String) (b : GoT) (h : m.get n = some b) : (step cfg objs order m p g).1.get n = some b := by
  cases p with
  | obj t => exact get_set_bound m t n g b h
  | union ms =>
    simp only [step]
    split
    · exact unionLoop_keeps cfg objs g n b ms m h
    · exact unionLoopAll_keeps cfg objs g n b ms m none h
  | iface =>
    simp only [step]
    split
    · cases getReflectType m order g with
      | some t => exact get_set_bound m t n g b h
      | none => exact h
    · unfold getReflectTypeLazy
      cases order.find? (takes cfg objs m g) with
      | some t => exact get_set_bound m t n g b h
      | none => exact h

/-- a state in which every member of the union is bound to its own Go type -/
def Warm (m : Meta) (goOf : String → GoT) (ms : List String) : Prop := ∀ mem ∈ ms, m.get mem = some (goOf mem)

/-- **C08_union_by_concrete_type.**  Once the members are bound (each to its own Go type, no two to the
same), a value is resolved as exactly the member whose Go type it has — whatever the member order, and
the state is left as it was. -/
theorem C08_union_by_concrete_type (cfg : Cfg) (objs : List ObjT) (goOf : String → GoT) :
    ∀ (ms : List String) (m : Meta) (t : String),
      (∀ mem ∈ ms, ∃ o ∈ objs, o.name = mem) → (∀ o ∈ objs, ∀ o' ∈ objs, o.name = o'.name → o = o') →
      Warm m goOf ms → t ∈ ms → (∀ a ∈ ms, goOf a = goOf t → a = t) →
      unionLoop cfg objs (goOf t) m ms = (m, .asType t) := by
  intro ms
  induction ms with
  | nil => intro m t _ _ _ ht; simp at ht
  | cons mem rest ih =>
    intro m t hobj huniq hw ht hinj
    unfold unionLoop
    obtain ⟨o, ho, hon⟩ := hobj mem (by simp)
    have hfind : objs.find? (fun o => o.name == mem) = some o ∨ ∃ o', objs.find? (fun o => o.name == mem) = some o' ∧ o'.name = mem := by
      cases hf : objs.find? (fun o => o.name == mem) with
      | none =>
        have := List.find?_eq_none.mp hf o ho
        simp [hon] at this
      | some o' =>
        right
        exact ⟨o', rfl, by simpa using List.find?_some hf⟩
    have hfo : ∃ o', objs.find? (fun o => o.name == mem) = some o' ∧ o'.name = mem := by
      rcases hfind with h | h
      · exact ⟨o, h, hon⟩
      · exact h
    obtain ⟨o', hf', hon'⟩ := hfo
    simp only [hf']
    have hb : m.get o'.name = some (goOf mem) := by rw [hon']; exact hw mem (by simp)
    have hmc : metaCheck cfg m o' (goOf t) = (m, some (goOf mem)) := by
      unfold metaCheck; simp [hb]
    simp only [hmc]
    by_cases heq : goOf mem = goOf t
    · have : mem = t := hinj mem (by simp) heq
      subst this
      simp
    · have hne : (goOf mem == goOf t) = false := by simpa using heq
      simp only [hne, Bool.false_eq_true, if_false]
      have ht' : t ∈ rest := by
        rcases List.mem_cons.mp ht with h | h
        · subst h; exact absurd rfl heq
        · exact h
      exact ih m t (fun a ha => hobj a (by simp [ha])) huniq (fun a ha => hw a (by simp [ha])) ht'
        (fun a ha => hinj a (by simp [ha]))

/-- **C08_interface_by_concrete_type.**  At an interface-typed position a value whose Go type some object
type is bound to (and no other) is resolved as that object type. -/
theorem C08_interface_by_concrete_type (m : Meta) (order : List String) (g : GoT) (t : String)
    (ht : t ∈ order) (hb : m.get t = some g) (hu : ∀ a ∈ order, m.get a = some g → a = t) :
    getReflectType m order g = some t := by
  unfold getReflectType
  cases hf : order.find? (fun n => m.get n == some g) with
  | none =>
    have := List.find?_eq_none.mp hf t ht
    simp [hb] at this
  | some a =>
    have ha := List.find?_some hf
    have hmem := List.mem_of_find?_eq_some hf
    simp only [beq_iff_eq] at ha
    rw [hu a hmem ha]

/-! ### the cold root: what the pinned tree does before the bindings exist (D51, D47) -/

def exObjs : List ObjT := [⟨"Dog", none⟩, ⟨"Cat", none⟩]
def goCat : GoT := ⟨"main.Cat", "main.Cat", "Cat"⟩
def goDog : GoT := ⟨"main.Dog", "main.Dog", "Dog"⟩

/-- D51: on a cold root a `Cat` reaching `union Pet = Dog | Cat` is refused — `Dog` comes first, is
unbound and does not bind to a `Cat` — although the same value is resolved once a `Dog` has been seen. -/
theorem C08_dev_coldUnion :
    (step {} exObjs ["Cat", "Dog"] [] (.union ["Dog", "Cat"]) goCat).2 = .err "Dog" ∧
    (run {} exObjs ["Cat", "Dog"] [] [(.union ["Dog", "Cat"], goDog), (.union ["Dog", "Cat"], goCat)]) = [.asType "Dog", .asType "Cat"] := by
  decide

/-- D47: on a cold root a value at an interface-typed position has no object type: every field is null;
after the same Go type has passed an object-typed or union position it resolves. -/
theorem C08_dev_coldInterface :
    (step {} exObjs ["Cat", "Dog"] [] .iface goCat).2 = .unbound ∧
    (run {} exObjs ["Cat", "Dog"] [] [(.obj "Cat", goCat), (.iface, goCat)]) = [.asType "Cat", .asType "Cat"] ∧
    (run {} exObjs ["Cat", "Dog"] [] [(.union ["Cat", "Dog"], goCat), (.iface, goCat)]) = [.asType "Cat", .asType "Cat"] := by
  decide

/-- non-vacuity of `Warm`: after one value of each member type the union is warm -/
example : Warm [("Dog", goDog), ("Cat", goCat)] (fun n => if n == "Dog" then goDog else goCat) ["Dog", "Cat"] := by
  intro mem hm
  simp at hm
  rcases hm with rfl | rfl <;> decide

end Ggql.C08
