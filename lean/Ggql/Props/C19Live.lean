/-
C19 — "currently registered" read off the observable history.

`C19_publish_exact` speaks of the registry's state.  This file ties that state to what a caller can
see: after any history the registered identities are exactly the ones issued by a subscribe so far
whose clean-up has not run — so "each currently registered subscriber" of the property is "each
subscriber of an earlier subscribe call that no call has cleaned up since", for every history.
-/
import Ggql.Props.C19
namespace Ggql.Registry

theorem step_next_mono (st : State) (op : Op) : st.next ≤ (Spec.step st op).1.next := by
  cases op <;> simp [Spec.step, subscribe, Spec.unsubscribe, Spec.publish]

/-- one step: live afterwards ⇔ (live before, or issued by this step) and not cleaned by this step -/
theorem step_live (st : State) (op : Op) (h : Inv st) (x : Nat) :
    x ∈ ids (Spec.step st op).1.reg ↔
      (x ∈ ids st.reg ∨ (st.next ≤ x ∧ x < (Spec.step st op).1.next)) ∧ x ∉ (Spec.step st op).2.cleaned := by
  constructor
  · intro hx
    refine ⟨?_, fun hc => (step_cleaned_gone st op h x hc).2.1 hx⟩
    cases op with
    | subscribe p =>
      simp only [Spec.step, subscribe, ids, List.map_append, List.mem_append, List.map_cons, List.map_nil,
        List.mem_singleton] at hx ⊢
      rcases hx with h1 | h1
      · left; exact h1
      · right; omega
    | unsubscribe ev =>
      simp only [Spec.step, Spec.unsubscribe, ids, List.mem_map, List.mem_filter] at hx ⊢
      obtain ⟨s, ⟨hs, _⟩, rfl⟩ := hx
      exact Or.inl ⟨s, hs, rfl⟩
    | publish ev fails =>
      simp only [Spec.step, Spec.publish, ids, List.mem_map, List.mem_filter] at hx ⊢
      obtain ⟨s, ⟨hs, _⟩, rfl⟩ := hx
      exact Or.inl ⟨s, hs, rfl⟩
  · rintro ⟨hx, hnc⟩
    cases op with
    | subscribe p =>
      simp only [Spec.step, subscribe, ids, List.map_append, List.mem_append, List.map_cons, List.map_nil,
        List.mem_singleton] at hx ⊢
      rcases hx with h1 | h1
      · left; exact h1
      · right; omega
    | unsubscribe ev =>
      simp only [Spec.step, Spec.unsubscribe, ids, List.mem_map, List.mem_filter, List.mem_reverse] at hx hnc ⊢
      rcases hx with ⟨s, hs, rfl⟩ | h1
      · refine ⟨s, ⟨hs, ?_⟩, rfl⟩
        cases hm : s.pat.matches ev
        · rfl
        · exact absurd ⟨s, ⟨hs, hm⟩, rfl⟩ hnc
      · omega
    | publish ev fails =>
      simp only [Spec.step, Spec.publish, ids, List.mem_map, List.mem_filter] at hx hnc ⊢
      rcases hx with ⟨s, hs, rfl⟩ | h1
      · refine ⟨s, ⟨hs, ?_⟩, rfl⟩
        simp only [List.contains_eq_mem, List.mem_filter, Bool.not_eq_true', decide_eq_false_iff_not]
        intro hf
        exact hnc ⟨s, ⟨hf.1, by simpa using hf.2⟩, rfl⟩
      · omega

theorem run_next_mono (st : State) (ops : List Op) : st.next ≤ (Spec.run st ops).1.next := by
  induction ops generalizing st with
  | nil => simp [Spec.run]
  | cons op ops ih =>
    simp only [Spec.run]
    exact Nat.le_trans (step_next_mono st op) (ih _)

/-- **C19_live_is_issued_minus_cleaned.**  After any history from any consistent registry, an identity
is registered exactly when it was registered at the start or issued by a subscribe of the history,
and no call of the history ran its clean-up. -/
theorem C19_live_spec (st : State) (ops : List Op) (h : Inv st) (x : Nat) :
    x ∈ ids (Spec.run st ops).1.reg ↔
      (x ∈ ids st.reg ∨ (st.next ≤ x ∧ x < (Spec.run st ops).1.next)) ∧
      ∀ o ∈ (Spec.run st ops).2, x ∉ o.cleaned := by
  induction ops generalizing st with
  | nil => simp [Spec.run]; omega
  | cons op ops ih =>
    have hst := step_refines st op h
    rw [hst.1] at hst
    have hmono := step_next_mono st op
    have hmono2 := run_next_mono (Spec.step st op).1 ops
    have hstep := step_live st op h x
    have hih := ih (Spec.step st op).1 hst.2
    simp only [Spec.run, List.mem_cons, forall_eq_or_imp]
    rw [hih, hstep]
    constructor
    · rintro ⟨(⟨h1, h2⟩ | h1), h3⟩
      · refine ⟨?_, h2, h3⟩
        rcases h1 with h1 | h1
        · exact Or.inl h1
        · exact Or.inr ⟨h1.1, by omega⟩
      · refine ⟨Or.inr ⟨by omega, h1.2⟩, ?_, h3⟩
        intro hc
        have := (step_cleaned_gone st op h x hc).2.2
        omega
    · rintro ⟨h1, h2, h3⟩
      refine ⟨?_, h3⟩
      rcases h1 with h1 | h1
      · exact Or.inl ⟨Or.inl h1, h2⟩
      · by_cases hlt : x < (Spec.step st op).1.next
        · exact Or.inl ⟨Or.inr ⟨h1.1, hlt⟩, h2⟩
        · exact Or.inr ⟨by omega, h1.2⟩

/-- the same for the slice-manipulating model, from the empty registry: registered ⇔ issued and never
cleaned -/
theorem C19_live (ops : List Op) (x : Nat) :
    x ∈ ids (run init ops).1.reg ↔
      x < (run init ops).1.next ∧ ∀ o ∈ (run init ops).2, x ∉ o.cleaned := by
  rw [(C19_refines init ops inv_init).1, C19_live_spec init ops inv_init x]
  simp [init, ids]

/-- non-vacuity: of three subscribers one fails and one is unsubscribed; the third stays -/
example :
    ids (run init [.subscribe .any, .subscribe (.exact "e"), .subscribe (.exact "f"),
      .publish "e" [0], .unsubscribe "e"]).1.reg = [2] := by decide

end Ggql.Registry
