/-
C05 — response data is well-typed: the leaf level.

`C05_arm` : every arm that passes the decidable test `armSoundOut` produces, for *every* well-formed
Go value of its kind and every behaviour of the Go runtime (`Ext`), an outcome the oracle accepts —
the unconverted value never leaks, Int results are in range and equal the resolver's value.
`C05_leaf` lifts it to whole tables; `Props/C05Inst.lean` pins, by `decide` on the regenerated tables,
exactly which arms of the current source fail the test (D15, D16).
-/
import Ggql.Spec.CoerceSpec
namespace Ggql.Coerce

variable {F : Type}

theorem wrap32_id (n : Int) (h1 : -2147483648 ≤ n) (h2 : n < 2147483648) : Int.bmod n 4294967296 = n := by
  rw [Int.bmod_def]; omega

theorem wrap64_id (n : Int) (h1 : -9223372036854775808 ≤ n) (h2 : n < 9223372036854775808) :
    Int.bmod n 18446744073709551616 = n := by
  rw [Int.bmod_def]; omega

theorem fits32 (k : Kind) (n : Int) (hf : fitsIn k .i32 = true) (hw : (GoVal.int k n : GoVal F).wf = true) :
    -2147483648 ≤ n ∧ n < 2147483648 := by
  cases k <;> simp [fitsIn, kindRange, GoVal.wf] at hf hw <;> omega

theorem fits64 (k : Kind) (n : Int) (hf : fitsIn k .i64 = true) (hw : (GoVal.int k n : GoVal F).wf = true) :
    -9223372036854775808 ≤ n ∧ n < 9223372036854775808 := by
  cases k <;> simp [fitsIn, kindRange, GoVal.wf] at hf hw <;> omega

/-- a value whose kind is an integer kind is an `.int` -/
theorem int_of_kind (v : GoVal F) (h : v.kind.isInt = true) (hw : v.wf = true) : ∃ k n, v = .int k n ∧ k = v.kind := by
  cases v <;> simp [GoVal.kind, Kind.isInt, kindRange] at h ⊢
  case flt k x => simp [GoVal.wf, Kind.isFloat] at hw; rcases hw with rfl | rfl <;> simp [kindRange] at h

macro "coerce_fin" : tactic => `(tactic| (simp_all [applyAction, convTo, checkOut, GoVal.kind, Scalar.outKind, armSoundOut,
  GoVal.wf, kindRange, Kind.isInt, Kind.isFloat, fitsIn, intValue, inRange32, inRange64, wrapInt]))

theorem C05_arm_fmtUint (ext : Ext F) (s : Scalar) (v : GoVal F)
    (hs : armSoundOut s v.kind .fmtUint = true) (hw : v.wf = true) :
    checkOut ext s v (applyAction ext .fmtUint v) = true := by
  cases v with
  | int k n =>
    simp only [armSoundOut, GoVal.kind, Bool.and_eq_true, Bool.or_eq_true, beq_iff_eq] at hs
    rcases hs.2 with rfl | rfl <;> simp [applyAction, checkOut, GoVal.kind, Scalar.outKind]
  | flt k x =>
    exfalso
    cases k <;> simp [armSoundOut, GoVal.kind, Kind.isInt, GoVal.wf, kindRange, Kind.isFloat] at hs hw
  | _ => simp [armSoundOut, GoVal.kind, Kind.isInt, kindRange] at hs

theorem C05_arm_asIs (ext : Ext F) (s : Scalar) (v : GoVal F)
    (hs : armSoundOut s v.kind .asIs = true) (hw : v.wf = true) :
    checkOut ext s v (applyAction ext .asIs v) = true := by
    cases v with
    | int k n => cases s <;> cases k <;> (first | (coerce_fin; done) | (coerce_fin; omega))
    | flt k x => cases s <;> cases k <;> coerce_fin
    | nil => cases s <;> coerce_fin
    | str _ => cases s <;> coerce_fin
    | bool _ => cases s <;> coerce_fin
    | sym _ => cases s <;> coerce_fin
    | time _ => cases s <;> coerce_fin
    | other _ => cases s <;> coerce_fin

theorem C05_arm_conv (ext : Ext F) (s : Scalar) (t : NumT) (v : GoVal F)
    (hs : armSoundOut s v.kind (.conv t) = true) (hw : v.wf = true) :
    checkOut ext s v (applyAction ext (.conv t) v) = true := by
    cases s <;> cases t <;> simp [armSoundOut] at hs
    · -- Int ← conv i32
      have hi : v.kind.isInt = true := by
        cases hk : v.kind <;> simp [hk, fitsIn, kindRange, Kind.isInt] at hs ⊢
      obtain ⟨k, n, rfl, _⟩ := int_of_kind v hi hw
      obtain ⟨h1, h2⟩ := fits32 _ n hs hw
      simp [applyAction, convTo, checkOut, GoVal.kind, Scalar.outKind, wrapInt, wrap32_id n h1 h2, intValue, inRange32, h1, h2]
    · have hi : v.kind.isInt = true := by
        cases hk : v.kind <;> simp [hk, fitsIn, kindRange, Kind.isInt] at hs ⊢
      obtain ⟨k, n, rfl, _⟩ := int_of_kind v hi hw
      obtain ⟨h1, h2⟩ := fits64 _ n hs hw
      simp [applyAction, convTo, checkOut, GoVal.kind, Scalar.outKind, wrapInt, wrap64_id n h1 h2, intValue, inRange64, h1, h2]

theorem C05_arm_fmtInt (ext : Ext F) (s : Scalar) (v : GoVal F)
    (hs : armSoundOut s v.kind .fmtInt = true) (hw : v.wf = true) :
    checkOut ext s v (applyAction ext .fmtInt v) = true := by
    cases v with
    | int k n => cases s <;> cases k <;> (first | (coerce_fin; done) | (coerce_fin; rw [wrap64_id n (by omega) (by omega)]))
    | flt k x => cases s <;> cases k <;> coerce_fin
    | _ => cases s <;> coerce_fin

theorem C05_arm_boolStr (ext : Ext F) (s : Scalar) (v : GoVal F)
    (hs : armSoundOut s v.kind .boolStr = true) (hw : v.wf = true) :
    checkOut ext s v (applyAction ext .boolStr v) = true := by
    cases v with
    | int k n => cases s <;> cases k <;> coerce_fin
    | flt k x => cases s <;> cases k <;> coerce_fin
    | _ => cases s <;> coerce_fin

theorem C05_arm_symStr (ext : Ext F) (s : Scalar) (v : GoVal F)
    (hs : armSoundOut s v.kind .symStr = true) (hw : v.wf = true) :
    checkOut ext s v (applyAction ext .symStr v) = true := by
    cases v with
    | int k n => cases s <;> cases k <;> coerce_fin
    | flt k x => cases s <;> cases k <;> coerce_fin
    | _ => cases s <;> coerce_fin

theorem C05_arm_neZero (ext : Ext F) (s : Scalar) (v : GoVal F)
    (hs : armSoundOut s v.kind .neZero = true) (hw : v.wf = true) :
    checkOut ext s v (applyAction ext .neZero v) = true := by
    cases v with
    | int k n => cases s <;> cases k <;> coerce_fin
    | flt k x => cases s <;> cases k <;> coerce_fin
    | _ => cases s <;> coerce_fin

theorem C05_arm_fmtFloat (ext : Ext F) (s : Scalar) (bits : Nat) (v : GoVal F)
    (hs : armSoundOut s v.kind (.fmtFloat bits) = true) (hw : v.wf = true) :
    checkOut ext s v (applyAction ext (.fmtFloat bits) v) = true := by
    cases v with
    | int k n => cases k <;> simp_all [armSoundOut, GoVal.kind, Kind.isFloat, GoVal.wf, kindRange]
    | flt k x => cases s <;> cases k <;> coerce_fin
    | _ => cases s <;> coerce_fin

/-- **C05_arm.** -/
theorem C05_arm (ext : Ext F) (s : Scalar) (a : Action) (v : GoVal F)
    (hs : armSoundOut s v.kind a = true) (hw : v.wf = true) :
    checkOut ext s v (applyAction ext a v) = true := by
  cases a with
  | failNil => simp [applyAction, checkOut]
  | asIs => exact C05_arm_asIs ext s v hs hw
  | conv t => exact C05_arm_conv ext s t v hs hw
  | fmtInt => exact C05_arm_fmtInt ext s v hs hw
  | boolStr => exact C05_arm_boolStr ext s v hs hw
  | symStr => exact C05_arm_symStr ext s v hs hw
  | neZero => exact C05_arm_neZero ext s v hs hw
  | fmtFloat bits => exact C05_arm_fmtFloat ext s bits v hs hw
  | convCheckedKeep t => simp [armSoundOut] at hs
  | parseIntKeep t => simp [armSoundOut] at hs
  | parseFloatKeep t => simp [armSoundOut] at hs
  | parseBoolKeep => simp [armSoundOut] at hs
  | timeOfFloat => simp [armSoundOut] at hs
  | timeOfInt => simp [armSoundOut] at hs
  | timeOfIntChk => simp [armSoundOut] at hs
  | timeOfFloatChk => simp [armSoundOut] at hs
  | timeParseKeep => simp [armSoundOut] at hs
  | convStrict t => simp [armSoundOut] at hs
  | convTrunc t => simp [armSoundOut] at hs
  | parseInt32Keep => simp [armSoundOut] at hs
  | parseFloatFinite t => simp [armSoundOut] at hs
  | fmtUint => exact C05_arm_fmtUint ext s v hs hw


theorem armFor_mem (tbl : Table) (k : Kind) :
    tbl.armFor k = tbl.dflt ∨ (k, tbl.armFor k) ∈ tbl.arms := by
  unfold Table.armFor
  cases h : tbl.arms.find? (fun p => p.1 == k) with
  | none => left; rfl
  | some p =>
    right
    have hm := List.mem_of_find?_eq_some h
    have hk := List.find?_some h
    simp only [beq_iff_eq] at hk
    obtain ⟨k', a⟩ := p
    simp only at hk; subst hk; exact hm

/-- **C05_leaf.**  For any table (as regenerated from the source) whose selected arm passes the
decidable soundness test, the scalar's `CoerceOut` gives an outcome the oracle accepts, for every
well-formed Go value and every float/time behaviour satisfying `ExtLaws`. -/
theorem C05_leaf (ext : Ext F) (laws : ExtLaws ext) (s : Scalar) (tbl : Table) (v : GoVal F)
    (hft : tbl.formatTime = (s == .time)) (hs : armSoundOutT s v.kind (tbl.armFor v.kind) = true) (hw : v.wf = true) :
    checkOut ext s v (coerce ext tbl v) = true := by
  by_cases hst : s = .time
  · subst hst
    simp only [armSoundOutT, beq_self_eq_true, if_true] at hs
    simp only [coerce, hft, beq_self_eq_true, Bool.true_and]
    generalize tbl.armFor v.kind = a at hs
    cases a <;> simp [timeSoundOut] at hs
    · -- asIs
      cases v with
      | int k n => cases k <;> simp_all [GoVal.kind, GoVal.wf, kindRange]
      | flt k x => cases k <;> simp_all [GoVal.kind, GoVal.wf, Kind.isFloat]
      | _ => simp_all [GoVal.kind, applyAction, checkOut, Scalar.outKind]
    · simp [applyAction, checkOut]
    · cases v with
      | flt k x => simp [applyAction, checkOut, GoVal.kind, Scalar.outKind]
      | int k n => cases k <;> simp_all [GoVal.kind, Kind.isFloat, GoVal.wf, kindRange]
      | _ => simp_all [GoVal.kind, Kind.isFloat]
    · cases v with
      | int k n => simp [applyAction, checkOut, GoVal.kind, Scalar.outKind]
      | flt k x => cases k <;> simp_all [GoVal.kind, Kind.isInt, Kind.isFloat, GoVal.wf, kindRange]
      | _ => simp_all [GoVal.kind, Kind.isInt, kindRange]
    · -- timeOfIntChk
      cases v with
      | int k n =>
        simp only [applyAction]
        split <;> simp [checkOut, GoVal.kind, Scalar.outKind]
      | flt k x => cases k <;> simp_all [GoVal.kind, Kind.isInt, Kind.isFloat, GoVal.wf, kindRange]
      | _ => simp_all [GoVal.kind, Kind.isInt, kindRange]
    · -- timeOfFloatChk
      cases v with
      | flt k x =>
        cases ht : ext.trunc x with
        | none => simp [applyAction, ht, checkOut]
        | some sec =>
          by_cases hr : (decide (-9223372036 ≤ sec) && decide (sec ≤ 9223372036)) = true
          · simp [applyAction, ht, hr, checkOut, GoVal.kind, Scalar.outKind]
          · simp [applyAction, ht, hr, checkOut]
      | int k n => cases k <;> simp_all [GoVal.kind, Kind.isFloat, GoVal.wf, kindRange]
      | _ => simp_all [GoVal.kind, Kind.isFloat]
  · have hft' : tbl.formatTime = false := by
      rw [hft]; cases s <;> simp_all
    have hne : (s == Scalar.time) = false := by cases s <;> simp_all
    simp only [armSoundOutT, hne, Bool.false_eq_true, if_false, Bool.or_eq_true] at hs
    have hco : coerce ext tbl v = applyAction ext (tbl.armFor v.kind) v := by
      simp [coerce, hft']
    rw [hco]
    rcases hs with hs | hs
    · exact C05_arm ext s _ v hs hw
    · generalize tbl.armFor v.kind = a at hs
      cases s <;> cases a <;> simp [floatConvSound] at hs
      all_goals (rename_i t; cases t <;> simp at hs)
      all_goals
        obtain ⟨k, n, rfl, _⟩ := int_of_kind v hs hw
        have hr : -18446744073709551616 < n ∧ n < 18446744073709551616 := by
          cases k <;> simp [GoVal.wf, kindRange] at hw <;> omega
        simp [applyAction, convTo, checkOut, GoVal.kind, Scalar.outKind, laws.ofInt_finite n hr.1 hr.2,
          laws.round32_ofInt_finite n hr.1 hr.2]

end Ggql.Coerce
