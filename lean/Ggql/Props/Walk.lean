/-
Theorems about the resolver walk shared by C01, C06, C09, C10: what a single selection does to the
result map, the error list and the call log — for every schema, data graph, selection, variable map,
depth and configuration.
-/
import Ggql.Model.Walk
import Ggql.Props.C09
namespace Ggql.Walk

theorem prefixErrs_path (s : Seg) (es : List Err) : ∀ e ∈ prefixErrs s es, ∃ p, e.path = s :: p := by
  intro e he
  simp only [prefixErrs, List.mem_map] at he
  obtain ⟨e', _, rfl⟩ := he
  exact ⟨e'.path, rfl⟩

/-- **C09_excluded_silent (field).**  A field that @skip/@include excludes leaves the result map as it
was and invokes no resolver (its own, or any below it). -/
theorem excluded_field_silent (env : Env) (node : Nat) (ty : String) (d : Nat) (res : List (String × J))
    (al name : String) (args : List ArgVal) (dirs : List Skip.DirUse) (sels : List Sel)
    (h : (Skip.skipSel env.cfg.skipTable dirs env.vars).1 = true) :
    (rSel env node ty d res (.field al name args dirs sels)).1 = res ∧
    (rSel env node ty d res (.field al name args dirs sels)).2.calls = [] := by
  simp [rSel, h]

/-- **C09_excluded_silent (fragments).**  The same for inline fragments and fragment spreads. -/
theorem excluded_fragment_silent (env : Env) (node : Nat) (ty : String) (d : Nat) (res : List (String × J))
    (cond : Option String) (dirs : List Skip.DirUse) (sels : List Sel) (sp : Option SpreadInfo)
    (h : (Skip.skipSel env.cfg.skipTable dirs env.vars).1 = true) :
    (rSel env node ty d res (.inline cond dirs sels sp)).1 = res ∧
    (rSel env node ty d res (.inline cond dirs sels sp)).2.calls = [] := by
  simp [rSel, h]

/-- **C10_field.**  Selecting a field the container type does not define: an error naming the field at
the selection's response key, the result map untouched, no resolver invoked — whatever the container
kind, the depth, the arguments and the sub-selections. -/
theorem undefined_field_rejected (env : Env) (node : Nat) (ty : String) (d : Nat) (res : List (String × J))
    (al name : String) (args : List ArgVal) (dirs : List Skip.DirUse) (sels : List Sel)
    (hs : (Skip.skipSel env.cfg.skipTable dirs env.vars).1 = false)
    (hn : name ≠ "__typename") (hf : getFieldDef env.schema ty name = none) :
    let r := rSel env node ty d res (.field al name args dirs sels)
    r.1 = res ∧ r.2.calls = [] ∧
    (⟨[.key (if al.isEmpty then name else al)], .notAField name⟩ : Err) ∈ r.2.errs := by
  simp [rSel, hs, hn, hf]

/-- **C10_required / C10_arg.**  When argument formation reports an error (a required argument absent or
null; an undeclared argument caught by `sortArgs`) the field's resolver is not invoked, and every such
error is reported under the selection's response key. -/
theorem arg_errors_block_call (env : Env) (node : Nat) (ty : String) (d : Nat) (res : List (String × J))
    (al name : String) (args : List ArgVal) (dirs : List Skip.DirUse) (sels : List Sel) (fd : FieldDef)
    (hs : (Skip.skipSel env.cfg.skipTable dirs env.vars).1 = false)
    (hn : name ≠ "__typename") (hf : getFieldDef env.schema ty name = some fd)
    (he : (argErrors env.cfg env.schema ty fd args).1 ≠ [] ∨ (argErrors env.cfg env.schema ty fd args).2 ≠ []) :
    let r := rSel env node ty d res (.field al name args dirs sels)
    r.2.calls = [] := by
  rcases he with he | he
  · simp [rSel, hs, hn, hf, he]
  · by_cases h1 : (argErrors env.cfg env.schema ty fd args).1 = []
    · simp [rSel, hs, hn, hf, h1, he]
    · simp [rSel, hs, hn, hf, h1]

/-- a required (non-null) argument that is absent or null is reported by name -/
theorem required_arg_reported (cfg : Cfg) (s : Schema) (ty : String) (fd : FieldDef) (args : List ArgVal) (dn : ArgDef)
    (hd : dn ∈ fd.args) (hr : dn.required = true) (hm : ∀ a ∈ args, a.name = dn.name → a.isNull = true) :
    (⟨[], .required dn.name⟩ : Err) ∈ (argErrors cfg s ty fd args).2 := by
  simp only [argErrors, List.mem_append, List.mem_map, List.mem_filter]
  right
  refine ⟨dn, ⟨hd, ?_⟩, rfl⟩
  simp only [hr, Bool.true_and, Bool.not_eq_true', List.any_eq_false, Bool.and_eq_true, beq_iff_eq, Bool.not_eq_true', not_and]
  intro a ha hn
  simpa using hm a ha hn

/-- **C06_path_head.**  Every error a field selection produces is reported under that selection's
response key (the alias when there is one): the first path element addresses the selection. -/
theorem field_errors_under_key (env : Env) (node : Nat) (ty : String) (d : Nat) (res : List (String × J))
    (al name : String) (args : List ArgVal) (dirs : List Skip.DirUse) (sels : List Sel) :
    ∀ e ∈ (rSel env node ty d res (.field al name args dirs sels)).2.errs,
      ∃ p, e.path = .key (if al.isEmpty then name else al) :: p := by
  intro e he
  have hrep : ∀ (n : Nat) (x : Err), x ∈ List.replicate n (⟨[.key (if al.isEmpty then name else al)], .directive⟩ : Err) →
      ∃ p, x.path = .key (if al.isEmpty then name else al) :: p := by
    intro n x hx; rw [List.eq_of_mem_replicate hx]; exact ⟨[], rfl⟩
  simp only [rSel] at he
  split at he
  · exact hrep _ e (by simpa using he)
  · split at he
    · split at he
      · simp only [List.mem_append, List.mem_singleton] at he
        rcases he with he | rfl
        · exact hrep _ e he
        · exact ⟨[], rfl⟩
      · exact hrep _ e (by simpa using he)
    · split at he
      · simp only [List.mem_append, List.mem_singleton] at he
        rcases he with he | rfl
        · exact hrep _ e he
        · exact ⟨[], rfl⟩
      · split at he
        · simp only [List.mem_append] at he
          rcases he with he | he
          · exact hrep _ e he
          · exact prefixErrs_path _ _ e he
        · split at he
          · simp only [List.mem_append] at he
            rcases he with he | he
            · exact hrep _ e he
            · exact prefixErrs_path _ _ e he
          · simp only [List.mem_append] at he
            rcases he with he | he
            · exact hrep _ e he
            · exact prefixErrs_path _ _ e he

/-- **C01_typename.**  `__typename` yields `typeNameOf` of the node at the position's type. -/
theorem typename_walked (env : Env) (node : Nat) (ty : String) (d : Nat)
    (res : List (String × J)) (al : String) (sels : List Sel) :
    (rSel env node ty d res (.field al "__typename" [] [] sels)).1 =
      setKey res (if al.isEmpty then "__typename" else al) (.str (typeNameOf env node ty)) := by
  simp [rSel, Skip.skipSel]

/-- **C10 for the meta field.**  `__typename` declares no argument: with the check in place (`metaArgsUnchecked`
off) one given to it is reported under the selection's key and nothing is written to the result. -/
theorem typename_args_refused (env : Env) (h : env.cfg.metaArgsUnchecked = false) (node : Nat) (ty : String) (d : Nat)
    (res : List (String × J)) (al : String) (a : ArgVal) (args : List ArgVal) (sels : List Sel) :
    (rSel env node ty d res (.field al "__typename" (a :: args) [] sels)).1 = res ∧
    (rSel env node ty d res (.field al "__typename" (a :: args) [] sels)).2.errs =
      [⟨[.key (if al.isEmpty then "__typename" else al)], .unknownArg a.name⟩] := by
  simp [rSel, Skip.skipSel, h]

/-- as coded at first (D14): the name of the position's type, the interface under an interface-typed field -/
theorem typeName_static (env : Env) (h : env.cfg.condByIdentity = true) (node : Nat) (ty : String) :
    typeNameOf env node ty = ty := by
  simp [typeNameOf, h]

/-- at an object-typed position the name is that type's, in both configurations -/
theorem typeName_object (env : Env) (node : Nat) (ty : String) (onm : String) (fs : List FieldDef) (ifs : List String)
    (ho : env.schema.find ty = some (.object onm fs ifs)) : typeNameOf env node ty = ty := by
  unfold typeNameOf
  split
  · rfl
  · simp [objectTypeOf, ho]

/-- **C08_typename (repaired configuration).**  With `condByIdentity` off, at an interface-typed position the name
is that of the object type the node's Go type is bound to, when that type implements the interface. -/
theorem typeName_concrete (env : Env) (h : env.cfg.condByIdentity = false) (node : Nat) (ty : String) (n : Node)
    (hn : env.graph[node]? = some n) (inm : String) (ifs0 : List FieldDef) (hi : env.schema.find ty = some (.iface inm ifs0))
    (onm : String) (fs : List FieldDef) (ifs : List String)
    (ho : env.schema.find n.goType = some (.object onm fs ifs)) (himp : ifs.contains ty = true) :
    typeNameOf env node ty = n.goType := by
  have hm : ty ∈ ifs := by simpa using himp
  simp [typeNameOf, objectTypeOf, h, hn, hi, ho, hm]

end Ggql.Walk
