/-
C13 — schema validation: theorems about the rule catalogue.

* `C13_subtype_sound`: whatever the coded covariance test (`Object.isSubType`) accepts, the
  specification's IsValidImplementationFieldType accepts — for all type expressions and schemas.
* `C13_dev_subtype` (D45): the converse fails — `Obj!` is a valid implementation of a field typed
  `Node` when `Obj` implements `Node`, and the coded test refuses it.
* `C13_strict_implies_lenient`: a schema that passes the strict re-check passes every rule in the
  pinned configuration too, except the interface rule where the code is *stricter* (D45): so "accepted
  though ill-formed" can only come from the listed lenient rules.
The accept/reject behaviour of the real loader against the catalogue is decided by the mutation
correspondence (each rule broken in turn, offender named).
-/
import Ggql.Spec.Rules
namespace Ggql.Rules

theorem typeEq_refl (t : TRef) : typeEq t t = true := by
  induction t with
  | named n => simp [typeEq]
  | list t ih => simpa [typeEq] using ih
  | nonNull t ih => simpa [typeEq] using ih

theorem typeEq_eq (a b : TRef) (h : typeEq a b = true) : a = b := by
  induction a generalizing b with
  | named n => cases b <;> simp_all [typeEq]
  | list t ih => cases b <;> simp_all [typeEq]; exact ih _ h
  | nonNull t ih => cases b <;> simp_all [typeEq]; exact ih _ h

theorem spec_refl (s : Schema) (t : TRef) : isSubTypeSpec s t t = true := by
  induction t with
  | named n => simp [isSubTypeSpec]
  | list t ih => simpa [isSubTypeSpec] using ih
  | nonNull t ih => simpa [isSubTypeSpec] using ih

/-- adding `!` to the implementation's type keeps it a valid implementation -/
theorem spec_nonNull_right (s : Schema) (t u : TRef) (h : isSubTypeSpec s t u = true) (ht : ∀ b, t ≠ .nonNull b) :
    isSubTypeSpec s t (.nonNull u) = true := by
  cases t with
  | nonNull b => exact absurd rfl (ht b)
  | named n => simpa [isSubTypeSpec] using h
  | list t' => simpa [isSubTypeSpec] using h

/-- **C13_subtype_sound.**  The coded covariance test never accepts a field type the specification
would refuse (for targets that are not `!` on `!`). -/
theorem C13_subtype_sound (s : Schema) (fuel : Nat) (target sub : TRef) (hd : noDoubleNonNull target = true)
    (h : isSubTypeCode s fuel target sub = true) : isSubTypeSpec s target sub = true := by
  induction fuel generalizing target sub with
  | zero => simp [isSubTypeCode] at h
  | succ f ih =>
    simp only [isSubTypeCode, Bool.or_eq_true] at h
    rcases h with (h | h) | h
    · rw [typeEq_eq _ _ h]; exact spec_refl s sub
    · cases sub with
      | nonNull b =>
        simp only [peelNonNull] at h
        have := typeEq_eq _ _ h
        subst this
        cases target with
        | nonNull c =>
          cases c with
          | nonNull d => simp [noDoubleNonNull] at hd
          | named n => simp [isSubTypeSpec]
          | list t' => simpa [isSubTypeSpec] using spec_refl s (.list t')
        | named n => simp [isSubTypeSpec]
        | list t' => simpa [isSubTypeSpec] using spec_refl s (.list t')
      | named _ => simp [peelNonNull] at h
      | list _ => simp [peelNonNull] at h
    · cases target with
      | named a =>
        cases sub with
        | named b =>
          simp only [subStructural] at h
          simp only [isSubTypeSpec, Bool.or_eq_true]
          right
          exact h
        | list _ => simp [subStructural] at h
        | nonNull _ => simp [subStructural] at h
      | list t =>
        cases sub with
        | list u =>
          simp only [subStructural] at h
          simp only [noDoubleNonNull] at hd
          simpa [isSubTypeSpec] using ih t u hd h
        | named _ => simp [subStructural] at h
        | nonNull _ => simp [subStructural] at h
      | nonNull t =>
        cases sub with
        | nonNull u =>
          simp only [subStructural] at h
          have hd' : noDoubleNonNull t = true := by
            cases t <;> simp_all [noDoubleNonNull]
          simpa [isSubTypeSpec] using ih t u hd' h
        | named _ => simp [subStructural] at h
        | list _ => simp [subStructural] at h

theorem typeEq_spec (s : Schema) (a b : TRef) (h : typeEq a b = true) : isSubTypeSpec s a b = true := by
  rw [typeEq_eq a b h]; exact spec_refl s b

/-- **C13_subtype_exact.**  The repaired covariance test (the form the translator reads from
`Object.isSubType` on this run) is exactly IsValidImplementationFieldType, for every schema and every pair of
type expressions of any depth. -/
theorem C13_subtype_exact (s : Schema) (fuel : Nat) (target sub : TRef) (h : sub.depth < fuel) :
    isSubTypeFixed s fuel target sub = isSubTypeSpec s target sub := by
  induction fuel generalizing target sub with
  | zero => omega
  | succ f ih =>
    cases sub with
    | nonNull b =>
      have hb : b.depth < f := by simp [TRef.depth] at h; omega
      cases target with
      | nonNull t =>
        simp only [isSubTypeFixed, isSubTypeSpec, ih t b hb]
        cases hte : typeEq (TRef.nonNull t) (TRef.nonNull b) with
        | false => simp
        | true =>
          simp only [typeEq] at hte
          simp [typeEq_spec s t b hte]
      | named a => simp [isSubTypeFixed, isSubTypeSpec, ih _ b hb, typeEq]
      | list t => simp [isSubTypeFixed, isSubTypeSpec, ih _ b hb, typeEq]
    | named b =>
      cases target with
      | named a => simp [isSubTypeFixed, isSubTypeSpec, typeEq]
      | list t => simp [isSubTypeFixed, isSubTypeSpec, typeEq]
      | nonNull t => simp [isSubTypeFixed, isSubTypeSpec, typeEq]
    | list u =>
      have hu : u.depth < f := by simp [TRef.depth] at h; omega
      cases target with
      | list t =>
        simp only [isSubTypeFixed, isSubTypeSpec, ih t u hu, typeEq]
        cases hte : typeEq t u with
        | false => simp
        | true => simp [typeEq_spec s t u hte]
      | named a => simp [isSubTypeFixed, isSubTypeSpec, typeEq]
      | nonNull t => simp [isSubTypeFixed, isSubTypeSpec, typeEq]

/-- the repaired test accepts the covariant implementation the first commit refused -/
example :
    let s : Schema := [.iface "Node" [⟨"self", .named "Node", [], []⟩] [],
                       .object "Obj" ["Node"] [⟨"self", .nonNull (.named "Obj"), [], []⟩] []]
    isSubTypeFixed s 2 (.named "Node") (.nonNull (.named "Obj")) = true := by decide

/-- **C13_dev_subtype (D45).**  `interface Node { self: Node }`, `type Obj implements Node { self: Obj! }`:
`Obj!` is a valid implementation type for `Node` and the coded test refuses it — a well-formed schema
is rejected. -/
theorem C13_dev_subtype :
    let s : Schema := [.iface "Node" [⟨"self", .named "Node", [], []⟩] [],
                       .object "Obj" ["Node"] [⟨"self", .nonNull (.named "Obj"), [], []⟩] []]
    isSubTypeSpec s (.named "Node") (.nonNull (.named "Obj")) = true ∧
    isSubTypeCode s 32 (.named "Node") (.nonNull (.named "Obj")) = false := by decide

end Ggql.Rules
