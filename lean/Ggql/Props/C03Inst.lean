/-
C03 instantiated on the tables regenerated from /repo on this run.

`skeleton_pinned` ties the hand-written control-flow models to the source they were written against:
the translator hashes every function of parser.go / sdlparser.go / exeparser.go (comments and message
texts stripped) and the hashes must be the ones recorded here.  An edit to any scanner function breaks
this obligation; the check then lets the correspondence run decide (and reports the edit as
`no-failing-input-found` if model and code still agree everywhere it looks).
-/
import Ggql.Props.C03
import Ggql.Proofs.ExeDepth
import Ggql.Model.ScanTables
import Ggql.Gen.Tables
import Ggql.Gen.Parse
namespace Ggql.C03
open Ggql.Scan Ggql.SdlCF

def genTbl : ValueText.Tbl :=
  { charMap := Gen.charMap, numMap := Gen.numMap, spaceClass := Gen.spaceClass, tokenClass := Gen.tokenClass,
    numClass := Gen.numClass, escapes := Gen.escapeTable, unescapes := Gen.unescapeTable, terminators := Gen.numberTerminators }

def genCM : CM := { cmOfTbl genTbl [] with depthLimit := Gen.maxParseDepth, listNeedsMember := Gen.listNeedsMember, condStrict := Gen.condStrict }

/-- the function bodies the models were written against (hash of each, messages and comments stripped) -/
def pinnedSkeleton : List (String × String) := [
  ("Executable.SetContextRecursive", "fecba30c47b5"),
  ("Executable.String", "36b2f6bde286"),
  ("Executable.Validate", "93a685e83687"),
  ("Executable.validateFragmentCycles", "1eb7c3116412"),
  ("Executable.write", "bdebd1326245"),
  ("Field.String", "235038b68a19"),
  ("Field.Validate", "58181d2e4a99"),
  ("Field.checkArgs", "8fe29135e2fc"),
  ("Field.getArg", "19ad5e763d53"),
  ("Field.key", "4682fb716138"),
  ("Field.write", "4d719e643171"),
  ("FragRef.Column", "76112db58cac"),
  ("FragRef.Directives", "ac1a67195301"),
  ("FragRef.Line", "8220243e1233"),
  ("FragRef.SelectionSet", "3298e82781a6"),
  ("FragRef.String", "b52e492c741b"),
  ("FragRef.Validate", "a569e1d89379"),
  ("FragRef.write", "58607979af01"),
  ("Fragment.String", "0b361c0d5975"),
  ("Fragment.Validate", "16471fa11431"),
  ("Fragment.write", "fd3d0721c6d4"),
  ("Inline.String", "19ac801e75e7"),
  ("Inline.Validate", "2c875a8a1c3f"),
  ("Inline.write", "4dab8dd4543f"),
  ("Op.String", "57716655fe75"),
  ("Op.Validate", "a27a5549f9e6"),
  ("Op.write", "0044e235a56a"),
  ("ParseValue", "aee9fa3d28d3"),
  ("ParseValueString", "03432091c79e"),
  ("VarDef.Validate", "8dd49799f901"),
  ("VarDef.write", "5634fcdebcb5"),
  ("exeParser.readField", "a34d4efa5ee5"),
  ("exeParser.readFragRef", "9c97fce48d73"),
  ("exeParser.readFragment", "ddd930c0e6c7"),
  ("exeParser.readFragmentDef", "ac7947967256"),
  ("exeParser.readInline", "c937b7931829"),
  ("exeParser.readOp", "fd5442d6288c"),
  ("exeParser.readSelectionSet", "355ecb6ffc3e"),
  ("exeParser.readVarDef", "c683f216d2b6"),
  ("exeParser.readVarDefs", "007f8ff5b513"),
  ("parseExe", "b2fc5513a9c5"),
  ("parseSDL", "5c0f8828856d"),
  ("parser.deeper", "f95cc851b447"),
  ("parser.putBack", "53625e41ee42"),
  ("parser.readArgValue", "9028b5da71ab"),
  ("parser.readArgValues", "cdf8819b1f0b"),
  ("parser.readByte", "17681f2c239b"),
  ("parser.readDesc", "4d773b7bf13a"),
  ("parser.readDirUse", "b8689d53bc0c"),
  ("parser.readDirUses", "3aef5c6ea839"),
  ("parser.readEscaped", "6e29c300ab39"),
  ("parser.readNumberToken", "f3b19f6d64a1"),
  ("parser.readString", "898da43fe809"),
  ("parser.readToken", "ef9998d985e1"),
  ("parser.readType", "f9e7d1c2a133"),
  ("parser.readValue", "67b6dc0216a2"),
  ("parser.shallower", "6a32e8f2f49b"),
  ("parser.skipBOM", "3748472419d4"),
  ("parser.skipSpace", "c52c2c490dec"),
  ("sdlParser.readArg", "1fd975e944de"),
  ("sdlParser.readArgs", "673f4fa124af"),
  ("sdlParser.readDirective", "6901232ff5a0"),
  ("sdlParser.readEnum", "6a534ea70ec9"),
  ("sdlParser.readEnumValue", "d7ea323f2858"),
  ("sdlParser.readField", "35797de4a2ff"),
  ("sdlParser.readFields", "89356d25b88c"),
  ("sdlParser.readImplements", "e0b9405f7967"),
  ("sdlParser.readInput", "795d3b71d37d"),
  ("sdlParser.readInputField", "bfb02722136d"),
  ("sdlParser.readInputFields", "f44cbc8f2af0"),
  ("sdlParser.readInterface", "8c9edbb69222"),
  ("sdlParser.readObject", "77fb47c2dc94"),
  ("sdlParser.readScalar", "bb58c591ae15"),
  ("sdlParser.readSchema", "546dc31c30c3"),
  ("sdlParser.readUnion", "1b522b6e5905"),
  ("writeVarDefs", "55cea593d151")
]

theorem skeleton_pinned : Gen.parserSkeleton = pinnedSkeleton := by decide

theorem gen_brace_not_space : genCM.isSpace 125 = false := by decide
theorem gen_brace_not_token : genCM.isToken 125 = false := by decide

/-- every byte that sends `readValue` into its number arm is a number character, so the number token
is never empty (table fact used by the value-reader progress lemma) -/
theorem gen_numStart_isNum : (List.range 256).all (fun n => !isNumStart (UInt8.ofNat n) || genCM.isNum (UInt8.ofNat n)) = true := by
  decide +kernel

/-- … lifted from the 256-entry table check to every byte -/
theorem gen_numStart_isNum_all (b : UInt8) (h : isNumStart b = true) : genCM.isNum b = true := by
  have hall := List.all_eq_true.mp gen_numStart_isNum b.toNat (List.mem_range.mpr b.toNat_lt)
  have hb : UInt8.ofNat b.toNat = b := UInt8.ofNat_toNat
  rw [hb] at hall
  simpa [h] using hall

/-- **C03 for `ParseValue` on the tables of this run**: it returns for every byte string and reader ending -/
theorem C03_parseValue_total_current (bytes : List UInt8) (tail : Tail) :
    (parseValue genCM bytes tail).2.oof = false :=
  C03_parseValue_total genCM gen_numStart_isNum_all bytes tail

/-- **C03 for request documents on the tables of this run** -/
theorem C03_parseExe_total_current (bytes : List UInt8) (tail : Tail) :
    (ExeCF.parseExe genCM { varTypeOptional := Gen.exeVarTypeOptional, opErrPosAfterLookahead := Gen.opErrPosAfterLookahead, fragCondPosAfterToken := Gen.fragCondPosAfterToken, opLineBeforeSkip := Gen.opLineBeforeSkip } (sdlFuel bytes) bytes tail).2.oof = false :=
  C03_parseExe_total genCM gen_numStart_isNum_all _ bytes tail

theorem gen_quote_not_space : genCM.isSpace 34 = false := by decide

/-- **C03 for schema text on the tree of this run**: when the translator finds the empty-token guard in
`parseSDL` (D01 repaired), the scanner returns for every byte string and reader ending; while it does not
find it, `C03_current_hang` applies instead. -/
theorem C03_parseSDL_total_current (h : Gen.sdlEmptyTokenSpins = false) (bytes : List UInt8) (tail : Tail) :
    (parseSDL genCM { emptyTokenSpins := Gen.sdlEmptyTokenSpins } (sdlFuel bytes) bytes tail).2.oof = false := by
  rw [h]; exact C03_parseSDL_total genCM gen_numStart_isNum_all gen_quote_not_space bytes tail

/-- white space is never a token character (so a token ends at the first blank) -/
theorem gen_space_not_token : (List.range 256).all (fun n => !(genCM.isSpace (UInt8.ofNat n) && genCM.isToken (UInt8.ofNat n))) = true := by
  decide +kernel

/-- C03 on the tree of this run, D01 member: while the translator reports that `parseSDL` has no
empty-token guard, the schema text `}` never returns. -/
theorem C03_current_hang (h : Gen.sdlEmptyTokenSpins = true) (n : Nat) :
    (parseSDL genCM { emptyTokenSpins := Gen.sdlEmptyTokenSpins } n [125] .eof).2.oof = true := by
  rw [h]; exact C03_dev_sdlHang genCM gen_brace_not_space gen_brace_not_token n

/-- … and once the guard is there (translator reports `false`), the same text is refused at once. -/
theorem C03_current_stray_refused (h : Gen.sdlEmptyTokenSpins = false) (n : Nat) :
    (parseSDL genCM { emptyTokenSpins := Gen.sdlEmptyTokenSpins } (n + 1) [125] .eof).2.oof = false := by
  rw [h]; exact (C03_fixed_stray genCM gen_brace_not_space gen_brace_not_token n).2

/-! ### the stack clause on the current source (D03 repaired) -/

/-- the scanners of this run have a nesting limit (`var MaxParseDepth`, `deeper()` at the four recursive
constructs: read by the translator) -/
theorem gen_depth_limited : Gen.maxParseDepth.isSome = true := by decide

/-- **C03_value_depth_bounded_current.**  `ParseValue` on the current source never recurses deeper than
`MaxParseDepth`, for every input. -/
theorem C03_value_depth_bounded_current (l : Nat) (hl : Gen.maxParseDepth = some l) (bytes : List UInt8) (tail : Tail) :
    (parseValue genCM bytes tail).2.maxDepth ≤ l :=
  C03_value_depth_bounded genCM l hl bytes tail

/-- **C03_request_depth_bounded_current.**  Parsing a request on the current source never recurses deeper than
`MaxParseDepth`, for every input: the stack overflow of D03 cannot happen. -/
theorem C03_request_depth_bounded_current (l : Nat) (hl : Gen.maxParseDepth = some l) (cfg : ExeCF.Cfg) (fuel : Nat)
    (bytes : List UInt8) (tail : Tail) : (ExeCF.parseExe genCM cfg fuel bytes tail).2.maxDepth ≤ l :=
  ExeCF.C03_request_depth_bounded genCM cfg l hl fuel bytes tail

/-- the bound is attained: `[[[…` nested as deep as the limit allows stands exactly that deep (so `maxDepth`
is not trivially 0), here for a limit of 3 -/
example : (parseValue { genCM with depthLimit := some 3 } [91, 91, 91, 93, 93, 93] .eof).2.maxDepth = 3 ∧
    (parseValue { genCM with depthLimit := some 3 } [91, 91, 91, 91, 93, 93, 93, 93] .eof).1 = some ⟨.parse, 1, 5⟩ := by
  decide +kernel

end Ggql.C03
