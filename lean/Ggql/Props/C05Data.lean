/-
C05 — response data is well-typed: from the leaf to the whole value under a field.

`C05_leaf_resp` : what the leaf branch of `resolve` places in the response for a scalar field (the
`CoerceOut` outcome passed through `leafOut`, i.e. nulled when an error was returned and the source has
`result = nil` there) is accepted by the oracle, for every arm passing the response-level test
`armSoundOutR`.  `C05_data` lifts it, by induction over the nesting of list / non-null wrappers and of
the returned Go lists, to everything `resolveData` produces: the response value is `wellTyped`.
-/
import Ggql.Props.C04
import Ggql.Model.Leaf
namespace Ggql.Coerce

variable {F : Type}

theorem checkOut_leafOut (ext : Ext F) (s : Scalar) (v : GoVal F) (out : GoVal F × Bool) (n : Bool)
    (h : checkOut ext s v out = true) : checkOut ext s v (leafOut n out) = true := by
  obtain ⟨r, e⟩ := out
  cases e <;> cases n <;> simp [leafOut] at * <;> first | exact h | simp [checkOut]

theorem parseInt64_range (str : String) (i : Int) (h : parseInt64 str = some i) : inRange64 i = true := by
  unfold parseInt64 at h
  split at h
  · split at h
    · simp at h; subst h; assumption
    · simp at h
  · simp at h

theorem str_of_kind (v : GoVal F) (h : v.kind = .str) (hw : v.wf = true) : ∃ str, v = .str str := by
  cases v with
  | int k x => simp only [GoVal.kind] at h; subst h; simp [GoVal.wf, kindRange] at hw
  | flt k x => simp only [GoVal.kind] at h; subst h; simp [GoVal.wf, Kind.isFloat] at hw
  | str str => exact ⟨str, rfl⟩
  | nil => simp [GoVal.kind] at h
  | bool _ => simp [GoVal.kind] at h
  | sym _ => simp [GoVal.kind] at h
  | time _ => simp [GoVal.kind] at h
  | other _ => simp [GoVal.kind] at h

/-- **C05_leaf_resp.** -/
theorem C05_leaf_resp (ext : Ext F) (laws : ExtLaws ext) (s : Scalar) (tbl : Table) (v : GoVal F) (n : Bool)
    (hft : tbl.formatTime = (s == .time)) (hs : armSoundOutR n s v.kind (tbl.armFor v.kind) = true) (hw : v.wf = true) :
    checkOut ext s v (leafOut n (coerce ext tbl v)) = true := by
  simp only [armSoundOutR, Bool.or_eq_true, Bool.and_eq_true] at hs
  rcases hs with hs | ⟨hn, hm⟩
  · exact checkOut_leafOut ext s v _ n (C05_leaf ext laws s tbl v hft hs hw)
  · subst hn
    generalize ha : tbl.armFor v.kind = a at hm
    cases s <;> cases a <;> (try (simp at hm; done))
    · -- Int ← range-checked integer
      rename_i t; cases t <;> simp at hm
      obtain ⟨k, x, rfl, _⟩ := int_of_kind v hm hw
      simp only [GoVal.kind] at ha
      simp only [coerce, GoVal.kind, ha, applyAction, hft]
      by_cases hr : inRange32 x = true
      · have hr' := hr
        simp only [inRange32, Bool.and_eq_true, decide_eq_true_eq] at hr'
        simp [leafOut, checkOut, convTo, GoVal.kind, Scalar.outKind, wrapInt, wrap32_id x hr'.1 hr'.2, hr, intValue]
      · simp [leafOut, checkOut, hr]
    · -- Int ← string, bit size 32
      simp only [beq_iff_eq] at hm
      obtain ⟨str, rfl⟩ := str_of_kind v hm hw
      simp only [GoVal.kind] at ha
      simp only [coerce, GoVal.kind, ha, applyAction, hft]
      cases hp : parseInt64 str with
      | none => simp [leafOut, checkOut]
      | some i =>
        by_cases hr : inRange32 i = true
        · simp [leafOut, checkOut, GoVal.kind, Scalar.outKind, hr, intValue, hp]
        · simp [leafOut, checkOut, hr]
    · -- Int64 ← range-checked integer
      rename_i t; cases t <;> simp at hm
      obtain ⟨k, x, rfl, _⟩ := int_of_kind v hm hw
      simp only [GoVal.kind] at ha
      simp only [coerce, GoVal.kind, ha, applyAction, hft]
      by_cases hr : inRange64 x = true
      · have hr' := hr
        simp only [inRange64, Bool.and_eq_true, decide_eq_true_eq] at hr'
        simp [leafOut, checkOut, convTo, GoVal.kind, Scalar.outKind, wrapInt, wrap64_id x hr'.1 hr'.2, hr, intValue]
      · simp [leafOut, checkOut, hr]
    · -- Int64 ← string
      rename_i t; cases t <;> simp at hm
      obtain ⟨str, rfl⟩ := str_of_kind v hm hw
      simp only [GoVal.kind] at ha
      simp only [coerce, GoVal.kind, ha, applyAction, hft]
      cases hp : parseInt64 str with
      | none => simp [leafOut, checkOut]
      | some i =>
        have hr := parseInt64_range str i hp
        have hr' := hr
        simp only [inRange64, Bool.and_eq_true, decide_eq_true_eq] at hr'
        simp [leafOut, checkOut, NumT.kind, GoVal.kind, Scalar.outKind, wrapInt, wrap64_id i hr'.1 hr'.2, hr, intValue, hp]
    · -- Float ← string, finiteness-checked
      rename_i t; cases t <;> simp at hm
      obtain ⟨str, rfl⟩ := str_of_kind v hm hw
      simp only [GoVal.kind] at ha
      simp only [coerce, GoVal.kind, ha, applyAction, hft]
      cases hp : ext.parse str with
      | none => simp [leafOut, checkOut]
      | some x =>
        by_cases hf : ext.isFinite (ext.round32 x) = true
        · simp [leafOut, checkOut, GoVal.kind, Scalar.outKind, NumT.kind, hf]
        · simp [leafOut, checkOut, hf]
    · -- Float ← float, finiteness-checked
      rename_i t; cases t <;> simp at hm
      obtain ⟨k, x, rfl⟩ := flt_of_kind v hm hw
      simp only [GoVal.kind] at ha
      simp only [coerce, GoVal.kind, ha, applyAction, hft, convTo]
      by_cases hf : ext.isFinite (ext.round32 x) = true
      · simp [leafOut, checkOut, GoVal.kind, Scalar.outKind, hf]
      · simp [leafOut, checkOut, hf]
    · -- Float64 ← string, finiteness-checked
      rename_i t; cases t <;> simp at hm
      obtain ⟨str, rfl⟩ := str_of_kind v hm hw
      simp only [GoVal.kind] at ha
      simp only [coerce, GoVal.kind, ha, applyAction, hft]
      cases hp : ext.parse str with
      | none => simp [leafOut, checkOut]
      | some x =>
        by_cases hf : ext.isFinite x = true
        · simp [leafOut, checkOut, GoVal.kind, Scalar.outKind, NumT.kind, hf]
        · simp [leafOut, checkOut, hf]
    · -- Float64 ← float, finiteness-checked
      rename_i t; cases t <;> simp at hm
      obtain ⟨k, x, rfl⟩ := flt_of_kind v hm hw
      simp only [GoVal.kind] at ha
      simp only [coerce, GoVal.kind, ha, applyAction, hft, convTo]
      by_cases hf : ext.isFinite x = true
      · simp [leafOut, checkOut, GoVal.kind, Scalar.outKind, hf]
      · simp [leafOut, checkOut, hf]
    · -- Boolean ← string
      simp only [beq_iff_eq] at hm
      obtain ⟨str, rfl⟩ := str_of_kind v hm hw
      simp only [GoVal.kind] at ha
      simp only [coerce, GoVal.kind, ha, applyAction, hft]
      cases hp : parseBool str with
      | none => simp [leafOut, checkOut]
      | some b => simp [leafOut, checkOut, GoVal.kind, Scalar.outKind]
    · -- Time ← string
      simp only [beq_iff_eq] at hm
      obtain ⟨str, rfl⟩ := str_of_kind v hm hw
      simp only [GoVal.kind] at ha
      simp only [coerce, GoVal.kind, ha, applyAction, hft]
      cases hp : ext.timeParse str with
      | none => simp [leafOut, checkOut]
      | some t => simp [leafOut, checkOut, GoVal.kind, Scalar.outKind]

/-- what `C05_data` asks of a resolver value: every scalar leaf is a well-formed Go value whose arm passes
the response-level test, enum leaves name a declared value (D17 excluded), no typed fast-path slice
(D18 excluded).  Everything else — wrong shapes, lists for scalars, scalars for lists — is allowed. -/
def dataSound (tb : Scalar → Table) (n fc : Bool) : TRef → Data F → Bool
  | _, .leaf .nil => true
  | .nonNull t, d => dataSound tb n fc t d
  | .list t, .list xs => xs.all (dataSound tb n fc t)
  | .list t, .slice .fast xs => !fc && xs.all (fun x => dataSound tb n fc t (.leaf x))
  | .list t, .slice .reflect xs => xs.all (fun x => dataSound tb n fc t (.leaf x))
  | .list _, .leaf _ => true
  | .scalar s, .leaf v => v.wf && armSoundOutR n s v.kind ((tb s).armFor v.kind)
  | .scalar s, _ => armSoundOutR n s .other ((tb s).armFor .other)
  | .enum vals, .leaf (.str s) => vals.contains s
  | .enum vals, .leaf (.sym s) => vals.contains s
  | .enum _, _ => true

theorem wellTyped_of_checkOut (ext : Ext F) (s : Scalar) (v r : GoVal F) (e : Bool)
    (h : checkOut ext s v (r, e) = true) : wellTyped ext (.scalar s) (.leaf r) = true := by
  cases r with
  | nil => simp [wellTyped]
  | int k n => cases s <;> simp_all [checkOut, wellTyped, GoVal.kind]
  | flt k x => cases s <;> simp_all [checkOut, wellTyped, GoVal.kind]
  | _ => cases s <;> simp_all [checkOut, wellTyped, GoVal.kind]

/-- **C05_data.**  Whatever nesting of list / non-null wrappers the declared type has and whatever
nesting of Go lists the resolver returned, the value placed in the response has the JSON shape of the
declared type. -/
theorem C05_data (ext : Ext F) (laws : ExtLaws ext) (tb : Scalar → Table) (n fc : Bool)
    (hft : ∀ s, (tb s).formatTime = (s == .time)) (t : TRef) (d : Data F)
    (hs : dataSound tb n fc t d = true) : wellTyped ext t (resolveData ext tb n fc t d).1 = true := by
  induction t generalizing d with
  | scalar s =>
    cases d with
    | leaf v =>
      by_cases hv : v = .nil
      · subst hv; simp [resolveData, wellTyped]
      · have hs' : v.wf = true ∧ armSoundOutR n s v.kind ((tb s).armFor v.kind) = true := by
          cases v <;> simp_all [dataSound]
        have h := C05_leaf_resp ext laws s (tb s) v n (hft s) hs'.2 hs'.1
        have : (resolveData ext tb n fc (.scalar s) (.leaf v)).1 = .leaf (leafOut n (coerce ext (tb s) v)).1 := by
          cases v <;> simp_all [resolveData]
        rw [this]
        exact wellTyped_of_checkOut ext s v _ (leafOut n (coerce ext (tb s) v)).2 h
    | list xs =>
      have hs' : armSoundOutR n s .other ((tb s).armFor .other) = true := by simpa [dataSound] using hs
      have h := C05_leaf_resp ext laws s (tb s) (.other "list") n (hft s) hs' (by simp [GoVal.wf])
      simp only [resolveData]
      exact wellTyped_of_checkOut ext s _ _ (leafOut n (coerce ext (tb s) (.other "list"))).2 h
    | slice k xs =>
      have hs' : armSoundOutR n s .other ((tb s).armFor .other) = true := by simpa [dataSound] using hs
      have h := C05_leaf_resp ext laws s (tb s) (.other "list") n (hft s) hs' (by simp [GoVal.wf])
      simp only [resolveData]
      exact wellTyped_of_checkOut ext s _ _ (leafOut n (coerce ext (tb s) (.other "list"))).2 h
  | enum vals =>
    cases d with
    | leaf v => cases v <;> simp_all [resolveData, enumOut, wellTyped, dataSound]
    | list xs => simp [resolveData, wellTyped]
    | slice k xs => simp [resolveData, wellTyped]
  | list t ih =>
    cases d with
    | leaf v => cases v <;> simp [resolveData, wellTyped]
    | list xs =>
      simp only [dataSound, List.all_eq_true] at hs
      simp only [resolveData, wellTyped, List.all_eq_true, List.mem_map]
      rintro r ⟨p, ⟨x, hx, rfl⟩, rfl⟩
      exact ih x (hs x hx)
    | slice k xs =>
      cases k with
      | fast =>
        simp only [dataSound, Bool.and_eq_true, Bool.not_eq_true', List.all_eq_true] at hs
        obtain ⟨hfc, hs⟩ := hs
        subst hfc
        simp only [resolveData, Bool.false_eq_true, if_false, wellTyped, List.all_eq_true, List.mem_map]
        rintro r ⟨p, ⟨x, hx, rfl⟩, rfl⟩
        exact ih (.leaf x) (hs x hx)
      | reflect =>
        simp only [dataSound, List.all_eq_true] at hs
        simp only [resolveData, wellTyped, List.all_eq_true, List.mem_map]
        rintro r ⟨p, ⟨x, hx, rfl⟩, rfl⟩
        exact ih (.leaf x) (hs x hx)
  | nonNull t ih =>
    by_cases hd : d = .leaf .nil
    · subst hd; simp [resolveData, wellTyped]
    · have h1 : resolveData ext tb n fc (.nonNull t) d = resolveData ext tb n fc t d := by
        cases d with
        | leaf v => cases v <;> simp_all [resolveData]
        | list xs => simp [resolveData]
        | slice k xs => simp [resolveData]
      have h2 : dataSound tb n fc (.nonNull t) d = dataSound tb n fc t d := by
        cases d with
        | leaf v => cases v <;> simp_all [dataSound]
        | list xs => simp [dataSound]
        | slice k xs => simp [dataSound]
      rw [h1]; rw [h2] at hs
      have := ih d hs
      cases hr : (resolveData ext tb n fc t d).1 with
      | leaf r => cases r <;> simp_all [wellTyped]
      | list ys => simp_all [wellTyped]

end Ggql.Coerce
