/-
C09 instantiated on the table generated from /repo/pkg/ggql/resolve.go on this run.
Whichever way the source reads, one of the two disjuncts is what the kernel checks.
-/
import Ggql.Props.C09
import Ggql.Gen.Skip
namespace Ggql.Skip

/-- the generated table is inside the family the theorems cover (polarity and bad-variable handling
as required); fails to check when `skipSel` is rewritten into anything else -/
theorem C09_inst_polarity : Gen.skipTable.polarityOk = true := by decide

/-- **C09 on the current tree.**  Either the arms accumulate and the full property holds for every
directive list and variable map, or they assign (D07) and the property holds on the guarded region,
with the concrete counterexample outside it. -/
theorem C09_current :
    (Gen.skipTable.accumulates = true ∧
      ∀ dirs vars, (skipSel Gen.skipTable dirs vars).1 = !included dirs vars) ∨
    (Gen.skipTable = tableAssign ∧
      (∀ dirs vars, (dirs.filter relevant).length ≤ 1 →
        (skipSel Gen.skipTable dirs vars).1 = !included dirs vars) ∧
      (skipSel Gen.skipTable [⟨.incl, some (.lit false)⟩, ⟨.skip, some (.lit false)⟩] []).1 ≠
        !included [⟨.incl, some (.lit false)⟩, ⟨.skip, some (.lit false)⟩] []) := by
  first
  | exact Or.inl ⟨by decide, fun dirs vars =>
      C09_full _ (by simp only [Table.wellFormed, C09_inst_polarity, Bool.true_and]; decide) dirs vars⟩
  | exact Or.inr ⟨by decide, fun dirs vars hg => C09_partial _ C09_inst_polarity dirs vars hg, by decide⟩

end Ggql.Skip
