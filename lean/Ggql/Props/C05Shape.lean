/-
C05, first sentence, without the arm-level exclusions.

`C05_data` / `C05_current` are stated for resolver values that avoid the pinned-deviation arms (what is left
of D16: Int / Int64 ← float drops the fraction of a value that fits).  Dropping a fraction is a violation of
the property's second sentence ("a value that cannot be represented yields null plus an error"), not of the
first: the number written is still a 32-bit (64-bit) integer.  Now that those arms are range-checked
(`convTrunc`), the first sentence — every value in "data" has the JSON shape of the declared type — holds on
the current tables for *every* well-formed resolver value, and that is what is proved here:

`C05_shape_current` : for every declared type, every resolver value whose Go numbers are values of their
kinds and whose enum names are declared (D17, open), and every behaviour of the runtime's floats and times,
the response value is `wellTyped`.
-/
import Ggql.Props.C05Inst
namespace Ggql.Coerce

variable {F : Type}

/-- arm test for the shape half: the response-level soundness test, or a range-checked truncation into the
declared integer type -/
def armShapeOutR (n : Bool) (s : Scalar) (k : Kind) (a : Action) : Bool :=
  armSoundOutR n s k a ||
  (match s, a with
   | .int, .convTrunc .i32 => k.isFloat
   | .int64, .convTrunc .i64 => k.isFloat
   | _, _ => false)

theorem wellTyped_leafOut_nil (ext : Ext F) (s : Scalar) : wellTyped ext (.scalar s) (.leaf .nil) = true := by
  simp [wellTyped]

/-- **C05_leaf_shape.** -/
theorem C05_leaf_shape (ext : Ext F) (laws : ExtLaws ext) (s : Scalar) (tbl : Table) (v : GoVal F) (n : Bool)
    (hft : tbl.formatTime = (s == .time)) (hs : armShapeOutR n s v.kind (tbl.armFor v.kind) = true) (hw : v.wf = true) :
    wellTyped ext (.scalar s) (.leaf (leafOut n (coerce ext tbl v)).1) = true := by
  simp only [armShapeOutR, Bool.or_eq_true] at hs
  rcases hs with hs | hm
  · exact wellTyped_of_checkOut ext s v _ (leafOut n (coerce ext tbl v)).2 (C05_leaf_resp ext laws s tbl v n hft hs hw)
  · generalize ha : tbl.armFor v.kind = a at hm
    cases s <;> cases a <;> (try (simp at hm; done))
    · rename_i t; cases t <;> simp at hm
      obtain ⟨k, x, rfl⟩ := flt_of_kind v hm hw
      simp only [GoVal.kind] at ha
      simp only [coerce, GoVal.kind, ha, applyAction, hft]
      cases ht : ext.trunc x with
      | none => cases n <;> simp [leafOut, wellTyped]
      | some i =>
        by_cases hr : inRange32 i = true
        · simp [leafOut, wellTyped, GoVal.kind, Scalar.outKind, NumT.kind, hr]
        · cases n <;> simp [leafOut, wellTyped, hr]
    · rename_i t; cases t <;> simp at hm
      obtain ⟨k, x, rfl⟩ := flt_of_kind v hm hw
      simp only [GoVal.kind] at ha
      simp only [coerce, GoVal.kind, ha, applyAction, hft]
      cases ht : ext.trunc x with
      | none => cases n <;> simp [leafOut, wellTyped]
      | some i =>
        by_cases hr : inRange64 i = true
        · simp [leafOut, wellTyped, GoVal.kind, Scalar.outKind, NumT.kind, hr]
        · cases n <;> simp [leafOut, wellTyped, hr]

/-- `dataSound` with the shape test at the leaves -/
def dataShape (tb : Scalar → Table) (n fc : Bool) : TRef → Data F → Bool
  | _, .leaf .nil => true
  | .nonNull t, d => dataShape tb n fc t d
  | .list t, .list xs => xs.all (dataShape tb n fc t)
  | .list t, .slice .fast xs => !fc && xs.all (fun x => dataShape tb n fc t (.leaf x))
  | .list t, .slice .reflect xs => xs.all (fun x => dataShape tb n fc t (.leaf x))
  | .list _, .leaf _ => true
  | .scalar s, .leaf v => v.wf && armShapeOutR n s v.kind ((tb s).armFor v.kind)
  | .scalar s, _ => armShapeOutR n s .other ((tb s).armFor .other)
  | .enum vals, .leaf (.str s) => vals.contains s
  | .enum vals, .leaf (.sym s) => vals.contains s
  | .enum _, _ => true

/-- **C05_data_shape.**  `C05_data` with the weaker leaf test. -/
theorem C05_data_shape (ext : Ext F) (laws : ExtLaws ext) (tb : Scalar → Table) (n fc : Bool)
    (hft : ∀ s, (tb s).formatTime = (s == .time)) (t : TRef) (d : Data F)
    (hs : dataShape tb n fc t d = true) : wellTyped ext t (resolveData ext tb n fc t d).1 = true := by
  induction t generalizing d with
  | scalar s =>
    cases d with
    | leaf v =>
      by_cases hv : v = .nil
      · subst hv; simp [resolveData, wellTyped]
      · have hs' : v.wf = true ∧ armShapeOutR n s v.kind ((tb s).armFor v.kind) = true := by
          cases v <;> simp_all [dataShape]
        have h := C05_leaf_shape ext laws s (tb s) v n (hft s) hs'.2 hs'.1
        have : (resolveData ext tb n fc (.scalar s) (.leaf v)).1 = .leaf (leafOut n (coerce ext (tb s) v)).1 := by
          cases v <;> simp_all [resolveData]
        rw [this]
        exact h
    | list xs =>
      have hs' : armShapeOutR n s .other ((tb s).armFor .other) = true := by simpa [dataShape] using hs
      have h := C05_leaf_shape ext laws s (tb s) (.other "list") n (hft s) hs' (by simp [GoVal.wf])
      simp only [resolveData]
      exact h
    | slice k xs =>
      have hs' : armShapeOutR n s .other ((tb s).armFor .other) = true := by simpa [dataShape] using hs
      have h := C05_leaf_shape ext laws s (tb s) (.other "list") n (hft s) hs' (by simp [GoVal.wf])
      simp only [resolveData]
      exact h
  | enum vals =>
    cases d with
    | leaf v => cases v <;> simp_all [resolveData, enumOut, wellTyped, dataShape]
    | list xs => simp [resolveData, wellTyped]
    | slice k xs => simp [resolveData, wellTyped]
  | list t ih =>
    cases d with
    | leaf v => cases v <;> simp [resolveData, wellTyped]
    | list xs =>
      simp only [dataShape, List.all_eq_true] at hs
      simp only [resolveData, wellTyped, List.all_eq_true, List.mem_map]
      rintro r ⟨p, ⟨x, hx, rfl⟩, rfl⟩
      exact ih x (hs x hx)
    | slice k xs =>
      cases k with
      | fast =>
        simp only [dataShape, Bool.and_eq_true, Bool.not_eq_true', List.all_eq_true] at hs
        obtain ⟨hfc, hs⟩ := hs
        subst hfc
        simp only [resolveData, Bool.false_eq_true, if_false, wellTyped, List.all_eq_true, List.mem_map]
        rintro r ⟨p, ⟨x, hx, rfl⟩, rfl⟩
        exact ih (.leaf x) (hs x hx)
      | reflect =>
        simp only [dataShape, List.all_eq_true] at hs
        simp only [resolveData, wellTyped, List.all_eq_true, List.mem_map]
        rintro r ⟨p, ⟨x, hx, rfl⟩, rfl⟩
        exact ih (.leaf x) (hs x hx)
  | nonNull t ih =>
    by_cases hd : d = .leaf .nil
    · subst hd; simp [resolveData, wellTyped]
    · have h1 : resolveData ext tb n fc (.nonNull t) d = resolveData ext tb n fc t d := by
        cases d with
        | leaf v => cases v <;> simp_all [resolveData]
        | list xs => simp [resolveData]
        | slice k xs => simp [resolveData]
      have h2 : dataShape tb n fc (.nonNull t) d = dataShape tb n fc t d := by
        cases d with
        | leaf v => cases v <;> simp_all [dataShape]
        | list xs => simp [dataShape]
        | slice k xs => simp [dataShape]
      rw [h1]; rw [h2] at hs
      have := ih d hs
      cases hr : (resolveData ext tb n fc t d).1 with
      | leaf r => cases r <;> simp_all [wellTyped]
      | list ys => simp_all [wellTyped]

/-! ### on the current tables: no exclusions at scalar leaves -/

def allKinds : List Kind :=
  [.nil, .int, .i8, .i16, .i32, .i64, .uint, .u8, .u16, .u32, .u64, .f32, .f64, .str, .bool, .time, .sym, .other]

theorem mem_allKinds (k : Kind) : k ∈ allKinds := by cases k <;> simp [allKinds]
theorem mem_allScalars (s : Scalar) : s ∈ allScalars := by cases s <;> simp [allScalars]

/-- **C05_shape_tables.**  Every arm (and the default) of every `CoerceOut` table of the current source passes
the shape test, for every Go kind. -/
theorem C05_shape_tables :
    allScalars.all (fun s => allKinds.all (fun k => armShapeOutR Gen.leafErrNulls s k ((outTable s).armFor k))) = true := by
  decide +kernel

theorem armShape_current (s : Scalar) (k : Kind) : armShapeOutR Gen.leafErrNulls s k ((outTable s).armFor k) = true := by
  have h := C05_shape_tables
  simp only [List.all_eq_true] at h
  exact h s (mem_allScalars s) k (mem_allKinds k)

/-- the Go numbers in a resolver value are values of their kinds -/
def Data.wf : Data F → Bool
  | .leaf v => v.wf
  | .list xs => xs.attach.all (fun ⟨x, _⟩ => Data.wf x)
  | .slice _ xs => xs.all GoVal.wf

/-- enum-typed positions hold declared names (what D17 leaves open) -/
def enumsDeclared : TRef → Data F → Bool
  | _, .leaf .nil => true
  | .nonNull t, d => enumsDeclared t d
  | .list t, .list xs => xs.all (enumsDeclared t)
  | .list t, .slice _ xs => xs.all (fun x => enumsDeclared t (.leaf x))
  | .list _, .leaf _ => true
  | .scalar _, _ => true
  | .enum vals, .leaf (.str s) => vals.contains s
  | .enum vals, .leaf (.sym s) => vals.contains s
  | .enum _, _ => true

theorem Data.wf_list (xs : List (Data F)) : Data.wf (.list xs) = xs.all Data.wf := by
  simp [Data.wf, List.all_eq_true]

theorem dataShape_current (t : TRef) (d : Data F) (hw : d.wf = true) (he : enumsDeclared t d = true) :
    dataShape outTable Gen.leafErrNulls Gen.fastSliceCopies t d = true := by
  have hfc : Gen.fastSliceCopies = false := by decide
  induction t generalizing d with
  | scalar s =>
    cases d with
    | leaf v =>
      have := armShape_current s v.kind
      cases v <;> simp_all [dataShape, Data.wf]
    | list xs => simpa [dataShape] using armShape_current s .other
    | slice k xs => simpa [dataShape] using armShape_current s .other
  | enum vals =>
    cases d with
    | leaf v => cases v <;> simp_all [dataShape, enumsDeclared]
    | list xs => simp [dataShape]
    | slice k xs => simp [dataShape]
  | list t ih =>
    cases d with
    | leaf v => cases v <;> simp [dataShape]
    | list xs =>
      rw [Data.wf_list] at hw
      simp only [enumsDeclared, List.all_eq_true] at he hw
      simp only [dataShape, List.all_eq_true]
      intro x hx
      exact ih x (hw x hx) (he x hx)
    | slice k xs =>
      simp only [Data.wf, List.all_eq_true] at hw
      simp only [enumsDeclared, List.all_eq_true] at he
      cases k with
      | fast =>
        simp only [dataShape, hfc, Bool.not_false, Bool.true_and, List.all_eq_true]
        intro x hx
        exact ih (.leaf x) (by simpa [Data.wf] using hw x hx) (he x hx)
      | reflect =>
        simp only [dataShape, List.all_eq_true]
        intro x hx
        exact ih (.leaf x) (by simpa [Data.wf] using hw x hx) (he x hx)
  | nonNull t ih =>
    by_cases hd : d = .leaf .nil
    · subst hd; simp [dataShape]
    · have h2 : dataShape outTable Gen.leafErrNulls Gen.fastSliceCopies (.nonNull t) d = dataShape outTable Gen.leafErrNulls Gen.fastSliceCopies t d := by
        cases d with
        | leaf v => cases v <;> simp_all [dataShape]
        | list xs => simp [dataShape]
        | slice k xs => simp [dataShape]
      have h3 : enumsDeclared (.nonNull t) d = enumsDeclared t d := by
        cases d with
        | leaf v => cases v <;> simp_all [enumsDeclared]
        | list xs => simp [enumsDeclared]
        | slice k xs => simp [enumsDeclared]
      rw [h2]; rw [h3] at he
      exact ih d hw he

/-- **C05_shape_current.**  On the tables and the leaf branch generated from the source on this run: for
every declared type `t`, every resolver value `d` — any nesting of Go lists and typed slices, every numeric
kind and boundary, NaN and infinities, strings, wrong kinds — whose enum-typed positions hold declared names,
and every behaviour of the runtime's floats and times, what is placed in the response has the JSON shape of
`t`: no arm of any `CoerceOut` is excluded. -/
theorem C05_shape_current (ext : Ext F) (laws : ExtLaws ext) (t : TRef) (d : Data F)
    (hw : d.wf = true) (he : enumsDeclared t d = true) :
    wellTyped ext t (resolveData ext outTable Gen.leafErrNulls Gen.fastSliceCopies t d).1 = true :=
  C05_data_shape ext laws outTable Gen.leafErrNulls Gen.fastSliceCopies outTable_formatTime t d
    (dataShape_current t d hw he)

/-- non-vacuity: an Int list holding an out-of-range float, NaN-free fractions and a wrong kind meets the
hypotheses (none of these is `dataSound`) -/
example : Data.wf (F := Nat) (.list [.leaf (.flt .f64 7), .leaf (.int .u64 18446744073709551615), .leaf (.bool true)]) = true ∧
    enumsDeclared (F := Nat) (.list (.scalar .int)) (.list [.leaf (.flt .f64 7), .leaf (.int .u64 18446744073709551615), .leaf (.bool true)]) = true ∧
    dataSound (F := Nat) outTable Gen.leafErrNulls Gen.fastSliceCopies (.list (.scalar .int)) (.list [.leaf (.flt .f64 7)]) = false := by
  refine ⟨?_, ?_, ?_⟩
  · simp [Data.wf, GoVal.wf, Kind.isFloat, kindRange]
  · simp [enumsDeclared]
  · simp [dataSound, GoVal.wf, Kind.isFloat, GoVal.kind]; decide

end Ggql.Coerce
