/-
C18 instantiated: the tables regenerated from `parser.go` / `value.go` on this run are the standard
tables the theorems are proved for.
-/
import Ggql.Props.C18
import Ggql.Gen.Tables
namespace Ggql.ValueText

def genTbl : Tbl :=
  { charMap := Gen.charMap, numMap := Gen.numMap, spaceClass := Gen.spaceClass, tokenClass := Gen.tokenClass,
    numClass := Gen.numClass, escapes := Gen.escapeTable, unescapes := Gen.unescapeTable, terminators := Gen.numberTerminators }

/-- **C18_tables.**  Character classes, escape and unescape switches and the number-terminator set of
the current source are the ones the round-trip theorems are stated for. -/
theorem C18_tables :
    genTbl.charMap = stdTbl.charMap ∧ genTbl.numMap = stdTbl.numMap ∧ genTbl.spaceClass = stdTbl.spaceClass ∧
    genTbl.tokenClass = stdTbl.tokenClass ∧ genTbl.numClass = stdTbl.numClass ∧ genTbl.escapes = stdTbl.escapes ∧
    genTbl.unescapes = stdTbl.unescapes ∧ genTbl.terminators = stdTbl.terminators := by
  refine ⟨?_, ?_, ?_, ?_, ?_, ?_, ?_, ?_⟩ <;> decide +kernel

theorem genTbl_eq : genTbl = stdTbl := by
  obtain ⟨h1, h2, h3, h4, h5, h6, h7, h8⟩ := C18_tables
  have : ∀ a b : Tbl, a.charMap = b.charMap → a.numMap = b.numMap → a.spaceClass = b.spaceClass → a.tokenClass = b.tokenClass →
      a.numClass = b.numClass → a.escapes = b.escapes → a.unescapes = b.unescapes → a.terminators = b.terminators → a = b := by
    intro a b; cases a; cases b; simp_all
  exact this _ _ h1 h2 h3 h4 h5 h6 h7 h8

/-- **C18_sdl on the current source.**  The round trip, for the writer and reader interpreting the
tables regenerated from the source on this run. -/
theorem C18_sdl_current {F : Type} (ft : FloatText F) (hft : FloatOK ft) (v : Value F) (hwf : v.WF) (indent : Int) :
    readValue genTbl ft (sz v) (writeSDL genTbl ft indent v) = some (v, trail 0 indent v) := by
  rw [genTbl_eq]; exact C18_sdl ft hft v hwf indent

/-- `unescape ∘ escape = id` on the regenerated tables: every escaped form `\x` is mapped back by the
reader's switch -/
theorem C18_escape_tables_inverse :
    Gen.escapeTable.all (fun p => match p.2 with
      | [92, x] => Gen.unescapeTable.any (fun q => q.1 == x && q.2 == p.1)
      | _ => false) = true := by decide +kernel

end Ggql.ValueText
