/-
C18 instantiated: the tables regenerated from `parser.go` / `value.go` on this run are the standard
tables the theorems are proved for.
-/
import Ggql.Props.C18
import Ggql.Gen.Tables
namespace Ggql.ValueText

def genTbl : Tbl :=
  { charMap := Gen.charMap, numMap := Gen.numMap, spaceClass := Gen.spaceClass, tokenClass := Gen.tokenClass,
    numClass := Gen.numClass, escapes := Gen.escapeTable, unescapes := Gen.unescapeTable, terminators := Gen.numberTerminators, jsonKeysEscaped := Gen.jsonKeysEscaped }

/-- **C18_tables.**  Character classes, escape and unescape switches and the number-terminator set of
the current source are the ones the round-trip theorems are stated for. -/
theorem C18_tables :
    genTbl.charMap = stdTbl.charMap ∧ genTbl.numMap = stdTbl.numMap ∧ genTbl.spaceClass = stdTbl.spaceClass ∧
    genTbl.tokenClass = stdTbl.tokenClass ∧ genTbl.numClass = stdTbl.numClass ∧ genTbl.escapes = stdTbl.escapes ∧
    genTbl.unescapes = stdTbl.unescapes ∧ genTbl.terminators = stdTbl.terminators ∧
    genTbl.jsonKeysEscaped = stdTbl.jsonKeysEscaped := by
  refine ⟨?_, ?_, ?_, ?_, ?_, ?_, ?_, ?_, ?_⟩ <;> decide +kernel

theorem genTbl_eq : genTbl = stdTbl := by
  obtain ⟨h1, h2, h3, h4, h5, h6, h7, h8, h9⟩ := C18_tables
  have : ∀ a b : Tbl, a.charMap = b.charMap → a.numMap = b.numMap → a.spaceClass = b.spaceClass → a.tokenClass = b.tokenClass →
      a.numClass = b.numClass → a.escapes = b.escapes → a.unescapes = b.unescapes → a.terminators = b.terminators →
      a.jsonKeysEscaped = b.jsonKeysEscaped → a = b := by
    intro a b; cases a; cases b; simp_all
  exact this _ _ h1 h2 h3 h4 h5 h6 h7 h8 h9

/-- **C18_sdl on the current source.**  The round trip, for the writer and reader interpreting the
tables regenerated from the source on this run. -/
theorem C18_sdl_current {F : Type} (ft : FloatText F) (hft : FloatOK ft) (v : Value F) (hwf : v.WF) (indent : Int) :
    readValue genTbl ft (sz v) (writeSDL genTbl ft indent v) = some (v, trail 0 indent v) := by
  rw [genTbl_eq]; exact C18_sdl ft hft v hwf indent

/-- **C18_json_keys (on the model).**  With member names written through `writeString`, the JSON text of a map
member starts with the escaped, quoted key — the same function that writes string values, whose output
`C18_string_json`-style lemmas cover — whatever characters the key holds. -/
theorem C18_json_member_key {F : Type} (ft : FloatText F) (d2 : Nat) (k : List Char) (v : Value F) (rest : List (List Char × Value F)) :
    ∃ tail, writeMembers genTbl ft false d2 (-1) true ((k, v) :: rest) = writeString genTbl k true ++ tail := by
  have hk : genTbl.jsonKeysEscaped = true := by rw [genTbl_eq]; rfl
  refine ⟨[':'] ++ (if (0 : Int) ≤ -1 then [' '] else []) ++ writeValue genTbl ft false d2 (-1) v ++
      writeMembers genTbl ft false d2 (-1) (decide ((-1 : Int) < 0) && false && v.isCollection) rest, ?_⟩
  simp [writeMembers, hk]

/-- `unescape ∘ escape = id` on the regenerated tables: every escaped form `\x` is mapped back by the
reader's switch -/
theorem C18_escape_tables_inverse :
    Gen.escapeTable.all (fun p => match p.2 with
      | [92, x] => Gen.unescapeTable.any (fun q => q.1 == x && q.2 == p.1)
      | _ => false) = true := by decide +kernel

/-- **C18_int_kinds (partial: D97).**  The model's `.int` is an integer whatever Go kind carries it; `writeValue` has
an arm of its own (decimal text through `strconv.FormatInt`) for exactly these kinds, read from its type switch on
this run.  For them the round-trip theorems above apply; an integer of another kind (int8, uint, uint8 … uint64)
takes the default arm and is written as a quoted string — the test-pinned finding D97, which the correspondence
observes on every run with all ten kinds. -/
theorem C18_int_kinds_partial : Gen.writerIntKinds = ["int", "int16", "int32", "int64"] := by decide

end Ggql.ValueText
