/-
C08 on the walk model, stated outright (decision logic): which fragments apply to an object, what
`__typename` says, and at which type the value of an interface- / union-typed field is walked — for every
schema, data graph, selection, depth and variable map — in the configuration the translator reads from the
source (`Gen.condByIdentity = false`: `fragmentApplies`, and the `*Interface` arm of `resolve`).
-/
import Ggql.Props.Walk
import Ggql.Gen.Dispatch
namespace Ggql.Walk

/-- **C08_applies.**  At an object-typed position a fragment applies exactly when its condition is that type, an
interface the type implements, or a union the type is a member of (`typeApplies`: DoesFragmentTypeApply). -/
theorem C08_applies (env : Env) (h : env.cfg.condByIdentity = false) (node : Nat) (ty c : String)
    (onm : String) (fs : List FieldDef) (ifs : List String) (ho : env.schema.find ty = some (.object onm fs ifs)) :
    fragApplies env node ty (some c) = typeApplies env.schema ty c := by
  simp only [fragApplies, objectTypeOf, h, ho, Bool.not_false, Bool.true_and]
  simp only [typeApplies, Bool.or_assoc, Bool.or_self_left]

/-- **C08_applies_abstract.**  At an interface- or union-typed position whose node's object type is determined
(`objectTypeOf = some ot`: the Go type is bound to an object type that implements the interface / is a member of
the union) a fragment applies exactly when its condition is the position's type or applies to that object type. -/
theorem C08_applies_abstract (env : Env) (h : env.cfg.condByIdentity = false) (node : Nat) (ty c ot : String)
    (hot : objectTypeOf env node ty = some ot) :
    fragApplies env node ty (some c) = (c == ty || typeApplies env.schema ot c) := by
  simp [fragApplies, h, hot]

/-- when the object type can not be determined only a fragment on the position's own type applies -/
theorem C08_applies_undetermined (env : Env) (node : Nat) (ty c : String) (hot : objectTypeOf env node ty = none) :
    fragApplies env node ty (some c) = (c == ty) := by
  simp [fragApplies, hot]

/-- a fragment without a type condition always applies -/
theorem C08_no_condition (env : Env) (node : Nat) (ty : String) : fragApplies env node ty none = true := rfl

/-- **C08_unrelated.**  A fragment that does not apply contributes nothing: the result map is as it was and no
resolver below it is invoked (only its own @skip/@include errors, if any, are reported). -/
theorem C08_unrelated (env : Env) (node : Nat) (ty : String) (d : Nat) (res : List (String × J))
    (cond : Option String) (dirs : List Skip.DirUse) (sels : List Sel) (sp : Option SpreadInfo)
    (h : fragApplies env node ty cond = false) :
    (rSel env node ty d res (.inline cond dirs sels sp)).1 = res ∧
    (rSel env node ty d res (.inline cond dirs sels sp)).2.calls = [] := by
  simp only [rSel, h, Bool.false_eq_true, if_false]
  split <;> simp

/-- **C08_related.**  A fragment that applies (and is not excluded) is walked on the same object, into the same
result map, at the type of its condition: the fields it may select are those of the condition (a field the
condition does not define is an error there, C10), whatever the object's own type has besides. -/
theorem C08_related (env : Env) (node : Nat) (ty : String) (d : Nat) (res : List (String × J))
    (cond : Option String) (dirs : List Skip.DirUse) (sels : List Sel)
    (hs : (Skip.skipSel env.cfg.skipTable dirs env.vars).1 = false)
    (h : fragApplies env node ty cond = true) :
    (rSel env node ty d res (.inline cond dirs sels none)).1 = (rSels env node (fragTy env ty cond) d res sels).1 ∧
    (rSel env node ty d res (.inline cond dirs sels none)).2.calls = (rSels env node (fragTy env ty cond) d res sels).2.calls := by
  simp [rSel, h, hs]

/-- the type an applying fragment's selections are walked at, repaired configuration -/
theorem fragTy_condition (env : Env) (h : env.cfg.condByIdentity = false) (ty c : String) :
    fragTy env ty (some c) = c ∧ fragTy env ty none = ty := by
  simp [fragTy, h]

/-- **C08_interface_position.**  At an interface-typed position whose node's Go type is bound to an object type
implementing the interface, `__typename` is the object type's name and `objectTypeOf` is that type (so, with
`C08_applies_abstract`, the fragments that apply are those of the concrete type). -/
theorem C08_interface_position (env : Env) (h : env.cfg.condByIdentity = false) (node : Nat) (ity : String) (n : Node)
    (hn : env.graph[node]? = some n) (inm : String) (ifs0 : List FieldDef)
    (hi : env.schema.find ity = some (.iface inm ifs0))
    (onm : String) (fs : List FieldDef) (ifs : List String)
    (ho : env.schema.find n.goType = some (.object onm fs ifs)) (himp : ifs.contains ity = true)
    (d : Nat) (res : List (String × J)) (al : String) (sels : List Sel) :
    objectTypeOf env node ity = some n.goType ∧
    (rSel env node ity d res (.field al "__typename" [] [] sels)).1 =
      setKey res (if al.isEmpty then "__typename" else al) (.str n.goType) := by
  have hm : ity ∈ ifs := by simpa using himp
  refine ⟨by simp [objectTypeOf, hn, hi, ho, hm], ?_⟩
  rw [typename_walked, typeName_concrete env h node ity n hn inm ifs0 hi onm fs ifs ho himp]

/-- **C08_union_position.**  The value of a union-typed field is walked at the first member type the object's
Go type is bound to (in both configurations); a value bound to no member contributes an empty object. -/
theorem C08_union_position (s : Schema) (g : Graph) (k : Nat → String → Nat → J × Acc) (u unm : String)
    (members : List String) (hu : s.find u = some (.union unm members)) (node : Nat) (d : Nat) :
    (∀ m, members.find? (fun m => bindsTo g node m) = some m →
      complete s g k (.named u) (.ref node) (d + 1) = k node m d) ∧
    (members.find? (fun m => bindsTo g node m) = none →
      complete s g k (.named u) (.ref node) (d + 1) = (.obj [], {})) := by
  constructor
  · intro m hm
    simp [complete, hu, hm]
  · intro hm
    simp [complete, hu, hm]

/-- **C08_union_static.**  Repaired (D103): the selections under a union-typed field are walked at the union — a
member's fields are reached through a fragment (`C08_applies_abstract`), a field selected directly there is not a
field of the union (C10) — while a field of any other type is walked at the type `complete` hands on. -/
theorem C08_union_static (env : Env) (h : env.cfg.unionAtMember = false) (declared : TRef) (t unm : String)
    (ms : List String) (hu : env.schema.find declared.base = some (.union unm ms)) :
    staticTy env declared t = declared.base := by
  simp [staticTy, h, hu]

theorem staticTy_not_union (env : Env) (declared : TRef) (t : String)
    (hn : ∀ unm ms, env.schema.find declared.base ≠ some (.union unm ms)) : staticTy env declared t = t := by
  unfold staticTy
  split
  · rfl
  · split
    · rename_i unm ms heq; exact absurd heq (hn unm ms)
    · rfl

/-- the configuration read from the source on this run -/
theorem gen_condByIdentity : Gen.condByIdentity = false := by decide

theorem gen_unionAtMember : Gen.unionAtMember = false := by decide

/-- **C08_current.**  On the tree the tables were regenerated from: under any environment whose fragment test is
the one read from the source, fragments apply by DoesFragmentTypeApply on the type walked, and fragments that do
not apply are silent. -/
theorem C08_current (env : Env) (hc : env.cfg.condByIdentity = Gen.condByIdentity) (node : Nat) (ty c : String)
    (onm : String) (fs : List FieldDef) (ifs : List String) (ho : env.schema.find ty = some (.object onm fs ifs))
    (d : Nat) (res : List (String × J)) (dirs : List Skip.DirUse) (sels : List Sel) (sp : Option SpreadInfo) :
    fragApplies env node ty (some c) = typeApplies env.schema ty c ∧
    (typeApplies env.schema ty c = false →
      (rSel env node ty d res (.inline (some c) dirs sels sp)).1 = res ∧
      (rSel env node ty d res (.inline (some c) dirs sels sp)).2.calls = []) := by
  have h : env.cfg.condByIdentity = false := by rw [hc]; exact gen_condByIdentity
  have ha := C08_applies env h node ty c onm fs ifs ho
  exact ⟨ha, fun hf => C08_unrelated env node ty d res (some c) dirs sels sp (by rw [ha]; exact hf)⟩

/- non-vacuity: a schema with an interface, an implementing object, a union and an unrelated object -/
def exSchema : Schema :=
  [.iface "Named" [⟨"name", .named "String", []⟩],
   .object "Dog" [⟨"name", .named "String", []⟩, ⟨"bark", .named "String", []⟩] ["Named"],
   .object "Rock" [⟨"mass", .named "Int", []⟩] [],
   .union "Pet" ["Dog"],
   .leaf "String", .leaf "Int"]

example : typeApplies exSchema "Dog" "Named" = true ∧ typeApplies exSchema "Dog" "Pet" = true ∧
    typeApplies exSchema "Dog" "Dog" = true ∧ typeApplies exSchema "Dog" "Rock" = false ∧
    typeApplies exSchema "Rock" "Named" = false ∧ typeApplies exSchema "Rock" "Pet" = false := by decide

example : exSchema.find "Dog" = some (.object "Dog" [⟨"name", .named "String", []⟩, ⟨"bark", .named "String", []⟩] ["Named"]) := rfl

end Ggql.Walk
