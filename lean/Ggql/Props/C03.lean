/-
C03 — no schema text, request or value can hang the library: property theorems on the scanner models
(`Model/Scan`, `Model/SdlCF`, `Model/ExeCF`).  Helper lemmas are in `Proofs/ScanLemmas`.

Every loop and every recursive call of the Go scanners is a structural recursion on a fuel argument
in the model, with a sticky flag `oof` set when some loop runs out of fuel.  "The Go function always
returns" is "fuel linear in the input never sets `oof`"; "the Go loop never terminates" is "every
fuel sets `oof`".
-/
import Ggql.Proofs.ScanLemmas
import Ggql.Proofs.ScanTotal
import Ggql.Proofs.ExeTotal
import Ggql.Proofs.SdlTotal
import Ggql.Model.SdlCF
import Ggql.Model.ExeCF
namespace Ggql.C03
open Ggql.Scan Ggql.SdlCF

variable (cm : CM)

/-! ### the scanner primitives terminate and only ever consume -/

/-- `skipSpace`, for every state: returns (never out of fuel with the fuel the model gives it), never
un-consumes input, and leaves a significant byte on deck -/
theorem C03_skipSpace_total (p : P) (h : p.oof = false) :
    (skipSp cm p).2.oof = false ∧ (skipSp cm p).2.mu ≤ p.mu := by
  have := skipSp_spec cm p
  exact ⟨by rw [this.1, h], this.2.1⟩

/-- `readToken`, for every state: returns, and has consumed at least the bytes of the token it returns -/
theorem C03_readToken_total (p : P) (h : p.oof = false) :
    (readToken cm p).2.oof = false ∧ (readToken cm p).2.mu + (readToken cm p).1.1.length ≤ p.mu := by
  have := readToken_spec cm p
  exact ⟨by rw [this.1, h], this.2⟩

theorem C03_readNumberToken_total (p : P) (h : p.oof = false) :
    (readNumberToken cm p).2.oof = false ∧ (readNumberToken cm p).2.mu + (readNumberToken cm p).1.1.length ≤ p.mu := by
  have := readNumberToken_spec cm p
  exact ⟨by rw [this.1, h], this.2⟩

/-! ### `ParseValue` always returns -/

/-- **C03_parseValue_total.**  For every byte string and every way the reader can end (EOF, EOF together
with the last byte, a non-EOF error), `ParseValue` returns: the model, run with the fuel `2·|input| + 8`,
never runs out of fuel, and the scanner ends no further back than it started.  `hnum` — every byte that
sends `readValue` into its number arm is a number character — is a fact about the regenerated `numMap`
(`C03Inst.gen_numStart_isNum`). -/
theorem C03_parseValue_total (hnum : ∀ b, isNumStart b = true → cm.isNum b = true) (bytes : List UInt8) (tail : Tail) :
    (parseValue cm bytes tail).2.oof = false := by
  unfold parseValue
  have := (readValue_le cm hnum (P.init bytes tail)).1
  simpa [P.init] using this

/-- the same for the pieces every parser shares: a type expression, a directive use list and an argument
list, from any scanner state -/
theorem C03_readType_total (p : P) (h : p.oof = false) : (readType cm p.vfuel p).2.oof = false := by
  rw [(readType_le cm p).1]; exact h

theorem C03_readDirs_total (hnum : ∀ b, isNumStart b = true → cm.isNum b = true) (p : P) (h : p.oof = false) :
    (readDirs cm p).2.oof = false := by
  rw [(readDirs_le cm hnum p).1]; exact h

theorem C03_readArgValues_total (hnum : ∀ b, isNumStart b = true → cm.isNum b = true) (p : P) (h : p.oof = false) :
    (readArgValues cm p).2.oof = false := by
  rw [(readArgValues_le cm hnum p).1]; exact h

/-! ### the executable-document scanner always returns -/

/-- **C03_parseExe_total.**  For every byte string given as a request document, every reader ending, both
members of the family (with and without the variable-type guard of D05) and every set of known type
names: `parseExe` returns — the model never runs out of the fuel `2·|input| + 8`.  This covers the 5
loops and the 5-function recursion of `exeparser.go` (operations, variable definitions, selection sets,
fields, fragments) on top of the shared scanner. -/
theorem C03_parseExe_total (hnum : ∀ b, isNumStart b = true → cm.isNum b = true) (cfg : ExeCF.Cfg)
    (bytes : List UInt8) (tail : Tail) :
    (ExeCF.parseExe cm cfg (sdlFuel bytes) bytes tail).2.oof = false :=
  ExeCF.parseExe_total cm cfg hnum bytes tail

/-! ### the schema scanner always returns — once the empty-token guard is there -/

/-- **C03_parseSDL_total.**  With the guard of D01 in place (`emptyTokenSpins := false`), for every byte
string given as schema text and every reader ending, `parseSDL` returns: the model never runs out of the
fuel `2·|input| + 8`.  This covers the 13 loops of `sdlparser.go` (definitions, `extend`, arguments, fields,
input fields, enum values, implemented interfaces, union members, directive locations) on top of the
shared scanner, including the paths on which the Go code swallows an error and carries on.  `hq`: a
quote is not white space (a fact about the regenerated `charMap`). -/
theorem C03_parseSDL_total (hnum : ∀ b, isNumStart b = true → cm.isNum b = true) (hq : cm.isSpace 34 = false)
    (bytes : List UInt8) (tail : Tail) :
    (parseSDL cm { emptyTokenSpins := false } (sdlFuel bytes) bytes tail).2.oof = false :=
  SdlCF.parseSDL_total cm hnum hq bytes tail

/-! ### D01: a stray closing brace at top level spins `parseSDL` for ever -/

/-- the scanner state `parseSDL` is in after `skipBOM` on the input `}` -/
def strayState : P := { rest := [], tail := .eof, onDeck := 125, line := 1, col := 2 }

theorem skipBOM_stray : skipBOM (P.init [125] .eof) = (none, strayState) := by
  simp [skipBOM, readByte, P.init, putBack, strayState, P.initPos, P.advance]

theorem skipSp_stray (hs : cm.isSpace 125 = false) : skipSp cm strayState = (some 125, strayState) := by
  simp [skipSp, P.sfuel, strayState, skipSpace, readByte, putBack, hs]

theorem readToken_stray (hs : cm.isSpace 125 = false) (ht : cm.isToken 125 = false) :
    readToken cm strayState = (([], false), strayState) := by
  rw [readToken, skipSp_stray cm hs]
  simp [P.sfuel, strayState, classLoop, readByte, putBack, ht]

theorem top_stray (hs : cm.isSpace 125 = false) (ht : cm.isToken 125 = false) (x : Bool) :
    top cm { emptyTokenSpins := true } strayState.vfuel strayState x = (((none, x), none), strayState) := by
  have hv : strayState.vfuel = 7 + 1 := rfl
  rw [hv, top, readToken_stray cm hs ht]
  simp

theorem top_stray_fixed (hs : cm.isSpace 125 = false) (ht : cm.isToken 125 = false) (x : Bool) :
    top cm { emptyTokenSpins := false } strayState.vfuel strayState x = (((none, x), some ⟨.parse, 1, 2⟩), strayState) := by
  have hv : strayState.vfuel = 7 + 1 := rfl
  rw [hv, top, readToken_stray cm hs ht]
  simp [strayState, P.perr]

/-- one iteration of the main loop in the stray state changes nothing -/
theorem mainLoop_stray_step (hs : cm.isSpace 125 = false) (ht : cm.isToken 125 = false)
    (n : Nat) (x : Bool) (acc : List Def) :
    mainLoop cm { emptyTokenSpins := true } (n + 1) strayState x acc =
      mainLoop cm { emptyTokenSpins := true } n strayState x acc := by
  rw [mainLoop]
  have he : strayState.eof = false := rfl
  simp only [he, Bool.false_eq_true, if_false]
  rw [skipSp_stray cm hs]
  have hdo : descOpt cm 125 strayState = (none, strayState) := by simp [descOpt]
  simp [hdo, top_stray cm hs ht]

/-- C03 is false of the pinned tree (D01): for every amount of fuel — i.e. however long one waits —
`parseSDL` on the one-byte schema text `}` has not returned.  `cm` is any classification in which `}`
is neither white space nor a token character (the regenerated `charMap` is one: `Props/C03Inst`). -/
theorem C03_dev_sdlHang (hs : cm.isSpace 125 = false) (ht : cm.isToken 125 = false) (n : Nat) :
    (parseSDL cm { emptyTokenSpins := true } n [125] .eof).2.oof = true := by
  simp only [parseSDL, skipBOM_stray]
  suffices h : ∀ (n : Nat) (x : Bool) (acc : List Def),
      (mainLoop cm { emptyTokenSpins := true } n strayState x acc).2.oof = true from h n false []
  intro n
  induction n with
  | zero => intro x acc; simp [mainLoop, P.outOfFuel]
  | succ k ih => intro x acc; rw [mainLoop_stray_step cm hs ht]; exact ih x acc

/-- the repaired member reports the stray brace: an error, at once, with any fuel ≥ 1 -/
theorem C03_fixed_stray (hs : cm.isSpace 125 = false) (ht : cm.isToken 125 = false) (n : Nat) :
    (parseSDL cm { emptyTokenSpins := false } (n + 1) [125] .eof).1.2 = some ⟨.parse, 1, 2⟩ ∧
    (parseSDL cm { emptyTokenSpins := false } (n + 1) [125] .eof).2.oof = false := by
  simp only [parseSDL, skipBOM_stray]
  rw [mainLoop]
  have he : strayState.eof = false := rfl
  simp only [he, Bool.false_eq_true, if_false]
  rw [skipSp_stray cm hs]
  have hdo : descOpt cm 125 strayState = (none, strayState) := by simp [descOpt]
  simp only [hdo, top_stray_fixed cm hs ht]
  simp [strayState]

end Ggql.C03
