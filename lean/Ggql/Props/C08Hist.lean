/-
C08 / C12 — abstract-typed positions under reflection are history-free once D47 and D51 are repaired.

The binding of GraphQL object types to Go types is made lazily, by the first value that needs it.  On the first
commit what a value at a union or interface position resolved to depended on which values had been seen before
(`C08_dev_coldUnion`, `C08_dev_coldInterface`).  With the repaired member loop (`unionLoopAll`) and the repaired
`getReflectType` (`getReflectTypeLazy`) it does not, in every *world* where the by-name discovery the
reflection strategy relies on is sound: each Go type belongs to one object type, which binds it by name or
`@go`, and no object type is implemented by two Go types.

`C08_history_free` : from any truthful binding state — in particular the cold root — and for any sequence of
well-typed values at object, union and interface positions, every value is resolved as its own object type.
The outcome of an event is a function of the event alone, so it is the same in every history
(`C08_order_free`).
-/
import Ggql.Props.C08
import Ggql.Gen.Dispatch
namespace Ggql.C08
open Ggql.Binding

/-- what the reflection strategy assumes of the application's Go types -/
structure World (cfg : Cfg) (objs : List ObjT) where
  typeOf : GoT → Option String
  discoverable : ∀ g t, typeOf g = some t → ∃ o ∈ objs, o.name = t ∧ bindsByName cfg o g = true
  /-- among the application's Go types (those `typeOf` knows) binding by name does not mislead -/
  truthful : ∀ o ∈ objs, ∀ g, (typeOf g).isSome = true → bindsByName cfg o g = true → typeOf g = some o.name
  oneGoType : ∀ g g' t, typeOf g = some t → typeOf g' = some t → g = g'
  uniqueNames : ∀ o ∈ objs, ∀ o' ∈ objs, o.name = o'.name → o = o'

variable {cfg : Cfg} {objs : List ObjT}

/-- every binding made so far is the right one -/
def Truthful (W : World cfg objs) (m : Meta) : Prop := ∀ n b, m.get n = some b → W.typeOf b = some n

theorem find_obj (W : World cfg objs) (o : ObjT) (ho : o ∈ objs) : objs.find? (fun x => x.name == o.name) = some o := by
  cases hf : objs.find? (fun x => x.name == o.name) with
  | none =>
    have := List.find?_eq_none.mp hf o ho
    simp at this
  | some o' =>
    have hn : o'.name = o.name := by simpa using List.find?_some hf
    have hm := List.mem_of_find?_eq_some hf
    rw [W.uniqueNames o' hm o ho hn]

theorem truthful_set (W : World cfg objs) (m : Meta) (t : String) (g : GoT) (hm : Truthful W m) (hg : W.typeOf g = some t) :
    Truthful W (m.set t g) := by
  intro n b hb
  by_cases hn : n = t
  · subst hn
    cases hcur : m.get n with
    | some b' =>
      have : (m.set n g).get n = some b' := get_set_bound m n n g b' hcur
      rw [this] at hb
      cases hb
      exact hm n _ hcur
    | none =>
      rw [get_set_self m n g hcur] at hb
      cases hb
      exact hg
  · rw [get_set_other m t n g hn] at hb
    exact hm n b hb

/-- `metaCheck` on the value's own object type: it ends up bound to the value's Go type -/
theorem metaCheck_own (W : World cfg objs) (m : Meta) (o : ObjT) (ho : o ∈ objs) (g : GoT)
    (hm : Truthful W m) (hg : W.typeOf g = some o.name) : metaCheck cfg m o g = (m.set o.name g, some g) := by
  unfold metaCheck
  cases hcur : m.get o.name with
  | some b =>
    have hb : b = g := W.oneGoType b g o.name (hm o.name b hcur) hg
    subst hb
    simp [Meta.set, hcur]
  | none =>
    obtain ⟨o', ho', hn, hbind⟩ := W.discoverable g o.name hg
    have : o' = o := W.uniqueNames o' ho' o ho hn
    subst this
    simp [hbind]

/-- `metaCheck` on any other object type: the state is untouched and the answer is not the value's Go type -/
theorem metaCheck_other (W : World cfg objs) (m : Meta) (o : ObjT) (ho : o ∈ objs) (g : GoT) (t : String)
    (hm : Truthful W m) (hg : W.typeOf g = some t) (hne : o.name ≠ t) :
    (metaCheck cfg m o g).1 = m ∧ (metaCheck cfg m o g).2 ≠ some g := by
  unfold metaCheck
  cases hcur : m.get o.name with
  | some b =>
    refine ⟨rfl, ?_⟩
    intro h
    simp at h
    subst h
    have := hm o.name b hcur
    rw [hg] at this
    exact hne (Option.some.inj this).symm
  | none =>
    have hnb : bindsByName cfg o g = false := by
      cases hb : bindsByName cfg o g with
      | false => rfl
      | true =>
        have := W.truthful o ho g (by rw [hg]; rfl) hb
        rw [hg] at this
        exact absurd (Option.some.inj this).symm hne
    simp [hnb]

/-- **union position.**  The repaired loop resolves a member value as its own type, whatever was bound before. -/
theorem unionLoopAll_own (W : World cfg objs) (g : GoT) (t : String) (hg : W.typeOf g = some t) :
    ∀ (ms : List String) (m : Meta) (pend : Option String), Truthful W m → t ∈ ms →
      unionLoopAll cfg objs g m pend ms = (m.set t g, .asType t) := by
  obtain ⟨ot, hot, hotn, _⟩ := W.discoverable g t hg
  intro ms
  induction ms with
  | nil => intro m pend _ ht; simp at ht
  | cons mem rest ih =>
    intro m pend hm ht
    unfold unionLoopAll
    by_cases hmem : mem = t
    · subst hmem
      have hf := find_obj W ot hot
      rw [hotn] at hf
      simp only [hf]
      have hown := metaCheck_own W m ot hot g hm (by rw [hotn]; exact hg)
      rw [hotn] at hown
      simp [hown]
    · have ht' : t ∈ rest := by
        rcases List.mem_cons.mp ht with h | h
        · exact absurd h.symm hmem
        · exact h
      cases hf : objs.find? (fun o => o.name == mem) with
      | none => simp only; exact ih m pend hm ht'
      | some o =>
        have ho := List.mem_of_find?_eq_some hf
        have hon : o.name = mem := by simpa using List.find?_some hf
        obtain ⟨h1, h2⟩ := metaCheck_other W m o ho g t hm hg (by rw [hon]; exact hmem)
        simp only
        rcases hmc : metaCheck cfg m o g with ⟨m', r⟩
        rw [hmc] at h1 h2
        simp only at h1 h2
        subst h1
        cases r with
        | none => simp only; exact ih _ _ hm ht'
        | some b =>
          have hbg : (b == g) = false := by
            cases hb : b == g with
            | false => rfl
            | true => exact absurd (by rw [eq_of_beq hb]) h2
          simp only [hbg, Bool.false_eq_true, if_false]
          exact ih _ pend hm ht'

theorem takes_iff (W : World cfg objs) (m : Meta) (g : GoT) (t : String) (hm : Truthful W m) (hg : W.typeOf g = some t) (n : String) :
    takes cfg objs m g n = true ↔ n = t := by
  obtain ⟨ot, hot, hotn, _⟩ := W.discoverable g t hg
  unfold takes
  constructor
  · intro h
    cases hf : objs.find? (fun o => o.name == n) with
    | none => simp [hf] at h
    | some o =>
      have ho := List.mem_of_find?_eq_some hf
      have hon : o.name = n := by simpa using List.find?_some hf
      simp only [hf] at h
      by_cases hnt : n = t
      · exact hnt
      · have := (metaCheck_other W m o ho g t hm hg (by rw [hon]; exact hnt)).2
        exact absurd (eq_of_beq h) this
  · intro h
    subst h
    have hf := find_obj W ot hot
    rw [hotn] at hf
    have hown := metaCheck_own W m ot hot g hm (by rw [hotn]; exact hg)
    simp [hf, hown]

/-- **interface position.**  The repaired `getReflectType` finds the value's own object type on any truthful
state, the cold root included. -/
theorem getReflectTypeLazy_own (W : World cfg objs) (m : Meta) (order : List String) (g : GoT) (t : String)
    (hm : Truthful W m) (hg : W.typeOf g = some t) (ht : t ∈ order) :
    getReflectTypeLazy cfg objs m order g = (m.set t g, some t) := by
  unfold getReflectTypeLazy
  cases hf : order.find? (takes cfg objs m g) with
  | none =>
    have := List.find?_eq_none.mp hf t ht
    rw [(takes_iff W m g t hm hg t).mpr rfl] at this
    simp at this
  | some n =>
    have hn := (takes_iff W m g t hm hg n).mp (List.find?_some hf)
    subst hn
    rfl

/-- a value that the schema types at its position -/
def WellTyped (W : World cfg objs) (order : List String) (e : Pos × GoT) : Prop :=
  ∃ t, W.typeOf e.2 = some t ∧
    (match e.1 with
     | .obj t' => t' = t
     | .union ms => t ∈ ms
     | .iface => t ∈ order)

/-- the outcome the property prescribes: resolved as the value's own object type -/
def expected (W : World cfg objs) (e : Pos × GoT) : Out :=
  match W.typeOf e.2 with
  | some t => .asType t
  | none => .unbound

theorem step_own (W : World cfg objs) (hU : cfg.unionFirstCome = false) (hI : cfg.ifaceNeedsBound = false)
    (order : List String) (m : Meta) (e : Pos × GoT) (hm : Truthful W m) (hw : WellTyped W order e) :
    (step cfg objs order m e.1 e.2).2 = expected W e ∧ Truthful W (step cfg objs order m e.1 e.2).1 := by
  obtain ⟨t, hg, hp⟩ := hw
  obtain ⟨p, g⟩ := e
  simp only at hg hp
  simp only [expected, hg]
  cases p with
  | obj t' =>
    simp only at hp
    subst hp
    exact ⟨rfl, truthful_set W m t' g hm hg⟩
  | union ms =>
    simp only at hp
    simp only [step, hU, Bool.false_eq_true, if_false]
    rw [unionLoopAll_own W g t hg ms m none hm hp]
    exact ⟨rfl, truthful_set W m t g hm hg⟩
  | iface =>
    simp only at hp
    simp only [step, hI, Bool.false_eq_true, if_false]
    rw [getReflectTypeLazy_own W m order g t hm hg hp]
    exact ⟨rfl, truthful_set W m t g hm hg⟩

/-- **C08_history_free.**  Repaired binding, any world in which by-name discovery is sound, any truthful
starting state (the cold root `[]` is one), any number of well-typed values at object, union and interface
positions in any order: every value is resolved as its own object type. -/
theorem C08_history_free (W : World cfg objs) (hU : cfg.unionFirstCome = false) (hI : cfg.ifaceNeedsBound = false)
    (order : List String) :
    ∀ (events : List (Pos × GoT)) (m : Meta), Truthful W m → (∀ e ∈ events, WellTyped W order e) →
      run cfg objs order m events = events.map (expected W) := by
  intro events
  induction events with
  | nil => intro m _ _; rfl
  | cons e rest ih =>
    intro m hm hw
    obtain ⟨p, g⟩ := e
    have hs := step_own W hU hI order m (p, g) hm (hw (p, g) (by simp))
    simp only [run, List.map_cons]
    rw [hs.1, ih _ hs.2 (fun e he => hw e (by simp [he]))]

theorem truthful_cold (W : World cfg objs) : Truthful W [] := by
  intro n b h; simp [Meta.get] at h

/-- **C08_order_free.**  … hence what a value resolves to on a cold root is the same whatever other values
came before it: the outcome of the last event of any history is the outcome it has alone. -/
theorem C08_order_free (W : World cfg objs) (hU : cfg.unionFirstCome = false) (hI : cfg.ifaceNeedsBound = false)
    (order : List String) (before : List (Pos × GoT)) (e : Pos × GoT)
    (hb : ∀ x ∈ before, WellTyped W order x) (he : WellTyped W order e) :
    (run cfg objs order [] (before ++ [e])).getLast? = (run cfg objs order [] [e]).getLast? := by
  rw [C08_history_free W hU hI order (before ++ [e]) [] (truthful_cold W)
        (fun x hx => by rcases List.mem_append.mp hx with h | h; exact hb x h; simp at h; subst h; exact he),
      C08_history_free W hU hI order [e] [] (truthful_cold W) (fun x hx => by simp at hx; subst hx; exact he)]
  simp

/-- non-vacuity: the Dog / Cat schema of the witnesses, with the repaired configuration, is such a world; on the
cold root the D51 and D47 witnesses now resolve -/
def repaired : Cfg := { unionFirstCome := false, ifaceNeedsBound := false }

def exWorld : World repaired exObjs where
  typeOf g := if g = goDog then some "Dog" else if g = goCat then some "Cat" else none
  discoverable := by
    intro g t h
    by_cases h1 : g = goDog
    · subst h1; simp at h; subst h; exact ⟨⟨"Dog", none⟩, by simp [exObjs], rfl, by decide⟩
    · by_cases h2 : g = goCat
      · subst h2; simp [h1] at h; subst h; exact ⟨⟨"Cat", none⟩, by simp [exObjs], rfl, by decide⟩
      · simp [h1, h2] at h
  truthful := by
    intro o ho g hs hb
    by_cases h1 : g = goDog
    · subst h1
      simp [exObjs] at ho
      rcases ho with rfl | rfl
      · simp
      · exact absurd hb (by decide)
    · by_cases h2 : g = goCat
      · subst h2
        simp [exObjs] at ho
        rcases ho with rfl | rfl
        · exact absurd hb (by decide)
        · simp [h1]
      · simp [h1, h2] at hs
  oneGoType := by
    intro g g' t h h'
    have key : ∀ x : GoT, (if x = goDog then some "Dog" else if x = goCat then some "Cat" else none) = some t →
        (x = goDog ∧ t = "Dog") ∨ (x = goCat ∧ t = "Cat") := by
      intro x hx
      by_cases h1 : x = goDog
      · rw [if_pos h1] at hx; exact Or.inl ⟨h1, (Option.some.inj hx).symm⟩
      · rw [if_neg h1] at hx
        by_cases h2 : x = goCat
        · rw [if_pos h2] at hx; exact Or.inr ⟨h2, (Option.some.inj hx).symm⟩
        · rw [if_neg h2] at hx; cases hx
    rcases key g h with ⟨rfl, ht⟩ | ⟨rfl, ht⟩ <;> rcases key g' h' with ⟨rfl, ht'⟩ | ⟨rfl, ht'⟩
    · rfl
    · rw [ht] at ht'; exact absurd ht' (by decide)
    · rw [ht] at ht'; exact absurd ht' (by decide)
    · rfl
  uniqueNames := by
    intro o ho o' ho' hn
    simp [exObjs] at ho ho'
    rcases ho with rfl | rfl <;> rcases ho' with rfl | rfl <;> simp_all

example : run repaired exObjs ["Cat", "Dog"] [] [(.union ["Dog", "Cat"], goCat), (.iface, goDog)] = [.asType "Cat", .asType "Dog"] :=
  C08_history_free exWorld rfl rfl ["Cat", "Dog"] _ [] (truthful_cold exWorld) (by
    intro e he
    simp at he
    rcases he with rfl | rfl
    · exact ⟨"Cat", by decide, by simp⟩
    · exact ⟨"Dog", by decide, by simp⟩)

/-- the binding configuration read from `resolve` (`*Union` arm) and `getReflectType` on this run -/
def genBindCfg : Cfg := { unionFirstCome := Gen.unionFirstCome, ifaceNeedsBound := Gen.ifaceNeedsBound }

/-- **C08_history_free_current.**  `C08_history_free` for the source as it is on this run (D47, D51 repaired). -/
theorem C08_history_free_current {objs : List ObjT} (W : World genBindCfg objs) (order : List String)
    (events : List (Pos × GoT)) (m : Meta) (hm : Truthful W m) (hw : ∀ e ∈ events, WellTyped W order e) :
    run genBindCfg objs order m events = events.map (expected W) :=
  C08_history_free W (by decide) (by decide) order events m hm hw

end Ggql.C08
