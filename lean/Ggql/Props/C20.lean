/-
C20 — the subscription registry under concurrent publish / subscribe / unsubscribe.

Theorems over *arbitrary* interleavings of the four critical sections (any number of threads, any
length).  The atomicity of the blocks is the lock-discipline fact proved in `Props/Locks.lean` over
the regenerated lock table; the Go memory model and scheduler are not modelled.
-/
import Ggql.Model.RegistryConc
import Ggql.Props.C19
namespace Ggql.Registry

theorem reap_general (reg failed acc : List Sub) (hn : reg.Nodup) (hfn : failed.Nodup) :
    failed.foldl (fun (a : List Sub × List Sub) f =>
      (a.1.filter (fun s => !(s == f)), a.2 ++ (a.1.filter (fun s => s == f)).reverse)) (reg, acc)
      = (reg.filter (fun s => !failed.contains s), acc ++ failed.filter (fun s => reg.contains s)) := by
  induction failed generalizing reg acc with
  | nil =>
    simp only [List.foldl_nil, List.contains_nil, Bool.not_false, List.filter_nil, List.append_nil, Prod.mk.injEq, and_true]
    exact (List.filter_eq_self.mpr (fun _ _ => rfl)).symm
  | cons f fs ih =>
    rw [List.nodup_cons] at hfn
    simp only [List.foldl_cons]
    by_cases hf : f ∈ reg
    · rw [filter_beq_of_nodup reg f hn hf]
      have hn' : (reg.filter (fun s => !(s == f))).Nodup := hn.filter _
      rw [ih _ _ hn' hfn.2]
      have hc : reg.contains f = true := by simpa using hf
      simp only [List.filter_filter, List.reverse_cons, List.reverse_nil, List.nil_append, List.filter_cons, hc,
        if_true, List.append_assoc, List.singleton_append, Prod.mk.injEq]
      constructor
      · apply List.filter_congr; intro s _
        simp only [List.contains_cons, Bool.not_or, Bool.and_comm]
      · congr 2
        apply List.filter_congr; intro g hg
        have : g ≠ f := fun h => hfn.1 (h ▸ hg)
        simp [List.contains_eq_mem, List.mem_filter, this]
    · have h0 : reg.filter (fun s => s == f) = [] := by
        simp only [List.filter_eq_nil_iff, beq_iff_eq]; intro a ha hax; subst hax; exact hf ha
      have h1 : reg.filter (fun s => !(s == f)) = reg := by
        apply List.filter_eq_self.mpr; intro a ha
        have : a ≠ f := fun h => hf (h ▸ ha)
        simpa using this
      rw [h0, h1, ih _ _ hn hfn.2]
      have hc : reg.contains f = false := by simpa using hf
      simp only [List.reverse_nil, List.append_nil, List.filter_cons, hc, Bool.false_eq_true, if_false, Prod.mk.injEq, and_true]
      apply List.filter_congr; intro s hs
      have : s ≠ f := fun h => hf (h ▸ hs)
      simp [List.contains_cons, this]

theorem reap_general_eq (reg failed : List Sub) (hn : reg.Nodup) (hfn : failed.Nodup) :
    reap reg failed = (reg.filter (fun s => !failed.contains s), failed.filter (fun s => reg.contains s)) := by
  have := reap_general reg failed [] hn hfn
  simp only [List.nil_append] at this
  unfold reap
  rw [← this]
  congr 1
  funext a f
  simp only [scanRev_full]

theorem nodup_map_id_of_sublist {reg l : List Sub} (hnd : (reg.map (·.id)).Nodup) (_hr : reg.Nodup) (hl : l.Nodup)
    (hsub : ∀ s ∈ l, s ∈ reg) : (l.map (·.id)).Nodup := by
  induction l with
  | nil => simp
  | cons x xs ih =>
    rw [List.nodup_cons] at hl
    simp only [List.map_cons, List.nodup_cons, List.mem_map, not_exists, not_and]
    refine ⟨?_, ih hl.2 (fun s hs => hsub s (List.mem_cons_of_mem _ hs))⟩
    intro y hy hid
    have : y = x := id_inj_of_nodup hnd (hsub y (List.mem_cons_of_mem _ hy)) (hsub x (List.mem_cons_self ..)) hid
    subst this; exact hl.1 hy

/-- invariant of every reachable concurrent state -/
def CInv (c : CState) : Prop := Inv c.st ∧ ∀ p ∈ c.pending, p.2.Nodup

theorem cinv_init : CInv cinit := ⟨inv_init, by simp [cinit]⟩

theorem find_mem {α} (l : List α) (p : α → Bool) (x : α) (h : l.find? p = some x) : x ∈ l :=
  List.mem_of_find?_eq_some h

/-- what a block does, in specification form -/
theorem cstep_spec (c : CState) (b : Block) (h : CInv c) :
    CInv (cstep c b).1 ∧
    (∀ x ∈ (cstep c b).2.delivered ++ (cstep c b).2.cleaned, x ∈ ids c.st.reg) ∧
    (cstep c b).2.delivered.Nodup ∧ (cstep c b).2.cleaned.Nodup ∧
    (∀ x ∈ (cstep c b).2.cleaned, x ∉ ids (cstep c b).1.st.reg) ∧
    (∀ s ∈ c.st.reg, s ∈ (cstep c b).1.st.reg ∨ s.id ∈ (cstep c b).2.cleaned) ∧
    (∀ s ∈ (cstep c b).1.st.reg, s ∈ c.st.reg ∨ c.st.next ≤ s.id) ∧
    c.st.next ≤ (cstep c b).1.st.next := by
  obtain ⟨hinv, hpend⟩ := h
  have hnd := hinv.1
  have hsubnd : c.st.reg.Nodup := nodup_of_ids_nodup _ hnd
  cases b with
  | sub p =>
    have hs := step_refines c.st (.subscribe p) hinv
    simp only [cstep]
    refine ⟨⟨hs.2, hpend⟩, by simp, by simp, by simp, by simp, ?_, ?_, by simp [subscribe]⟩
    · intro s hs; left; simp [subscribe, hs]
    · intro s hs; simp only [subscribe, List.mem_append, List.mem_singleton] at hs
      rcases hs with h | h
      · left; exact h
      · right; subst h; simp
  | unsub ev =>
    have hs := step_refines c.st (.unsubscribe ev) hinv
    have heq : unsubscribe c.st ev = Spec.unsubscribe c.st ev := hs.1
    simp only [cstep, heq]
    refine ⟨⟨by simpa [step, heq] using hs.2, hpend⟩, ?_, by simp [Spec.unsubscribe], ?_, ?_, ?_, ?_, by simp [Spec.unsubscribe]⟩
    · intro x hx
      simp only [Spec.unsubscribe, List.nil_append, List.mem_map, List.mem_reverse, List.mem_filter] at hx
      obtain ⟨s, ⟨hs, _⟩, rfl⟩ := hx
      exact List.mem_map.mpr ⟨s, hs, rfl⟩
    · simp only [Spec.unsubscribe, List.map_reverse]
      exact (List.reverse_perm _).symm.nodup (hnd.sublist ((List.filter_sublist).map _))
    · intro x hx
      exact (step_cleaned_gone c.st (.unsubscribe ev) hinv x hx).2.1
    · intro s hs
      by_cases hm : s.pat.matches ev = true
      · right; simp only [Spec.unsubscribe, List.mem_map, List.mem_reverse, List.mem_filter]
        exact ⟨s, ⟨hs, hm⟩, rfl⟩
      · left; simp only [Spec.unsubscribe, List.mem_filter]; exact ⟨hs, by simpa using hm⟩
    · intro s hs; left; simp only [Spec.unsubscribe, List.mem_filter] at hs; exact hs.1
  | deliver k ev fails =>
    simp only [cstep, deliver]
    refine ⟨⟨hinv, ?_⟩, ?_, ?_, by simp, by simp, fun s hs => Or.inl hs, fun s hs => Or.inl hs, Nat.le_refl _⟩
    · intro p hp
      simp only [List.mem_cons] at hp
      rcases hp with rfl | hp
      · exact (hsubnd.filter _).filter _
      · exact hpend p hp
    · intro x hx
      simp only [List.append_nil, List.mem_map, List.mem_filter] at hx
      obtain ⟨s, ⟨hs, _⟩, rfl⟩ := hx
      exact List.mem_map.mpr ⟨s, hs, rfl⟩
    · exact hnd.sublist ((List.filter_sublist).map _)
  | reap k =>
    simp only [cstep]
    cases hfind : c.pending.find? (fun p => p.1 == k) with
    | none =>
      simp only
      exact ⟨⟨hinv, hpend⟩, by simp, by simp, by simp, by simp, fun s hs => Or.inl hs, fun s hs => Or.inl hs, Nat.le_refl _⟩
    | some pf =>
      obtain ⟨k', failed⟩ := pf
      have hfn : failed.Nodup := hpend _ (find_mem _ _ _ hfind)
      simp only [reap_general_eq c.st.reg failed hsubnd hfn]
      refine ⟨⟨⟨hnd.sublist ((List.filter_sublist).map _), fun s hs => hinv.2 s (List.mem_filter.mp hs).1⟩, ?_⟩,
        ?_, by simp, ?_, ?_, ?_, ?_, Nat.le_refl _⟩
      · intro p hp; exact hpend p (List.mem_filter.mp hp).1
      · intro x hx
        simp only [List.nil_append, List.mem_map, List.mem_filter, List.contains_eq_mem, decide_eq_true_eq] at hx
        obtain ⟨s, ⟨_, hs⟩, rfl⟩ := hx
        exact List.mem_map.mpr ⟨s, hs, rfl⟩
      · exact (nodup_map_id_of_sublist hnd hsubnd (hfn.filter _) (by
          intro s hs; simpa using (List.mem_filter.mp hs).2))
      · intro x hx
        simp only [List.mem_map, List.mem_filter, List.contains_eq_mem, decide_eq_true_eq] at hx
        obtain ⟨s, ⟨hsf, hsr⟩, rfl⟩ := hx
        simp only [ids, List.mem_map, List.mem_filter, not_exists, not_and]
        intro t ⟨ht, htn⟩ hid
        have : t = s := id_inj_of_nodup hnd ht hsr hid
        subst this
        simp [hsf] at htn
      · intro s hs
        by_cases hf : s ∈ failed
        · right; simp only [List.mem_map, List.mem_filter, List.contains_eq_mem, decide_eq_true_eq]
          exact ⟨s, ⟨hf, hs⟩, rfl⟩
        · left; simp only [List.mem_filter, List.contains_eq_mem, Bool.not_eq_true', decide_eq_false_iff_not]
          exact ⟨hs, hf⟩
      · intro s hs; left; exact (List.mem_filter.mp hs).1


/-- **C20_inv.**  The registry invariant (distinct identities, all below the counter; every pending
`failed` slice duplicate-free) holds after every interleaving of blocks. -/
theorem C20_inv (c : CState) (bs : List Block) (h : CInv c) : CInv (crun c bs).1 := by
  induction bs generalizing c with
  | nil => exact h
  | cons b bs ih => simp only [crun]; exact ih _ (cstep_spec c b h).1

theorem crun_ids (c : CState) (bs : List Block) (h : CInv c) :
    ∀ o ∈ (crun c bs).2, ∀ x ∈ o.delivered ++ o.cleaned, x ∈ ids c.st.reg ∨ c.st.next ≤ x := by
  induction bs generalizing c with
  | nil => simp [crun]
  | cons b bs ih =>
    obtain ⟨hinv', hin, _, _, _, _, hnew, hnext⟩ := cstep_spec c b h
    intro o ho x hx
    simp only [crun, List.mem_cons] at ho
    rcases ho with rfl | ho
    · left; exact hin x hx
    · rcases ih _ hinv' o ho x hx with h1 | h1
      · simp only [ids, List.mem_map] at h1
        obtain ⟨s, hs, rfl⟩ := h1
        rcases hnew s hs with h2 | h2
        · left; exact List.mem_map.mpr ⟨s, h2, rfl⟩
        · right; exact h2
      · right; omega

/-- **C20_quiet_after_cleanup.**  In every interleaving: once a subscriber's clean-up has run — in an
unsubscribe block or in the reap block of some publish — no later block delivers to it and no later
block cleans it again.  In particular a subscriber's clean-up runs at most once even when two
publishers fail on it or an unsubscribe races the reap phase, and nothing is delivered to a subscriber
by a deliver block that starts after the unsubscribe block that removed it. -/
theorem C20_quiet_after_cleanup (c : CState) (bs : List Block) (h : CInv c) :
    QuietAfterCleanup (crun c bs).2 := by
  induction bs generalizing c with
  | nil => simp [crun, QuietAfterCleanup]
  | cons b bs ih =>
    obtain ⟨hinv', hin, _, _, hgone, _, _, hnext⟩ := cstep_spec c b h
    simp only [crun, QuietAfterCleanup]
    refine ⟨?_, ih _ hinv'⟩
    intro x hx o' ho'
    have hlt : x < c.st.next := by
      have := hin x (List.mem_append_right _ hx)
      simp only [ids, List.mem_map] at this
      obtain ⟨s, hs, rfl⟩ := this
      exact h.1.2 s hs
    have key := crun_ids _ bs hinv' o' ho' x
    constructor
    · intro hd
      rcases key (List.mem_append_left _ hd) with h1 | h1
      · exact hgone x hx h1
      · omega
    · intro hd
      rcases key (List.mem_append_right _ hd) with h1 | h1
      · exact hgone x hx h1
      · omega

/-- **C20_block_once.**  Within one publish (its deliver block) no subscriber is sent to twice; within
one block no subscriber is cleaned twice. -/
theorem C20_block_once (c : CState) (bs : List Block) (h : CInv c) :
    ∀ o ∈ (crun c bs).2, o.delivered.Nodup ∧ o.cleaned.Nodup := by
  induction bs generalizing c with
  | nil => simp [crun]
  | cons b bs ih =>
    obtain ⟨hinv', _, hd, hc, _⟩ := cstep_spec c b h
    intro o ho
    simp only [crun, List.mem_cons] at ho
    rcases ho with rfl | ho
    · exact ⟨hd, hc⟩
    · exact ih _ hinv' o ho

theorem nodup_flat_of_quiet (outs : List Out) (hq : QuietAfterCleanup outs) (hb : ∀ o ∈ outs, o.cleaned.Nodup) :
    (outs.flatMap (·.cleaned)).Nodup := by
  induction outs with
  | nil => simp
  | cons o rest ih =>
    simp only [QuietAfterCleanup] at hq
    simp only [List.flatMap_cons, List.nodup_append]
    refine ⟨hb o (List.mem_cons_self ..), ih hq.2 (fun o' ho' => hb o' (List.mem_cons_of_mem _ ho')), ?_⟩
    intro a ha b hb' hab
    subst hab
    simp only [List.mem_flatMap] at hb'
    obtain ⟨o', ho', hin⟩ := hb'
    exact (hq.1 a ha o' ho').2 hin

/-- **C20_cleanup_at_most_once.**  Over a whole concurrent execution every subscriber's clean-up is
called at most once. -/
theorem C20_cleanup_at_most_once (c : CState) (bs : List Block) (h : CInv c) :
    ((crun c bs).2.flatMap (·.cleaned)).Nodup :=
  nodup_flat_of_quiet _ (C20_quiet_after_cleanup c bs h) (fun o ho => (C20_block_once c bs h o ho).2)

/-- a registered subscriber stays registered through any interleaving unless its clean-up ran -/
theorem C20_stays_or_cleaned (c : CState) (bs : List Block) (h : CInv c) (s : Sub) (hs : s ∈ c.st.reg) :
    s ∈ (crun c bs).1.st.reg ∨ s.id ∈ (crun c bs).2.flatMap (·.cleaned) := by
  induction bs generalizing c with
  | nil => left; exact hs
  | cons b bs ih =>
    obtain ⟨hinv', _, _, _, _, hstay, _, _⟩ := cstep_spec c b h
    simp only [crun, List.flatMap_cons, List.mem_append]
    rcases hstay s hs with h1 | h1
    · rcases ih _ hinv' h1 with h2 | h2
      · left; exact h2
      · right; right; exact h2
    · right; left; exact h1

/-- **C20_sub_visible.**  A deliver block that starts after a subscribe block returned reaches that
subscriber (when it matches the event id), whatever ran in between — unless the subscriber's clean-up
ran in between. -/
theorem C20_sub_visible (c : CState) (p : Pat) (bs : List Block) (k : Nat) (ev : String) (fails : List Nat)
    (h : CInv c) (hm : p.matches ev = true) :
    let c1 := (cstep c (.sub p)).1
    let r := crun c1 bs
    c.st.next ∈ (cstep r.1 (.deliver k ev fails)).2.delivered ∨ c.st.next ∈ r.2.flatMap (·.cleaned) := by
  intro c1 r
  have h1 : CInv c1 := (cstep_spec c (.sub p) h).1
  have hs : (⟨c.st.next, p⟩ : Sub) ∈ c1.st.reg := by simp [c1, cstep, subscribe]
  rcases C20_stays_or_cleaned c1 bs h1 _ hs with h2 | h2
  · left
    simp only [cstep, deliver, List.mem_map, List.mem_filter]
    exact ⟨⟨c.st.next, p⟩, ⟨h2, hm⟩, rfl⟩
  · right; exact h2

/-- A publish is *not* linearizable as one atomic operation, and the model says so: deliver fails on
`s`; `Unsubscribe` removes and cleans `s` and returns 1; the reap phase then finds nothing.  No
sequential order of an atomic publish and the unsubscribe yields "send attempted on `s`" together
with "unsubscribe removed `s`".  (The harness must not mistake this for a violation.) -/
theorem C20_publish_not_atomic :
    (crun cinit [.sub .any, .deliver 0 "e" [0], .unsub "e", .reap 0]).2.map
      (fun o => (o.delivered, o.cleaned, o.count)) = [([], [], 0), ([0], [], 1), ([], [0], 1), ([], [], 0)] := by
  decide

/-- two publishers failing on the same subscriber clean it once (non-vacuity of the invariants on a
racing schedule) -/
example :
    (crun cinit [.sub .any, .deliver 0 "e" [0], .deliver 1 "e" [0], .reap 0, .reap 1]).2.map (·.cleaned) =
      [[], [], [], [0], []] := by decide

end Ggql.Registry
