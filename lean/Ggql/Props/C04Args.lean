/-
C04 — the composite layer: what `CoerceIn` of every input type (scalars through the regenerated tables,
enums, lists, non-null, input objects with defaults and required fields) hands on *conforms to the
declared type*, for every type expression, every supplied value and every nesting depth.

`conforms` is the property's notion of conformance, written independently of the coercers: a scalar leaf
of the declared kind (Int within 32 bits, Float finite), an enum member, lists element-wise, input objects
with only declared fields, required fields present and every present field conforming, non-null positions
never null.  `C04_coerceInT_conforms`: whenever `coerceInT` returns without error, the value it returns
conforms.
-/
import Ggql.Spec.ArgsSpec
import Ggql.Props.C04
namespace Ggql.Args
open Ggql.Coerce

variable {F : Type}

/-- the value conforms at some depth -/
def Conforms (ext : Ext F) (inputs : List (InputDef F)) (t : InT) (v : Val F) : Prop :=
  ∃ m, conforms ext inputs m t v = true

/-- values whose Go leaves are well-formed (integers within their kind's range) -/
inductive ValWF : Val F → Prop
  | go (g : GoVal F) : g.wf = true → ValWF (.go g)
  | var (n : String) : ValWF (.var n)
  | list (xs : List (Val F)) : (∀ x ∈ xs, ValWF x) → ValWF (.list xs)
  | obj (kvs : List (String × Val F)) : (∀ p ∈ kvs, ValWF p.2) → ValWF (.obj kvs)

theorem conforms_mono (ext : Ext F) (inputs : List (InputDef F)) :
    ∀ (n : Nat) (t : InT) (v : Val F), conforms ext inputs n t v = true → conforms ext inputs (n + 1) t v = true := by
  intro n
  induction n with
  | zero => intro t v h; simp [conforms] at h
  | succ n ih =>
    intro t v h
    cases t with
    | scalar s => simpa [conforms] using h
    | enum vals => simpa [conforms] using h
    | nonNull b =>
      simp only [conforms, Bool.and_eq_true] at h ⊢
      exact ⟨h.1, ih b v h.2⟩
    | list b =>
      cases v with
      | list xs =>
        simp only [conforms, List.all_eq_true] at h ⊢
        exact fun x hx => ih b x (h x hx)
      | go g => cases g <;> simp_all [conforms]
      | var _ => simp [conforms] at h
      | obj _ => simp [conforms] at h
    | input name =>
      cases v with
      | obj kvs =>
        simp only [conforms] at h ⊢
        cases hf : inputs.find? (fun d => d.name == name) with
        | none => simp [hf] at h
        | some d =>
          simp only [hf, Bool.and_eq_true, List.all_eq_true] at h ⊢
          refine ⟨h.1, fun f hfm => ?_⟩
          have := h.2 f hfm
          cases hl : lookup kvs f.name with
          | none => simpa [hl] using this
          | some fv => simp only [hl] at this ⊢; exact ih f.type fv this
      | go g => cases g <;> simp_all [conforms]
      | var _ => simp [conforms] at h
      | list _ => simp [conforms] at h

theorem conforms_le (ext : Ext F) (inputs : List (InputDef F)) (n m : Nat) (h : n ≤ m) (t : InT) (v : Val F)
    (hc : conforms ext inputs n t v = true) : conforms ext inputs m t v = true := by
  induction h with
  | refl => exact hc
  | step _ ih => exact conforms_mono ext inputs _ t v ih

/-- finitely many values that each conform at some depth conform at a common depth -/
theorem common_depth (ext : Ext F) (inputs : List (InputDef F)) (t : InT) (xs : List (Val F))
    (h : ∀ x ∈ xs, Conforms ext inputs t x) : ∃ m, ∀ x ∈ xs, conforms ext inputs m t x = true := by
  induction xs with
  | nil => exact ⟨0, by simp⟩
  | cons x xs ih =>
    obtain ⟨m1, h1⟩ := h x (List.mem_cons_self ..)
    obtain ⟨m2, h2⟩ := ih (fun y hy => h y (List.mem_cons_of_mem _ hy))
    refine ⟨max m1 m2, fun y hy => ?_⟩
    rcases List.mem_cons.mp hy with rfl | hy
    · exact conforms_le ext inputs m1 _ (Nat.le_max_left ..) t _ h1
    · exact conforms_le ext inputs m2 _ (Nat.le_max_right ..) t y (h2 y hy)

/-! ### association lists -/

theorem lookup_cons {α} (p : String × α) (rest : List (String × α)) (k : String) :
    lookup (p :: rest) k = if (p.1 == k) = true then some p.2 else lookup rest k := by
  simp only [lookup, List.find?]
  cases (p.1 == k) <;> simp

theorem lookup_mapRepl_eq {α} (kvs : List (String × α)) (k : String) (v : α) :
    lookup (kvs.map (fun p => if p.1 == k then (k, v) else p)) k = (lookup kvs k).map (fun _ => v) := by
  induction kvs with
  | nil => rfl
  | cons p rest ih =>
    rw [List.map_cons, lookup_cons, lookup_cons, ih]
    by_cases hp : (p.1 == k) = true
    · simp [hp]
    · simp [hp]

theorem lookup_mapRepl_ne {α} (kvs : List (String × α)) (k k' : String) (v : α) (hne : (k == k') = false) :
    lookup (kvs.map (fun p => if p.1 == k then (k, v) else p)) k' = lookup kvs k' := by
  induction kvs with
  | nil => rfl
  | cons p rest ih =>
    rw [List.map_cons, lookup_cons, lookup_cons, ih]
    by_cases hp : (p.1 == k) = true
    · have hpk : p.1 = k := by simpa using hp
      have : (p.1 == k') = false := by rw [hpk]; exact hne
      simp [hp, hne, this]
    · simp [hp]

theorem lookup_append_single {α} (kvs : List (String × α)) (k k' : String) (v : α) :
    lookup (kvs ++ [(k, v)]) k' = match lookup kvs k' with
      | some x => some x
      | none => if (k == k') = true then some v else none := by
  induction kvs with
  | nil => simp [lookup, List.find?]
  | cons p rest ih =>
    rw [List.cons_append, lookup_cons, lookup_cons, ih]
    by_cases hp : (p.1 == k') = true <;> simp [hp]

theorem lookup_none_of_not_any {α} (kvs : List (String × α)) (k : String)
    (h : kvs.any (fun p => p.1 == k) = false) : lookup kvs k = none := by
  induction kvs with
  | nil => rfl
  | cons p rest ih =>
    simp only [List.any_cons, Bool.or_eq_false_iff] at h
    rw [lookup_cons]; simp [h.1, ih h.2]

theorem lookup_some_of_any {α} (kvs : List (String × α)) (k : String)
    (h : kvs.any (fun p => p.1 == k) = true) : ∃ x, lookup kvs k = some x := by
  induction kvs with
  | nil => simp at h
  | cons p rest ih =>
    rw [lookup_cons]
    by_cases hp : (p.1 == k) = true
    · exact ⟨p.2, by simp [hp]⟩
    · simp only [List.any_cons, hp, Bool.false_or] at h
      obtain ⟨x, hx⟩ := ih h
      exact ⟨x, by simp [hp, hx]⟩

theorem lookup_setKey_eq {α} (kvs : List (String × α)) (k : String) (v : α) : lookup (setKey kvs k v) k = some v := by
  unfold setKey
  split
  · rename_i h
    obtain ⟨x, hx⟩ := lookup_some_of_any kvs k h
    rw [lookup_mapRepl_eq, hx]; rfl
  · rename_i h
    have h' : kvs.any (fun p => p.1 == k) = false := by
      cases hh : kvs.any (fun p => p.1 == k) with
      | false => rfl
      | true => exact absurd hh h
    rw [lookup_append_single, lookup_none_of_not_any kvs k h']; simp

theorem lookup_setKey_ne {α} (kvs : List (String × α)) (k k' : String) (v : α) (hne : (k == k') = false) :
    lookup (setKey kvs k v) k' = lookup kvs k' := by
  unfold setKey
  split
  · exact lookup_mapRepl_ne kvs k k' v hne
  · rw [lookup_append_single]
    cases lookup kvs k' <;> simp [hne]

theorem keys_setKey {α} (kvs : List (String × α)) (k : String) (v : α) :
    ∀ p ∈ setKey kvs k v, p.1 = k ∨ ∃ q ∈ kvs, q.1 = p.1 := by
  intro p hp
  unfold setKey at hp
  split at hp
  · simp only [List.mem_map] at hp
    obtain ⟨q, hq, rfl⟩ := hp
    by_cases hqk : (q.1 == k) = true
    · left; simp [hqk]
    · right; exact ⟨q, hq, by simp [hqk]⟩
  · simp only [List.mem_append, List.mem_singleton] at hp
    rcases hp with hp | rfl
    · right; exact ⟨p, hp, rfl⟩
    · left; rfl

/-! ### leaves -/

theorem leafOk_of_checkIn (ext : Ext F) (s : Scalar) (g r : GoVal F) (h : checkIn ext s g (r, false) = true) :
    leafOk ext s r = true := by
  cases r with
  | nil => simp [leafOk]
  | int k n => cases s <;> simp_all [checkIn, leafOk]
  | flt k x => cases s <;> simp_all [checkIn, leafOk]
  | str t => cases s <;> simp_all [checkIn, leafOk]
  | bool b => cases s <;> simp_all [checkIn, leafOk]
  | sym t => cases s <;> simp_all [checkIn, leafOk]
  | time t => cases s <;> simp_all [checkIn, leafOk]
  | other t => cases s <;> simp_all [checkIn, leafOk]

theorem kind_nil_wf (g : GoVal F) (hk : g.kind = .nil) (hw : g.wf = true) : g = .nil := by
  cases g with
  | nil => rfl
  | int k n => simp only [GoVal.kind] at hk; subst hk; simp [GoVal.wf, kindRange] at hw
  | flt k x => simp only [GoVal.kind] at hk; subst hk; simp [GoVal.wf, Kind.isFloat] at hw
  | _ => simp [GoVal.kind] at hk

theorem nil_of_checkIn (ext : Ext F) (s : Scalar) (g : GoVal F) (hw : g.wf = true)
    (h : checkIn ext s g (.nil, false) = true) : g = .nil := by
  simp only [checkIn, Bool.false_eq_true, if_false, beq_iff_eq] at h
  exact kind_nil_wf g h hw

/-! ### the field loop of `Input.CoerceIn` -/

theorem conforms_nil (ext : Ext F) (inputs : List (InputDef F)) (t : InT) (h : t.nullable = true) :
    Conforms ext inputs t (.go .nil) := by
  refine ⟨1, ?_⟩
  cases t <;> simp_all [conforms, InT.nullable, leafOk]

theorem isNil_eq (v : Val F) (h : v.isNil = true) : v = .go .nil := by
  cases v with
  | go g => cases g <;> simp_all [Val.isNil]
  | _ => simp [Val.isNil] at h

theorem fold_err (co : InT → Val F → Val F × Bool) (fs : List (InField F)) (acc : List (String × Val F) × Bool)
    (h : acc.2 = true) : (fs.foldl (inputStep nd co) acc).2 = true := by
  induction fs generalizing acc with
  | nil => exact h
  | cons f fs ih => exact ih _ (by simp [inputStep, h])

/-- what holds of the accumulator after the fields `done` have been processed -/
structure FoldInv (ext : Ext F) (inputs : List (InputDef F)) (kvs : List (String × Val F)) (done : List (InField F))
    (acc : List (String × Val F)) : Prop where
  untouched : ∀ k, (∀ f ∈ done, (f.name == k) = false) → lookup acc k = lookup kvs k
  keys : ∀ p ∈ acc, (∃ f ∈ done, f.name = p.1) ∨ ∃ q ∈ kvs, q.1 = p.1
  fields : ∀ f ∈ done, match lookup acc f.name with
    | some fv => Conforms ext inputs f.type fv
    | none => f.type.nullable = true

theorem fold_inv (ext : Ext F) (inputs : List (InputDef F)) (co : InT → Val F → Val F × Bool) (kvs : List (String × Val F))
    (hco : ∀ (f : InField F) (ov r : Val F), lookup kvs f.name = some ov → co f.type ov = (r, false) → Conforms ext inputs f.type r) :
    ∀ (fs done : List (InField F)) (acc : List (String × Val F) × Bool),
      ((done ++ fs).map (·.name)).Nodup → (∀ f ∈ fs, ∀ dv, f.dflt = some dv → Conforms ext inputs f.type dv) →
      FoldInv ext inputs kvs done acc.1 → acc.2 = false →
      (fs.foldl (inputStep nd co) acc).2 = false → FoldInv ext inputs kvs (done ++ fs) (fs.foldl (inputStep nd co) acc).1 := by
  intro fs
  induction fs with
  | nil => intro done acc _ _ hinv _ _; simpa using hinv
  | cons f fs ih =>
    intro done acc hnd hd hinv hacc hres
    simp only [List.foldl_cons] at hres ⊢
    have hstep2 : (inputStep nd co acc f).2 = false := by
      cases h : (inputStep nd co acc f).2 with
      | false => rfl
      | true => rw [fold_err co fs _ h] at hres; exact absurd hres (by simp)
    -- names: f is not among the fields done
    have hnd' : ((done ++ [f]) ++ fs).map (·.name) |>.Nodup := by simpa [List.append_assoc] using hnd
    have hfresh : ∀ g ∈ done, (g.name == f.name) = false := by
      intro g hg
      have : (done ++ f :: fs).map (·.name) = done.map (·.name) ++ f.name :: fs.map (·.name) := by simp
      rw [this] at hnd
      have := (List.nodup_append.mp hnd).2.2 g.name (List.mem_map_of_mem (f := (·.name)) hg) f.name (List.mem_cons_self ..)
      simpa using this
    have hlook : lookup acc.1 f.name = lookup kvs f.name := hinv.untouched f.name hfresh
    -- the accumulator after the step satisfies the invariant for done ++ [f]
    have hnew : FoldInv ext inputs kvs (done ++ [f]) (inputStep nd co acc f).1 := by
      -- a new value `nv` set at f.name
      have hset : ∀ nv, Conforms ext inputs f.type nv → FoldInv ext inputs kvs (done ++ [f]) (setKey acc.1 f.name nv) := by
        intro nv hnv
        refine ⟨?_, ?_, ?_⟩
        · intro k hk
          have hfk : (f.name == k) = false := hk f (by simp)
          rw [lookup_setKey_ne _ _ _ _ hfk]
          exact hinv.untouched k (fun g hg => hk g (by simp [hg]))
        · intro p hp
          rcases keys_setKey acc.1 f.name nv p hp with h | ⟨q, hq, hqp⟩
          · left; exact ⟨f, by simp, h.symm⟩
          · rcases hinv.keys q hq with ⟨g, hg, hgq⟩ | ⟨q', hq', hqq⟩
            · left; exact ⟨g, by simp [hg], by rw [hgq, hqp]⟩
            · right; exact ⟨q', hq', by rw [hqq, hqp]⟩
        · intro g hg
          rcases List.mem_append.mp hg with hg | hg
          · have hgf : (f.name == g.name) = false := by
              have := hfresh g hg
              cases h : (f.name == g.name) with
              | false => rfl
              | true => have e : f.name = g.name := by simpa using h
                        rw [e] at this; simp at this
            rw [lookup_setKey_ne _ _ _ _ hgf]
            exact hinv.fields g hg
          · have : g = f := by simpa using hg
            subst this
            rw [lookup_setKey_eq]; exact hnv
      -- nothing set at f.name
      have hkeep : (match lookup acc.1 f.name with
            | some fv => Conforms ext inputs f.type fv
            | none => f.type.nullable = true) → FoldInv ext inputs kvs (done ++ [f]) acc.1 := by
        intro hf
        refine ⟨?_, ?_, ?_⟩
        · intro k hk; exact hinv.untouched k (fun g hg => hk g (by simp [hg]))
        · intro p hp
          rcases hinv.keys p hp with ⟨g, hg, hgq⟩ | h
          · left; exact ⟨g, by simp [hg], hgq⟩
          · right; exact h
        · intro g hg
          rcases List.mem_append.mp hg with hg | hg
          · exact hinv.fields g hg
          · have : g = f := by simpa using hg
            subst this; exact hf
      have hdv := hd f (List.mem_cons_self ..)
      unfold inputStep at hstep2 ⊢
      simp only [hacc, Bool.false_eq_true, if_false] at hstep2 ⊢
      cases hl : lookup acc.1 f.name with
      | none =>
        simp only [hl] at hstep2 ⊢
        cases hdf : f.dflt with
        | some dv => simp only [hdf]; exact hset dv (hdv dv hdf)
        | none =>
          simp only [hdf] at hstep2 ⊢
          cases hft : f.type with
          | nonNull b => simp [hft] at hstep2
          | scalar _ => simp only []; exact hkeep (by simp [hl, hft, InT.nullable])
          | enum _ => simp only []; exact hkeep (by simp [hl, hft, InT.nullable])
          | list _ => simp only []; exact hkeep (by simp [hl, hft, InT.nullable])
          | input _ => simp only []; exact hkeep (by simp [hl, hft, InT.nullable])
      | some ov =>
        simp only [hl] at hstep2 ⊢
        by_cases hnil : ov.isNil = true
        · simp only [hnil, if_true] at hstep2 ⊢
          cases hdf : (if nd = true then f.dflt else none) with
          | some dv =>
            simp only [hdf]
            have hfd : f.dflt = some dv := by
              cases nd with
              | true => simpa using hdf
              | false => simp at hdf
            exact hset dv (hdv dv hfd)
          | none =>
            simp only [hdf] at hstep2 ⊢
            have hov := isNil_eq ov hnil
            cases hft : f.type with
            | nonNull b => simp [hft] at hstep2
            | scalar _ => simp only []; exact hkeep (by rw [hl, hov]; exact conforms_nil ext inputs _ (by simp [hft, InT.nullable]))
            | enum _ => simp only []; exact hkeep (by rw [hl, hov]; exact conforms_nil ext inputs _ (by simp [hft, InT.nullable]))
            | list _ => simp only []; exact hkeep (by rw [hl, hov]; exact conforms_nil ext inputs _ (by simp [hft, InT.nullable]))
            | input _ => simp only []; exact hkeep (by rw [hl, hov]; exact conforms_nil ext inputs _ (by simp [hft, InT.nullable]))
        · simp only [hnil, Bool.false_eq_true, if_false] at hstep2 ⊢
          cases hc : co f.type ov with
          | mk cv e =>
            simp only [hc] at hstep2 ⊢
            cases e with
            | true => simp at hstep2
            | false =>
              simp only [Bool.false_eq_true, if_false]
              exact hset cv (hco f ov cv (by rw [← hlook, hl]) hc)
    have := ih (done ++ [f]) (inputStep nd co acc f) hnd' (fun g hg => hd g (List.mem_cons_of_mem _ hg)) hnew hstep2 hres
    simpa [List.append_assoc] using this

/-! ### `CoerceIn` of every input type -/

/-- schema facts the loader establishes: field names of an input type are distinct and every default conforms
to its field's type (defaults are coerced and replaced when the schema is validated) -/
structure InputsOk (ext : Ext F) (inputs : List (InputDef F)) : Prop where
  nodup : ∀ d ∈ inputs, (d.fields.map (·.name)).Nodup
  defaults : ∀ d ∈ inputs, ∀ f ∈ d.fields, ∀ dv, f.dflt = some dv → Conforms ext inputs f.type dv

theorem find_mem {α} (l : List α) (p : α → Bool) (a : α) (h : l.find? p = some a) : a ∈ l :=
  List.mem_of_find?_eq_some h

theorem lookup_mem {α} (kvs : List (String × α)) (k : String) (v : α) (h : lookup kvs k = some v) :
    ∃ p ∈ kvs, p.2 = v := by
  unfold lookup at h
  cases hf : kvs.find? (fun p => p.1 == k) with
  | none => simp [hf] at h
  | some p => simp [hf] at h; exact ⟨p, List.mem_of_find?_eq_some hf, h⟩

/-- a null result without error comes from a null value only -/
theorem coerceInT_nil (ext : Ext F) (tin : Scalar → Table) (inputs : List (InputDef F))
    (hleaf : ∀ s (g : GoVal F), g.wf = true → checkIn ext s g (coerce ext (tin s) g) = true) :
    ∀ (fuel : Nat) (t : InT) (v r : Val F), ValWF v → coerceInT ext tin inputs fuel t v = (r, false) →
      r.isNil = true → v.isNil = true := by
  intro fuel
  induction fuel with
  | zero => intro t v r _ h; simp [coerceInT] at h
  | succ n ih =>
    intro t v r hw h hr
    cases t with
    | scalar s =>
      cases v with
      | go g =>
        have hwg : g.wf = true := by cases hw; assumption
        simp only [coerceInT] at h
        cases hc : coerce ext (tin s) g with
        | mk r' e =>
          simp only [hc, Prod.mk.injEq] at h
          obtain ⟨rfl, rfl⟩ := h
          have hr' : r' = .nil := by cases r' <;> simp_all [Val.isNil]
          subst hr'
          have := hleaf s g hwg
          rw [hc] at this
          simp [Val.isNil, nil_of_checkIn ext s g hwg this]
      | var x =>
        simp only [coerceInT] at h
        cases hc : coerce ext (tin s) (.other "composite") with
        | mk r' e =>
          simp only [hc, Prod.mk.injEq] at h
          obtain ⟨rfl, rfl⟩ := h
          have hr' : r' = .nil := by cases r' <;> simp_all [Val.isNil]
          subst hr'
          have := hleaf s (.other "composite") (by simp [GoVal.wf])
          rw [hc] at this
          have := nil_of_checkIn ext s _ (by simp [GoVal.wf]) this
          simp at this
      | list xs =>
        simp only [coerceInT] at h
        cases hc : coerce ext (tin s) (.other "composite") with
        | mk r' e =>
          simp only [hc, Prod.mk.injEq] at h
          obtain ⟨rfl, rfl⟩ := h
          have hr' : r' = .nil := by cases r' <;> simp_all [Val.isNil]
          subst hr'
          have := hleaf s (.other "composite") (by simp [GoVal.wf])
          rw [hc] at this
          have := nil_of_checkIn ext s _ (by simp [GoVal.wf]) this
          simp at this
      | obj kvs =>
        simp only [coerceInT] at h
        cases hc : coerce ext (tin s) (.other "composite") with
        | mk r' e =>
          simp only [hc, Prod.mk.injEq] at h
          obtain ⟨rfl, rfl⟩ := h
          have hr' : r' = .nil := by cases r' <;> simp_all [Val.isNil]
          subst hr'
          have := hleaf s (.other "composite") (by simp [GoVal.wf])
          rw [hc] at this
          have := nil_of_checkIn ext s _ (by simp [GoVal.wf]) this
          simp at this
    | enum vals =>
      cases v with
      | go g =>
        cases g with
        | nil => simp [Val.isNil]
        | sym x =>
          simp only [coerceInT] at h
          split at h
          · simp only [Prod.mk.injEq] at h; obtain ⟨rfl, _⟩ := h; simp [Val.isNil] at hr
          · simp at h
        | _ => simp [coerceInT] at h
      | _ => simp [coerceInT] at h
    | nonNull b =>
      simp only [coerceInT] at h
      split at h
      · simp at h
      · exact ih b v r hw h hr
    | list b =>
      cases v with
      | go g =>
        cases g with
        | nil => simp [Val.isNil]
        | _ => simp [coerceInT] at h
      | list xs =>
        simp only [coerceInT] at h
        split at h
        · simp at h
        · simp only [Prod.mk.injEq] at h; obtain ⟨rfl, _⟩ := h; simp [Val.isNil] at hr
      | _ => simp [coerceInT] at h
    | input name =>
      cases v with
      | go g =>
        cases g with
        | nil => simp [Val.isNil]
        | _ => simp [coerceInT] at h
      | obj kvs =>
        simp only [coerceInT] at h
        split at h
        · simp at h
        · split at h
          · simp at h
          · split at h
            · simp at h
            · simp only [Prod.mk.injEq] at h; obtain ⟨rfl, _⟩ := h; simp [Val.isNil] at hr
      | _ => simp [coerceInT] at h

theorem common_depth_fields (ext : Ext F) (inputs : List (InputDef F)) (kvs : List (String × Val F)) (fs : List (InField F))
    (h : ∀ f ∈ fs, match lookup kvs f.name with
      | some fv => Conforms ext inputs f.type fv
      | none => f.type.nullable = true) :
    ∃ m, ∀ f ∈ fs, (match lookup kvs f.name with
      | some fv => conforms ext inputs m f.type fv
      | none => f.type.nullable) = true := by
  induction fs with
  | nil => exact ⟨0, by simp⟩
  | cons f fs ih =>
    obtain ⟨m2, h2⟩ := ih (fun g hg => h g (List.mem_cons_of_mem _ hg))
    have hf := h f (List.mem_cons_self ..)
    cases hl : lookup kvs f.name with
    | none =>
      rw [hl] at hf
      refine ⟨m2, fun g hg => ?_⟩
      rcases List.mem_cons.mp hg with rfl | hg
      · simpa [hl] using hf
      · exact h2 g hg
    | some fv =>
      rw [hl] at hf
      obtain ⟨m1, h1⟩ := hf
      refine ⟨max m1 m2, fun g hg => ?_⟩
      rcases List.mem_cons.mp hg with rfl | hg
      · simp only [hl]; exact conforms_le ext inputs m1 _ (Nat.le_max_left ..) _ _ h1
      · have := h2 g hg
        cases hlg : lookup kvs g.name with
        | none => simpa [hlg] using this
        | some gv => simp only [hlg] at this ⊢; exact conforms_le ext inputs m2 _ (Nat.le_max_right ..) _ _ this

/-- **C04_coerceInT_conforms.**  For every input type expression (scalars, enums, input objects, any nesting of
list and non-null), every supplied value with well-formed Go leaves and every nesting depth: when `CoerceIn`
returns without an error, what it returns conforms to the declared type. -/
theorem C04_coerceInT_conforms (ext : Ext F) (tin : Scalar → Table) (inputs : List (InputDef F))
    (hleaf : ∀ s (g : GoVal F), g.wf = true → checkIn ext s g (coerce ext (tin s) g) = true)
    (hin : InputsOk ext inputs) :
    ∀ (fuel : Nat) (t : InT) (v r : Val F), ValWF v → coerceInT ext tin inputs fuel t v = (r, false) →
      Conforms ext inputs t r := by
  intro fuel
  induction fuel with
  | zero => intro t v r _ h; simp [coerceInT] at h
  | succ n ih =>
    intro t v r hw h
    cases t with
    | scalar s =>
      -- whatever the value, the result is what the scalar's table returned for a well-formed Go value
      have key : ∀ g : GoVal F, g.wf = true → ∀ r' e, coerce ext (tin s) g = (r', e) → (Val.go r', e) = (r, false) →
          Conforms ext inputs (.scalar s) r := by
        intro g hwg r' e hc heq
        simp only [Prod.mk.injEq] at heq
        obtain ⟨rfl, rfl⟩ := heq
        have := hleaf s g hwg
        rw [hc] at this
        exact ⟨1, by simpa [conforms] using leafOk_of_checkIn ext s g r' this⟩
      cases v with
      | go g =>
        have hwg : g.wf = true := by cases hw; assumption
        simp only [coerceInT] at h
        cases hc : coerce ext (tin s) g with
        | mk r' e => rw [hc] at h; exact key g hwg r' e hc h
      | var x =>
        simp only [coerceInT] at h
        cases hc : coerce ext (tin s) (.other "composite") with
        | mk r' e => rw [hc] at h; exact key _ (by simp [GoVal.wf]) r' e hc h
      | list xs =>
        simp only [coerceInT] at h
        cases hc : coerce ext (tin s) (.other "composite") with
        | mk r' e => rw [hc] at h; exact key _ (by simp [GoVal.wf]) r' e hc h
      | obj kvs =>
        simp only [coerceInT] at h
        cases hc : coerce ext (tin s) (.other "composite") with
        | mk r' e => rw [hc] at h; exact key _ (by simp [GoVal.wf]) r' e hc h
    | enum vals =>
      cases v with
      | go g =>
        cases g with
        | nil => simp only [coerceInT, Prod.mk.injEq] at h; obtain ⟨rfl, _⟩ := h; exact ⟨1, by simp [conforms]⟩
        | sym x =>
          simp only [coerceInT] at h
          split at h
          · rename_i hx
            simp only [Prod.mk.injEq] at h; obtain ⟨rfl, _⟩ := h
            exact ⟨1, by simpa [conforms] using hx⟩
          · simp at h
        | _ => simp [coerceInT] at h
      | _ => simp [coerceInT] at h
    | nonNull b =>
      simp only [coerceInT] at h
      split at h
      · simp at h
      · rename_i hnn
        obtain ⟨m, hm⟩ := ih b v r hw h
        have hrn : r.isNil = false := by
          cases hr : r.isNil with
          | false => rfl
          | true => exact absurd (coerceInT_nil ext tin inputs hleaf n b v r hw h hr) hnn
        exact ⟨m + 1, by simp [conforms, hrn, hm]⟩
    | list b =>
      cases v with
      | go g =>
        cases g with
        | nil => simp only [coerceInT, Prod.mk.injEq] at h; obtain ⟨rfl, _⟩ := h; exact ⟨1, by simp [conforms]⟩
        | _ => simp [coerceInT] at h
      | list xs =>
        have hwx : ∀ x ∈ xs, ValWF x := by cases hw; assumption
        simp only [coerceInT] at h
        split at h
        · simp at h
        · rename_i hany
          simp only [Prod.mk.injEq] at h; obtain ⟨rfl, _⟩ := h
          have hall : ∀ y ∈ (xs.map (coerceInT ext tin inputs n b)).map (·.1), Conforms ext inputs b y := by
            intro y hy
            simp only [List.mem_map] at hy
            obtain ⟨p, ⟨x, hx, rfl⟩, rfl⟩ := hy
            have he : (coerceInT ext tin inputs n b x).2 = false := by
              cases hh : (coerceInT ext tin inputs n b x).2 with
              | false => rfl
              | true =>
                exfalso; apply hany
                simp only [List.any_eq_true, List.mem_map]
                exact ⟨_, ⟨x, hx, rfl⟩, hh⟩
            exact ih b x _ (hwx x hx) (by rw [← he])
          obtain ⟨m, hm⟩ := common_depth ext inputs b _ hall
          exact ⟨m + 1, by simpa [conforms, List.all_eq_true] using hm⟩
      | _ => simp [coerceInT] at h
    | input name =>
      cases v with
      | go g =>
        cases g with
        | nil => simp only [coerceInT, Prod.mk.injEq] at h; obtain ⟨rfl, _⟩ := h; exact ⟨1, by simp [conforms]⟩
        | _ => simp [coerceInT] at h
      | obj kvs =>
        have hwk : ∀ p ∈ kvs, ValWF p.2 := by cases hw; assumption
        simp only [coerceInT] at h
        cases hfd : inputs.find? (fun d => d.name == name) with
        | none => simp [hfd] at h
        | some d =>
          have hdm : d ∈ inputs := find_mem _ _ _ hfd
          simp only [hfd] at h
          split at h
          · simp at h
          · rename_i hdecl
            split at h
            · simp at h
            · rename_i hfold
              simp only [Prod.mk.injEq] at h; obtain ⟨rfl, _⟩ := h
              have hfold' : (d.fields.foldl (inputStep d.nullDflt (coerceInT ext tin inputs n)) (kvs, false)).2 = false := by
                cases hh : (d.fields.foldl (inputStep d.nullDflt (coerceInT ext tin inputs n)) (kvs, false)).2 with
                | false => rfl
                | true => exact absurd hh hfold
              have hinv := fold_inv ext inputs (coerceInT ext tin inputs n) kvs
                (fun f ov r hlk hc => by
                  obtain ⟨p, hp, rfl⟩ := lookup_mem kvs f.name ov hlk
                  exact ih f.type p.2 r (hwk p hp) hc)
                d.fields [] (kvs, false) (by simpa using hin.nodup d hdm)
                (fun f hf dv hdv => hin.defaults d hdm f hf dv hdv)
                ⟨fun _ _ => rfl, fun p hp => Or.inr ⟨p, hp, rfl⟩, fun f hf => by simp at hf⟩ rfl hfold'
              simp only [List.nil_append] at hinv
              obtain ⟨m, hm⟩ := common_depth_fields ext inputs _ d.fields hinv.fields
              refine ⟨m + 1, ?_⟩
              simp only [conforms, hfd, Bool.and_eq_true, List.all_eq_true]
              refine ⟨fun p hp => ?_, hm⟩
              rcases hinv.keys p hp with ⟨f, hf, hfp⟩ | ⟨q, hq, hqp⟩
              · simp only [List.any_eq_true]; exact ⟨f, hf, by simp [hfp]⟩
              · have hq' : (d.fields.any fun f => f.name == q.1) = true := by
                  cases hh : (d.fields.any fun f => f.name == q.1) with
                  | true => rfl
                  | false =>
                    exfalso; apply hdecl
                    simp only [List.any_eq_true]
                    exact ⟨q, hq, by simp [hh]⟩
                rw [← hqp]; exact hq'
      | _ => simp [coerceInT] at h

end Ggql.Args

namespace Ggql.Args
open Ggql.Coerce
variable {F : Type}

/-! ### coercion hands on well-formed Go values -/

/-- Go's `int32(x)` / `int64(x)` of a float is a value of that type, whatever `x` is -/
def F2iRange (ext : Ext F) : Prop :=
  (∀ x, inRange32 (ext.f2i .i32 x) = true) ∧ (∀ x, inRange64 (ext.f2i .i64 x) = true)

/-- actions that build values of an existing Go kind (every arm the translator can emit does) -/
def wfAction : Action → Bool
  | .parseIntKeep t => t == .i32 || t == .i64
  | .parseFloatKeep t => t == .f32 || t == .f64
  | .parseFloatFinite t => t == .f32 || t == .f64
  | _ => true

theorem bmod32_range (n : Int) : -2147483648 ≤ Int.bmod n 4294967296 ∧ Int.bmod n 4294967296 < 2147483648 := by
  constructor
  · have := Int.le_bmod (x := n) (m := 4294967296) (by decide); omega
  · have := Int.bmod_lt (x := n) (m := 4294967296) (by decide); omega

theorem bmod64_range (n : Int) :
    -9223372036854775808 ≤ Int.bmod n 18446744073709551616 ∧ Int.bmod n 18446744073709551616 < 9223372036854775808 := by
  constructor
  · have := Int.le_bmod (x := n) (m := 18446744073709551616) (by decide); omega
  · have := Int.bmod_lt (x := n) (m := 18446744073709551616) (by decide); omega

theorem convTo_wf (ext : Ext F) (hf : F2iRange ext) (t : NumT) (v : GoVal F) (hv : v.wf = true) : (convTo ext t v).wf = true := by
  cases v with
  | int k n =>
    cases t
    · have := bmod32_range n; simp [convTo, GoVal.wf, kindRange, wrapInt]; omega
    · have := bmod64_range n; simp [convTo, GoVal.wf, kindRange, wrapInt]; omega
    · simp [convTo, GoVal.wf, Kind.isFloat]
    · simp [convTo, GoVal.wf, Kind.isFloat]
  | flt k x =>
    cases t
    · have := hf.1 x; simp [inRange32] at this; simp [convTo, GoVal.wf, kindRange]; omega
    · have := hf.2 x; simp [inRange64] at this; simp [convTo, GoVal.wf, kindRange]; omega
    · simp [convTo, GoVal.wf, Kind.isFloat]
    · simp [convTo, GoVal.wf, Kind.isFloat]
  | _ => simpa [convTo] using hv

theorem applyAction_wf (ext : Ext F) (hf : F2iRange ext) (a : Action) (v : GoVal F) (hv : v.wf = true) (ha : wfAction a = true) :
    (applyAction ext a v).1.wf = true := by
  cases a with
  | asIs => simpa [applyAction] using hv
  | conv t => simpa [applyAction] using convTo_wf ext hf t v hv
  | convCheckedKeep t =>
    have := convTo_wf ext hf t v hv
    cases v with
    | flt k x =>
      simp only [applyAction]
      split
      · split <;> simpa using this
      · simpa using this
    | int k n => simp only [applyAction]; split <;> simpa using this
    | _ => simpa [applyAction] using this
  | failNil => simp [applyAction, GoVal.wf]
  | fmtInt => cases v <;> simp_all [applyAction, GoVal.wf]
  | fmtFloat bits => cases v <;> simp_all [applyAction, GoVal.wf]
  | parseIntKeep t =>
    cases v with
    | str s =>
      simp only [applyAction]
      split
      · rename_i i _
        simp only [wfAction, Bool.or_eq_true, beq_iff_eq] at ha
        rcases ha with rfl | rfl
        · have := bmod32_range i; simp only [NumT.kind, GoVal.wf, kindRange, wrapInt, Bool.and_eq_true]; exact ⟨decide_eq_true this.1, decide_eq_true this.2⟩
        · have := bmod64_range i; simp only [NumT.kind, GoVal.wf, kindRange, wrapInt, Bool.and_eq_true]; exact ⟨decide_eq_true this.1, decide_eq_true this.2⟩
      · simp [GoVal.wf]
    | _ => simpa [applyAction] using hv
  | parseInt32Keep =>
    cases v with
    | str s =>
      simp only [applyAction]
      split
      · split
        · rename_i i _ hr
          simp only [inRange32, Bool.and_eq_true, decide_eq_true_eq] at hr
          simp [GoVal.wf, kindRange]; omega
        · simp [GoVal.wf]
      · simp [GoVal.wf]
    | _ => simpa [applyAction] using hv
  | fmtUint => cases v <;> simp_all [applyAction, GoVal.wf]
  | convTrunc t =>
    cases v with
    | flt k x =>
      simp only [applyAction]
      split
      · split
        · rename_i n _ hr
          cases t <;> simp [inRange32, inRange64] at hr <;> simp [NumT.kind, GoVal.wf, kindRange] <;> omega
        · simp [GoVal.wf]
      · simp [GoVal.wf]
    | _ => simpa [applyAction] using hv
  | parseFloatKeep t =>
    cases v with
    | str s =>
      simp only [applyAction]
      split
      · simp only [wfAction, Bool.or_eq_true, beq_iff_eq] at ha
        rcases ha with rfl | rfl <;> simp [NumT.kind, GoVal.wf, Kind.isFloat]
      · simp [GoVal.wf]
    | _ => simpa [applyAction] using hv
  | parseFloatFinite t =>
    cases v with
    | str s =>
      simp only [wfAction, Bool.or_eq_true, beq_iff_eq] at ha
      simp only [applyAction]
      split
      · rcases ha with rfl | rfl
        · simp only [beq_self_eq_true, if_true, NumT.kind]
          split <;> simp [GoVal.wf, Kind.isFloat]
        · simp only [NumT.kind]
          split <;> (try split) <;> simp [GoVal.wf, Kind.isFloat]
      · simp [GoVal.wf]
    | _ => simpa [applyAction] using hv
  | parseBoolKeep =>
    cases v with
    | str s => simp only [applyAction]; split <;> simp [GoVal.wf]
    | _ => simpa [applyAction] using hv
  | neZero => cases v <;> simp_all [applyAction, GoVal.wf]
  | boolStr => cases v <;> simp_all [applyAction, GoVal.wf]
  | symStr => cases v <;> simp_all [applyAction, GoVal.wf]
  | timeOfFloat => cases v <;> simp_all [applyAction, GoVal.wf]
  | timeOfInt => cases v <;> simp_all [applyAction, GoVal.wf]
  | timeOfIntChk =>
    cases v with
    | int k n => simp only [applyAction]; split <;> simp [GoVal.wf]
    | _ => simpa [applyAction] using hv
  | timeOfFloatChk =>
    cases v with
    | flt k x => simp only [applyAction]; split <;> (try split) <;> simp [GoVal.wf]
    | _ => simpa [applyAction] using hv
  | timeParseKeep =>
    cases v with
    | str s => simp only [applyAction]; split <;> simp [GoVal.wf]
    | _ => simpa [applyAction] using hv
  | convStrict t =>
    have hc := convTo_wf ext hf t v hv
    cases t with
    | i32 =>
      cases v with
      | int k n =>
        simp only [applyAction]; split
        · rename_i hr; simp only [inRange32, Bool.and_eq_true, decide_eq_true_eq] at hr; simp [GoVal.wf, kindRange]; omega
        · simp [GoVal.wf]
      | flt k x =>
        simp only [applyAction]; split
        · split
          · rename_i hr; simp only [inRange32, Bool.and_eq_true, decide_eq_true_eq] at hr; simp [GoVal.wf, kindRange]; omega
          · simp [GoVal.wf]
        · simp [GoVal.wf]
      | _ => simp_all [applyAction, convTo, GoVal.wf]
    | i64 =>
      cases v with
      | int k n =>
        simp only [applyAction]; split
        · rename_i hr; simp only [inRange64, Bool.and_eq_true, decide_eq_true_eq] at hr; simp [GoVal.wf, kindRange]; omega
        · simp [GoVal.wf]
      | flt k x =>
        simp only [applyAction]; split
        · split
          · rename_i hr; simp only [inRange64, Bool.and_eq_true, decide_eq_true_eq] at hr; simp [GoVal.wf, kindRange]; omega
          · simp [GoVal.wf]
        · simp [GoVal.wf]
      | _ => simp_all [applyAction, convTo, GoVal.wf]
    | f32 =>
      simp only [applyAction]
      cases hcv : convTo ext .f32 v with
      | flt k x => rw [hcv] at hc; simp only []; split <;> simp_all [GoVal.wf]
      | _ => rw [hcv] at hc; simpa using hc
    | f64 =>
      simp only [applyAction]
      cases hcv : convTo ext .f64 v with
      | flt k x => rw [hcv] at hc; simp only []; split <;> simp_all [GoVal.wf]
      | _ => rw [hcv] at hc; simpa using hc

def TableWf (tbl : Table) : Bool := tbl.arms.all (fun p => wfAction p.2) && wfAction tbl.dflt

theorem coerce_wf (ext : Ext F) (hf : F2iRange ext) (tbl : Table) (ht : TableWf tbl = true) (v : GoVal F) (hv : v.wf = true) :
    (coerce ext tbl v).1.wf = true := by
  simp only [TableWf, Bool.and_eq_true, List.all_eq_true] at ht
  have ha : wfAction (tbl.armFor v.kind) = true := by
    rcases armFor_mem tbl v.kind with h | h
    · rw [h]; exact ht.2
    · exact ht.1 _ h
  have h1 := applyAction_wf ext hf (tbl.armFor v.kind) v hv ha
  unfold coerce
  cases hc : applyAction ext (tbl.armFor v.kind) v with
  | mk r e =>
    rw [hc] at h1
    simp only
    split
    · split
      · simp [GoVal.wf]
      · exact h1
    · exact h1

theorem values_setKey {α} (kvs : List (String × α)) (k : String) (v : α) :
    ∀ p ∈ setKey kvs k v, p.2 = v ∨ p ∈ kvs := by
  intro p hp
  unfold setKey at hp
  split at hp
  · simp only [List.mem_map] at hp
    obtain ⟨q, hq, rfl⟩ := hp
    by_cases hqk : (q.1 == k) = true
    · left; simp [hqk]
    · right; simpa [hqk] using hq
  · simp only [List.mem_append, List.mem_singleton] at hp
    rcases hp with hp | rfl
    · right; exact hp
    · left; rfl

/-- the field loop keeps every value of the accumulator well-formed -/
theorem fold_wf (co : InT → Val F → Val F × Bool) (hco : ∀ t v, ValWF v → ValWF (co t v).1)
    (fs : List (InField F)) (hd : ∀ f ∈ fs, ∀ dv, f.dflt = some dv → ValWF dv) :
    ∀ (acc : List (String × Val F) × Bool), (∀ p ∈ acc.1, ValWF p.2) →
      ∀ p ∈ (fs.foldl (inputStep nd co) acc).1, ValWF p.2 := by
  induction fs with
  | nil => intro acc h; simpa using h
  | cons f fs ih =>
    intro acc h
    simp only [List.foldl_cons]
    apply ih (fun g hg => hd g (List.mem_cons_of_mem _ hg))
    have hdf := hd f (List.mem_cons_self ..)
    have hset : ∀ nv, ValWF nv → ∀ p ∈ setKey acc.1 f.name nv, ValWF p.2 := by
      intro nv hnv p hp
      rcases values_setKey acc.1 f.name nv p hp with h1 | h1
      · rw [h1]; exact hnv
      · exact h p h1
    unfold inputStep
    split
    · exact h
    · split
      · rename_i ov hl
        split
        · split
          · rename_i dv hdv
            have hfd : f.dflt = some dv := by
              cases nd with
              | true => simpa using hdv
              | false => simp at hdv
            exact hset dv (hdf dv hfd)
          · split <;> exact h
        · have hov : ValWF ov := by
            obtain ⟨q, hq, rfl⟩ := lookup_mem acc.1 f.name ov hl
            exact h q hq
          have := hco f.type ov hov
          cases hc : co f.type ov with
          | mk cv e =>
            rw [hc] at this
            simp only
            split
            · exact h
            · exact hset cv this
      · split
        · rename_i dv hdv; exact hset dv (hdf dv hdv)
        · split <;> exact h

/-- **coerceInT_wf.**  `CoerceIn` of every input type hands on values whose Go leaves are well-formed. -/
theorem coerceInT_wf (ext : Ext F) (hf : F2iRange ext) (tin : Scalar → Table) (inputs : List (InputDef F))
    (ht : ∀ s, TableWf (tin s) = true)
    (hd : ∀ d ∈ inputs, ∀ f ∈ d.fields, ∀ dv, f.dflt = some dv → ValWF dv) :
    ∀ (fuel : Nat) (t : InT) (v : Val F), ValWF v → ValWF (coerceInT ext tin inputs fuel t v).1 := by
  intro fuel
  induction fuel with
  | zero => intro t v hv; simpa [coerceInT] using hv
  | succ n ih =>
    intro t v hv
    have hnil : ValWF (Val.go (GoVal.nil : GoVal F)) := ValWF.go _ (by simp [GoVal.wf])
    cases t with
    | scalar s =>
      cases v with
      | go g =>
        have hwg : g.wf = true := by cases hv; assumption
        simp only [coerceInT]
        exact ValWF.go _ (coerce_wf ext hf (tin s) (ht s) g hwg)
      | var x => simp only [coerceInT]; exact ValWF.go _ (coerce_wf ext hf (tin s) (ht s) _ (by simp [GoVal.wf]))
      | list xs => simp only [coerceInT]; exact ValWF.go _ (coerce_wf ext hf (tin s) (ht s) _ (by simp [GoVal.wf]))
      | obj kvs => simp only [coerceInT]; exact ValWF.go _ (coerce_wf ext hf (tin s) (ht s) _ (by simp [GoVal.wf]))
    | enum vals =>
      cases v with
      | go g =>
        cases g with
        | sym x => simp only [coerceInT]; split <;> first | exact hv | exact hnil
        | _ => simpa [coerceInT] using hnil
      | _ => simpa [coerceInT] using hnil
    | nonNull b =>
      simp only [coerceInT]
      split
      · exact hnil
      · exact ih b v hv
    | list b =>
      cases v with
      | go g => cases g <;> simpa [coerceInT] using hnil
      | list xs =>
        have hwx : ∀ x ∈ xs, ValWF x := by cases hv; assumption
        simp only [coerceInT]
        split
        · exact hnil
        · refine ValWF.list _ (fun y hy => ?_)
          simp only [List.mem_map] at hy
          obtain ⟨p, ⟨x, hx, rfl⟩, rfl⟩ := hy
          exact ih b x (hwx x hx)
      | _ => simpa [coerceInT] using hnil
    | input name =>
      cases v with
      | go g => cases g <;> simpa [coerceInT] using hnil
      | obj kvs =>
        have hwk : ∀ p ∈ kvs, ValWF p.2 := by cases hv; assumption
        simp only [coerceInT]
        cases hfd : inputs.find? (fun d => d.name == name) with
        | none => simpa using hnil
        | some d =>
          have hdm : d ∈ inputs := find_mem _ _ _ hfd
          simp only
          split
          · exact hnil
          · split
            · exact hnil
            · exact ValWF.obj _ (fold_wf (coerceInT ext tin inputs n) (fun t v hv => ih t v hv) d.fields
                (fun f hfm dv hdv => hd d hdm f hfm dv hdv) (kvs, false) hwk)
      | _ => simpa [coerceInT] using hnil

/-! ### `replaceArgVars`: literals, variables and nesting -/

theorem sum_zero (l : List Nat) (h : l.sum = 0) : ∀ x ∈ l, x = 0 := by
  induction l with
  | nil => simp
  | cons a l ih =>
    simp only [List.sum_cons] at h
    intro x hx
    rcases List.mem_cons.mp hx with rfl | hx
    · omega
    · exact ih (by omega) x hx

/-- what the theorems ask of the request-independent data: tables whose arms build values of existing Go
kinds, and input types whose defaults are well-formed -/
structure Setup (ext : Ext F) (tin : Scalar → Table) (inputs : List (InputDef F)) : Prop where
  f2i : F2iRange ext
  tables : ∀ s, TableWf (tin s) = true
  defaultsWf : ∀ d ∈ inputs, ∀ f ∈ d.fields, ∀ dv, f.dflt = some dv → ValWF dv

/-- **replaceArgVars_wf.**  Whatever the configuration and the declared type, the value produced has
well-formed Go leaves. -/
theorem replaceArgVars_wf (cfg : Cfg) (ext : Ext F) (tin : Scalar → Table) (inputs : List (InputDef F))
    (hs : Setup ext tin inputs) (vars : List (String × Val F)) (hvars : ∀ p ∈ vars, ValWF p.2) :
    ∀ (fuel : Nat) (at_ : Option InT) (v : Val F), ValWF v →
      ValWF (replaceArgVars cfg ext tin inputs vars fuel at_ v).1 := by
  have hco := coerceInT_wf ext hs.f2i tin inputs hs.tables hs.defaultsWf
  have hnil : ValWF (Val.go (GoVal.nil : GoVal F)) := ValWF.go _ (by simp [GoVal.wf])
  intro fuel
  induction fuel with
  | zero => intro at_ v hv; simpa [replaceArgVars] using hv
  | succ n ih =>
    intro at_ v hv
    cases v with
    | var x =>
      have hval : ValWF ((lookup vars x).getD (.go .nil)) := by
        cases hl : lookup vars x with
        | none => simpa using hnil
        | some w =>
          obtain ⟨q, hq, rfl⟩ := lookup_mem vars x w hl
          simpa using hvars q hq
      simp only [replaceArgVars]
      cases at_ with
      | none => simpa using hval
      | some t => simpa using hco 64 t _ hval
    | obj kvs =>
      have hwk : ∀ p ∈ kvs, ValWF p.2 := by cases hv; assumption
      simp only [replaceArgVars]
      split
      · rename_i name _
        apply hco 64 (.input name)
        refine ValWF.obj _ (fun p hp => ?_)
        simp only [List.mem_map] at hp
        obtain ⟨q, ⟨r, hr, rfl⟩, rfl⟩ := hp
        exact ih _ r.2 (hwk r hr)
      · cases at_ with
        | none => simpa using hv
        | some t =>
          simp only
          split
          · exact hv
          · exact hco 64 t _ hv
    | list xs =>
      have hwx : ∀ x ∈ xs, ValWF x := by cases hv; assumption
      have hl : ∀ mt, ValWF (Val.list ((xs.map (replaceArgVars cfg ext tin inputs vars n mt)).map (·.1))) := by
        intro mt
        refine ValWF.list _ (fun y hy => ?_)
        simp only [List.mem_map] at hy
        obtain ⟨p, ⟨x, hx, rfl⟩, rfl⟩ := hy
        exact ih mt x (hwx x hx)
      simp only [replaceArgVars]
      split
      · exact hl _
      · exact hl _
      · exact hl _
      · split
        · exact hl _
        · exact hco 64 _ _ (hl _)
    | go g =>
      cases g with
      | sym x =>
        simp only [replaceArgVars]
        split
        · exact hv
        · cases at_ with
          | none => simpa using hv
          | some t =>
            simp only
            split
            · exact hv
            · exact hco 64 t _ hv
      | nil => cases at_ with
        | none => simpa [replaceArgVars] using hv
        | some t => simpa [replaceArgVars] using hco 64 t _ hv
      | int k n => cases at_ with
        | none => simpa [replaceArgVars] using hv
        | some t => simpa [replaceArgVars] using hco 64 t _ hv
      | flt k n => cases at_ with
        | none => simpa [replaceArgVars] using hv
        | some t => simpa [replaceArgVars] using hco 64 t _ hv
      | str k => cases at_ with
        | none => simpa [replaceArgVars] using hv
        | some t => simpa [replaceArgVars] using hco 64 t _ hv
      | bool k => cases at_ with
        | none => simpa [replaceArgVars] using hv
        | some t => simpa [replaceArgVars] using hco 64 t _ hv
      | time k => cases at_ with
        | none => simpa [replaceArgVars] using hv
        | some t => simpa [replaceArgVars] using hco 64 t _ hv
      | other k => cases at_ with
        | none => simpa [replaceArgVars] using hv
        | some t => simpa [replaceArgVars] using hco 64 t _ hv

/-- the configuration the translator reads from the source on this run once D09, D10, D41, D65 and D68 are
repaired -/
def Cfg.repaired (cfg : Cfg) : Prop :=
  cfg.listNotCoerced = false ∧ cfg.symbolUnchecked = false ∧ cfg.objectUnchecked = false ∧ cfg.symbolBaseEnum = false

theorem conforms_nonNull (ext : Ext F) (inputs : List (InputDef F)) (b : InT) (r : Val F)
    (h : Conforms ext inputs b r) (hn : r.isNil = false) : Conforms ext inputs (.nonNull b) r := by
  obtain ⟨m, hm⟩ := h
  exact ⟨m + 1, by simp [conforms, hn, hm]⟩

/-- **C04_replaceArgVars_conforms.**  For every argument expression — literals, variables, lists and input
objects nested to any depth, with variables anywhere inside — every variable map and every declared type: when
`replaceArgVars` reports no error, the value it hands on conforms to the declared type. -/
theorem C04_replaceArgVars_conforms (cfg : Cfg) (hcfg : cfg.repaired) (ext : Ext F) (tin : Scalar → Table) (inputs : List (InputDef F))
    (hleaf : ∀ s (g : GoVal F), g.wf = true → checkIn ext s g (coerce ext (tin s) g) = true)
    (hin : InputsOk ext inputs) (hs : Setup ext tin inputs)
    (vars : List (String × Val F)) (hvars : ∀ p ∈ vars, ValWF p.2) :
    ∀ (fuel : Nat) (t : InT) (v r : Val F), ValWF v →
      replaceArgVars cfg ext tin inputs vars fuel (some t) v = (r, 0) → Conforms ext inputs t r := by
  obtain ⟨c1, c2, c3, c4⟩ := hcfg
  have hmain := C04_coerceInT_conforms ext tin inputs hleaf hin
  have hnilr := coerceInT_nil ext tin inputs hleaf
  have hwf := replaceArgVars_wf cfg ext tin inputs hs vars hvars
  -- a value coerced at the declared type
  have viaCoerce : ∀ (t : InT) (w r : Val F) (k : Nat), ValWF w →
      (let (r', e) := coerceInT ext tin inputs 64 t w; (r', k + (if e then 1 else 0))) = (r, 0) → Conforms ext inputs t r := by
    intro t w r k hw h
    cases hc : coerceInT ext tin inputs 64 t w with
    | mk r' e =>
      rw [hc] at h
      simp only [Prod.mk.injEq] at h
      obtain ⟨rfl, h2⟩ := h
      have he : e = false := by cases e <;> simp_all
      subst he
      exact hmain 64 t w r' hw hc
  intro fuel
  induction fuel with
  | zero => intro t v r _ h; simp [replaceArgVars] at h
  | succ n ih =>
    intro t v r hv h
    cases v with
    | var x =>
      have hval : ValWF ((lookup vars x).getD (.go .nil)) := by
        cases hl : lookup vars x with
        | none => simpa using ValWF.go (GoVal.nil : GoVal F) (by simp [GoVal.wf])
        | some w =>
          obtain ⟨q, hq, rfl⟩ := lookup_mem vars x w hl
          simpa using hvars q hq
      simp only [replaceArgVars] at h
      exact viaCoerce t _ r 0 hval (by simpa using h)
    | obj kvs =>
      have hwk : ∀ p ∈ kvs, ValWF p.2 := by cases hv; assumption
      simp only [replaceArgVars, c3, Bool.false_eq_true, if_false] at h
      -- the object handled as an input object of name `name`
      have asInput : ∀ name, (let fieldT := fun k => (inputs.find? (fun d => d.name == name)).bind (fun d => (d.fields.find? (fun f => f.name == k)).map (·.type))
          let rs := kvs.map (fun p => (p.1, replaceArgVars cfg ext tin inputs vars n (fieldT p.1) p.2))
          let kvs' := rs.map (fun p => (p.1, p.2.1))
          let errs := (rs.map (fun p => p.2.2)).sum
          let (r', e) := coerceInT ext tin inputs 64 (.input name) (.obj kvs')
          (r', errs + (if e then 1 else 0))) = (r, 0) →
          Conforms ext inputs (.input name) r ∧ r.isNil = false := by
        intro name h
        simp only at h
        have hobj : ValWF (Val.obj ((kvs.map (fun p => (p.1, replaceArgVars cfg ext tin inputs vars n
            ((inputs.find? (fun d => d.name == name)).bind (fun d => (d.fields.find? (fun f => f.name == p.1)).map (·.type))) p.2))).map
            (fun p => (p.1, p.2.1)))) := by
          refine ValWF.obj _ (fun p hp => ?_)
          simp only [List.mem_map] at hp
          obtain ⟨q, ⟨w, hw, rfl⟩, rfl⟩ := hp
          exact hwf n _ w.2 (hwk w hw)
        cases hc : coerceInT ext tin inputs 64 (.input name) (Val.obj ((kvs.map (fun p => (p.1, replaceArgVars cfg ext tin inputs vars n
            ((inputs.find? (fun d => d.name == name)).bind (fun d => (d.fields.find? (fun f => f.name == p.1)).map (·.type))) p.2))).map
            (fun p => (p.1, p.2.1)))) with
        | mk r' e =>
          rw [hc] at h
          simp only [Prod.mk.injEq] at h
          obtain ⟨rfl, h2⟩ := h
          have he : e = false := by cases e <;> simp_all
          subst he
          refine ⟨hmain 64 _ _ r' hobj hc, ?_⟩
          cases hr : r'.isNil with
          | false => rfl
          | true => have := hnilr 64 _ _ r' hobj hc hr; simp [Val.isNil] at this
      cases t with
      | input name => exact (asInput name (by simpa using h)).1
      | nonNull b =>
        cases b with
        | input name =>
          obtain ⟨h1, h2⟩ := asInput name (by simpa using h)
          exact conforms_nonNull ext inputs _ r h1 h2
        | _ => exact viaCoerce _ _ r 0 hv (by simpa using h)
      | _ => exact viaCoerce _ _ r 0 hv (by simpa using h)
    | list xs =>
      have hwx : ∀ x ∈ xs, ValWF x := by cases hv; assumption
      -- element-wise at member type `b`
      have elementwise : ∀ b, (Val.list ((xs.map (replaceArgVars cfg ext tin inputs vars n (some b))).map (·.1)),
            ((xs.map (replaceArgVars cfg ext tin inputs vars n (some b))).map (·.2)).sum) = (r, 0) →
          Conforms ext inputs (.list b) r ∧ r.isNil = false := by
        intro b h
        simp only [Prod.mk.injEq] at h
        obtain ⟨rfl, hsum⟩ := h
        have hz := sum_zero _ hsum
        have hall : ∀ y ∈ (xs.map (replaceArgVars cfg ext tin inputs vars n (some b))).map (·.1), Conforms ext inputs b y := by
          intro y hy
          simp only [List.mem_map] at hy
          obtain ⟨p, ⟨x, hx, rfl⟩, rfl⟩ := hy
          have h0 : (replaceArgVars cfg ext tin inputs vars n (some b) x).2 = 0 :=
            hz _ (by simp only [List.mem_map]; exact ⟨_, ⟨x, hx, rfl⟩, rfl⟩)
          exact ih b x _ (hwx x hx) (by rw [← h0])
        obtain ⟨m, hm⟩ := common_depth ext inputs b _ hall
        exact ⟨⟨m + 1, by simpa [conforms, List.all_eq_true] using hm⟩, by simp [Val.isNil]⟩
      have hlwf : ValWF (Val.list ((xs.map (replaceArgVars cfg ext tin inputs vars n none)).map (·.1))) := by
        refine ValWF.list _ (fun y hy => ?_)
        simp only [List.mem_map] at hy
        obtain ⟨p, ⟨x, hx, rfl⟩, rfl⟩ := hy
        exact hwf n none x (hwx x hx)
      cases t with
      | list b =>
        simp only [replaceArgVars] at h
        exact (elementwise b h).1
      | nonNull b =>
        cases b with
        | list b' =>
          simp only [replaceArgVars, c1, Bool.false_eq_true, if_false] at h
          obtain ⟨h1, h2⟩ := elementwise b' h
          exact conforms_nonNull ext inputs _ r h1 h2
        | _ =>
          simp only [replaceArgVars, c1, Bool.false_eq_true, if_false] at h
          exact viaCoerce _ _ r _ hlwf h
      | _ =>
        simp only [replaceArgVars, c1, Bool.false_eq_true, if_false] at h
        exact viaCoerce _ _ r _ hlwf h
    | go g =>
      cases g with
      | sym x =>
        simp only [replaceArgVars, c4, c2, Bool.false_eq_true, if_false] at h
        cases t with
        | enum vals =>
          simp only [Prod.mk.injEq] at h
          obtain ⟨rfl, h2⟩ := h
          have : vals.contains x = true := by cases hh : vals.contains x <;> simp_all
          exact ⟨1, by simpa [conforms] using this⟩
        | nonNull b =>
          cases b with
          | enum vals =>
            simp only [Prod.mk.injEq] at h
            obtain ⟨rfl, h2⟩ := h
            have : vals.contains x = true := by cases hh : vals.contains x <;> simp_all
            exact ⟨2, by simpa [conforms, Val.isNil] using this⟩
          | _ => exact viaCoerce _ _ r 0 hv (by simpa using h)
        | _ => exact viaCoerce _ _ r 0 hv (by simpa using h)
      | nil => simp only [replaceArgVars] at h; exact viaCoerce _ _ r 0 hv (by simpa using h)
      | int k n' => simp only [replaceArgVars] at h; exact viaCoerce _ _ r 0 hv (by simpa using h)
      | flt k n' => simp only [replaceArgVars] at h; exact viaCoerce _ _ r 0 hv (by simpa using h)
      | str k => simp only [replaceArgVars] at h; exact viaCoerce _ _ r 0 hv (by simpa using h)
      | bool k => simp only [replaceArgVars] at h; exact viaCoerce _ _ r 0 hv (by simpa using h)
      | time k => simp only [replaceArgVars] at h; exact viaCoerce _ _ r 0 hv (by simpa using h)
      | other k => simp only [replaceArgVars] at h; exact viaCoerce _ _ r 0 hv (by simpa using h)

/-! ### `formArgs`: what the resolver is invoked with -/

theorem lookup_filterMap_nodup {α β} (decl : List α) (nm : α → String) (g : α → Option β)
    (hnd : (decl.map nm).Nodup) (a : α) (ha : a ∈ decl) :
    lookup (decl.filterMap (fun x => (g x).map (fun y => (nm x, y)))) (nm a) = g a := by
  induction decl with
  | nil => simp at ha
  | cons x rest ih =>
    simp only [List.map_cons, List.nodup_cons] at hnd
    rcases List.mem_cons.mp ha with rfl | ha'
    · cases hg : g a with
      | some y => simp [List.filterMap_cons, hg, lookup_cons]
      | none =>
        simp only [List.filterMap_cons, hg, Option.map_none]
        apply lookup_none_of_not_any
        rw [List.any_eq_false]
        intro p hp
        simp only [List.mem_filterMap] at hp
        obtain ⟨z, hz, hzp⟩ := hp
        cases hgz : g z with
        | none => simp [hgz] at hzp
        | some y =>
          simp only [hgz, Option.map_some, Option.some.injEq] at hzp
          subst hzp
          have : nm z ≠ nm a := fun e => hnd.1 (e ▸ List.mem_map_of_mem (f := nm) hz)
          simpa using this
    · have hne : nm x ≠ nm a := fun e => hnd.1 (e ▸ List.mem_map_of_mem (f := nm) ha')
      cases hg : g x with
      | none => simp only [List.filterMap_cons, hg, Option.map_none]; exact ih hnd.2 ha'
      | some y =>
        simp only [List.filterMap_cons, hg, Option.map_some, lookup_cons]
        have : (nm x == nm a) = false := by simpa using hne
        simp only [this, Bool.false_eq_true, if_false]
        exact ih hnd.2 ha'

/-- the variable binding loop hands on well-formed values -/
theorem bind_wf (cfg : Cfg) (ext : Ext F) (tin : Scalar → Table) (inputs : List (InputDef F)) (hs : Setup ext tin inputs)
    (supplied : List (String × Val F)) (hsup : ∀ p ∈ supplied, ValWF p.2)
    (vdefs : List (VarDef F)) (hvd : ∀ vd ∈ vdefs, ∀ d, vd.dflt = some d → ValWF d) :
    ∀ (acc : List (String × Val F) × Bool), (∀ p ∈ acc.1, ValWF p.2) →
      ∀ p ∈ (vdefs.foldl (bindStep cfg ext tin inputs supplied) acc).1, ValWF p.2 := by
  have hnil : ValWF (Val.go (GoVal.nil : GoVal F)) := ValWF.go _ (by simp [GoVal.wf])
  induction vdefs with
  | nil => intro acc h; simpa using h
  | cons vd rest ih =>
    intro acc h
    simp only [List.foldl_cons]
    apply ih (fun v hv => hvd v (List.mem_cons_of_mem _ hv))
    have hd : ValWF (vd.dflt.getD (.go .nil)) := by
      cases hdf : vd.dflt with
      | none => simpa using hnil
      | some d => simpa using hvd vd (List.mem_cons_self ..) d hdf
    have happ : ∀ nv, ValWF nv → ∀ p ∈ acc.1 ++ [(vd.name, nv)], ValWF p.2 := by
      intro nv hnv p hp
      rcases List.mem_append.mp hp with hp | hp
      · exact h p hp
      · simp only [List.mem_singleton] at hp; subst hp; exact hnv
    unfold bindStep
    split
    · exact h
    · split
      · rename_i v hl
        split
        · exact happ _ hd
        · have hv : ValWF v := by obtain ⟨q, hq, rfl⟩ := lookup_mem supplied vd.name v hl; exact hsup q hq
          have := coerceInT_wf ext hs.f2i tin inputs hs.tables hs.defaultsWf 64 vd.type v hv
          cases hc : coerceInT ext tin inputs 64 vd.type v with
          | mk r e =>
            rw [hc] at this
            simp only
            split
            · exact h
            · exact happ r this
      · exact happ _ hd

/-- **C04_formArgs.**  On the source as it is now (the configuration with D09, D10, D65 and D68 repaired): for
every field, whatever its declared arguments, the literals and variable references written in the request —
nested to any depth — the variable definitions with their defaults and the variable values supplied: if the
field's resolver is invoked, every argument it receives conforms to the argument's declared type, and an
argument it does not receive is nullable. -/
theorem C04_formArgs (cfg : Cfg) (hcfg : cfg.repaired) (ext : Ext F) (tin : Scalar → Table) (inputs : List (InputDef F))
    (hleaf : ∀ s (g : GoVal F), g.wf = true → checkIn ext s g (coerce ext (tin s) g) = true)
    (hin : InputsOk ext inputs) (hs : Setup ext tin inputs)
    (vdefs : List (VarDef F)) (hvd : ∀ vd ∈ vdefs, ∀ d, vd.dflt = some d → ValWF d)
    (supplied : List (String × Val F)) (hsup : ∀ p ∈ supplied, ValWF p.2)
    (decl : List ArgDef) (hnd : (decl.map (·.name)).Nodup)
    (given : List (String × Val F)) (hgiven : ∀ p ∈ given, ValWF p.2)
    (hcalled : (formArgs cfg ext tin inputs vdefs supplied decl given).called = true) :
    ∀ a ∈ decl, match lookup (formArgs cfg ext tin inputs vdefs supplied decl given).args a.name with
      | some v => Conforms ext inputs a.type v
      | none => a.type.nullable = true := by
  intro a ha
  unfold formArgs at hcalled ⊢
  have hop0 := bind_wf cfg ext tin inputs hs supplied hsup vdefs hvd ([], false) (by simp)
  change ∀ p ∈ (bindVars cfg ext tin inputs supplied vdefs).1, ValWF p.2 at hop0
  generalize bindVars cfg ext tin inputs supplied vdefs = bound at hcalled hop0 ⊢
  obtain ⟨opVars, failed⟩ := bound
  have hop : ∀ p ∈ opVars, ValWF p.2 := hop0
  simp only at hcalled ⊢
  cases failed with
  | true => simp at hcalled
  | false =>
    simp only [Bool.false_eq_true, if_false] at hcalled ⊢
    -- the resolver is called: no error was counted and no required argument is missing
    have hzero : ((argResults cfg ext tin inputs opVars decl given).map (fun p => p.2.2)).sum = 0 ∧
        (missingArgs decl given).length = 0 := by
      have := eq_of_beq hcalled
      omega
    simp only [hzero.1, hzero.2, Nat.add_zero, beq_self_eq_true, if_true]
    -- the argument map: by name, the replaced value of the given expression
    have hlk := lookup_filterMap_nodup decl (·.name)
      (fun a => (lookup given a.name).map (fun v => (replaceArgVars cfg ext tin inputs opVars 64 (some a.type) v).1)) hnd a ha
    have hargs : (argResults cfg ext tin inputs opVars decl given).map (fun p => (p.1, p.2.1)) =
        decl.filterMap (fun x => ((lookup given x.name).map (fun v => (replaceArgVars cfg ext tin inputs opVars 64 (some x.type) v).1)).map
          (fun y => (x.name, y))) := by
      unfold argResults
      rw [List.map_filterMap]
      congr 1; funext x
      cases lookup given x.name <;> simp
    rw [hargs, hlk]
    cases hg : lookup given a.name with
    | none =>
      simp only [Option.map_none]
      -- not given: were it required it would be counted as missing
      have hm := List.length_eq_zero_iff.mp hzero.2
      have := List.filter_eq_nil_iff.mp hm a ha
      cases hty : a.type <;> simp_all [InT.nullable, ArgDef.required]
    | some v =>
      simp only [Option.map_some]
      have hv : ValWF v := by obtain ⟨q, hq, rfl⟩ := lookup_mem given a.name v hg; exact hgiven q hq
      have h0 : (replaceArgVars cfg ext tin inputs opVars 64 (some a.type) v).2 = 0 := by
        apply sum_zero _ hzero.1
        simp only [argResults, List.mem_map, List.mem_filterMap]
        exact ⟨(a.name, replaceArgVars cfg ext tin inputs opVars 64 (some a.type) v), ⟨a, ha, by simp [hg]⟩, rfl⟩
      exact C04_replaceArgVars_conforms cfg hcfg ext tin inputs hleaf hin hs opVars hop 64 a.type v _ hv (by rw [← h0])

end Ggql.Args
