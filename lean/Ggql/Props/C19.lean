/-
C19 — subscription events reach exactly the live, matching subscribers.

One refinement theorem (the slice-manipulating code = an abstract subscriber list, for every finite
history over subscribe / publish / unsubscribe and every choice of failing deliveries) and the
property's clauses as corollaries.
-/
import Ggql.Proofs.Registry
namespace Ggql.Registry

def ids (l : List Sub) : List Nat := l.map (·.id)

theorem id_inj_of_nodup {l : List Sub} (hnd : (l.map (·.id)).Nodup) {s t : Sub} (hs : s ∈ l) (ht : t ∈ l)
    (hid : s.id = t.id) : s = t := by
  induction l with
  | nil => simp at hs
  | cons x xs ih =>
    simp only [List.map_cons, List.nodup_cons, List.mem_map, not_exists, not_and] at hnd
    cases hs with
    | head =>
      cases ht with
      | head => rfl
      | tail _ ht => exact absurd hid.symm (hnd.1 t ht)
    | tail _ hs =>
      cases ht with
      | head => exact absurd hid (hnd.1 s hs)
      | tail _ ht => exact ih hnd.2 hs ht

theorem inv_init : Inv init := by simp [Inv, init]

/-- one step: same new state, same outputs, invariant preserved -/
theorem step_refines (st : State) (op : Op) (h : Inv st) :
    step st op = Spec.step st op ∧ Inv (step st op).1 := by
  obtain ⟨hnd, hlt⟩ := h
  have hsubnd : st.reg.Nodup := nodup_of_ids_nodup _ hnd
  cases op with
  | subscribe p =>
    refine ⟨rfl, ?_⟩
    simp only [step, subscribe, Inv, List.map_append, List.map_cons, List.map_nil]
    refine ⟨?_, ?_⟩
    · rw [List.nodup_append]
      refine ⟨hnd, by simp, ?_⟩
      intro a ha b hb hab
      simp only [List.mem_singleton] at hb
      simp only [List.mem_map] at ha
      obtain ⟨s, hs, rfl⟩ := ha
      have := hlt s hs; omega
    · intro s hs
      simp only [List.mem_append, List.mem_singleton] at hs
      cases hs with
      | inl h => have := hlt s h; omega
      | inr h => subst h; simp
  | unsubscribe ev =>
    have heq : step st (.unsubscribe ev) = Spec.step st (.unsubscribe ev) := by
      simp only [step, unsubscribe, Spec.step, Spec.unsubscribe, scanRev_full]
    refine ⟨heq, ?_⟩
    rw [heq]
    simp only [Spec.step, Spec.unsubscribe, Inv]
    exact ⟨(hnd.sublist ((List.filter_sublist).map _)), fun s hs => hlt s (List.mem_filter.mp hs).1⟩
  | publish ev fails =>
    have hfn : ((st.reg.filter (fun s => s.pat.matches ev)).filter (fun s => fails.contains s.id)).Nodup :=
      (hsubnd.filter _).filter _
    have hsub : ∀ f ∈ (st.reg.filter (fun s => s.pat.matches ev)).filter (fun s => fails.contains s.id), f ∈ st.reg :=
      fun f hf => (List.mem_filter.mp (List.mem_filter.mp hf).1).1
    have heq : step st (.publish ev fails) = Spec.step st (.publish ev fails) := by
      simp only [step, publish, deliver, Spec.step, Spec.publish, reap_eq st.reg _ hsubnd hfn hsub]
    refine ⟨heq, ?_⟩
    rw [heq]
    simp only [Spec.step, Spec.publish, Inv]
    exact ⟨(hnd.sublist ((List.filter_sublist).map _)), fun s hs => hlt s (List.mem_filter.mp hs).1⟩

/-- **C19_refines.**  For every finite history and every choice of failing deliveries the registry
code behaves exactly as the abstract subscriber list: same final registry, same per-call outputs
(messages delivered in order, clean-ups in order, returned count). -/
theorem C19_refines (st : State) (ops : List Op) (h : Inv st) :
    run st ops = Spec.run st ops ∧ Inv (run st ops).1 := by
  induction ops generalizing st with
  | nil => exact ⟨rfl, h⟩
  | cons op ops ih =>
    obtain ⟨heq, hinv⟩ := step_refines st op h
    obtain ⟨heq', hinv'⟩ := ih (step st op).1 hinv
    simp only [run, Spec.run]
    rw [← heq]
    constructor
    · rw [heq']
    · exact hinv'

/-! ### Corollaries: the clauses of the property, read off the specification -/

/-- a publish delivers exactly one message to each live subscriber matching the event id, in
registration order, to nobody else, and reports the number matched -/
theorem C19_publish_exact (st : State) (ev : String) (fails : List Nat) (h : Inv st) :
    let o := (step st (.publish ev fails)).2
    o.delivered = ids (st.reg.filter (fun s => s.pat.matches ev)) ∧
    o.delivered.Nodup ∧ o.count = o.delivered.length := by
  rw [(step_refines st _ h).1]
  simp only [Spec.step, Spec.publish, ids, List.length_map, and_true, true_and]
  exact h.1.sublist ((List.filter_sublist).map _)

/-- a subscriber whose delivery fails is removed and cleaned exactly once; the others stay -/
theorem C19_failed_removed (st : State) (ev : String) (fails : List Nat) (h : Inv st) :
    let r := step st (.publish ev fails)
    r.2.cleaned = ids ((st.reg.filter (fun s => s.pat.matches ev)).filter (fun s => fails.contains s.id)) ∧
    r.2.cleaned.Nodup ∧
    (∀ s ∈ st.reg, s ∈ r.1.reg ↔ ¬ (s.pat.matches ev = true ∧ fails.contains s.id = true)) := by
  rw [(step_refines st _ h).1]
  simp only [Spec.step, Spec.publish, ids, true_and]
  refine ⟨h.1.sublist (((List.filter_sublist).trans List.filter_sublist).map _), ?_⟩
  intro s hs
  simp only [List.mem_filter, hs, true_and, Bool.not_eq_true', List.contains_eq_mem, decide_eq_false_iff_not,
    decide_eq_true_eq, not_and]

/-- unsubscribing removes exactly the matching subscribers, cleans each exactly once, reports their
number -/
theorem C19_unsubscribe_exact (st : State) (ev : String) (h : Inv st) :
    let r := step st (.unsubscribe ev)
    r.1.reg = st.reg.filter (fun s => !s.pat.matches ev) ∧
    r.2.cleaned.Perm (ids (st.reg.filter (fun s => s.pat.matches ev))) ∧
    r.2.cleaned.Nodup ∧ r.2.count = r.2.cleaned.length := by
  rw [(step_refines st _ h).1]
  simp only [Spec.step, Spec.unsubscribe, ids, true_and, List.length_map, List.length_reverse, and_true]
  refine ⟨?_, ?_⟩
  · exact (List.reverse_perm _).map _
  · rw [List.map_reverse]
    exact (List.reverse_perm _).symm.nodup (h.1.sublist ((List.filter_sublist).map _))

/-- every id a later call touches is either registered now or not yet issued -/
theorem run_ids (st : State) (ops : List Op) (h : Inv st) :
    ∀ o ∈ (Spec.run st ops).2, ∀ x ∈ o.delivered ++ o.cleaned, x ∈ ids st.reg ∨ st.next ≤ x := by
  induction ops generalizing st with
  | nil => simp [Spec.run]
  | cons op ops ih =>
    have hst := step_refines st op h
    rw [hst.1] at hst
    intro o ho x hx
    simp only [Spec.run, List.mem_cons] at ho
    cases ho with
    | inl ho =>
      subst ho
      left
      cases op with
      | subscribe p => simp [Spec.step, subscribe] at hx
      | unsubscribe ev =>
        simp only [Spec.step, Spec.unsubscribe, List.nil_append, List.mem_map, List.mem_reverse, List.mem_filter] at hx
        obtain ⟨s, ⟨hs, _⟩, rfl⟩ := hx
        exact List.mem_map.mpr ⟨s, hs, rfl⟩
      | publish ev fails =>
        simp only [Spec.step, Spec.publish, List.mem_append, List.mem_map, List.mem_filter] at hx
        rcases hx with ⟨s, ⟨hs, _⟩, rfl⟩ | ⟨s, ⟨⟨hs, _⟩, _⟩, rfl⟩ <;> exact List.mem_map.mpr ⟨s, hs, rfl⟩
    | inr ho =>
      have := ih (Spec.step st op).1 hst.2 o ho x hx
      cases op with
      | subscribe p =>
        simp only [Spec.step, subscribe, ids, List.map_append, List.mem_append, List.map_cons, List.map_nil,
          List.mem_singleton] at this
        rcases this with (h1 | h1) | h1
        · left; exact h1
        · right; omega
        · right; omega
      | unsubscribe ev =>
        simp only [Spec.step, Spec.unsubscribe, ids, List.mem_map, List.mem_filter] at this
        rcases this with ⟨s, ⟨hs, _⟩, rfl⟩ | h1
        · left; exact List.mem_map.mpr ⟨s, hs, rfl⟩
        · right; exact h1
      | publish ev fails =>
        simp only [Spec.step, Spec.publish, ids, List.mem_map, List.mem_filter] at this
        rcases this with ⟨s, ⟨hs, _⟩, rfl⟩ | h1
        · left; exact List.mem_map.mpr ⟨s, hs, rfl⟩
        · right; exact h1

/-- `cleaned` ids of a step leave the registry for good -/
theorem step_cleaned_gone (st : State) (op : Op) (h : Inv st) :
    ∀ c ∈ (Spec.step st op).2.cleaned, c ∈ ids st.reg ∧ c ∉ ids (Spec.step st op).1.reg ∧ c < (Spec.step st op).1.next := by
  intro c hc
  have hnd := h.1
  cases op with
  | subscribe p => simp [Spec.step, subscribe] at hc
  | unsubscribe ev =>
    simp only [Spec.step, Spec.unsubscribe, List.mem_map, List.mem_reverse, List.mem_filter] at hc
    obtain ⟨s, ⟨hs, hm⟩, rfl⟩ := hc
    refine ⟨List.mem_map.mpr ⟨s, hs, rfl⟩, ?_, h.2 s hs⟩
    simp only [Spec.step, Spec.unsubscribe, ids, List.mem_map, List.mem_filter, not_exists, not_and]
    intro t ⟨ht, htm⟩ hid
    have : t = s := id_inj_of_nodup hnd ht hs hid
    subst this; simp [hm] at htm
  | publish ev fails =>
    simp only [Spec.step, Spec.publish, List.mem_map, List.mem_filter] at hc
    obtain ⟨s, ⟨⟨hs, hm⟩, hf⟩, rfl⟩ := hc
    refine ⟨List.mem_map.mpr ⟨s, hs, rfl⟩, ?_, h.2 s hs⟩
    simp only [Spec.step, Spec.publish, ids, List.mem_map, List.mem_filter, not_exists, not_and]
    intro t ⟨ht, htm⟩ hid
    have : t = s := id_inj_of_nodup hnd ht hs hid
    subst this
    simp only [List.contains_eq_mem, List.mem_filter, Bool.not_eq_true', decide_eq_false_iff_not, not_and] at htm
    exact htm ⟨ht, hm⟩ (by simpa using hf)

/-- "nothing afterwards": no call after the one that cleaned `c` delivers to `c` or cleans it again -/
def QuietAfterCleanup : List Out → Prop
  | [] => True
  | o :: rest => (∀ c ∈ o.cleaned, ∀ o' ∈ rest, c ∉ o'.delivered ∧ c ∉ o'.cleaned) ∧ QuietAfterCleanup rest

/-- **C19_quiet_after_cleanup.**  Across any history: once a subscriber's clean-up has run (because it
was unsubscribed or because a delivery to it failed) it receives nothing and is never cleaned again. -/
theorem C19_quiet_after_cleanup (st : State) (ops : List Op) (h : Inv st) :
    QuietAfterCleanup (run st ops).2 := by
  rw [(C19_refines st ops h).1]
  induction ops generalizing st with
  | nil => simp [Spec.run, QuietAfterCleanup]
  | cons op ops ih =>
    have hst := step_refines st op h
    rw [hst.1] at hst
    simp only [Spec.run, QuietAfterCleanup]
    refine ⟨?_, ih _ hst.2⟩
    intro c hc o' ho'
    obtain ⟨_, hgone, hlt⟩ := step_cleaned_gone st op h c hc
    have key := run_ids (Spec.step st op).1 ops hst.2 o' ho' c
    constructor
    · intro hd
      rcases key (List.mem_append_left _ hd) with h1 | h1
      · exact hgone h1
      · omega
    · intro hd
      rcases key (List.mem_append_right _ hd) with h1 | h1
      · exact hgone h1
      · omega

/-- the mutation "scan forwards while deleting in place" is a different model: it skips the element
after a deleted one -/
theorem scanFwd_differs :
    let l : List Sub := [⟨0, .any⟩, ⟨1, .any⟩, ⟨2, .any⟩]
    (scanFwd (fun _ => true) 3 0 l []).1 ≠ (scanRev (fun _ => true) 3 l [] 0).1 := by decide

/-- non-vacuity: a concrete history through all three operations with a failing delivery; the
hypothesis `Inv` holds of the initial state -/
example :
    (run init [.subscribe .any, .subscribe (.exact "e"), .publish "e" [0], .unsubscribe "e", .publish "e" []]).2.map
      (fun o => (o.delivered, o.cleaned, o.count)) =
      [([], [], 0), ([], [], 0), ([0, 1], [0], 2), ([], [1], 1), ([], [], 0)] := by decide

end Ggql.Registry
