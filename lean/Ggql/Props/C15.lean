/-
C15 — printed SDL re-parses to the same schema: component theorems.

* `C15_value`: default values and directive-argument values are printed by `WriteSDLValue` at indent 0
  and read back by `readValue` — that is `C18_sdl_in_context`, restated.
* `C15_desc_simple`: a one-line description without quote, backslash or NUL reads back exactly.
* `C15_dev_backslash`, `C15_dev_triple` (D32): a backslash or `"""` inside a description is printed
  raw and does not read back.
* `C15_typeref`: `readType (typeName t) = t` for every nesting of list and non-null wrappers, provided
  no non-null sits directly on a non-null (which the loader refuses).
The whole-document statement (`C15_full`) is decided by the correspondence (print → fresh root → print).
-/
import Ggql.Model.Desc
import Ggql.Props.C18
namespace Ggql.Desc
open Ggql.ValueText

/-- plain characters go through the one-line string reader unchanged -/
theorem readStrBody_plain (s rest acc : List Char) (f : Nat) (hf : s.length + 1 ≤ f)
    (hs : ∀ c ∈ s, c ≠ '"' ∧ c ≠ '\\' ∧ c.toNat ≠ 0) :
    readStrBody stdTbl f (s ++ '"' :: rest) acc = some (acc.reverse ++ s, rest) := by
  induction s generalizing acc f with
  | nil =>
    cases f with
    | zero => omega
    | succ f => simp [readStrBody]
  | cons c s ih =>
    cases f with
    | zero => simp at hf
    | succ f =>
      obtain ⟨h1, h2, h3⟩ := hs c (List.mem_cons_self ..)
      simp only [List.cons_append, readStrBody, h1, h2, h3, if_false]
      rw [ih (c :: acc) f (by simp at hf; omega) (fun x hx => hs x (List.mem_cons_of_mem _ hx))]
      simp

/-- **C15_desc_simple.**  A non-empty description without newline, quote, backslash or NUL is printed
as `"…"` followed by a newline and reads back exactly, whatever follows. -/
theorem escapeDesc_plain (b : Bool) (d : List Char) (hd : ∀ c ∈ d, c ≠ '"' ∧ c ≠ '\\') : escapeDesc b d = d := by
  induction d with
  | nil => rfl
  | cons c r ih =>
    obtain ⟨h1, h2⟩ := hd c (List.mem_cons_self ..)
    simp [escapeDesc, h1, h2, ih (fun x hx => hd x (List.mem_cons_of_mem _ hx))]

theorem C15_desc_simple (raw : Bool) (d k : List Char) (hne : d ≠ [])
    (hd : ∀ c ∈ d, c ≠ '"' ∧ c ≠ '\\' ∧ c.toNat ≠ 0 ∧ c ≠ '\n') :
    readStringFull stdTbl (writeDesc raw d ++ k) = some (d, '\n' :: k) := by
  have hesc : (if raw then d else escapeDesc false d) = d := by
    cases raw
    · simpa using escapeDesc_plain false d (fun c hc => ⟨(hd c hc).1, (hd c hc).2.1⟩)
    · rfl
  have hany : d.any (fun c => c == '\n' || c == '"') = false := by
    rw [List.any_eq_false]; intro c hc
    obtain ⟨h1, _, _, h4⟩ := hd c hc
    simp [h1, h4]
  have hemp : d.isEmpty = false := by cases d <;> simp_all
  simp only [writeDesc, hemp, hany, hesc, Bool.false_eq_true, if_false, List.cons_append, List.append_assoc]
  cases d with
  | nil => exact absurd rfl hne
  | cons c r =>
    obtain ⟨h1, _, _, _⟩ := hd c (List.mem_cons_self ..)
    have hopen : readStringFull stdTbl ('"' :: c :: (r ++ ['"', '\n'] ++ k)) = readString stdTbl ('"' :: c :: (r ++ ['"', '\n'] ++ k)) := by
      unfold readStringFull
      split
      · rename_i heq; simp only [List.cons.injEq] at heq; exact absurd heq.2.1 h1
      · rfl
    simp only [List.cons_append, List.append_assoc] at hopen ⊢
    rw [hopen, readString_open c _ h1]
    have := readStrBody_plain (c :: r) ('\n' :: k) [] ((c :: (r ++ '"' :: '\n' :: k)).length + 1)
      (by simp only [List.length_cons, List.length_append]; omega) (fun x hx => ⟨(hd x hx).1, (hd x hx).2.1, (hd x hx).2.2.1⟩)
    simpa using this

theorem readEscaped_bs (r : List Char) : readEscaped stdTbl ('\\' :: r) = some ('\\', r) := by
  simp [readEscaped, stdTbl]

theorem readEscaped_quote (r : List Char) : readEscaped stdTbl ('"' :: r) = some ('"', r) := by
  simp [readEscaped, stdTbl]

/-- the block-string reader over an escaped description followed by the closing line: it returns the
description itself (and the newline the printer puts before the closing quotes) -/
theorem readBlock_escaped : ∀ (n : Nat) (d : List Char), d.length ≤ n → (∀ c ∈ d, c.toNat ≠ 0) →
    ∀ (acc k : List Char) (fuel : Nat), (escapeDesc true d).length + 2 ≤ fuel →
    readBlock stdTbl fuel (escapeDesc true d ++ '\n' :: '"' :: '"' :: '"' :: k) acc = some (acc.reverse ++ d ++ ['\n'], k) := by
  intro n
  induction n with
  | zero =>
    intro d hl _ acc k fuel hf
    have : d = [] := by cases d <;> simp_all
    subst this
    simp only [escapeDesc, List.length_nil] at hf
    match fuel, hf with
    | f + 2, _ => simp [escapeDesc, readBlock]
  | succ n ih =>
    intro d hl hnz acc k fuel hf
    cases d with
    | nil =>
      simp only [escapeDesc, List.length_nil] at hf
      match fuel, hf with
      | f + 2, _ => simp [escapeDesc, readBlock]
    | cons c rest =>
      have hrest : ∀ x ∈ rest, x.toNat ≠ 0 := fun x hx => hnz x (List.mem_cons_of_mem _ hx)
      have hc0 : c.toNat ≠ 0 := hnz c (List.mem_cons_self ..)
      have hlr : rest.length ≤ n := by simp at hl; omega
      by_cases hbs : c = '\\'
      · subst hbs
        simp only [escapeDesc, if_true, List.length_cons] at hf
        match fuel, hf with
        | f + 1, hf =>
          have := ih rest hlr hrest ('\\' :: acc) k f (by omega)
          simp [escapeDesc, readBlock, readEscaped_bs, this]
      · by_cases hq : c = '"'
        · subst hq
          cases rest with
          | nil =>
            simp [escapeDesc] at hf
            match fuel, hf with
            | f + 2, _ => simp [escapeDesc, readBlock]
          | cons x rest' =>
            by_cases hx : x = '"' ∨ x = '\\'
            · -- the quote is escaped
              have hcond : (x == '"' || x == '\\') = true := by rcases hx with rfl | rfl <;> decide
              have hq' : ('"' : Char) ≠ '\\' := by decide
              have hlen : (escapeDesc true ('"' :: x :: rest')).length = (escapeDesc true (x :: rest')).length + 2 := by
                simp [escapeDesc, hcond, hq']
              rw [hlen] at hf
              match fuel, hf with
              | f + 1, hf =>
                have := ih (x :: rest') hlr hrest ('"' :: acc) k f (by omega)
                simp [escapeDesc, hcond, readBlock, readEscaped_quote] at this ⊢
                simpa [escapeDesc] using this
            · -- raw quote followed by a plain character: the reader takes both
              have hx1 : x ≠ '"' := fun h => hx (Or.inl h)
              have hx2 : x ≠ '\\' := fun h => hx (Or.inr h)
              have hcond : (x == '"' || x == '\\') = false := by simp [hx1, hx2]
              have hlr' : rest'.length ≤ n := by simp at hl; omega
              have hrest' : ∀ y ∈ rest', y.toNat ≠ 0 := fun y hy => hrest y (List.mem_cons_of_mem _ hy)
              have hq' : ('"' : Char) ≠ '\\' := by decide
              have hlen : (escapeDesc true ('"' :: x :: rest')).length = (escapeDesc true rest').length + 2 := by
                simp [escapeDesc, hcond, hq', hx1, hx2]
              rw [hlen] at hf
              match fuel, hf with
              | f + 1, hf =>
                have := ih rest' hlr' hrest' (x :: '"' :: acc) k f (by omega)
                simp only [escapeDesc, hcond, hq', Bool.and_false, Bool.false_eq_true, if_false, hx1, hx2, List.cons_append, List.nil_append,
                  List.singleton_append, readBlock, if_true]
                split
                · rename_i heq; simp only [List.cons.injEq] at heq; exact absurd heq.1 hx1
                · rename_i heq; simp only [List.cons.injEq] at heq; exact absurd heq.1 hx1
                · rename_i y r _ _ heq
                  simp only [List.cons.injEq] at heq
                  obtain ⟨rfl, rfl⟩ := heq
                  rw [this]
                  simp
                · rename_i heq; simp at heq
        · have hlen : (escapeDesc true (c :: rest)).length = (escapeDesc true rest).length + 1 := by
            simp [escapeDesc, hbs, hq]
          rw [hlen] at hf
          match fuel, hf with
          | f + 1, hf =>
            have := ih rest hlr hrest (c :: acc) k f (by omega)
            simp [escapeDesc, hbs, hq, readBlock, hc0, this]

/-- **C15_desc_block (D32 repaired).**  Every description that holds a newline or a quote — whatever else it
holds: backslashes, runs of quotes, `"""`, a quote at either end — is printed as a block string whose text
reads back as the description between the two newlines the printer adds, whatever follows. -/
theorem C15_desc_block (d k : List Char) (hany : d.any (fun c => c == '\n' || c == '"') = true)
    (hnz : ∀ c ∈ d, c.toNat ≠ 0) :
    readStringFull stdTbl (writeDesc false d ++ k) = some ('\n' :: d ++ ['\n'], k) := by
  have hemp : d.isEmpty = false := by cases d <;> simp_all
  simp only [writeDesc, hemp, hany, Bool.false_eq_true, if_false, if_true]
  have hform : "\"\"\"".toList ++ ['\n'] ++ escapeDesc true d ++ ['\n'] ++ "\"\"\"".toList ++ k =
      '"' :: '"' :: '"' :: '\n' :: (escapeDesc true d ++ '\n' :: '"' :: '"' :: '"' :: k) := by
    have h3 : "\"\"\"".toList = ['"', '"', '"'] := by decide
    simp [h3]
  rw [hform]
  simp only [readStringFull]
  have hstep : ∀ (rest : List Char) (f : Nat), readBlock stdTbl (f + 1) ('\n' :: rest) [] = readBlock stdTbl f rest ['\n'] := by
    intro rest f; simp [readBlock]
  have hlen : ('\n' :: (escapeDesc true d ++ '\n' :: '"' :: '"' :: '"' :: k)).length = ((escapeDesc true d).length + 4 + k.length) + 1 := by
    simp; omega
  rw [hlen, hstep]
  have := readBlock_escaped d.length d (Nat.le_refl _) hnz ['\n'] k ((escapeDesc true d).length + 4 + k.length + 1) (by omega)
  rw [this]
  simp

/-- the one-line string reader over an escaped description without quotes -/
theorem readStrBody_escaped (s rest acc : List Char) (f : Nat) (hf : (escapeDesc false s).length + 1 ≤ f)
    (hs : ∀ c ∈ s, c ≠ '"' ∧ c.toNat ≠ 0) :
    readStrBody stdTbl f (escapeDesc false s ++ '"' :: rest) acc = some (acc.reverse ++ s, rest) := by
  induction s generalizing acc f with
  | nil =>
    cases f with
    | zero => simp [escapeDesc] at hf
    | succ f => simp [escapeDesc, readStrBody]
  | cons c s ih =>
    obtain ⟨h1, h3⟩ := hs c (List.mem_cons_self ..)
    have hs' : ∀ x ∈ s, x ≠ '"' ∧ x.toNat ≠ 0 := fun x hx => hs x (List.mem_cons_of_mem _ hx)
    by_cases hbs : c = '\\'
    · subst hbs
      simp only [escapeDesc, if_true, List.length_cons] at hf
      cases f with
      | zero => omega
      | succ f =>
        have := ih ('\\' :: acc) f (by omega) hs'
        simp [escapeDesc, readStrBody, readEscaped_bs, this]
    · have hlen : (escapeDesc false (c :: s)).length = (escapeDesc false s).length + 1 := by
        simp [escapeDesc, hbs, h1]
      rw [hlen] at hf
      cases f with
      | zero => omega
      | succ f =>
        have := ih (c :: acc) f (by omega) hs'
        simp [escapeDesc, hbs, h1, readStrBody, h3, this]

/-- **C15_desc_line (D32 repaired).**  A description without newline and quote — backslashes included — is
printed on one line and reads back exactly. -/
theorem C15_desc_line (d k : List Char) (hne : d ≠ [])
    (hd : ∀ c ∈ d, c ≠ '"' ∧ c.toNat ≠ 0 ∧ c ≠ '\n') :
    readStringFull stdTbl (writeDesc false d ++ k) = some (d, '\n' :: k) := by
  have hany : d.any (fun c => c == '\n' || c == '"') = false := by
    rw [List.any_eq_false]; intro c hc
    obtain ⟨h1, _, h4⟩ := hd c hc
    simp [h1, h4]
  have hemp : d.isEmpty = false := by cases d <;> simp_all
  simp only [writeDesc, hemp, hany, Bool.false_eq_true, if_false, List.cons_append, List.append_assoc]
  -- the first character after the opening quote is not a quote: the one-line reader is used
  have hfirst : ∃ c r, escapeDesc false d = c :: r ∧ c ≠ '"' := by
    cases d with
    | nil => exact absurd rfl hne
    | cons c r =>
      obtain ⟨h1, _, _⟩ := hd c (List.mem_cons_self ..)
      by_cases hbs : c = '\\'
      · subst hbs; exact ⟨'\\', '\\' :: escapeDesc false r, by simp [escapeDesc], by decide⟩
      · exact ⟨c, escapeDesc false r, by simp [escapeDesc, hbs, h1], h1⟩
  obtain ⟨c, r, hcr, hcq⟩ := hfirst
  have hopen : readStringFull stdTbl ('"' :: (escapeDesc false d ++ ('"' :: '\n' :: k))) =
      readString stdTbl ('"' :: (escapeDesc false d ++ ('"' :: '\n' :: k))) := by
    rw [hcr]
    unfold readStringFull
    split
    · rename_i heq; simp only [List.cons_append, List.cons.injEq] at heq; exact absurd heq.2.1 hcq
    · rfl
  simp only [List.singleton_append, List.cons_append, List.nil_append] at hopen ⊢
  rw [hopen, hcr, List.cons_append, readString_open c _ hcq, ← List.cons_append, ← hcr]
  have := readStrBody_escaped d ('\n' :: k) [] ((escapeDesc false d ++ '"' :: '\n' :: k).length + 1)
    (by simp only [List.length_append, List.length_cons]; omega) (fun x hx => ⟨(hd x hx).1, (hd x hx).2.1⟩)
  simpa using this

/-- **C15_dev_backslash (D32).**  `a \ b` is printed raw; the reader takes `\ ` for an escape and fails. -/
theorem C15_dev_backslash : readStringFull stdTbl (writeDesc true "a \\ b".toList) = none := by decide +kernel

/-- **C15_dev_triple (D32).**  A description containing `"""` ends the printed block string early: what
is read back is not what was written. -/
theorem C15_dev_triple :
    (readStringFull stdTbl (writeDesc true "x \"\"\" y".toList)).map (·.1) ≠ some "\nx \"\"\" y\n".toList := by decide +kernel

/-- well-formed type expressions: names are non-empty token strings, no `!` directly on a `!` -/
def TRef.WF : TRef → Prop
  | .named n => n ≠ [] ∧ ∀ c ∈ n, isToken stdTbl c = true
  | .list t => t.WF
  | .nonNull (.nonNull _) => False
  | .nonNull t => t.WF

def tsz : TRef → Nat
  | .named _ => 1
  | .list t => tsz t + 1
  | .nonNull t => tsz t + 1

/-- what may follow a printed type: anything that is not a token character and not `!` -/
def TFoll (k : List Char) : Prop := ∀ c r, k = c :: r → isToken stdTbl c = false ∧ c ≠ '!'

theorem readType_base (t : TRef) (hwf : t.WF) (hnn : ∀ b, t ≠ .nonNull b) (k : List Char)
    (rec : List Char → Option (TRef × List Char))
    (ih : ∀ (u : TRef), u.WF → tsz u < tsz t → ∀ k', TFoll k' → rec (typeName u ++ k') = some (u, k'))
    (hk : ∀ c r, k = c :: r → isToken stdTbl c = false) :
    readTypeBase stdTbl rec (typeName t ++ k) = some (t, k) := by
  cases t with
  | named n =>
    obtain ⟨hne, htok⟩ := hwf
    cases n with
    | nil => exact absurd rfl hne
    | cons c r =>
      have hct := htok c (List.mem_cons_self ..)
      have hcb : c ≠ '[' := (token_not_num_sep c hct).2.2.1
      have htt := takeToken_stop (c :: r) k htok hk
      simp only [typeName, List.cons_append] at htt ⊢
      unfold readTypeBase
      split
      · rename_i heq; simp only [List.cons.injEq] at heq; exact absurd heq.1 hcb
      · simp [htt]
  | list u =>
    simp only [typeName, List.cons_append, List.append_assoc, List.singleton_append]
    have hu : rec (typeName u ++ ']' :: k) = some (u, ']' :: k) :=
      ih u hwf (by simp [tsz]) (']' :: k) (by
        intro c r h; simp only [List.cons.injEq] at h; rw [← h.1]; exact ⟨by decide +kernel, by decide⟩)
    simp [readTypeBase, hu]
  | nonNull b => exact absurd rfl (hnn b)

theorem applyBang_bang (t : TRef) (k : List Char) : applyBang (some (t, '!' :: k)) = some (.nonNull t, k) := rfl

theorem applyBang_other (t : TRef) (k : List Char) (hk : ∀ r, k ≠ '!' :: r) : applyBang (some (t, k)) = some (t, k) := by
  unfold applyBang
  split
  · rename_i heq; simp only [Option.some.injEq, Prod.mk.injEq] at heq; exact absurd heq.2 (hk _)
  · rfl

/-- **C15_typeref.**  For every nesting of list and non-null wrappers over any type name, reading the
printed type expression gives the expression back and stops where it ends. -/
theorem C15_typeref (t : TRef) (hwf : t.WF) (k : List Char) (hk : TFoll k) (f : Nat) (hf : tsz t ≤ f) :
    readType stdTbl f (typeName t ++ k) = some (t, k) := by
  induction hn : tsz t using Nat.strongRecOn generalizing t k f with
  | _ n ih =>
    obtain ⟨f, rfl⟩ : ∃ g, f = g + 1 := ⟨f - 1, by cases t <;> simp [tsz] at hf <;> omega⟩
    have ih' : ∀ (u : TRef), u.WF → tsz u < tsz t → ∀ k', TFoll k' → tsz u ≤ f → readType stdTbl f (typeName u ++ k') = some (u, k') := by
      intro u hu hlt k' hk' hf'
      exact ih (tsz u) (by omega) u hu k' hk' f hf' rfl
    have hknb : ∀ r, k ≠ '!' :: r := fun r h => (hk '!' r h).2 rfl
    rw [readType]
    cases t with
    | nonNull b =>
      have hbwf : b.WF := by cases b <;> simp_all [TRef.WF]
      have hbnn : ∀ c, b ≠ .nonNull c := by intro c h; subst h; simp [TRef.WF] at hwf
      have hbase := readType_base b hbwf hbnn ('!' :: k) (readType stdTbl f)
        (fun u hu hlt k' hk' => ih' u hu (by simp [tsz]; omega) k' hk' (by simp [tsz] at hf; omega))
        (by intro c r h; simp only [List.cons.injEq] at h; rw [← h.1]; decide +kernel)
      simp only [typeName, List.append_assoc, List.singleton_append]
      rw [hbase, applyBang_bang]
    | named n =>
      have hbase := readType_base (.named n) hwf (by intro b h; cases h) k (readType stdTbl f)
        (fun u hu hlt k' hk' => ih' u hu hlt k' hk' (by simp [tsz] at hlt; omega))
        (fun c r h => (hk c r h).1)
      rw [hbase, applyBang_other _ _ hknb]
    | list u =>
      have hbase := readType_base (.list u) hwf (by intro b h; cases h) k (readType stdTbl f)
        (fun u' hu hlt k' hk' => ih' u' hu hlt k' hk' (by simp [tsz] at hlt hf; omega))
        (fun c r h => (hk c r h).1)
      rw [hbase, applyBang_other _ _ hknb]

/-- non-vacuity: `[[Int!]]!` -/
example : (TRef.nonNull (.list (.list (.nonNull (.named "Int".toList))))).WF ∧
    typeName (.nonNull (.list (.list (.nonNull (.named "Int".toList))))) = "[[Int!]]!".toList := by
  refine ⟨?_, by decide⟩
  simp only [TRef.WF]; exact ⟨by decide, by decide +kernel⟩

end Ggql.Desc
