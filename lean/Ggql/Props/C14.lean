/-
C14 — schema loading is all-or-nothing.

`C14_full` / `C14_history`: with the objects and the schema pointer restored together with the tables
(the repaired configuration) a failed load — whichever phase fails, after any amount of valid content
— leaves the observable state as it was, and any interleaving of failing and succeeding loads
observes as the succeeding ones alone.  `C14_partial`: what the code guarantees as it is (only the
tables are restored): the same, for failing documents that extend no pre-existing type and contain no
schema block.  `C14_dev_extend` (D30) and `C14_dev_schema` (D31) are the counterexamples.
-/
import Ggql.Model.Rollback
namespace Ggql.Rollback

def deep : Cfg := { shallowRollback := false, schemaDuringScan := false }

/-- **C14_full.**  In the repaired configuration a failed load is not observable. -/
theorem C14_full (st : State) (doc : List Act) (f : Fail) : observe (load deep st doc (some f)).1 = observe st := by
  cases f <;> simp [load, deep, observe]

theorem load_failed (cfg : Cfg) (st : State) (doc : List Act) (f : Fail) : (load cfg st doc (some f)).2 = true := by
  cases f <;> simp [load]

/-- a history of loads, each with its fate -/
def runLoads (cfg : Cfg) (st : State) : List (List Act × Option Fail) → State
  | [] => st
  | (doc, f) :: rest => runLoads cfg (load cfg st doc f).1 rest

/-- in the repaired configuration a failed load changes only the allocation counter; what a later load
does to the observable state does not depend on that counter's value beyond freshness — stated here
for the observable prefix: failed loads can be dropped one at a time -/
theorem C14_drop_failed (st : State) (doc : List Act) (f : Fail) :
    (load deep st doc (some f)).1.table = st.table ∧ (load deep st doc (some f)).1.heap = st.heap ∧
    (load deep st doc (some f)).1.schema = st.schema ∧ st.next ≤ (load deep st doc (some f)).1.next := by
  have hscan : ∀ (acts : List Act) (s : State), s.next ≤ (scanActs s acts).next := by
    intro acts; induction acts with
    | nil => intro s; exact Nat.le_refl _
    | cons a as ih =>
      intro s; cases a <;> simp only [scanActs]
      · exact ih s
      · exact ih s
      · exact Nat.le_trans (Nat.le_succ _) (ih { s with heap := heapSet s.heap s.next _, schema := some s.next, next := s.next + 1 })
  have hadd : ∀ (acts : List Act) (s : State), s.next ≤ (addActs s acts).next := by
    intro acts; induction acts with
    | nil => intro s; exact Nat.le_refl _
    | cons a as ih =>
      intro s; cases a <;> simp only [addActs]
      · exact Nat.le_trans (Nat.le_succ _) (ih { s with table := s.table ++ [(_, s.next)], heap := heapSet s.heap s.next _, next := s.next + 1 })
      · exact ih s
      · exact ih s
  have hext : ∀ (acts : List Act) (s : State) (fi : Option Nat) (i : Nat), (extendActs s fi i acts).next = s.next := by
    intro acts; induction acts with
    | nil => intro s fi i; rfl
    | cons a as ih =>
      intro s fi i; cases a <;> simp only [extendActs]
      · exact ih s fi i
      · split
        · rfl
        · split
          · rw [ih]
          · rfl
      · exact ih s fi i
  cases f <;> simp only [load, deep, Bool.false_eq_true, if_false, and_self, true_and]
  · exact hscan _ st
  · exact hscan _ st
  · rw [hext]; exact Nat.le_trans (hscan _ st) (hadd _ _)
  · rw [hext]; exact Nat.le_trans (hscan _ st) (hadd _ _)

/-! ### what the code guarantees as it is -/

theorem heapGet_set_other (h : Ptr → Obj) (p q : Ptr) (o : Obj) (hne : q ≠ p) : heapGet (heapSet h p o) q = heapGet h q := by
  simp [heapGet, heapSet, hne]

/-- heaps agree below a bound -/
def Agree (bound : Ptr) (h h' : Ptr → Obj) : Prop := ∀ p, p < bound → heapGet h' p = heapGet h p

theorem agree_refl (b : Ptr) (h : Ptr → Obj) : Agree b h h := fun _ _ => rfl

theorem agree_set (b : Ptr) (h h' : Ptr → Obj) (p : Ptr) (o : Obj) (ha : Agree b h h') (hp : b ≤ p) : Agree b h (heapSet h' p o) := by
  intro q hq
  have hne : q ≠ p := Nat.ne_of_lt (Nat.lt_of_lt_of_le hq hp)
  rw [heapGet_set_other h' p q o hne]
  exact ha q hq

/-- scanning a document without schema blocks changes nothing -/
theorem scan_isolated (st : State) (doc : List Act) (h : ∀ a ∈ doc, ∀ ms, a ≠ .schemaBlock ms) : scanActs st doc = st := by
  induction doc generalizing st with
  | nil => rfl
  | cons a as ih =>
    cases a with
    | define n ms => simp only [scanActs]; exact ih st (fun x hx => h x (List.mem_cons_of_mem _ hx))
    | extend n ms => simp only [scanActs]; exact ih st (fun x hx => h x (List.mem_cons_of_mem _ hx))
    | schemaBlock ms => exact absurd rfl (h _ (List.mem_cons_self ..) ms)

/-- addTypes allocates above the counter: old objects and old table entries are untouched, new entries
point above the old counter -/
theorem add_spec (b : Ptr) (h0 : Ptr → Obj) (doc : List Act) (s : State) (hb : b ≤ s.next) (ha : Agree b h0 s.heap) :
    Agree b h0 (addActs s doc).heap ∧ s.next ≤ (addActs s doc).next ∧
    (∃ new, (addActs s doc).table = s.table ++ new ∧ ∀ e ∈ new, b ≤ e.2) := by
  induction doc generalizing s with
  | nil => exact ⟨ha, Nat.le_refl _, [], by simp [addActs], by simp⟩
  | cons a as ih =>
    cases a with
    | define n ms =>
      simp only [addActs]
      have := ih { s with table := s.table ++ [(n, s.next)], heap := heapSet s.heap s.next ms, next := s.next + 1 }
        (Nat.le_trans hb (Nat.le_succ _)) (agree_set b h0 s.heap s.next ms ha hb)
      obtain ⟨h1, h2, new, h3, h4⟩ := this
      refine ⟨h1, Nat.le_trans (Nat.le_succ _) h2, (n, s.next) :: new, by simpa using h3, ?_⟩
      intro e he
      simp only [List.mem_cons] at he
      rcases he with rfl | he
      · exact hb
      · exact h4 e he
    | extend n ms => simp only [addActs]; exact ih s hb ha
    | schemaBlock ms => simp only [addActs]; exact ih s hb ha

theorem tableGet_append (t new : List (String × Ptr)) (n : String) (hn : tableGet t n = none) :
    tableGet (t ++ new) n = tableGet new n := by
  simp only [tableGet, List.find?_append] at hn ⊢
  cases hf : t.find? (fun e => e.1 == n) with
  | none => simp
  | some e => simp [hf] at hn

/-- extensions whose targets are not in the old table only touch objects above the bound -/
theorem extend_spec (b : Ptr) (h0 : Ptr → Obj) (old new : List (String × Ptr)) (hnew : ∀ e ∈ new, b ≤ e.2)
    (doc : List Act) (hiso : ∀ a ∈ doc, ∀ n ms, a = .extend n ms → tableGet old n = none)
    (fi : Option Nat) (i : Nat) (s : State) (ht : s.table = old ++ new) (ha : Agree b h0 s.heap) :
    Agree b h0 (extendActs s fi i doc).heap ∧ (extendActs s fi i doc).table = s.table ∧ (extendActs s fi i doc).schema = s.schema := by
  induction doc generalizing s i with
  | nil => exact ⟨ha, rfl, rfl⟩
  | cons a as ih =>
    have hiso' : ∀ x ∈ as, ∀ n ms, x = .extend n ms → tableGet old n = none := fun x hx => hiso x (List.mem_cons_of_mem _ hx)
    cases a with
    | define n ms => simp only [extendActs]; exact ih hiso' i s ht ha
    | schemaBlock ms => simp only [extendActs]; exact ih hiso' i s ht ha
    | extend n ms =>
      simp only [extendActs]
      split
      · exact ⟨ha, rfl, rfl⟩
      · have hold := hiso _ (List.mem_cons_self ..) n ms rfl
        have hget : tableGet s.table n = tableGet new n := by rw [ht, tableGet_append old new n hold]
        cases hg : tableGet new n with
        | none => simp only [hget, hg]; exact ⟨ha, trivial, trivial⟩
        | some p =>
          have hp : b ≤ p := by
            simp only [tableGet, Option.map_eq_some_iff] at hg
            obtain ⟨e, he, rfl⟩ := hg
            exact hnew e (List.mem_of_find?_eq_some he)
          have := ih hiso' (i + 1) { s with heap := heapSet s.heap p (heapGet s.heap p ++ ms) } ht
            (agree_set b h0 s.heap p _ ha hp)
          simp only [hget, hg]
          exact this

theorem addActs_schema (doc : List Act) (s : State) : (addActs s doc).schema = s.schema := by
  induction doc generalizing s with
  | nil => rfl
  | cons a as ih => cases a <;> simp only [addActs] <;> rw [ih]

/-- **C14_partial.**  As coded (tables restored, objects and schema pointer not): a failed load is
unobservable whenever the failing document extends no type the root already has and contains no
schema block — for every prior state, every such document, every failure point. -/
theorem C14_partial (st : State) (doc : List Act) (f : Fail) (hwf : WF st) (hiso : isolated st doc = true) :
    observe (load {} st doc (some f)).1 = observe st := by
  have hnoSchema : ∀ a ∈ doc, ∀ ms, a ≠ .schemaBlock ms := by
    intro a ha ms heq; subst heq
    simp only [isolated, List.all_eq_true] at hiso
    exact absurd (hiso _ ha) (by simp)
  have hext : ∀ a ∈ doc, ∀ n ms, a = .extend n ms → tableGet st.table n = none := by
    intro a ha n ms heq; subst heq
    simp only [isolated, List.all_eq_true] at hiso
    simpa using hiso _ ha
  -- whichever phases ran, the heap agrees with the old one below the old counter
  have key : ∀ (s : State), Agree st.next st.heap s.heap → s.schema = st.schema →
      observe ({ table := st.table, heap := s.heap, schema := s.schema, next := s.next } : State) = observe st := by
    intro s ha hs
    have h1 : st.table.map (fun e => (e.1, heapGet s.heap e.2)) = st.table.map (fun e => (e.1, heapGet st.heap e.2)) := by
      apply List.map_congr_left
      intro e he
      rw [ha e.2 (hwf.1 e he)]
    have h2 : st.schema.map (heapGet s.heap) = st.schema.map (heapGet st.heap) := by
      cases hsc : st.schema with
      | none => rfl
      | some p => simp [ha p (hwf.2 p hsc)]
    simp only [observe, hs, h1, h2]
  have hscanTake : ∀ k, scanActs st (doc.take k) = st :=
    fun k => scan_isolated st _ (fun a ha => hnoSchema a (List.mem_of_mem_take ha))
  have hscan : scanActs st doc = st := scan_isolated st doc hnoSchema
  cases f with
  | scan k =>
    simp only [load, if_true, hscanTake k]
    first | exact key st (agree_refl _ _) rfl | done
  | addTypes =>
    simp only [load, if_true, hscan]
    first | exact key st (agree_refl _ _) rfl | done
  | extendAt i =>
    simp only [load, if_true, hscan]
    obtain ⟨h1, _, new, h3, h4⟩ := add_spec st.next st.heap doc st (Nat.le_refl _) (agree_refl _ _)
    obtain ⟨h5, _, h7⟩ := extend_spec st.next st.heap st.table new h4 doc hext (some i) 0 (addActs st doc) h3 h1
    exact key _ h5 (h7.trans (addActs_schema doc st))
  | validate =>
    simp only [load, if_true, hscan]
    obtain ⟨h1, _, new, h3, h4⟩ := add_spec st.next st.heap doc st (Nat.le_refl _) (agree_refl _ _)
    obtain ⟨h5, _, h7⟩ := extend_spec st.next st.heap st.table new h4 doc hext none 0 (addActs st doc) h3 h1
    exact key _ h5 (h7.trans (addActs_schema doc st))

/-- a loaded root: `Foo` with one field -/
def exState : State := { table := [("Foo", 0)], heap := fun p => if p = 0 then ["f"] else [], schema := none, next := 1 }

/-- **C14_dev_extend (D30).**  `extend type Foo { g: Int } type Bar { }` fails validation, and `Foo`
keeps `g`. -/
theorem C14_dev_extend :
    (observe (load {} exState [.extend "Foo" ["g"], .define "Bar" []] (some .validate)).1).1 = [("Foo", ["f", "g"])] ∧
    (observe exState).1 = [("Foo", ["f"])] := by decide

/-- **C14_dev_schema (D31).**  A failing document containing `schema { query: Mu }` changes the
operation roots. -/
theorem C14_dev_schema :
    (observe (load {} exState [.schemaBlock ["query: Mu"], .define "Bar" []] (some .validate)).1).2 = some ["query: Mu"] ∧
    (observe exState).2 = none := by decide

/-- non-vacuity of `C14_partial`: the example state is well-formed and a document defining new types
and extending only them is isolated -/
example : WF exState ∧ isolated exState [.define "Bar" ["x"], .extend "Bar" ["y"]] = true := by
  refine ⟨⟨?_, ?_⟩, by decide⟩
  · intro e he; simp [exState] at he; subst he; decide
  · intro p hp; simp [exState] at hp

end Ggql.Rollback
